(* Fields promoted through a chain of nullable (pointer) embedded messages of ANY length: the repaired
   behaviour of the generated converters, pinned down on the model.

   1. General lemmas on chains (no class): chain_nil_spec, alloc_chain_ok, alloc_chain_idem,
      alloc_chain_preserves, read_source_chain.
   2. The class [embc_ok] (emb_ok of EmbeddedProofs.v with fi_inner of any length) and the message-level
      statements copy_to_total_chain_partial, copy_to_broken_chain_renders_null,
      copy_from_total_chain_partial. *)
From Coq Require Import List String Bool ZArith Lia.
From PGT Require Import Base.Strs Base.AList Model.Vals Model.IR Model.CopyTo Model.CopyFrom.
From PGT Require Import Proofs.CopyToProofs Proofs.CopyFromProofs Proofs.CopyToTotal Proofs.EmbeddedProofs.
From PGT Require Model.Desc Model.Build.
Import ListNotations.

(* ------------------------------------------------------------------------------------- *)
(* 1. chains *)

(* every pointer on the path is set; [inner] is the struct the last one points to *)
Fixpoint reaches (obj : goval) (via : list string) (inner : goval) : Prop :=
  match via with
  | [] => obj = inner
  | p :: r => exists x, gfield obj p = Ok (GPtr (Some x)) /\ reaches x r inner
  end.

(* some pointer on the path is nil, the ones before it being set *)
Fixpoint broken (obj : goval) (via : list string) : Prop :=
  match via with
  | [] => False
  | p :: r => gfield obj p = Ok (GPtr None) \/ exists x, gfield obj p = Ok (GPtr (Some x)) /\ broken x r
  end.

(* the chain is well shaped in [obj]: every struct on the path holds the next key as a nil pointer or
   as a pointer to a struct which is well shaped for the rest; so does every zero struct; the
   innermost struct has the keys [ns] *)
Fixpoint cshape (obj : goval) (ps : list (string * goval)) (ns : list string) : Prop :=
  match ps with
  | [] => exists fs, obj = GStruct fs /\ incl ns (keys fs)
  | (p, pz) :: r =>
      exists fs, obj = GStruct fs /\ cshape pz r ns /\
        (lookup p fs = Some (GPtr None)
         \/ exists inner, lookup p fs = Some (GPtr (Some inner)) /\ cshape inner r ns)
  end.

Definition chain_shaped (obj : goval) (ps : list (string * goval)) : Prop := cshape obj ps [].

(* the innermost struct after the allocation: the one already there when every pointer is set, the
   zero struct (or what it points to) below the first nil pointer *)
Fixpoint chain_end (obj : goval) (ps : list (string * goval)) : goval :=
  match ps with
  | [] => obj
  | (p, pz) :: r =>
      match gfield obj p with
      | Ok (GPtr (Some inner)) => chain_end inner r
      | _ => chain_end pz r
      end
  end.

(* the zero structs hold the next embedded pointer as nil *)
Fixpoint zeros_pure (ps : list (string * goval)) : Prop :=
  match ps with
  | (_, pz) :: (((q, _) :: _) as r) => gfield pz q = Ok (GPtr None) /\ zeros_pure r
  | _ => True
  end.

Fixpoint last_zero (pz : goval) (r : list (string * goval)) : goval :=
  match r with [] => pz | (_, qz) :: r' => last_zero qz r' end.

Lemma update_same {A} k (v : A) l : lookup k l = Some v -> update k v l = l.
Proof.
  induction l as [|[k' v'] r IH]; cbn [lookup update]; [discriminate|].
  destruct (String.eqb k k') eqn:E.
  - apply String.eqb_eq in E. intros [= ->]. now subst.
  - intros H. now rewrite IH.
Qed.

Lemma gfield_struct obj n v : gfield obj n = Ok v -> exists fs, obj = GStruct fs /\ lookup n fs = Some v.
Proof.
  destruct obj; try discriminate. cbn [gfield]. destruct (lookup n fs) eqn:E; [|discriminate].
  intros [= ->]. eauto.
Qed.

Lemma gfield_of_lookup fs n v : lookup n fs = Some v -> gfield (GStruct fs) n = Ok v.
Proof. intros L. cbn [gfield]. now rewrite L. Qed.

(* 1c. chain_nil *)
Lemma chain_nil_true obj via : chain_nil obj via = Ok true <-> broken obj via.
Proof.
  revert obj. induction via as [|p r IH]; intros obj; cbn [chain_nil broken].
  - split; [discriminate|tauto].
  - destruct (gfield obj p) as [pv|]; cbn [bind].
    2:{ split; [discriminate|]. intros [H|(x & H & _)]; discriminate H. }
    destruct pv as [| |[x|]| | | |]; try (split; [discriminate|intros [H|(x0 & H & _)]; discriminate H]).
    + rewrite IH. split.
      * intros B. right. exists x. split; [reflexivity|exact B].
      * intros [H|(x0 & H & B)]; [discriminate H|]. inversion H; subst. exact B.
    + split; [intros _; now left|intros _; reflexivity].
Qed.

Lemma chain_nil_false obj via : chain_nil obj via = Ok false <-> exists inner, reaches obj via inner.
Proof.
  revert obj. induction via as [|p r IH]; intros obj; cbn [chain_nil reaches].
  - split; [eauto|reflexivity].
  - destruct (gfield obj p) as [pv|]; cbn [bind].
    2:{ split; [discriminate|]. intros (inner & x & H & _); discriminate H. }
    destruct pv as [| |[x|]| | | |]; try (split; [discriminate|intros (inner & x0 & H & _); discriminate H]).
    rewrite IH. split.
    + intros (inner & R). exists inner, x. split; [reflexivity|exact R].
    + intros (inner & x0 & H & R). inversion H; subst. eauto.
Qed.

Lemma reaches_gget obj via inner n : reaches obj via inner -> gget_via obj via n = gfield inner n.
Proof.
  revert obj. induction via as [|p r IH]; intros obj; cbn [reaches gget_via].
  - now intros ->.
  - intros (x & -> & R). cbn [bind]. now apply IH.
Qed.

Lemma reaches_fun obj via a b : reaches obj via a -> reaches obj via b -> a = b.
Proof.
  revert obj. induction via as [|p r IH]; intros obj; cbn [reaches].
  - congruence.
  - intros (x & H & R) (y & H' & R'). rewrite H in H'. inversion H'; subst. eauto.
Qed.

Lemma broken_not_reaches obj via inner : broken obj via -> reaches obj via inner -> False.
Proof.
  intros B R. apply chain_nil_true in B. assert (F : chain_nil obj via = Ok false) by (apply chain_nil_false; eauto).
  congruence.
Qed.

(* chain_nil is [Ok true] exactly when some pointer on the path is nil (the earlier ones being set),
   [Ok false] exactly when all are set, and then the field is read from the innermost struct *)
Theorem chain_nil_spec obj via :
  (chain_nil obj via = Ok true <-> broken obj via)
  /\ (chain_nil obj via = Ok false <-> exists inner, reaches obj via inner)
  /\ (forall inner name, reaches obj via inner -> gget_via obj via name = gfield inner name).
Proof.
  split; [apply chain_nil_true|]. split; [apply chain_nil_false|]. intros inner name. apply reaches_gget.
Qed.

(* on a well-shaped chain there is no panic: the chain is broken or set *)
Lemma cshape_broken_or_reaches obj ps ns :
  cshape obj ps ns ->
  broken obj (map fst ps) \/ exists fs, reaches obj (map fst ps) (GStruct fs) /\ incl ns (keys fs).
Proof.
  revert obj. induction ps as [|[p pz] r IH]; intros obj; cbn [cshape map fst broken reaches].
  - intros (fs & -> & K). right. eauto.
  - intros (fs & -> & _ & [L|(inner & L & S)]).
    + left. left. now apply gfield_of_lookup.
    + destruct (IH _ S) as [B|(fs' & R & K)].
      * left. right. exists inner. split; [now apply gfield_of_lookup|exact B].
      * right. exists fs'. split; [|exact K]. exists inner. split; [now apply gfield_of_lookup|exact R].
Qed.

(* 1a/1b. alloc_chain *)
Lemma gset_inv obj n v obj' :
  gset obj n v = Ok obj' -> exists fs, obj = GStruct fs /\ In n (keys fs) /\ obj' = GStruct (update n v fs).
Proof.
  destruct obj; try discriminate. cbn [gset]. destruct (lookup n fs) eqn:E; [|discriminate].
  intros [= <-]. exists fs. split; [reflexivity|]. split; [eapply lookup_Some_keys; eauto|reflexivity].
Qed.

Lemma gset_struct fs n v x : lookup n fs = Some x -> gset (GStruct fs) n v = Ok (GStruct (update n v fs)).
Proof. intros L. cbn [gset]. now rewrite L. Qed.

Lemma alloc_chain_inv obj p pz r obj' :
  alloc_chain obj ((p, pz) :: r) = Ok obj' ->
  exists fs, obj = GStruct fs /\
    ((lookup p fs = Some (GPtr None) /\
      exists z', alloc_chain pz r = Ok z' /\ obj' = GStruct (update p (GPtr (Some z')) fs))
     \/ (exists inner inner', lookup p fs = Some (GPtr (Some inner)) /\ alloc_chain inner r = Ok inner'
                              /\ obj' = GStruct (update p (GPtr (Some inner')) fs))).
Proof.
  cbn [alloc_chain]. destruct (gfield obj p) as [pv|] eqn:G; cbn [bind]; [|discriminate].
  destruct (gfield_struct _ _ _ G) as (fs & -> & L). intros H. exists fs. split; [reflexivity|].
  destruct pv as [| |[x|]| | | |]; try discriminate H.
  - right. destruct r as [|q r'].
    + inversion H; subst. exists x, x. split; [exact L|]. split; [reflexivity|]. now rewrite (update_same _ _ _ L).
    + destruct (alloc_chain x (q :: r')) as [x'|] eqn:EA; cbn [bind] in H; [|discriminate].
      rewrite (gset_struct _ _ _ _ L) in H. inversion H; subst. exists x, x'. split; [exact L|]. split; [exact EA|reflexivity].
  - left. split; [exact L|]. destruct (alloc_chain pz r) as [z'|] eqn:EA; cbn [bind] in H; [|discriminate].
    rewrite (gset_struct _ _ _ _ L) in H. inversion H; subst. exists z'. split; reflexivity.
Qed.

(* the allocation succeeds on a well-shaped chain; afterwards every pointer on the chain is set, the
   innermost struct is [chain_end obj ps] (untouched by the allocation), the chain is still well
   shaped, the keys of the struct are the same *)
Lemma alloc_chain_shape obj ps ns :
  cshape obj ps ns ->
  exists obj', alloc_chain obj ps = Ok obj' /\ cshape obj' ps ns
               /\ reaches obj' (map fst ps) (chain_end obj ps)
               /\ exists fs fs', obj = GStruct fs /\ obj' = GStruct fs' /\ keys fs' = keys fs.
Proof.
  revert obj. induction ps as [|[p pz] r IH]; intros obj; cbn [cshape].
  - intros (fs & -> & K). exists (GStruct fs). cbn [alloc_chain map reaches chain_end].
    split; [reflexivity|]. split; [eauto|]. split; [reflexivity|]. eauto.
  - intros (fs & -> & Z & [L|(inner & L & S)]); cbn [alloc_chain map fst reaches chain_end];
      rewrite (gfield_of_lookup _ _ _ L); cbn [bind].
    + destruct (IH _ Z) as (z' & E & Sz & Rz & _). rewrite E. cbn [bind]. rewrite (gset_struct _ _ _ _ L).
      eexists. split; [reflexivity|]. split.
      { cbn [cshape]. eexists. split; [reflexivity|]. split; [exact Z|]. right. exists z'.
        split; [apply lookup_update_eq|exact Sz]. }
      split.
      { exists z'. split; [apply gfield_of_lookup, lookup_update_eq|exact Rz]. }
      do 2 eexists. split; [reflexivity|]. split; [reflexivity|]. apply keys_update_in.
      eapply lookup_Some_keys; eauto.
    + destruct (IH _ S) as (inner' & E & Si & Ri & _).
      destruct r as [|q r'].
      * cbn [alloc_chain] in E. inversion E; subst inner'. eexists. split; [reflexivity|]. split.
        { cbn [cshape]. eexists. split; [reflexivity|]. split; [exact Z|]. right. eauto. }
        split.
        { exists inner. split; [now apply gfield_of_lookup|exact Ri]. }
        eauto.
      * rewrite E. cbn [bind]. rewrite (gset_struct _ _ _ _ L).
        eexists. split; [reflexivity|]. split.
        { cbn [cshape]. eexists. split; [reflexivity|]. split; [exact Z|]. right. exists inner'.
          split; [apply lookup_update_eq|exact Si]. }
        split.
        { exists inner'. split; [apply gfield_of_lookup, lookup_update_eq|exact Ri]. }
        do 2 eexists. split; [reflexivity|]. split; [reflexivity|]. apply keys_update_in.
        eapply lookup_Some_keys; eauto.
Qed.

(* the innermost struct: the one already there when every pointer was set ... *)
Lemma chain_end_reaches obj ps inner : reaches obj (map fst ps) inner -> chain_end obj ps = inner.
Proof.
  revert obj. induction ps as [|[p pz] r IH]; intros obj; cbn [map fst reaches chain_end].
  - auto.
  - intros (x & -> & R). now apply IH.
Qed.

(* ... the innermost zero struct when the outermost pointer was nil *)
Lemma chain_end_zero pz r : zeros_pure ((EmptyString, pz) :: r) -> chain_end pz r = last_zero pz r.
Proof.
  revert pz. induction r as [|[q qz] r' IH]; intros pz; [reflexivity|].
  cbn [zeros_pure chain_end last_zero]. intros [G Z]. rewrite G. apply IH. destruct r' as [|[q' qz'] r'']; [exact I|exact Z].
Qed.

Lemma chain_end_nil obj p pz r :
  gfield obj p = Ok (GPtr None) -> zeros_pure ((p, pz) :: r) -> chain_end obj ((p, pz) :: r) = last_zero pz r.
Proof.
  intros G Z. cbn [chain_end]. rewrite G. apply chain_end_zero. destruct r as [|[q qz] r']; [exact I|exact Z].
Qed.

(* 1a *)
Theorem alloc_chain_ok obj ps :
  chain_shaped obj ps ->
  exists obj', alloc_chain obj ps = Ok obj'
    /\ chain_nil obj' (map fst ps) = Ok false
    /\ (forall name, gget_via obj' (map fst ps) name = gfield (chain_end obj ps) name)
    /\ (forall inner, reaches obj (map fst ps) inner -> chain_end obj ps = inner)
    /\ (forall p pz r, ps = (p, pz) :: r -> gfield obj p = Ok (GPtr None) -> zeros_pure ps ->
                       chain_end obj ps = last_zero pz r).
Proof.
  intros S. destruct (alloc_chain_shape obj ps [] S) as (obj' & E & _ & R & _).
  exists obj'. split; [exact E|]. split; [apply chain_nil_false; eauto|].
  split; [intros name; now apply reaches_gget|]. split; [apply chain_end_reaches|].
  intros p pz r -> G Z. now apply chain_end_nil.
Qed.

(* 1b: once every pointer is set the allocation changes nothing *)
Theorem alloc_chain_idem obj ps inner :
  reaches obj (map fst ps) inner -> alloc_chain obj ps = Ok obj.
Proof.
  revert obj. induction ps as [|[p pz] r IH]; intros obj; cbn [map fst reaches]; [reflexivity|].
  intros (x & G & R). cbn [alloc_chain]. rewrite G. cbn [bind].
  destruct r as [|q r']; [reflexivity|]. rewrite (IH _ R). cbn [bind].
  destruct (gfield_struct _ _ _ G) as (fs & -> & L). rewrite (gset_struct _ _ _ _ L). now rewrite (update_same _ _ _ L).
Qed.

Lemma alloc_chain_ok_idem obj ps obj' :
  chain_shaped obj ps -> alloc_chain obj ps = Ok obj' -> alloc_chain obj' ps = Ok obj'.
Proof.
  intros S E. destruct (alloc_chain_shape obj ps [] S) as (o & E' & _ & R & _). rewrite E in E'. inversion E'; subst o.
  eapply alloc_chain_idem; eauto.
Qed.

(* the top level of the struct after an allocation: same keys, only the outermost key changes *)
Lemma alloc_chain_top fs p pz r obj' :
  alloc_chain (GStruct fs) ((p, pz) :: r) = Ok obj' ->
  exists fs', obj' = GStruct fs' /\ keys fs' = keys fs /\ forall k, k <> p -> lookup k fs' = lookup k fs.
Proof.
  intros H. destruct (alloc_chain_inv _ _ _ _ _ H) as (fs0 & [= <-] & [(L & z' & _ & ->)|(inner & inner' & L & _ & ->)]).
  all: eexists; split; [reflexivity|]; split;
    [apply keys_update_in; eapply lookup_Some_keys; eauto|intros k N; now apply lookup_update_neq].
Qed.

(* what was reachable through set pointers stays reachable, the innermost struct being the same
   whenever the allocated chain is not a proper prefix of the path *)
Lemma alloc_chain_keeps_set ps : forall obj obj' via,
  alloc_chain obj ps = Ok obj' -> chain_nil obj via = Ok false -> chain_nil obj' via = Ok false.
Proof.
  induction ps as [|[p pz] r IH]; intros obj obj' via H C.
  - cbn [alloc_chain] in H. now inversion H; subst.
  - destruct via as [|q s]; [reflexivity|].
    destruct (alloc_chain_inv _ _ _ _ _ H) as (fs & -> & D).
    cbn [chain_nil gfield] in C.
    destruct (string_dec q p) as [->|N].
    + destruct D as [(L & _)|(inner & inner' & L & E & ->)].
      * rewrite L in C. cbn [bind] in C. discriminate C.
      * rewrite L in C. cbn [bind] in C. cbn [chain_nil gfield]. rewrite lookup_update_eq. cbn [bind]. eapply IH; eauto.
    + assert (L' : forall v, lookup q (update p v fs) = lookup q fs) by (intros v; now apply lookup_update_neq).
      destruct D as [(_ & z' & _ & ->)|(inner & inner' & _ & _ & ->)]; cbn [chain_nil gfield]; now rewrite L'.
Qed.

(* values already stored below a set pointer are kept: the innermost struct of a chain which was
   set is the same afterwards, and fields outside the outermost key are untouched *)
Theorem alloc_chain_preserves obj ps obj' :
  alloc_chain obj ps = Ok obj' ->
  (forall inner, reaches obj (map fst ps) inner -> obj' = obj)
  /\ (forall p pz r n, ps = (p, pz) :: r -> n <> p -> gfield obj' n = gfield obj n)
  /\ (forall via, chain_nil obj via = Ok false -> chain_nil obj' via = Ok false).
Proof.
  intros H. split; [|split].
  - intros inner R. rewrite (alloc_chain_idem _ _ _ R) in H. now inversion H.
  - intros p pz r n -> N. eapply alloc_chain_other; eauto.
  - intros via. eapply alloc_chain_keeps_set; eauto.
Qed.

(* 1d. genEmbeddedSource on a chain *)
Theorem read_source_chain i zero obj p z :
  fi_oneof i = None -> fi_parent i = Some (p, z) -> fi_via i = p :: map fst (fi_inner i) ->
  (broken obj (fi_via i) -> read_source i zero obj = Ok zero)
  /\ (forall inner, reaches obj (fi_via i) inner -> read_source i zero obj = gfield inner (fi_name i)).
Proof.
  intros O P V. unfold read_source, parent_is_nil. rewrite O, P, <- V. split.
  - intros B. apply chain_nil_true in B. now rewrite B.
  - intros inner R. assert (C : chain_nil obj (fi_via i) = Ok false) by (apply chain_nil_false; eauto).
    rewrite C. cbn [bind]. now apply reaches_gget.
Qed.

(* ------------------------------------------------------------------------------------- *)
(* more on chains: writes through a chain, and what an allocation or a write for one field leaves of
   the chain of another field *)

Fixpoint prefix_b (a b : list string) : bool :=
  match a, b with
  | [], _ => true
  | x :: a', y :: b' => String.eqb x y && prefix_b a' b'
  | _ :: _, [] => false
  end.

(* two chains which start with the same keys have the same zero structs there *)
Fixpoint zcompat (ps qs : list (string * goval)) : Prop :=
  match ps, qs with
  | (p, z) :: r, (q, w) :: s => p = q -> z = w /\ zcompat r s
  | _, _ => True
  end.

Lemma alloc_chain_cshape_other ps : forall obj obj' qs ms,
  alloc_chain obj ps = Ok obj' -> cshape obj qs ms -> zcompat ps qs -> cshape obj' qs ms.
Proof.
  induction ps as [|[p pz] r IH]; intros obj obj' qs ms H S ZC.
  - cbn [alloc_chain] in H. now inversion H; subst.
  - destruct (alloc_chain_inv _ _ _ _ _ H) as (fs & -> & D).
    destruct (alloc_chain_top _ _ _ _ _ H) as (fs' & -> & K & Q).
    destruct qs as [|[q w] s]; cbn [cshape] in S |- *.
    + destruct S as (fs0 & [= <-] & Kn). eexists. split; [reflexivity|]. now rewrite K.
    + destruct S as (fs0 & [= <-] & Z & Dq). eexists. split; [reflexivity|]. split; [exact Z|].
      destruct (string_dec p q) as [<-|N].
      * cbn [zcompat] in ZC. destruct (ZC eq_refl) as [<- ZC'].
        destruct D as [(L & z' & E & [= ->])|(inner & inner' & L & E & [= ->])].
        -- right. exists z'. split; [apply lookup_update_eq|]. eapply IH; eauto.
        -- destruct Dq as [L0|(inner0 & L0 & S0)]; [congruence|]. rewrite L in L0. inversion L0; subst inner0.
           right. exists inner'. split; [apply lookup_update_eq|]. eapply IH; eauto.
      * rewrite (Q q) by congruence. exact Dq.
Qed.

Lemma gset_via_inv obj p r n v obj' :
  gset_via obj (p :: r) n v = Ok obj' ->
  exists fs inner inner', obj = GStruct fs /\ lookup p fs = Some (GPtr (Some inner))
    /\ gset_via inner r n v = Ok inner' /\ obj' = GStruct (update p (GPtr (Some inner')) fs).
Proof.
  cbn [gset_via]. destruct (gfield obj p) as [pv|] eqn:G; cbn [bind]; [|discriminate].
  destruct (gfield_struct _ _ _ G) as (fs & -> & L).
  destruct pv as [| |[x|]| | | |]; try discriminate.
  destruct (gset_via x r n v) as [x'|] eqn:E; cbn [bind]; [|discriminate].
  rewrite (gset_struct _ _ _ _ L). intros [= <-]. exists fs, x, x'. auto.
Qed.

Lemma gset_via_cshape_other via : forall obj obj' n v qs ms,
  gset_via obj via n v = Ok obj' -> cshape obj qs ms -> prefix_b (via ++ [n]) (map fst qs) = false ->
  cshape obj' qs ms.
Proof.
  induction via as [|p r IH]; intros obj obj' n v qs ms H S NP.
  - cbn [gset_via] in H. destruct (gset_inv _ _ _ _ H) as (fs & -> & Kn & ->).
    destruct qs as [|[q w] s]; cbn [cshape] in S |- *.
    + destruct S as (fs0 & [= <-] & Ki). eexists. split; [reflexivity|]. now rewrite keys_update_in.
    + destruct S as (fs0 & [= <-] & Z & Dq). eexists. split; [reflexivity|]. split; [exact Z|].
      cbn [app map fst prefix_b] in NP. rewrite andb_true_r in NP. apply String.eqb_neq in NP.
      rewrite lookup_update_neq by congruence. exact Dq.
  - destruct (gset_via_inv _ _ _ _ _ _ H) as (fs & inner & inner' & -> & L & E & ->).
    destruct qs as [|[q w] s]; cbn [cshape] in S |- *.
    + destruct S as (fs0 & [= <-] & Ki). eexists. split; [reflexivity|].
      rewrite keys_update_in; [exact Ki|]. eapply lookup_Some_keys; eauto.
    + destruct S as (fs0 & [= <-] & Z & Dq). eexists. split; [reflexivity|]. split; [exact Z|].
      cbn [app map fst prefix_b] in NP. destruct (String.eqb p q) eqn:Epq; cbn [andb] in NP.
      * apply String.eqb_eq in Epq. subst q.
        destruct Dq as [L0|(inner0 & L0 & S0)]; [congruence|]. rewrite L in L0. inversion L0; subst inner0.
        right. exists inner'. split; [apply lookup_update_eq|]. eapply IH; eauto.
      * apply String.eqb_neq in Epq. rewrite lookup_update_neq by congruence. exact Dq.
Qed.

Lemma gset_via_keeps_set via : forall obj obj' n v via',
  gset_via obj via n v = Ok obj' -> chain_nil obj via' = Ok false -> prefix_b (via ++ [n]) via' = false ->
  chain_nil obj' via' = Ok false.
Proof.
  induction via as [|p r IH]; intros obj obj' n v via' H C NP.
  - cbn [gset_via] in H. destruct (gset_inv _ _ _ _ H) as (fs & -> & Kn & ->).
    destruct via' as [|q s]; [reflexivity|].
    cbn [app prefix_b] in NP. rewrite andb_true_r in NP. apply String.eqb_neq in NP.
    cbn [chain_nil gfield] in C |- *. rewrite lookup_update_neq by congruence. exact C.
  - destruct (gset_via_inv _ _ _ _ _ _ H) as (fs & inner & inner' & -> & L & E & ->).
    destruct via' as [|q s]; [reflexivity|].
    cbn [app prefix_b] in NP. cbn [chain_nil gfield] in C |- *.
    destruct (String.eqb p q) eqn:Epq; cbn [andb] in NP.
    + apply String.eqb_eq in Epq. subst q. rewrite L in C. cbn [bind] in C.
      rewrite lookup_update_eq. cbn [bind]. eapply IH; eauto.
    + apply String.eqb_neq in Epq. rewrite lookup_update_neq by congruence. exact C.
Qed.

Lemma gset_via_top fs p r n v obj' :
  gset_via (GStruct fs) (p :: r) n v = Ok obj' ->
  exists fs', obj' = GStruct fs' /\ keys fs' = keys fs /\ forall k, k <> p -> lookup k fs' = lookup k fs.
Proof.
  intros H. destruct (gset_via_inv _ _ _ _ _ _ H) as (fs0 & inner & inner' & [= <-] & L & _ & ->).
  eexists. split; [reflexivity|]. split; [apply keys_update_in; eapply lookup_Some_keys; eauto|].
  intros k N. now apply lookup_update_neq.
Qed.

(* the write through a chain which is set succeeds when the innermost struct has the key *)
Lemma gset_via_ok via : forall obj ps n v,
  reaches obj via (GStruct ps) -> In n (keys ps) ->
  exists obj', gset_via obj via n v = Ok obj' /\ reaches obj' via (GStruct (update n v ps)).
Proof.
  induction via as [|p r IH]; intros obj ps n v R Kn; cbn [reaches] in R.
  - subst obj. destruct (keys_lookup _ _ Kn) as [x L]. cbn [gset_via]. rewrite (gset_struct _ _ _ _ L).
    eexists. split; reflexivity.
  - destruct R as (x & G & R). destruct (IH _ _ _ v R Kn) as (x' & E & R').
    destruct (gfield_struct _ _ _ G) as (fs & -> & L).
    cbn [gset_via]. rewrite G. cbn [bind]. rewrite E. cbn [bind]. rewrite (gset_struct _ _ _ _ L).
    eexists. split; [reflexivity|]. exists x'. split; [apply gfield_of_lookup, lookup_update_eq|exact R'].
Qed.

(* ------------------------------------------------------------------------------------- *)
(* 2. the class: promoted fields on chains of any length *)

Fixpoint strs_eqb (a b : list string) : bool :=
  match a, b with
  | [], [] => true
  | x :: a', y :: b' => String.eqb x y && strs_eqb a' b'
  | _, _ => false
  end.

Lemma strs_eqb_eq a : forall b, strs_eqb a b = true -> a = b.
Proof.
  induction a as [|x a IH]; intros [|y b]; cbn [strs_eqb]; try discriminate; [reflexivity|].
  intros H. apply andb_prop in H. destruct H as [H1 H2]. apply String.eqb_eq in H1. subst. f_equal. now apply IH.
Qed.

(* the promoted field's chain: every level between fi_parent and the field is a pointer embed *)
Definition chain_wf (i : finfo) : bool :=
  match fi_parent i with
  | Some (p, _) => strs_eqb (fi_via i) (p :: map fst (fi_inner i))
  | None => false
  end.

Definition chain_of (i : finfo) : list (string * goval) :=
  match fi_parent i with Some pz => pz :: fi_inner i | None => [] end.

(* A. CopyTo *)

Definition cinfo_to_ok (i : finfo) (om : option message) : bool :=
  chain_wf i
  && match fi_oneof i with None => true | Some _ => false end
  && negb (fi_placeholder i)
  && match fi_kind i with
     | PrimitiveKind | PrimitiveListKind | PrimitiveMapKind => negb (fi_zero i) || negb (fi_nullable i)
     | ObjectKind | ObjectListKind | ObjectMapKind => match om with Some m' => tf_ok m' | None => false end
     | CustomKind => false
     end.

Definition cefield_to_ok (f : field) : bool := ftf_ok f || cinfo_to_ok (f_info f) (f_msg f).

Definition embc_to_ok (m : message) : bool :=
  nodup_b (snakes (m_fields m)) && forallb cefield_to_ok (m_fields m).

(* the struct holds the field: directly, or in the struct at the end of the chain; the chain may be
   broken at any pointer *)
Definition ceftyped (f : field) (gs : list (string * goval)) : Prop :=
  match fi_via (f_info f) with
  | [] => ftyped f gs
  | _ :: _ => (broken (GStruct gs) (fi_via (f_info f)) /\ zero_typed (f_info f) (f_msg f))
              \/ exists ps, reaches (GStruct gs) (fi_via (f_info f)) (GStruct ps) /\ ftyped f ps
  end.

Definition embc_typed (m : message) (obj : goval) : Prop :=
  exists gs, obj = GStruct gs /\ Forall (fun f => ceftyped f gs) (m_fields m).

Lemma chain_wf_inv i : chain_wf i = true ->
  exists p z, fi_parent i = Some (p, z) /\ fi_via i = p :: map fst (fi_inner i).
Proof.
  unfold chain_wf. destruct (fi_parent i) as [[p z]|]; [|discriminate]. intros H. apply strs_eqb_eq in H. eauto.
Qed.

Lemma cinfo_to_ok_inv i om : cinfo_to_ok i om = true ->
  exists p z, fi_parent i = Some (p, z) /\ fi_via i = p :: map fst (fi_inner i) /\
    fi_oneof i = None /\ fi_placeholder i = false /\ fi_kind i <> CustomKind /\
    (is_prim_kind (fi_kind i) = true -> fi_zero i = true -> fi_nullable i = false) /\
    (is_prim_kind (fi_kind i) = false -> exists m', om = Some m' /\ tf_ok m' = true).
Proof.
  unfold cinfo_to_ok. intros H.
  apply andb_prop in H. destruct H as [H H4]. apply andb_prop in H. destruct H as [H H3].
  apply andb_prop in H. destruct H as [H1 H2].
  destruct (chain_wf_inv _ H1) as (p & z & P & V). exists p, z. split; [exact P|]. split; [exact V|].
  split; [destruct (fi_oneof i); [discriminate|reflexivity]|].
  split; [destruct (fi_placeholder i); [discriminate|reflexivity]|].
  split; [intros K; rewrite K in H4; discriminate|].
  split.
  - intros PK Z. rewrite Z in H4. destruct (fi_kind i); try discriminate PK; now destruct (fi_nullable i).
  - intros PK. destruct (fi_kind i); try discriminate PK; destruct om as [m'|]; try discriminate H4; eauto.
Qed.

Lemma ceftyped_promoted f gs p r : fi_via (f_info f) = p :: r -> ceftyped f gs ->
  (broken (GStruct gs) (fi_via (f_info f)) /\ zero_typed (f_info f) (f_msg f))
  \/ exists ps, reaches (GStruct gs) (fi_via (f_info f)) (GStruct ps) /\ ftyped f ps.
Proof. unfold ceftyped. intros V T. destruct (fi_via (f_info f)); [discriminate V|exact T]. Qed.

Lemma cpin_nil i p z obj :
  fi_parent i = Some (p, z) -> fi_via i = p :: map fst (fi_inner i) -> broken obj (fi_via i) ->
  parent_is_nil i obj = Ok (Some true).
Proof. intros P V B. unfold parent_is_nil. rewrite P, <- V. apply chain_nil_true in B. now rewrite B. Qed.

Lemma cpin_set i p z obj inner :
  fi_parent i = Some (p, z) -> fi_via i = p :: map fst (fi_inner i) -> reaches obj (fi_via i) inner ->
  parent_is_nil i obj = Ok (Some false).
Proof.
  intros P V R. unfold parent_is_nil. rewrite P, <- V.
  assert (C : chain_nil obj (fi_via i) = Ok false) by (apply chain_nil_false; eauto). now rewrite C.
Qed.

Section ToChain.
  Variable hook : hook_to_t.

  Definition cruns (gs : list (string * goval)) (f : field) : Prop :=
    forall atys attrs ds t, field_ty f = Some t ->
      lookup (snake f) atys = Some t -> lookup (snake f) attrs = None ->
      exists v, to_field hook f (GStruct gs) atys (attrs, ds) = Ok (update (snake f) v attrs, ds)
                /\ conforms t v = true
                /\ (broken (GStruct gs) (fi_via (f_info f)) -> null_when_nil f -> v = nil_render t).

  Lemma cordinary_runs gs f : ftf_ok f = true -> ceftyped f gs -> cruns gs f.
  Proof.
    destruct f as [i om]. intros F T atys attrs ds t FT La Lc. cbn [ftf_ok] in F.
    apply andb_prop in F. destruct F as [F1 F2].
    destruct (finfo_ok_inv _ _ F1) as (V & _).
    unfold ceftyped in T. cbn [f_info] in T. rewrite V in T.
    assert (G : field_good hook (Field i om)).
    { apply field_step; [exact F1|]. intros m' ->. split; [exact F2|]. now apply total_mutual. }
    destruct (G gs atys attrs ds t T FT La Lc) as (v & E & C). exists v. split; [exact E|]. split; [exact C|].
    cbn [f_info]. rewrite V. intros [].
  Qed.

  Lemma cpromoted_runs gs i om : cinfo_to_ok i om = true -> ceftyped (Field i om) gs -> cruns gs (Field i om).
  Proof.
    intros F T atys attrs ds t FT La Lc.
    destruct (cinfo_to_ok_inv _ _ F) as (p & z & P & V & O & PH & NC & Z & OM).
    apply (ceftyped_promoted (Field i om) _ _ _ V) in T. cbn [f_info f_msg] in T.
    unfold null_when_nil. cbn [f_info].
    rewrite to_field_eq. cbv zeta. unfold snake in *. cbn [f_info] in *. rewrite La, Lc.
    cbn [field_ty] in FT. cbn [ftyped] in T. rewrite PH in T. unfold reads in T. rewrite O in T.
    unfold zero_typed, val_shape in T.
    destruct T as [[Lp ZT]|(ps & Lp & g & Lg & Sg)].
    - (* some pointer of the chain is nil *)
      pose proof (cpin_nil i p z (GStruct gs) P V Lp) as PN.
      assert (RS : forall z0, read_source i z0 (GStruct gs) = Ok z0).
      { intros z0. unfold read_source. rewrite O, PN. reflexivity. }
      revert ZT Z OM FT NC. destruct (fi_kind i) eqn:K; intros ZT Z OM FT NC.
      + inversion FT; subst t; clear FT. rewrite O. cbn [bind].
        rewrite (to_prim_value_p_nil i _ _ ds O PH PN). cbn [bind]. eexists. split; [reflexivity|].
        split; [apply conforms_prim, zero_prim_kind|]. reflexivity.
      + inversion FT; subst t; clear FT. rewrite RS. cbn [bind]. eexists. split; [reflexivity|].
        split; [apply conforms_list; now left|]. reflexivity.
      + destruct (OM eq_refl) as (m' & -> & T'). inversion FT; subst t; clear FT.
        rewrite RS. cbn [bind]. destruct (fi_nullable i) eqn:N.
        * unfold obj_value. rewrite N. cbn [bind]. eexists. split; [reflexivity|].
          split; [|reflexivity]. rewrite conforms_obj, tfty_eqb_refl. reflexivity.
        * destruct (obj_value_total hook i gs m' (m_zero m') ds T' (total_mutual hook m' T')) as (v & Ev & Cv).
          { unfold elem_shape. rewrite N. exact (ZT eq_refl). }
          rewrite Ev. cbn [bind]. eexists. split; [reflexivity|]. split; [exact Cv|].
          intros _ H. specialize (H eq_refl). discriminate H.
      + destruct (OM eq_refl) as (m' & -> & T'). inversion FT; subst t; clear FT. rewrite RS. cbn [bind].
        eexists. split; [reflexivity|]. split; [apply conforms_list; now left|]. reflexivity.
      + inversion FT; subst t; clear FT. rewrite RS. cbn [bind]. eexists. split; [reflexivity|].
        split; [apply conforms_map; now left|]. reflexivity.
      + destruct (OM eq_refl) as (m' & -> & T'). inversion FT; subst t; clear FT. rewrite RS. cbn [bind].
        eexists. split; [reflexivity|]. split; [apply conforms_map; now left|]. reflexivity.
      + now contradiction NC.
    - (* every pointer of the chain is set *)
      pose proof (cpin_set i p z (GStruct gs) _ P V Lp) as PN.
      assert (NN : forall v t', broken (GStruct gs) (fi_via i) -> (fi_kind i = ObjectKind -> fi_nullable i = true) -> v = nil_render t')
        by (intros v t' C; exfalso; exact (broken_not_reaches _ _ _ C Lp)).
      assert (GG : gget_via (GStruct gs) (fi_via i) (fi_name i) = Ok g).
      { rewrite (reaches_gget _ _ _ _ Lp). now apply gfield_of_lookup. }
      assert (RS : forall z0, read_source i z0 (GStruct gs) = Ok g).
      { intros z0. unfold read_source. rewrite O, PN. cbn [bind]. exact GG. }
      assert (RF : forall bz, read_field i bz (GStruct gs) = Ok g).
      { intros bz. unfold read_field. rewrite O. exact GG. }
      revert Sg Z OM FT NC. destruct (fi_kind i) eqn:K; intros Sg Z OM FT NC.
      + (* PrimitiveKind *)
        inversion FT; subst t; clear FT. specialize (Z eq_refl). rewrite O. cbn [bind]. rewrite RF.
        destruct (to_prim_value_p_set i g (GStruct gs) ds O PH PN Z Sg) as (n & q & Ev & Kq).
        rewrite Ev. cbn [bind]. eexists. split; [reflexivity|]. split; [now apply conforms_prim|apply NN].
      + (* PrimitiveListKind *)
        inversion FT; subst t; clear FT. specialize (Z eq_refl). rewrite RS. cbn [bind].
        destruct Sg as (o & -> & Hl). destruct o as [l|]; cbv beta iota zeta.
        * assert (HF : Forall (fun a => forall ds, exists v,
                                   (fun a d => to_prim_value i (Ok a) (GStruct gs) (TyPrim (fi_tk i)) None d) a ds
                                   = Ok (v, ds) /\ conforms (TyPrim (fi_tk i)) v = true) l).
          { eapply Forall_impl; [|exact (Hl l eq_refl)]. intros a Sa d.
            destruct (to_prim_value_p_set i a (GStruct gs) d O PH PN Z Sa) as (n & q & Ev & Kq).
            eexists. split; [exact Ev|now apply conforms_prim]. }
          destruct (fold_list_total _ _ l HF [] ds) as (vs & Ef & Cvs). cbv beta in Ef. rewrite Ef.
          cbn [bind app]. eexists. split; [reflexivity|]. split; [apply conforms_list; now right|apply NN].
        * eexists. split; [reflexivity|]. split; [apply conforms_list; now left|apply NN].
      + (* ObjectKind *)
        destruct (OM eq_refl) as (m' & -> & T'). inversion FT; subst t; clear FT.
        rewrite RS. cbn [bind].
        destruct (obj_value_total hook i gs m' g ds T' (total_mutual hook m' T') Sg) as (v & Ev & Cv).
        rewrite Ev. cbn [bind]. eexists. split; [reflexivity|]. split; [exact Cv|apply NN].
      + (* ObjectListKind *)
        destruct (OM eq_refl) as (m' & -> & T'). inversion FT; subst t; clear FT. rewrite RS. cbn [bind].
        destruct Sg as (o & -> & Hl). destruct o as [l|]; cbv beta iota zeta.
        * assert (HF : Forall (fun a => forall ds, exists v,
                                   (fun a d => obj_value hook i (GStruct gs) None m' (Ok a) (msg_ty m') d) a ds
                                   = Ok (v, ds) /\ conforms (TyObj (msg_ty m')) v = true) l).
          { eapply Forall_impl; [|exact (Hl l eq_refl)]. intros a Sa d.
            apply obj_value_total; [exact T'|now apply total_mutual|exact Sa]. }
          destruct (fold_list_total _ _ l HF [] ds) as (vs & Ef & Cvs). cbv beta in Ef. rewrite Ef.
          cbn [bind app]. eexists. split; [reflexivity|]. split; [apply conforms_list; now right|apply NN].
        * eexists. split; [reflexivity|]. split; [apply conforms_list; now left|apply NN].
      + (* PrimitiveMapKind *)
        inversion FT; subst t; clear FT. specialize (Z eq_refl). rewrite RS. cbn [bind].
        destruct Sg as (o & -> & Hl). destruct o as [l|]; cbv beta iota zeta.
        * assert (HF : Forall (fun ka : string * goval => forall ds, exists v,
                                   (fun a d => to_prim_value i (Ok a) (GStruct gs) (TyPrim (fi_tk i)) None d) (snd ka) ds
                                   = Ok (v, ds) /\ conforms (TyPrim (fi_tk i)) v = true) l).
          { eapply Forall_impl; [|exact (Hl l eq_refl)]. intros a Sa d.
            destruct (to_prim_value_p_set i (snd a) (GStruct gs) d O PH PN Z Sa) as (n & q & Ev & Kq).
            eexists. split; [exact Ev|now apply conforms_prim]. }
          destruct (fold_map_total _ _ l HF [] ds eq_refl) as (es & Ef & Ces). cbv beta in Ef. rewrite Ef.
          cbn [bind]. eexists. split; [reflexivity|]. split; [apply conforms_map; now right|apply NN].
        * eexists. split; [reflexivity|]. split; [apply conforms_map; now left|apply NN].
      + (* ObjectMapKind *)
        destruct (OM eq_refl) as (m' & -> & T'). inversion FT; subst t; clear FT. rewrite RS. cbn [bind].
        destruct Sg as (o & -> & Hl). destruct o as [l|]; cbv beta iota zeta.
        * assert (HF : Forall (fun ka : string * goval => forall ds, exists v,
                                   (fun a d => obj_value hook i (GStruct gs) None m' (Ok a) (msg_ty m') d) (snd ka) ds
                                   = Ok (v, ds) /\ conforms (TyObj (msg_ty m')) v = true) l).
          { eapply Forall_impl; [|exact (Hl l eq_refl)]. intros a Sa d.
            apply obj_value_total; [exact T'|now apply total_mutual|exact Sa]. }
          destruct (fold_map_total _ _ l HF [] ds eq_refl) as (es & Ef & Ces). cbv beta in Ef. rewrite Ef.
          cbn [bind]. eexists. split; [reflexivity|]. split; [apply conforms_map; now right|apply NN].
        * eexists. split; [reflexivity|]. split; [apply conforms_map; now left|apply NN].
      + now contradiction NC.
  Qed.
End ToChain.

Section ToChainMsg.
  Variable hook : hook_to_t.

  Lemma crun_list_good l gs atys :
    Forall (cruns hook gs) l ->
    (forall f, In f l -> exists t, field_ty f = Some t /\ lookup (snake f) atys = Some t) ->
    NoDup (snakes l) ->
    forall attrs ds, (forall f, In f l -> lookup (snake f) attrs = None) ->
    exists attrs', to_field_list hook l (GStruct gs) atys (attrs, ds) = Ok (attrs', ds)
      /\ (forall k, ~ In k (snakes l) -> lookup k attrs' = lookup k attrs)
      /\ (forall f t, In f l -> field_ty f = Some t ->
                      exists v, lookup (snake f) attrs' = Some v /\ conforms t v = true
                                /\ (broken (GStruct gs) (fi_via (f_info f)) -> null_when_nil f -> v = nil_render t)).
  Proof.
    induction l as [|f r IH]; intros G A ND attrs ds N; cbn [to_field_list].
    - exists attrs. split; [reflexivity|]. split; [reflexivity|]. intros f t [].
    - inversion G as [|? ? Gf Gr]; subst.
      cbn [snakes map] in ND. inversion ND as [|? ? N1 N2]; subst.
      destruct (A f (or_introl eq_refl)) as (t & FT & La).
      destruct (Gf atys attrs ds t FT La (N f (or_introl eq_refl))) as (v & E & Cv & Nv).
      rewrite E. cbn [bind].
      destruct (IH Gr (fun f' I => A f' (or_intror I)) N2 (update (snake f) v attrs) ds)
        as (attrs' & E' & L' & C').
      { intros f' I. rewrite lookup_update_neq; [apply N; now right|].
        intros Eq. apply N1. rewrite <- Eq. now apply in_map. }
      exists attrs'. split; [exact E'|]. split.
      + intros k Nk. cbn [snakes map In] in Nk. rewrite L' by tauto. apply lookup_update_neq.
        intros ->. tauto.
      + intros f' t' [<-|I] FT'.
        * rewrite L' by exact N1. rewrite lookup_update_eq. rewrite FT in FT'. inversion FT'; subst. eauto.
        * now apply C'.
  Qed.

  Lemma cefield_ty_some f : cefield_to_ok f = true -> exists t, field_ty f = Some t.
  Proof.
    destruct f as [i om]. unfold cefield_to_ok. cbn [f_info f_msg ftf_ok]. intros H.
    apply orb_prop in H. destruct H as [H|H].
    - apply andb_prop in H. destruct H as [H _]. now apply field_ty_some.
    - destruct (cinfo_to_ok_inv _ _ H) as (p & z & _ & _ & _ & _ & NC & _ & OM). cbn [field_ty].
      destruct (fi_kind i); eauto; try (destruct (OM eq_refl) as (m' & -> & _); eauto). now contradiction NC.
  Qed.

  Lemma cemb_runs gs f : cefield_to_ok f = true -> ceftyped f gs -> cruns hook gs f.
  Proof.
    intros H T. unfold cefield_to_ok in H. apply orb_prop in H. destruct H as [H|H].
    - now apply cordinary_runs.
    - destruct f as [i om]. now apply cpromoted_runs.
  Qed.

  Theorem copy_to_spec_chain m obj :
    embc_to_ok m = true -> embc_typed m obj ->
    exists attrs, copy_to hook m obj (VObj (msg_ty m) false false None)
                  = Ok (VObj (msg_ty m) false false (Some attrs), [])
                  /\ attrs_conform (msg_ty m) attrs = true
                  /\ forall f t, In f (m_fields m) -> field_ty f = Some t ->
                       broken obj (fi_via (f_info f)) -> null_when_nil f ->
                       lookup (snake f) attrs = Some (nil_render t).
  Proof.
    intros F (gs & -> & T). unfold embc_to_ok in F. apply andb_prop in F. destruct F as [F1 F3].
    apply nodup_b_NoDup in F1. rewrite forallb_forall in F3.
    cbn [copy_to]. rewrite to_fields_m_fields, msg_ty_fields.
    set (fs := m_fields m) in *.
    assert (G : Forall (cruns hook gs) fs).
    { rewrite Forall_forall in T |- *. intros f I. apply cemb_runs; auto. }
    assert (A : forall f, In f fs -> exists t, field_ty f = Some t /\ lookup (snake f) (fields_ty fs) = Some t).
    { intros f I. destruct (cefield_ty_some f (F3 f I)) as (t & FT). exists t. split; [exact FT|].
      now apply lookup_fields_ty. }
    destruct (crun_list_good fs gs (fields_ty fs) G A F1 [] []) as (attrs' & E & L & C); [reflexivity|].
    rewrite E. cbn [bind]. exists attrs'. split; [reflexivity|]. split.
    - unfold attrs_conform. apply andb_true_intro. split.
      + rewrite forallb_forall. intros [k t] I.
        unfold fields_ty in I. apply in_flat_map in I. destruct I as (f & If & I).
        destruct (field_ty f) as [t0|] eqn:FT; [|destruct I]. destruct I as [[= <- <-]|[]]. cbn [fst snd].
        destruct (C f t0 If FT) as (v & Lv & Cv & _). now rewrite Lv.
      + rewrite forallb_forall. intros [k v] I. cbn [fst]. unfold has_key.
        destruct (in_dec string_dec k (snakes fs)) as [Ik|Nk].
        * unfold snakes in Ik. apply in_map_iff in Ik. destruct Ik as (f & <- & If).
          destruct (A f If) as (t & _ & Lt). now rewrite Lt.
        * exfalso. specialize (L k Nk). cbn [lookup] in L. apply lookup_None_keys in L. apply L.
          unfold keys. change k with (fst (k, v)). now apply in_map.
    - intros f t I FT NP NK. destruct (C f t I FT) as (v & Lv & _ & Nv).
      rewrite Lv. f_equal. now apply Nv.
  Qed.
End ToChainMsg.

(* B. CopyFrom *)

Definition cinfo_from_ok (i : finfo) (om : option message) : bool :=
  chain_wf i
  && match fi_oneof i with None => true | Some _ => false end
  && negb (fi_placeholder i)
  && match fi_kind i with
     | PrimitiveKind | PrimitiveListKind | PrimitiveMapKind => cast_compat (fi_tk i) (fi_cast i)
     | ObjectKind | ObjectListKind | ObjectMapKind => match om with Some m' => flat_ok m' | None => false end
     | CustomKind => false
     end.

(* the Go name of a promoted field is not the key of an embedded pointer of another chain at the place
   where it is written *)
Definition no_clash (fs : list field) (i : finfo) : bool :=
  forallb (fun g => negb (prefix_b (fi_via i ++ [fi_name i]) (fi_via (f_info g)))) fs.

Definition cefield_from_ok (fs : list field) (f : field) : bool :=
  (fflat_ok f && negb (mem_str (wkey (f_info f)) (parents fs)))
  || (cinfo_from_ok (f_info f) (f_msg f) && no_clash fs (f_info f)).

Definition embc_from_ok (m : message) : bool := forallb (cefield_from_ok (m_fields m)) (m_fields m).

(* the zero structs: each is well shaped for the rest of the chain, the innermost one has the field;
   the chains of two promoted fields which start with the same keys record the same zero structs *)
Definition czeros_ok (fs : list field) : Prop :=
  forall f p z, In f fs -> fi_parent (f_info f) = Some (p, z) ->
    cshape z (fi_inner (f_info f)) [fi_name (f_info f)]
    /\ forall g, In g fs -> zcompat (chain_of (f_info f)) (chain_of (f_info g)).

Definition embc_zeros (m : message) : Prop := czeros_ok (m_fields m) /\ Forall fzeros_ok (m_fields m).

(* the target struct during CopyFrom: the chain of every promoted field is well shaped in it *)
Definition cstate (fs : list field) (gs : list (string * goval)) : Prop :=
  forall f p z, In f fs -> fi_parent (f_info f) = Some (p, z) ->
    cshape (GStruct gs) ((p, z) :: fi_inner (f_info f)) [fi_name (f_info f)].

(* the chains which are set stay set *)
Definition keeps (fs : list field) (gs gs' : list (string * goval)) : Prop :=
  forall g q w, In g fs -> fi_parent (f_info g) = Some (q, w) ->
    chain_nil (GStruct gs) (q :: map fst (fi_inner (f_info g))) = Ok false ->
    chain_nil (GStruct gs') (q :: map fst (fi_inner (f_info g))) = Ok false.

Lemma keeps_refl fs gs : keeps fs gs gs.
Proof. intros g q w _ _ H. exact H. Qed.

Lemma keeps_trans fs a b c : keeps fs a b -> keeps fs b c -> keeps fs a c.
Proof. intros H1 H2 g q w I P C. eapply H2; eauto. Qed.

(* what the class gives for a promoted field of the list *)
Definition cfield_hyps (FS : list field) (i : finfo) (p : string) (z : goval) : Prop :=
  fi_parent i = Some (p, z) /\ fi_via i = p :: map fst (fi_inner i) /\
  (forall g q w, In g FS -> fi_parent (f_info g) = Some (q, w) ->
                 zcompat ((p, z) :: fi_inner i) ((q, w) :: fi_inner (f_info g))) /\
  (forall g q w, In g FS -> fi_parent (f_info g) = Some (q, w) ->
                 prefix_b (fi_via i ++ [fi_name i]) (q :: map fst (fi_inner (f_info g))) = false).

Lemma cinfo_from_ok_inv i om : cinfo_from_ok i om = true ->
  exists p z, fi_parent i = Some (p, z) /\ fi_via i = p :: map fst (fi_inner i) /\
    fi_oneof i = None /\ fi_placeholder i = false /\
    match fi_kind i with
    | PrimitiveKind | PrimitiveListKind | PrimitiveMapKind => cast_compat (fi_tk i) (fi_cast i) = true
    | ObjectKind | ObjectListKind | ObjectMapKind => exists m', om = Some m' /\ flat_ok m' = true
    | CustomKind => False
    end.
Proof.
  unfold cinfo_from_ok. intros H.
  apply andb_prop in H. destruct H as [H H4]. apply andb_prop in H. destruct H as [H H3].
  apply andb_prop in H. destruct H as [H1 H2].
  destruct (chain_wf_inv _ H1) as (p & z & P & V). exists p, z. split; [exact P|]. split; [exact V|].
  split; [destruct (fi_oneof i); [discriminate|reflexivity]|].
  split; [destruct (fi_placeholder i); [discriminate|reflexivity]|].
  destruct (fi_kind i); try exact H4; try discriminate H4; destruct om as [m'|]; try discriminate H4; eauto.
Qed.

(* a field of the class with a parent is a promoted field of the class *)
Lemma cefield_from_promoted FS f p z : cefield_from_ok FS f = true -> fi_parent (f_info f) = Some (p, z) ->
  cinfo_from_ok (f_info f) (f_msg f) = true /\ no_clash FS (f_info f) = true.
Proof.
  unfold cefield_from_ok. intros H P. apply orb_prop in H. destruct H as [H|H]; [|now apply andb_prop in H].
  apply andb_prop in H. destruct H as [H _]. destruct f as [i om]. cbn [fflat_ok f_info] in *.
  apply andb_prop in H. destruct H as [H _]. destruct (info_ok_inv _ _ H) as (_ & P' & _). congruence.
Qed.

Lemma class_cfield_hyps FS f p z :
  (forall g, In g FS -> cefield_from_ok FS g = true) -> czeros_ok FS -> In f FS ->
  fi_parent (f_info f) = Some (p, z) -> cfield_hyps FS (f_info f) p z.
Proof.
  intros F PZ If P. destruct (cefield_from_promoted FS f p z (F f If) P) as [C NCl].
  destruct (cinfo_from_ok_inv _ _ C) as (p' & z' & P' & V & _). rewrite P in P'. inversion P'; subst p' z'. clear P'.
  split; [exact P|]. split; [exact V|]. split.
  - intros g q w Ig Pg. destruct (PZ f p z If P) as [_ ZC]. specialize (ZC g Ig). unfold chain_of in ZC.
    now rewrite P, Pg in ZC.
  - intros g q w Ig Pg. unfold no_clash in NCl. rewrite forallb_forall in NCl. specialize (NCl g Ig).
    apply negb_true_iff in NCl.
    destruct (cefield_from_promoted FS g q w (F g Ig) Pg) as [Cg _].
    destruct (cinfo_from_ok_inv _ _ Cg) as (q' & w' & Pg' & Vg & _). rewrite Pg in Pg'. inversion Pg'; subst q' w'.
    now rewrite Vg in NCl.
Qed.

Lemma calloc_ok FS gs i p z :
  cfield_hyps FS i p z -> cstate FS gs -> cshape (GStruct gs) ((p, z) :: fi_inner i) [fi_name i] ->
  exists gs1 ps, alloc_parent i (GStruct gs) = Ok (GStruct gs1) /\ keys gs1 = keys gs /\ cstate FS gs1
     /\ reaches (GStruct gs1) (fi_via i) (GStruct ps) /\ In (fi_name i) (keys ps)
     /\ (forall q, q <> p -> lookup q gs1 = lookup q gs) /\ keeps FS gs gs1.
Proof.
  intros (P & V & ZC & NCl) S Si. unfold alloc_parent. rewrite P.
  destruct (alloc_chain_shape _ _ _ Si) as (obj' & E & S' & R & _).
  destruct (alloc_chain_top _ _ _ _ _ E) as (gs1 & -> & K1 & Q1).
  destruct (cshape_broken_or_reaches _ _ _ S') as [B|(ps & R' & Kn)].
  { exfalso. eapply broken_not_reaches; eauto. }
  cbn [map fst] in R'. rewrite <- V in R'.
  exists gs1, ps. split; [exact E|]. split; [exact K1|]. split.
  { intros g q w Ig Pg. eapply alloc_chain_cshape_other; [exact E|now apply (S g q w)|now apply (ZC g q w)]. }
  split; [exact R'|]. split; [apply Kn; now left|]. split; [exact Q1|].
  intros g q w Ig Pg C. eapply alloc_chain_keeps_set; eauto.
Qed.

Lemma cpset_ok FS gs1 i p z ps v :
  cfield_hyps FS i p z -> cstate FS gs1 -> reaches (GStruct gs1) (fi_via i) (GStruct ps) -> In (fi_name i) (keys ps) ->
  exists gs2, gset_via (GStruct gs1) (fi_via i) (fi_name i) v = Ok (GStruct gs2) /\ keys gs2 = keys gs1 /\ cstate FS gs2
     /\ (forall q, q <> p -> lookup q gs2 = lookup q gs1) /\ keeps FS gs1 gs2
     /\ chain_nil (GStruct gs2) (fi_via i) = Ok false.
Proof.
  intros (P & V & ZC & NCl) S R Kn.
  destruct (gset_via_ok _ _ _ _ v R Kn) as (obj' & E & R').
  pose proof E as E0. rewrite V in E0. destruct (gset_via_top _ _ _ _ _ _ E0) as (gs2 & -> & K2 & Q2).
  exists gs2. split; [exact E|]. split; [exact K2|]. split.
  { intros g q w Ig Pg. eapply gset_via_cshape_other; [exact E|now apply (S g q w)|]. cbn [map fst]. now apply (NCl g q w). }
  split; [exact Q2|]. split.
  { intros g q w Ig Pg C. eapply gset_via_keeps_set; [exact E|exact C|now apply (NCl g q w)]. }
  apply chain_nil_false. eauto.
Qed.

Ltac cpwrite FS HY S Si :=
  let gs1 := fresh "gs1" in let ps1 := fresh "ps1" in let K1 := fresh "K1" in let S1 := fresh "S1" in
  let R1 := fresh "R1" in let I1 := fresh "I1" in let Q1 := fresh "Q1" in let KP1 := fresh "KP1" in
  let gs2 := fresh "gs2" in let K2 := fresh "K2" in let S2 := fresh "S2" in
  let C2 := fresh "C2" in let Q2 := fresh "Q2" in let KP2 := fresh "KP2" in
  destruct (calloc_ok FS _ _ _ _ HY S Si) as (gs1 & ps1 & -> & K1 & S1 & R1 & I1 & Q1 & KP1); cbn [bind];
  match goal with
  | |- context [gset_via (GStruct gs1) _ _ ?v] =>
      destruct (cpset_ok FS gs1 _ _ _ ps1 v HY S1 R1 I1) as (gs2 & -> & K2 & S2 & Q2 & KP2 & C2); cbn [bind]
  end;
  exists gs2; eexists; split; [reflexivity|];
  split; [now rewrite K2|]; split; [exact S2|];
  split; [intros q' N'; now rewrite (Q2 q' N'), (Q1 q' N')|];
  split; [exact (keeps_trans _ _ _ _ KP1 KP2)|exact C2].

Ltac cpkeep gs :=
  exists gs; eexists; split; [reflexivity|]; split; [reflexivity|]; split; [assumption|];
  split; [reflexivity|]; split; [apply keeps_refl|reflexivity].

Lemma cpromoted_from_step hook FS attrs i om gs ds p z :
  cinfo_from_ok i om = true -> fzeros_ok (Field i om) -> cfield_hyps FS i p z ->
  cshape (GStruct gs) ((p, z) :: fi_inner i) [fi_name i] ->
  attrs_typed attrs = true -> cstate FS gs ->
  exists gs' ds', from_field hook (Field i om) attrs (GStruct gs, ds) = Ok (GStruct gs', ds')
     /\ keys gs' = keys gs /\ cstate FS gs'
     /\ (forall q, q <> p -> lookup q gs' = lookup q gs)
     /\ keeps FS gs gs'
     /\ (if allocating i (lookup (fi_snake i) (attrs_list attrs))
         then chain_nil (GStruct gs') (fi_via i) = Ok false
         else gs' = gs).
Proof.
  intros F ZO HY Si T S.
  destruct (cinfo_from_ok_inv _ _ F) as (p' & z' & P' & V & O & PH & K).
  pose proof HY as (P & _). rewrite P in P'. inversion P'; subst p' z'. clear P'.
  assert (T0 : forall a, lookup (fi_snake i) (attrs_list attrs) = Some a -> tf_typed a = true).
  { destruct attrs as [l|]; [|discriminate]. intros a. apply typed_lookup. exact T. }
  assert (D : forall m', om = Some m' -> flat_ok m' = true -> forall at0, attrs_typed at0 = true -> forall ds,
               exists x, (if m_empty m' then Ok (m_zero m', ds) else from_fields hook m' at0 (m_zero m', ds)) = Ok x).
  { intros m' -> FM at0 Ta ds0. destruct (m_empty m'); [eauto|]. cbn [fzeros_ok] in ZO. destruct ZO as [HK ZM].
    destruct (from_fields_total_partial hook m' FM ZM at0 _ ds0 Ta HK) as (v & ds' & E & _). rewrite E. eauto. }
  clear T ZO F.
  cbn [from_field]. fold (from_fields hook). rewrite attr_lookup_eq. rewrite P, O.
  destruct (lookup (fi_snake i) (attrs_list attrs)) as [a|] eqn:EA; cbn [allocating].
  2:{ destruct (fi_kind i) eqn:EK; try (now contradiction K); cpkeep gs. }
  specialize (T0 a eq_refl). unfold alloc_attr.
  destruct (fi_kind i) eqn:EK.
  - (* PrimitiveKind *)
    destruct (as_prim i a) as [[[n u] q]|] eqn:EP.
    2:{ destruct a; try cpkeep gs. cbn [as_prim] in EP. destruct (tfkind_eqb k (fi_tk i)); [discriminate|]. cpkeep gs. }
    apply as_prim_inv in EP. subst a. cbn in T0. rewrite tfkind_eqb_refl. cbn [andb].
    destruct (from_prim_value_total i n u q K T0) as [t ->]. cbn [bind].
    destruct (known n u); [|cpkeep gs]. cpwrite FS HY S Si.
  - (* PrimitiveListKind *)
    destruct a as [| aty n u el | | | |]; try cpkeep gs. cbn [tf_typed] in T0. pose proof (typed_elems _ T0) as TL.
    destruct (known n u); cbn [bind].
    + folds TL.
      * destruct (as_prim i x) as [[[n0 u0] q]|] eqn:EP; [|cbn [bind]; eauto].
        apply as_prim_inv in EP. subst x. cbn in TL.
        destruct (from_prim_value_total i n0 u0 q K TL) as [t ->]. cbn [bind]. eauto.
      * cpwrite FS HY S Si.
    + cpkeep gs.
  - (* ObjectKind *)
    destruct K as (m' & -> & FM). specialize (D m' eq_refl FM).
    destruct a as [| | | aty n u at0 | |]; try cpkeep gs. cbn [tf_typed] in T0. change (attrs_typed at0 = true) in T0.
    cbn [bind]. destruct (known n u); [|cpkeep gs].
    destruct (calloc_ok FS _ _ _ _ HY S Si) as (gs1 & ps1 & -> & K1 & S1 & R1 & I1 & Q1 & KP1); cbn [bind].
    destruct (D at0 T0 ds) as [[v ds'] ->]. cbn [bind].
    match goal with
    | |- context [gset_via (GStruct gs1) _ _ ?v] =>
        destruct (cpset_ok FS gs1 _ _ _ ps1 v HY S1 R1 I1) as (gs2 & -> & K2 & S2 & Q2 & KP2 & C2); cbn [bind]
    end.
    exists gs2; eexists; split; [reflexivity|].
    split; [now rewrite K2|]. split; [exact S2|].
    split; [intros q' N'; now rewrite (Q2 q' N'), (Q1 q' N')|].
    split; [exact (keeps_trans _ _ _ _ KP1 KP2)|exact C2].
  - (* ObjectListKind *)
    destruct K as (m' & -> & FM). specialize (D m' eq_refl FM).
    destruct a as [| aty n u el | | | |]; try cpkeep gs. cbn [tf_typed] in T0. pose proof (typed_elems _ T0) as TL.
    destruct (known n u); cbn [bind].
    + folds TL.
      * destruct x as [| | | aty0 n0 u0 at0 | |]; try (cbn [bind]; eauto).
        cbn [tf_typed] in TL. change (attrs_typed at0 = true) in TL.
        destruct (known n0 u0); [|cbn [bind]; eauto].
        destruct (D at0 TL ds0) as [[v ds'] ->]. cbn [bind]. eauto.
      * cpwrite FS HY S Si.
    + cpkeep gs.
  - (* PrimitiveMapKind *)
    destruct a as [| | aty n u el | | |]; try cpkeep gs. cbn [tf_typed] in T0. pose proof (typed_entries _ T0) as TL.
    destruct (known n u); cbn [bind].
    + folds TL.
      * destruct x as [k a']. cbn [fst snd] in *.
        destruct (as_prim i a') as [[[n0 u0] q]|] eqn:EP; [|cbn [bind]; eauto].
        apply as_prim_inv in EP. subst a'. cbn in TL.
        destruct (from_prim_value_total i n0 u0 q K TL) as [t ->]. cbn [bind]. eauto.
      * cpwrite FS HY S Si.
    + cpkeep gs.
  - (* ObjectMapKind *)
    destruct K as (m' & -> & FM). specialize (D m' eq_refl FM).
    destruct a as [| | aty n u el | | |]; try cpkeep gs. cbn [tf_typed] in T0. pose proof (typed_entries _ T0) as TL.
    destruct (known n u); cbn [bind].
    + folds TL.
      * destruct x as [k a']. cbn [fst snd] in *.
        destruct a' as [| | | aty0 n0 u0 at0 | |]; try (cbn [bind]; eauto).
        cbn [tf_typed] in TL. change (attrs_typed at0 = true) in TL.
        destruct (known n0 u0); [|cbn [bind]; eauto].
        destruct (D at0 TL ds0) as [[v ds'] ->]. cbn [bind]. eauto.
      * cpwrite FS HY S Si.
    + cpkeep gs.
  - now contradiction K.
Qed.

Lemma cordinary_from_step hook FS attrs f gs ds :
  fflat_ok f = true -> fzeros_ok f -> ~ In (wkey (f_info f)) (parents FS) ->
  attrs_typed attrs = true -> In (wkey (f_info f)) (keys gs) ->
  exists gs' ds', from_field hook f attrs (GStruct gs, ds) = Ok (GStruct gs', ds')
     /\ keys gs' = keys gs /\ forall q, In q (parents FS) -> lookup q gs' = lookup q gs.
Proof.
  destruct f as [i om]. cbn [f_info fflat_ok]. intros F ZO N T W.
  apply andb_prop in F. destruct F as [F1 F2].
  destruct (from_field_total hook i om F1) with (attrs := attrs) (fs := gs) (ds := ds) as (gs' & ds' & E & Kg); auto.
  { intros m' -> at0 Ta ds0. cbn [fzeros_ok] in ZO. destruct ZO as [HK ZM].
    destruct (from_fields_total_partial hook m' F2 ZM at0 _ ds0 Ta HK) as (v & d & Ev & _). eauto. }
  exists gs', ds'. split; [exact E|]. split; [exact Kg|].
  intros q Iq. apply gfield_eq_lookup. apply (from_field_untouched _ _ _ _ _ _ _ E). cbn [f_info].
  rewrite (info_ok_write_key _ _ F1). intros [<-|[]]. contradiction.
Qed.

(* the shape of the chains and their being set depend on the struct through the outermost keys only *)
Lemma cstate_lookup FS gs gs' :
  (forall q, In q (parents FS) -> lookup q gs' = lookup q gs) -> cstate FS gs -> cstate FS gs'.
Proof.
  intros Q S f p z If P. specialize (S f p z If P). cbn [cshape] in S |- *.
  destruct S as (fs0 & [= <-] & Z & D). eexists. split; [reflexivity|]. split; [exact Z|].
  rewrite (Q p) by (eapply in_parents; eauto). exact D.
Qed.

Lemma keeps_lookup FS gs gs' :
  (forall q, In q (parents FS) -> lookup q gs' = lookup q gs) -> keeps FS gs gs'.
Proof.
  intros Q g q w Ig Pg C. cbn [chain_nil gfield] in C |- *. rewrite (Q q) by (eapply in_parents; eauto). exact C.
Qed.

(* the field is promoted and its attribute makes CopyFrom write it *)
Definition callocs (attrs : option (list (string * tfval))) (f : field) : bool :=
  match fi_parent (f_info f) with
  | Some _ => allocating (f_info f) (lookup (fi_snake (f_info f)) (attrs_list attrs))
  | None => false
  end.

Lemma from_list_chain hook FS attrs l :
  attrs_typed attrs = true -> czeros_ok FS -> incl l FS ->
  (forall f, In f FS -> cefield_from_ok FS f = true) -> Forall fzeros_ok l ->
  forall gs ds,
    (forall f, In f l -> fi_parent (f_info f) = None -> In (wkey (f_info f)) (keys gs)) -> cstate FS gs ->
    exists gs' ds', from_field_list hook l attrs (GStruct gs, ds) = Ok (GStruct gs', ds')
       /\ keys gs' = keys gs /\ cstate FS gs'
       /\ (forall q, In q (parents FS) -> after_fields attrs l q gs gs')
       /\ keeps FS gs gs'
       /\ (forall f, In f l -> callocs attrs f = true -> chain_nil (GStruct gs') (fi_via (f_info f)) = Ok false).
Proof.
  intros T PZ. induction l as [|f r IH]; intros Inc F ZO gs ds W S; cbn [from_field_list].
  - exists gs, ds. split; [reflexivity|]. split; [reflexivity|]. split; [exact S|].
    split; [intros q _; reflexivity|]. split; [apply keeps_refl|intros f []].
  - assert (If : In f FS) by (apply Inc; now left).
    assert (Incr : incl r FS) by (intros x Hx; apply Inc; now right).
    inversion ZO as [|? ? Zf Zr]; subst.
    pose proof (F f If) as Ff. unfold cefield_from_ok in Ff. apply orb_prop in Ff.
    assert (STEP : exists gs1 ds1,
               (if fi_placeholder (f_info f) then Ok (GStruct gs, ds) else from_field hook f attrs (GStruct gs, ds))
               = Ok (GStruct gs1, ds1)
               /\ keys gs1 = keys gs /\ cstate FS gs1
               /\ (forall q, In q (parents FS) ->
                    if allocs attrs q f then exists ps, lookup q gs1 = Some (GPtr (Some (GStruct ps)))
                    else lookup q gs1 = lookup q gs)
               /\ keeps FS gs gs1
               /\ (callocs attrs f = true -> chain_nil (GStruct gs1) (fi_via (f_info f)) = Ok false)).
    { destruct Ff as [Ff|Ff].
      - apply andb_prop in Ff. destruct Ff as [F1 F2]. apply negb_true_iff in F2.
        assert (N : ~ In (wkey (f_info f)) (parents FS)) by (intros X; apply mem_str_In in X; congruence).
        assert (PN : fi_parent (f_info f) = None).
        { destruct f as [i om]. cbn [fflat_ok f_info] in *. apply andb_prop in F1. destruct F1 as [F1 _].
          now destruct (info_ok_inv _ _ F1) as (_ & ? & _). }
        assert (AF : forall q, allocs attrs q f = false) by (intros q; unfold allocs; now rewrite PN).
        assert (CF : callocs attrs f = false) by (unfold callocs; now rewrite PN).
        destruct (fi_placeholder (f_info f)).
        + exists gs, ds. split; [reflexivity|]. split; [reflexivity|]. split; [exact S|].
          split; [intros q _; now rewrite AF|]. split; [apply keeps_refl|]. rewrite CF. discriminate.
        + destruct (cordinary_from_step hook FS attrs f gs ds F1 Zf N T (W f (or_introl eq_refl) PN))
            as (gs1 & ds1 & E & K1 & Q1).
          exists gs1, ds1. split; [exact E|]. split; [exact K1|]. split; [now apply (cstate_lookup FS gs)|].
          split; [intros q Iq; rewrite AF; now apply Q1|]. split; [now apply keeps_lookup|]. rewrite CF. discriminate.
      - apply andb_prop in Ff. destruct Ff as [Ff _].
        destruct f as [i om]. cbn [f_info f_msg] in *.
        destruct (cinfo_from_ok_inv _ _ Ff) as (p & z & P & V & O & PH & K). rewrite PH.
        pose proof (class_cfield_hyps FS (Field i om) p z F PZ If P) as HY. cbn [f_info] in HY.
        pose proof (S (Field i om) p z If P) as Si. cbn [f_info] in Si.
        destruct (cpromoted_from_step hook FS attrs i om gs ds p z Ff Zf HY Si T S)
          as (gs1 & ds1 & E & K1 & S1 & Q1 & KP1 & A1).
        exists gs1, ds1. split; [exact E|]. split; [exact K1|]. split; [exact S1|].
        split; [|split; [exact KP1|]].
        + intros q Iq. unfold allocs. cbn [f_info]. rewrite P.
          destruct (String.eqb q p) eqn:Eq.
          * apply String.eqb_eq in Eq. subst q. cbn [andb].
            destruct (allocating i (lookup (fi_snake i) (attrs_list attrs))); [|now subst gs1].
            rewrite V in A1. cbn [chain_nil gfield] in A1.
            specialize (S1 (Field i om) p z If P). cbn [f_info cshape] in S1.
            destruct S1 as (fs0 & [= <-] & _ & [L|(inner & L & Sin)]).
            { rewrite L in A1. cbn [bind] in A1. discriminate A1. }
            destruct (fi_inner i) as [|[q0 w0] r0]; cbn [cshape] in Sin.
            { destruct Sin as (fs1 & -> & _). eauto. }
            { destruct Sin as (fs1 & -> & _). eauto. }
          * apply String.eqb_neq in Eq. cbn [andb]. now apply Q1.
        + unfold callocs. cbn [f_info]. rewrite P. intros AL. now rewrite AL in A1. }
    destruct STEP as (gs1 & ds1 & E & K1 & S1 & Q1 & KP1 & A1).
    assert (E' : (if fi_placeholder (f_info f) then from_field_list hook r attrs (GStruct gs, ds)
                  else do st' <- from_field hook f attrs (GStruct gs, ds); from_field_list hook r attrs st')
                 = from_field_list hook r attrs (GStruct gs1, ds1)).
    { destruct (fi_placeholder (f_info f)); [now inversion E|]. now rewrite E. }
    rewrite E'.
    destruct (IH Incr F Zr gs1 ds1) as (gs2 & ds2 & E2 & K2 & S2 & Q2 & KP2 & A2).
    { intros x Hx Px. rewrite K1. apply W; [now right|exact Px]. }
    { exact S1. }
    exists gs2, ds2. split; [exact E2|]. split; [now rewrite K2|]. split; [exact S2|].
    split; [|split; [exact (keeps_trans _ _ _ _ KP1 KP2)|]].
    + intros q Iq. specialize (Q1 q Iq). specialize (Q2 q Iq). unfold after_fields in *. cbn [existsb].
      destruct (allocs attrs q f); cbn [orb].
      * destruct (existsb (allocs attrs q) r); [exact Q2|]. rewrite Q2. exact Q1.
      * destruct (existsb (allocs attrs q) r); [exact Q2|]. now rewrite Q2.
    + intros x [<-|Hx] AL; [|now apply A2].
      specialize (A1 AL). unfold callocs in AL. destruct (fi_parent (f_info f)) as [[q w]|] eqn:Pf; [|discriminate].
      destruct (cefield_from_promoted FS f q w (F f If) Pf) as [Cf _].
      destruct (cinfo_from_ok_inv _ _ Cf) as (q' & w' & Pf' & Vf & _). rewrite Pf in Pf'. inversion Pf'; subst q' w'.
      rewrite Vf in A1 |- *. exact (KP2 f q w If Pf A1).
Qed.

(* C06 on chains, and the state of the embedded pointers afterwards *)
Theorem from_fields_chain_spec hook m attrs obj ds :
  embc_from_ok m = true -> embc_zeros m -> attrs_typed attrs = true -> emb_keys m obj ->
  exists obj' ds', from_fields hook m attrs (obj, ds) = Ok (obj', ds') /\ emb_keys m obj' /\
    (forall p, In p (parents (m_fields m)) ->
       if existsb (allocs attrs p) (m_fields m)
       then exists ps, gfield obj' p = Ok (GPtr (Some (GStruct ps)))
       else gfield obj' p = Ok (GPtr None)) /\
    (forall f, In f (m_fields m) -> callocs attrs f = true -> chain_nil obj' (fi_via (f_info f)) = Ok false).
Proof.
  destruct m as [nm fs os inj e z]. unfold embc_from_ok, embc_zeros, emb_keys. cbn [m_fields m_oneofs].
  intros F [PZ ZO] T (gs & -> & H1 & H2 & H3). rewrite forallb_forall in F.
  rewrite from_fields_unfold. cbn [fst snd].
  destruct (fold_res_keys reset_oneof os (keys gs)) with (fs := gs) as [gs1 [E1 K1]]; [|reflexivity|].
  { intros h Hh fs0 E0. unfold reset_oneof. apply put_total_K; auto. }
  rewrite E1. cbn [bind].
  destruct (fold_res_keys reset_promoted fs (keys gs)) with (fs := gs1) as [gs2 [E2 K2]]; [|exact K1|].
  { intros f Hf fs0 E0. unfold reset_promoted.
    destruct (fi_oneof (f_info f)) as [h|] eqn:O; [|eauto]. destruct (fi_parent (f_info f)) eqn:P; [eauto|].
    apply put_total_K; auto. specialize (H2 f Hf P). unfold wkey in H2. now rewrite O in H2. }
  rewrite E2. cbn [bind].
  destruct (fold_res_keys reset_parent fs (keys gs)) with (fs := gs2) as [gs3 [E3 K3]]; [|exact K2|].
  { intros f Hf fs0 E0. unfold reset_parent. destruct (fi_parent (f_info f)) as [[pn pz]|] eqn:P; [|eauto].
    apply put_total_K; auto. apply H3. eapply in_parents; eauto. }
  rewrite E3. cbn [bind].
  assert (N3 : forall p, In p (parents fs) -> lookup p gs3 = Some (GPtr None)).
  { intros p Ip. apply gfield_lookup. apply (reset_parents_nil p fs _ _ E3). now left. }
  assert (S3 : cstate fs gs3).
  { intros f p z0 If P. cbn [cshape]. eexists. split; [reflexivity|]. split; [exact (proj1 (PZ f p z0 If P))|].
    left. apply N3. eapply in_parents; eauto. }
  destruct (from_list_chain hook fs attrs fs T PZ (incl_refl _) F ZO gs3 ds) as (gs4 & ds4 & E4 & K4 & S4 & Q4 & _ & A4).
  { intros f Hf P. rewrite K3. now apply H2. }
  { exact S3. }
  exists (GStruct gs4), ds4. split; [exact E4|]. split; [|split].
  - exists gs4. split; [reflexivity|]. rewrite K4, K3. auto.
  - intros p Ip. specialize (Q4 p Ip). unfold after_fields in Q4.
    destruct (existsb (allocs attrs p) fs).
    + destruct Q4 as (ps & L). exists ps. cbn [gfield]. now rewrite L.
    + cbn [gfield]. now rewrite Q4, (N3 p Ip).
  - exact A4.
Qed.

(* ------------------------------------------------------------------------------------- *)
(* the class, and the statements on it *)

Definition embc_ok (m : message) : bool := embc_to_ok m && embc_from_ok m.

Lemma embc_ok_to m : embc_ok m = true -> embc_to_ok m = true.
Proof. unfold embc_ok. intros H. apply andb_prop in H. tauto. Qed.
Lemma embc_ok_from m : embc_ok m = true -> embc_from_ok m = true.
Proof. unfold embc_ok. intros H. apply andb_prop in H. tauto. Qed.

(* A. CopyTo into the empty object of the schema's type, each pointer of each chain nil or set:
   no panic, no diagnostic, a value of the schema's type *)
Theorem copy_to_total_chain_partial hook m obj :
  embc_ok m = true -> embc_typed m obj ->
  exists attrs, copy_to hook m obj (VObj (msg_ty m) false false None)
                = Ok (VObj (msg_ty m) false false (Some attrs), [])
                /\ conforms (TyObj (msg_ty m)) (VObj (msg_ty m) false false (Some attrs)) = true.
Proof.
  intros F T. destruct (copy_to_spec_chain hook m obj (embc_ok_to _ F) T) as (attrs & E & C & _).
  exists attrs. split; [exact E|]. rewrite conforms_obj, tfty_eqb_refl, C. reflexivity.
Qed.

(* C20 on chains: when some pointer of the field's chain is nil the attribute is null (scalars, lists,
   maps, nullable messages; a message by value is rendered as the object of its zero value) *)
Theorem copy_to_broken_chain_renders_null hook m obj t ds :
  embc_ok m = true -> embc_typed m obj ->
  copy_to hook m obj (VObj (msg_ty m) false false None) = Ok (t, ds) ->
  exists attrs, t = VObj (msg_ty m) false false (Some attrs) /\ ds = [] /\
    forall i om, In (Field i om) (m_fields m) -> broken obj (fi_via i) ->
                 (fi_kind i = ObjectKind -> fi_nullable i = true) ->
                 exists ty, field_ty (Field i om) = Some ty
                            /\ lookup (fi_snake i) attrs = Some (nil_render ty)
                            /\ tf_is_null (nil_render ty) = true.
Proof.
  intros F T H. pose proof (embc_ok_to _ F) as Fto.
  destruct (copy_to_spec_chain hook m obj Fto T) as (attrs & E & _ & N).
  rewrite E in H. inversion H; subst. exists attrs. split; [reflexivity|]. split; [reflexivity|].
  intros i om I B NK.
  unfold embc_to_ok in Fto. apply andb_prop in Fto. destruct Fto as [_ F3]. rewrite forallb_forall in F3.
  destruct (cefield_ty_some _ (F3 _ I)) as (ty & FT). exists ty. split; [exact FT|]. split.
  - exact (N (Field i om) ty I FT B NK).
  - apply nil_render_null. intros s ->. cbn [field_ty] in FT.
    destruct (fi_kind i), om; discriminate FT.
Qed.

(* B. CopyFrom never panics; afterwards an outermost embedded pointer is set exactly when the attribute
   of a field promoted through it is present, well-kinded, known and not null, and nil otherwise
   (whatever the target held); and every pointer on the chain of such a field is set *)
Theorem copy_from_total_chain_partial hook m a n u at0 obj :
  embc_ok m = true -> embc_zeros m -> attrs_typed at0 = true -> emb_keys m obj ->
  exists obj' ds, copy_from hook m (VObj a n u at0) obj = Ok (obj', ds) /\ emb_keys m obj' /\
    (forall p, In p (parents (m_fields m)) ->
       (forall i om z av, In (Field i om) (m_fields m) -> fi_parent i = Some (p, z) ->
                          lookup (fi_snake i) (attrs_list at0) = Some av -> null_or_unknown av) ->
       gfield obj' p = Ok (GPtr None)) /\
    (forall i om p z av, In (Field i om) (m_fields m) -> fi_parent i = Some (p, z) ->
       lookup (fi_snake i) (attrs_list at0) = Some av -> alloc_attr i av = true ->
       chain_nil obj' (p :: map fst (fi_inner i)) = Ok false
       /\ exists inner, reaches obj' (fi_via i) inner /\
            forall name, gget_via obj' (fi_via i) name = gfield inner name).
Proof.
  intros F Z T K. cbn [copy_from]. pose proof (embc_ok_from _ F) as Ffrom.
  destruct (from_fields_chain_spec hook m at0 obj [] Ffrom Z T K) as (obj' & ds & E & K' & Q & A).
  exists obj', ds. split; [exact E|]. split; [exact K'|]. split.
  - intros p Ip N. specialize (Q p Ip).
    assert (X : existsb (allocs at0 p) (m_fields m) = false).
    { destruct (existsb (allocs at0 p) (m_fields m)) eqn:Ex; [|reflexivity]. exfalso.
      apply existsb_exists in Ex. destruct Ex as ([i om] & I & AL). unfold allocs in AL. cbn [f_info] in AL.
      destruct (fi_parent i) as [[p' z]|] eqn:P; [|discriminate].
      apply andb_prop in AL. destruct AL as [A1 A2]. apply String.eqb_eq in A1. subst p'.
      unfold allocating in A2. destruct (lookup (fi_snake i) (attrs_list at0)) as [av|] eqn:L; [|discriminate].
      rewrite (null_not_alloc i av (N i om z av I P L)) in A2. discriminate. }
    now rewrite X in Q.
  - intros i om p z av I P L AL.
    assert (CA : callocs at0 (Field i om) = true) by (unfold callocs; cbn [f_info]; now rewrite P, L).
    specialize (A _ I CA). cbn [f_info] in A.
    unfold embc_from_ok in Ffrom. rewrite forallb_forall in Ffrom.
    destruct (cefield_from_promoted _ _ p z (Ffrom _ I) P) as [C _]. cbn [f_info f_msg] in C.
    destruct (cinfo_from_ok_inv _ _ C) as (p' & z' & P' & V & _). rewrite P in P'. inversion P'; subst p' z'.
    split; [now rewrite <- V|].
    apply chain_nil_false in A. destruct A as (inner & R). exists inner. split; [exact R|].
    intros name. now apply reaches_gget.
Qed.

Module ChainExample.
  Import PGT.Model.Desc PGT.Model.Build.
  Import EmbExample.
  Local Open Scope string_scope.
  Local Open Scope Z_scope.

  (* Root{Own; *B embedded}, B{BInt; V embedded by value}, V{VStr; *C embedded}, C{CStr; *D embedded},
     D{DStr; DList repeated string}: D's fields have the chain [B; C; D] (V is flattened) *)
  Definition d_D : mdesc :=
    {| md_name := "D"; md_comment := ""; md_oneofs := [];
       md_fields := [fd "d_str" 1 (PScalar SString) false None false None;
                     fd "d_list" 2 (PScalar SString) true None false None] |}.
  Definition d_C : mdesc :=
    {| md_name := "C"; md_comment := ""; md_oneofs := [];
       md_fields := [fd "c_str" 1 (PScalar SString) false None false None;
                     fd "d" 2 (PMsg "D") false (Some true) true None] |}.
  Definition d_V : mdesc :=
    {| md_name := "V"; md_comment := ""; md_oneofs := [];
       md_fields := [fd "v_str" 1 (PScalar SString) false None false None;
                     fd "c" 2 (PMsg "C") false (Some true) true None] |}.
  Definition d_B : mdesc :=
    {| md_name := "B"; md_comment := ""; md_oneofs := [];
       md_fields := [fd "b_int" 1 (PScalar SInt32) false None false None;
                     fd "v" 2 (PMsg "V") false (Some false) true None] |}.
  Definition d_Root : mdesc :=
    {| md_name := "Root"; md_comment := ""; md_oneofs := [];
       md_fields := [fd "own" 1 (PScalar SInt32) false None false None;
                     fd "b" 2 (PMsg "B") false (Some true) true None] |}.
  Definition m3 : message :=
    Eval vm_compute in
      match build_message (obs_of cfg) [d_D; d_C; d_V; d_B; d_Root] 8 d_Root "Root" with BOk m => m | _ => dummy end.

  (* what the front end records: V is flattened, the chain of D's fields is [B; C; D] *)
  Definition zB : goval := GStruct [("BInt", GPrim (PInt 0)); ("VStr", GPrim (PStr "")); ("C", GPtr None)].
  Definition zC : goval := GStruct [("CStr", GPrim (PStr "")); ("D", GPtr None)].
  Definition zD : goval := GStruct [("DStr", GPrim (PStr "")); ("DList", GSlice None)].
  Example m3_shape :
    map (fun f => (fi_name (f_info f), fi_kind (f_info f), fi_via (f_info f), fi_parent (f_info f), fi_inner (f_info f)))
        (m_fields m3)
    = [("Own", PrimitiveKind, [], None, []);
       ("BInt", PrimitiveKind, ["B"], Some ("B", zB), []);
       ("VStr", PrimitiveKind, ["B"], Some ("B", zB), []);
       ("CStr", PrimitiveKind, ["B"; "C"], Some ("B", zB), [("C", zC)]);
       ("DStr", PrimitiveKind, ["B"; "C"; "D"], Some ("B", zB), [("C", zC); ("D", zD)]);
       ("DList", PrimitiveListKind, ["B"; "C"; "D"], Some ("B", zB), [("C", zC); ("D", zD)])].
  Proof. reflexivity. Qed.

  Example m3_ok : embc_ok m3 = true /\ emb_ok m3 = false /\ embc_ok m_two = true /\ embc_ok EmbExample.m = true.
  Proof. repeat split; vm_compute; reflexivity. Qed.

  Definition dset (s : string) (l : option (list goval)) := GStruct [("DStr", GPrim (PStr s)); ("DList", GSlice l)].
  Definition cset (s : string) (d : option goval) := GStruct [("CStr", GPrim (PStr s)); ("D", GPtr d)].
  Definition bset (n : Z) (s : string) (c : option goval) :=
    GStruct [("BInt", GPrim (PInt n)); ("VStr", GPrim (PStr s)); ("C", GPtr c)].
  Definition root (b : option goval) := GStruct [("Own", GPrim (PInt 7)); ("B", GPtr b)].
  Definition r_nil := root None.
  Definition r_b := root (Some (bset 1 "v" None)).
  Definition r_bc := root (Some (bset 1 "v" (Some (cset "c" None)))).
  Definition r_all := root (Some (bset 1 "v" (Some (cset "c" (Some (dset "d" (Some [GPrim (PStr "e")]))))))).
  Definition empty3 := VObj (msg_ty m3) false false None.
  Definition out3 (own bi vs cs ds_ dl : tfval) : tfval :=
    VObj (msg_ty m3) false false
         (Some [("own", own); ("b_int", bi); ("v_str", vs); ("c_str", cs); ("d_str", ds_); ("d_list", dl)]).
  Definition nI := VPrim KI64 true false (PInt 0).
  Definition nS := VPrim KStr true false (PStr "").
  Definition nL := VList (TyPrim KStr) true false (Some []).
  Definition kI (z : Z) := VPrim KI64 false false (PInt z).
  Definition kS (s : string) := VPrim KStr false false (PStr s).

  (* the general lemmas, observed on the chain of D's fields *)
  Definition chainD : list (string * goval) := [("B", zB); ("C", zC); ("D", zD)].
  Example chain_nil_observed :
    chain_nil r_nil ["B"; "C"; "D"] = Ok true /\ chain_nil r_b ["B"; "C"; "D"] = Ok true
    /\ chain_nil r_bc ["B"; "C"; "D"] = Ok true /\ chain_nil r_all ["B"; "C"; "D"] = Ok false.
  Proof. repeat split; vm_compute; reflexivity. Qed.
  Example alloc_chain_observed :
    alloc_chain r_nil chainD = Ok (root (Some (bset 0 "" (Some (cset "" (Some zD))))))
    /\ alloc_chain r_b chainD = Ok (root (Some (bset 1 "v" (Some (cset "" (Some zD))))))
    /\ alloc_chain r_bc chainD = Ok (root (Some (bset 1 "v" (Some (cset "c" (Some zD))))))
    /\ alloc_chain r_all chainD = Ok r_all.
  Proof. repeat split; vm_compute; reflexivity. Qed.
  Example chain_end_observed :
    chain_end r_nil chainD = zD /\ chain_end r_bc chainD = zD
    /\ chain_end r_all chainD = dset "d" (Some [GPrim (PStr "e")]) /\ zeros_pure chainD.
  Proof. repeat split; vm_compute; reflexivity. Qed.

  (* CopyTo: B set and C nil; B, C set and D nil; all set; B nil *)
  Example to_b_nil : copy_to std_hook_to m3 r_nil empty3 = Ok (out3 (kI 7) nI nS nS nS nL, []).
  Proof. vm_compute. reflexivity. Qed.
  Example to_c_nil : copy_to std_hook_to m3 r_b empty3 = Ok (out3 (kI 7) (kI 1) (kS "v") nS nS nL, []).
  Proof. vm_compute. reflexivity. Qed.
  Example to_d_nil : copy_to std_hook_to m3 r_bc empty3 = Ok (out3 (kI 7) (kI 1) (kS "v") (kS "c") nS nL, []).
  Proof. vm_compute. reflexivity. Qed.
  Example to_all_set :
    copy_to std_hook_to m3 r_all empty3
    = Ok (out3 (kI 7) (kI 1) (kS "v") (kS "c") (kS "d") (VList (TyPrim KStr) false false (Some [kS "e"])), []).
  Proof. vm_compute. reflexivity. Qed.

  (* CopyFrom with only d_str known: B, C and D are allocated, whatever the target held *)
  Definition tf_d := VObj (msg_ty m3) false false (Some [("d_str", kS "z")]).
  Definition missing5 : list diag :=
    [(ReadMissing, "Root.own"); (ReadMissing, "Root.b_int"); (ReadMissing, "Root.v_str"); (ReadMissing, "Root.c_str");
     (ReadMissing, "Root.d_list")].
  Example from_d_str_allocates_all :
    forall tgt, tgt = r_nil \/ tgt = r_b \/ tgt = r_bc \/ tgt = r_all ->
    copy_from std_hook_from m3 tf_d tgt
    = Ok (root (Some (bset 0 "" (Some (cset "" (Some (dset "z" None)))))), missing5).
  Proof. intros tgt [-> | [-> | [-> | ->]]]; vm_compute; reflexivity. Qed.
  (* only c_str known: B and C allocated, D stays nil; everything null: B is reset *)
  Definition tf_c := VObj (msg_ty m3) false false (Some [("c_str", kS "y"); ("d_str", nS)]).
  Example from_c_str_allocates_two :
    exists ds, copy_from std_hook_from m3 tf_c r_all = Ok (root (Some (bset 0 "" (Some (cset "y" None)))), ds).
  Proof. eexists. vm_compute. reflexivity. Qed.
  Example from_nulls_resets_b :
    exists ds, copy_from std_hook_from m3 (out3 (kI 7) nI nS nS nS (VList (TyPrim KStr) true false None)) r_all
               = Ok (r_nil, ds).
  Proof. eexists. vm_compute. reflexivity. Qed.
  Example round_trip_all :
    copy_from std_hook_from m3
      (match copy_to std_hook_to m3 r_all empty3 with Ok (v, _) => v | Panic => VNil end) r_nil = Ok (r_all, []).
  Proof. vm_compute. reflexivity. Qed.

  (* ---- the hypotheses of the theorems hold on the example ---- *)
  Ltac solve_cshape :=
    cbn [cshape]; eexists; split; [reflexivity|];
    first [ (intros x [<-|[]]; simpl; tauto)
          | (split; [solve_cshape|first [left; reflexivity|right; eexists; split; [reflexivity|solve_cshape]]]) ].
  Ltac solve_zcompat :=
    simpl; repeat first [exact I | (let E := fresh "E" in intros E; first [discriminate E|split; [reflexivity|]])].

  Example m3_zeros : embc_zeros m3.
  Proof.
    split.
    - intros f p z If P.
      repeat (destruct If as [<-|If];
              [vm_compute in P; first [discriminate P|inversion P; subst p z; split;
               [cbn [f_info fi_inner fi_name]; solve_cshape
               |intros g Ig; repeat (destruct Ig as [<-|Ig]; [solve_zcompat|]); destruct Ig]]|]).
      destruct If.
    - repeat apply Forall_cons; try apply Forall_nil; exact I.
  Qed.

  Example m3_keys : forall b, emb_keys m3 (root b).
  Proof.
    intros b. eexists. split; [reflexivity|]. split; [intros h []|]. split.
    - intros f If P. repeat (destruct If as [<-|If]; [vm_compute in P |- *; try discriminate P; tauto|]). destruct If.
    - intros p Ip. vm_compute in Ip |- *. tauto.
  Qed.

  Ltac solve_broken := solve [cbn [broken]; repeat first [left; reflexivity|right; eexists; split; [reflexivity|]]].
  Ltac solve_reaches := cbn [reaches]; repeat (eexists; split; [reflexivity|]); reflexivity.
  Ltac field_typed :=
    unfold ceftyped; cbn [f_info f_msg fi_via];
    first [ (cbn; eexists; split; reflexivity)
          | (left; split; [solve_broken|exact I])
          | (right; eexists; split; [solve_reaches|]; cbn; eexists; split; [reflexivity|];
             first [reflexivity
                   | (eexists; split; [reflexivity|]; intros l E; first [discriminate E|inversion E; subst l; repeat constructor])]) ].

  Example m3_typed : embc_typed m3 r_nil /\ embc_typed m3 r_b /\ embc_typed m3 r_bc /\ embc_typed m3 r_all.
  Proof.
    repeat split; (eexists; split; [reflexivity|]); repeat apply Forall_cons; try apply Forall_nil; field_typed.
  Qed.

  (* ---- the theorems, instantiated ---- *)
  Example thm_to_partial_chain hook :
    exists attrs, copy_to hook m3 r_bc empty3 = Ok (VObj (msg_ty m3) false false (Some attrs), []).
  Proof.
    destruct (copy_to_total_chain_partial hook m3 r_bc (proj1 m3_ok) (proj1 (proj2 (proj2 m3_typed)))) as (attrs & E & _).
    eauto.
  Qed.

  Example thm_to_broken hook t ds :
    copy_to hook m3 r_bc empty3 = Ok (t, ds) ->
    exists attrs, t = VObj (msg_ty m3) false false (Some attrs)
                  /\ lookup "d_str" attrs = Some nS /\ lookup "d_list" attrs = Some nL.
  Proof.
    intros H.
    destruct (copy_to_broken_chain_renders_null hook m3 r_bc t ds (proj1 m3_ok) (proj1 (proj2 (proj2 m3_typed))) H)
      as (attrs & -> & _ & N).
    exists attrs. split; [reflexivity|]. split.
    - destruct (N (f_info (nth 4 (m_fields m3) (Field (f_info (hd (placeholder_field "") [])) None))) None) as (ty & FT & L & _).
      + right. right. right. right. left. reflexivity.
      + solve_broken.
      + intros K. discriminate K.
      + vm_compute in FT. inversion FT; subst ty. exact L.
    - destruct (N (f_info (nth 5 (m_fields m3) (Field (f_info (hd (placeholder_field "") [])) None))) None) as (ty & FT & L & _).
      + right. right. right. right. right. left. reflexivity.
      + solve_broken.
      + intros K. discriminate K.
      + vm_compute in FT. inversion FT; subst ty. exact L.
  Qed.

  Example thm_from hook a n u at0 b :
    attrs_typed at0 = true ->
    exists obj' ds, copy_from hook m3 (VObj a n u at0) (root b) = Ok (obj', ds) /\ emb_keys m3 obj'.
  Proof.
    intros T. destruct (copy_from_total_chain_partial hook m3 a n u at0 (root b) (proj1 m3_ok) m3_zeros T (m3_keys b))
      as (obj' & ds & E & K & _). eauto.
  Qed.

  (* whatever else the (payload-typed) object holds: a known d_str sets B, C and D *)
  Example thm_from_d_str hook a n u l b s :
    attrs_typed (Some l) = true -> lookup "d_str" l = Some (kS s) ->
    exists obj' ds, copy_from hook m3 (VObj a n u (Some l)) (root b) = Ok (obj', ds)
                    /\ chain_nil obj' ["B"; "C"; "D"] = Ok false.
  Proof.
    intros T L. destruct (copy_from_total_chain_partial hook m3 a n u (Some l) (root b) (proj1 m3_ok) m3_zeros T (m3_keys b))
      as (obj' & ds & E & _ & _ & A).
    exists obj', ds. split; [exact E|].
    destruct (A (f_info (nth 4 (m_fields m3) (Field (f_info (hd (placeholder_field "") [])) None))) None "B" zB (kS s)) as [C _].
    - right. right. right. right. left. reflexivity.
    - reflexivity.
    - exact L.
    - reflexivity.
    - exact C.
  Qed.
End ChainExample.

Print Assumptions chain_nil_spec.
Print Assumptions alloc_chain_ok.
Print Assumptions alloc_chain_idem.
Print Assumptions alloc_chain_preserves.
Print Assumptions read_source_chain.
Print Assumptions copy_to_total_chain_partial.
Print Assumptions copy_to_broken_chain_renders_null.
Print Assumptions copy_from_total_chain_partial.
