(* C11: exclusion is surgical. Excluding a field is the same as deleting it from the descriptor, and
   nothing else changes -- up to two precise deviations, each with a computed counterexample in
   ExclExamples below:
   1. the zero values of the Go structs carried by the IR (m_zero, fi_parent, fi_inner): the Go struct
      keeps the excluded field, the struct of the descriptor without the field does not. The theorems are
      stated up to these (ir_eq_mod_zero / rz_msg erase_zero) and literally, with the zero values of the
      "deleted" side recomputed from the original descriptors (rz_msg (zero_from table));
   2. the entry "D.f" of the exclusion list is also a path: below the root D it also hits the field f of
      a message embedded in D (hypothesis root_safe; okp for the nested occurrences).
   A message that loses its last field is no exception: all fields excluded and no field declared both give
   the placeholder field and m_empty = true (ExclExamples.emptied_same).
   Message-qualified form: build_field_list_excl(_lit), build_message_excl(_top/_cfg/_cfg_lit),
   ok_roots_excl(_lit), schemas_excl, converters_excl. Path form: build_message_off_path (nothing else
   changes), build_message_at_path (the occurrence is built from its descriptor without the field). *)
From Coq Require Import List String Ascii Bool ZArith Lia.
From PGT Require Import Base.Strs Base.AList Model.Vals Model.IR Model.Names Model.Desc Model.Build Model.Schema
Model.CopyTo Model.CopyFrom.
From PGT Require Import Proofs.FrontEndProofs Proofs.BuildProofs Proofs.NamesProofs.
Import ListNotations.
Local Open Scope string_scope.

Definition with_exclude (l : list string) (c : config) : config :=
  {| c_types := c_types c; c_duration_custom_type := c_duration_custom_type c; c_exclude := l;
     c_computed := c_computed c; c_required := c_required c; c_sensitive := c_sensitive c;
     c_target_pkg := c_target_pkg c; c_default_pkg := c_default_pkg c; c_sort := c_sort c;
     c_use_state := c_use_state c; c_suffixes := c_suffixes c; c_name_overrides := c_name_overrides c;
     c_validators := c_validators c; c_planmods := c_planmods c; c_time_type := c_time_type c;
     c_duration_type := c_duration_type c; c_injected := c_injected c;
     c_import_overrides := c_import_overrides c; c_custom_types := c_custom_types c |}.


(* the observation record with another exclusion predicate: every other observation is the same *)
Definition with_excl (e : string -> string -> bool) (c : cfg_obs) : cfg_obs :=
  {| o_excluded := e; o_required := o_required c; o_computed := o_computed c; o_sensitive := o_sensitive c;
     o_name_override := o_name_override c; o_validators := o_validators c; o_planmods := o_planmods c;
     o_injected := o_injected c; o_custom_type := o_custom_type c; o_suffix := o_suffix c;
     o_sort := o_sort c; o_use_state := o_use_state c; o_time_type := o_time_type c;
     o_duration_type := o_duration_type c; o_duration_custom_type := o_duration_custom_type c |}.

Lemma obs_of_with_exclude l c : obs_of (with_exclude l c) = with_excl (flag l) (obs_of c).
Proof. reflexivity. Qed.

(* deleting from a descriptor every field whose message-qualified name is the key *)
Definition keep_field (K : string) (m : mdesc) (g : fdesc) : bool :=
  negb (String.eqb (md_name m ++ "." ++ fd_name g) K).

Definition del_key (K : string) (m : mdesc) : mdesc :=
  {| md_name := md_name m; md_comment := md_comment m; md_oneofs := md_oneofs m;
     md_fields := filter (keep_field K m) (md_fields m) |}.

(* the same, addressed as field [fn] of the messages named [Dn] *)
Definition del_field (Dn fn : string) (m : mdesc) : mdesc :=
  if String.eqb (md_name m) Dn then
    {| md_name := md_name m; md_comment := md_comment m; md_oneofs := md_oneofs m;
       md_fields := filter (fun g => negb (String.eqb (fd_name g) fn)) (md_fields m) |}
  else m.

Definition del_dep (K : string) (x : depfile) : depfile :=
  {| dep_name := dep_name x; dep_msgs := map (del_key K) (dep_msgs x) |}.

Definition del_file (K : string) (f : file) : file :=
  {| f_name := f_name f; f_package := f_package f; f_gopkg := f_gopkg f; f_enums := f_enums f;
     f_msgs := map (del_key K) (f_msgs f); f_deps := map (del_dep K) (f_deps f) |}.

Section RZ.
  Variable Z : string -> goval -> goval.      (* name of the Go struct, old zero value |-> new zero value *)
  Definition rz_pair (p : string * goval) : string * goval := (fst p, Z (fst p) (snd p)).
  Definition rz_info (i : finfo) : finfo :=
    {| fi_name := fi_name i; fi_snake := fi_snake i; fi_path := fi_path i; fi_kind := fi_kind i;
       fi_tk := fi_tk i; fi_cast := fi_cast i; fi_nullable := fi_nullable i; fi_zero := fi_zero i;
       fi_placeholder := fi_placeholder i; fi_oneof := fi_oneof i; fi_via := fi_via i;
       fi_parent := option_map rz_pair (fi_parent i);
       fi_inner := map rz_pair (fi_inner i);
       fi_required := fi_required i; fi_computed := fi_computed i; fi_sensitive := fi_sensitive i;
       fi_validators := fi_validators i; fi_planmods := fi_planmods i; fi_comment := fi_comment i;
       fi_suffix := fi_suffix i |}.
  Fixpoint rz_field (f : field) : field :=
    match f with
    | Field i om => Field (rz_info i) (match om with Some m => Some (rz_msg m) | None => None end)
    end
  with rz_msg (m : message) : message :=
    match m with
    | Msg n fs os inj e z => Msg n (map rz_field fs) os inj e (Z n z)
    end.
End RZ.

Definition bmap {A B} (g : A -> B) (r : bres A) : bres B :=
  match r with BOk x => BOk (g x) | BErr e => BErr e | BFuel => BFuel end.


Definition rz_roots (Z : string -> goval -> goval) (l : list (string * message)) : list (string * message) :=
  map (fun p => (fst p, rz_msg Z (snd p))) l.

(* ------------------------------------------------------------------------------------- *)
(* strings *)

Lemma sapp_assoc (a b c : string) : (a ++ b) ++ c = a ++ (b ++ c).
Proof. induction a as [|x a IH]; cbn; [reflexivity|now rewrite IH]. Qed.

Lemma sapp_inv_head (a b c : string) : a ++ b = a ++ c -> b = c.
Proof. induction a as [|x a IH]; cbn; intros H; [exact H|]. injection H as H. now apply IH. Qed.

Fixpoint nodotb (s : string) : bool :=
  match s with
  | EmptyString => true
  | String c r => negb (Ascii.eqb c "."%char) && nodotb r
  end.

Lemma nodotb_spec s : nodotb s = true -> forall a b, s <> a ++ "." ++ b.
Proof.
  induction s as [|c r IH]; intros H a b E.
  - destruct a; discriminate.
  - cbn in H. apply andb_true_iff in H. destruct H as (Hc & Hr).
    destruct a as [|x a]; cbn in E; injection E as Ec Er.
    + subst c. discriminate.
    + now apply (IH Hr a b).
Qed.

Lemma dot_split_inj a b s t :
  nodotb a = true -> nodotb b = true -> a ++ "." ++ s = b ++ "." ++ t -> a = b /\ s = t.
Proof.
  revert b. induction a as [|x a IH]; intros [|y b] Ha Hb E; cbn in *.
  - injection E as E. auto.
  - injection E as Ec Er. subst y. discriminate.
  - injection E as Ec Er. subst x. discriminate.
  - injection E as Ec Er. subst y.
    apply andb_true_iff in Ha. apply andb_true_iff in Hb.
    destruct (IH b (proj2 Ha) (proj2 Hb) Er) as (-> & ->). auto.
Qed.

(* a message path from which no field path equal to the key can be formed *)
Definition okp (K p : string) : Prop := p <> K /\ forall s, p ++ "." ++ s <> K.

Lemma okp_ext K p g : okp K p -> okp K (p ++ "." ++ g).
Proof.
  intros (H1 & H2). split; [apply H2|].
  intros s. rewrite sapp_assoc. exact (H2 (g ++ "." ++ s)).
Qed.

(* ------------------------------------------------------------------------------------- *)
(* generalities on bres, sorting and the zero-rewriting maps *)

Lemma bbind_ret {A} (r : bres A) : bbind r (fun y => BOk y) = r.
Proof. now destruct r. Qed.

Lemma insert_by_map {A} (key : A -> string) (g : A -> A) x l :
  (forall a, key (g a) = key a) -> insert_by key (g x) (map g l) = map g (insert_by key x l).
Proof.
  intros Hk. induction l as [|y r IH]; cbn; [reflexivity|].
  rewrite !Hk. destruct (str_ltb (key y) (key x)); cbn; [now rewrite IH|reflexivity].
Qed.

Lemma sort_by_map {A} (key : A -> string) (g : A -> A) l :
  (forall a, key (g a) = key a) -> sort_by key (map g l) = map g (sort_by key l).
Proof.
  intros Hk. induction l as [|x r IH]; cbn; [reflexivity|].
  fold (sort_by key (map g r)). fold (sort_by key r). rewrite IH. now apply insert_by_map.
Qed.

(* what build_view does to the fields of a nullable embedded message *)
Definition embed_field (n : string) (z : goval) (c : field) : field :=
  match c with
  | Field ci cm =>
      Field {| fi_name := fi_name ci; fi_snake := fi_snake ci; fi_path := fi_path ci;
               fi_kind := fi_kind ci; fi_tk := fi_tk ci; fi_cast := fi_cast ci;
               fi_nullable := fi_nullable ci; fi_zero := fi_zero ci;
               fi_placeholder := fi_placeholder ci; fi_oneof := fi_oneof ci;
               fi_via := n :: fi_via ci;
               fi_parent := Some (n, z);
               fi_inner := match fi_parent ci with Some pq => pq :: fi_inner ci | None => [] end;
               fi_required := fi_required ci; fi_computed := fi_computed ci;
               fi_sensitive := fi_sensitive ci; fi_validators := fi_validators ci;
               fi_planmods := fi_planmods ci; fi_comment := fi_comment ci;
               fi_suffix := fi_suffix ci |} cm
  end.

Section RZFacts.
  Variable Z : string -> goval -> goval.

  Lemma rz_field_name f : fi_name (f_info (rz_field Z f)) = fi_name (f_info f).
  Proof. now destruct f. Qed.

  Lemma rz_embed_field n z c :
    rz_field Z (embed_field n z c) = embed_field n (Z n z) (rz_field Z c).
  Proof.
    destruct c as [ci cm]. cbn [embed_field rz_field]. f_equal.
    unfold rz_info. cbn [fi_name fi_snake fi_path fi_kind fi_tk fi_cast fi_nullable fi_zero fi_placeholder
      fi_oneof fi_via fi_parent fi_inner fi_required fi_computed fi_sensitive fi_validators fi_planmods
      fi_comment fi_suffix option_map rz_pair fst snd].
    destruct (fi_parent ci) as [pq|]; reflexivity.
  Qed.

  Lemma rz_field_eq i om : rz_field Z (Field i om) = Field (rz_info Z i) (option_map (rz_msg Z) om).
  Proof. destruct om; reflexivity. Qed.

  Lemma rz_msg_eq n fs os inj e z :
    rz_msg Z (Msg n fs os inj e z) = Msg n (map (rz_field Z) fs) os inj e (Z n z).
  Proof. reflexivity. Qed.

  Lemma rz_msg_fields m : m_fields (rz_msg Z m) = map (rz_field Z) (m_fields m).
  Proof. now destruct m. Qed.
  Lemma rz_msg_name m : m_name (rz_msg Z m) = m_name m.
  Proof. now destruct m. Qed.
  Lemma rz_msg_zero m : m_zero (rz_msg Z m) = Z (m_name m) (m_zero m).
  Proof. now destruct m. Qed.

  Lemma rz_embed_map m :
    map (rz_field Z) (map (embed_field (m_name m) (m_zero m)) (m_fields m)) =
    map (embed_field (m_name (rz_msg Z m)) (m_zero (rz_msg Z m))) (m_fields (rz_msg Z m)).
  Proof.
    rewrite rz_msg_fields, rz_msg_name, rz_msg_zero, !map_map.
    apply map_ext. intros c. apply rz_embed_field.
  Qed.
End RZFacts.

(* ------------------------------------------------------------------------------------- *)
(* the core: excluding the key = deleting the fields it names, up to the Go zero values *)

Section Excl.
  Variable cfg : cfg_obs.
  Variable e' : string -> string -> bool.
  Variable K : string.
  Variable table : list mdesc.
  Variables Z1 Z2 : string -> goval -> goval.

  Let cfg' := with_excl e' cfg.
  Let table' := map (del_key K) table.

  Lemma find_msg_del mn : find_msg table' mn = option_map (del_key K) (find_msg table mn).
  Proof.
    unfold find_msg, table'. induction table as [|m r IH]; cbn [map find]; [reflexivity|].
    cbn [del_key md_name]. destruct (String.eqb (md_name m) mn); [reflexivity|exact IH].
  Qed.

  Lemma find_msg_in mn d : find_msg table mn = Some d -> In d table.
  Proof. unfold find_msg. intros H. now apply find_some in H. Qed.

  Lemma build_view_rz rec rec' d d' v b tn fp o :
    o_excluded cfg tn fp = e' tn fp ->
    md_oneofs d = md_oneofs d' ->
    (forall d1, In d1 table ->
       bmap (rz_msg Z1) (rec d1 fp) = bmap (rz_msg Z2) (rec' (del_key K d1) fp)) ->
    bmap (map (rz_field Z1)) (build_view cfg table rec d v b tn fp o) =
    bmap (map (rz_field Z2)) (build_view cfg' table' rec' d' v b tn fp o).
  Proof.
    intros Hx Ho Hrec. unfold build_view.
    change (o_excluded cfg' tn fp) with (e' tn fp). rewrite <- Hx.
    destruct (o_excluded cfg tn fp); [reflexivity|].
    change (terraform_type cfg' v fp) with (terraform_type cfg v fp).
    destruct (terraform_type cfg v fp) as [[[[im tk] gs] zr]|err|]; cbn [bbind bmap]; [|reflexivity|reflexivity].
    rewrite <- Ho.
    assert (Hres : forall mn,
      (match find_msg table mn with
       | Some d0 => bdo m' <- rec d0 fp; BOk (Some m')
       | None => BErr ("failed to resolve message " ++ mn)
       end = BFuel /\
       match find_msg table' mn with
       | Some d0 => bdo m' <- rec' d0 fp; BOk (Some m')
       | None => BErr ("failed to resolve message " ++ mn)
       end = BFuel) \/
      (exists er,
       match find_msg table mn with
       | Some d0 => bdo m' <- rec d0 fp; BOk (Some m')
       | None => BErr ("failed to resolve message " ++ mn)
       end = BErr er /\
       match find_msg table' mn with
       | Some d0 => bdo m' <- rec' d0 fp; BOk (Some m')
       | None => BErr ("failed to resolve message " ++ mn)
       end = BErr er) \/
      (exists x x', rz_msg Z1 x = rz_msg Z2 x' /\
       match find_msg table mn with
       | Some d0 => bdo m' <- rec d0 fp; BOk (Some m')
       | None => BErr ("failed to resolve message " ++ mn)
       end = BOk (Some x) /\
       match find_msg table' mn with
       | Some d0 => bdo m' <- rec' d0 fp; BOk (Some m')
       | None => BErr ("failed to resolve message " ++ mn)
       end = BOk (Some x'))).
    { intros mn. rewrite find_msg_del.
      destruct (find_msg table mn) as [d1|] eqn:Ef; cbn [option_map].
      - pose proof (Hrec d1 (find_msg_in _ _ Ef)) as H1.
        destruct (rec d1 fp) as [x|er|], (rec' (del_key K d1) fp) as [x'|er'|];
          cbn [bmap] in H1; try discriminate; cbn [bbind].
        + injection H1 as H1. right. right. exists x, x'. auto.
        + injection H1 as H1. subst er'. right. left. exists er. auto.
        + left. auto.
      - right. left. eexists. split; reflexivity. }
    destruct (im && negb (v_is_map v)) eqn:E1; cbn [andb].
    - destruct (v_type v) as [s|en|mn| | | |kt vt] eqn:Et; cbn [bbind].
      + reflexivity.
      + reflexivity.
      + destruct (Hres mn) as [(H1 & H2)|[(er & H1 & H2)|(x & x' & Hxx & H1 & H2)]]; rewrite H1, H2; cbn [bbind bmap];
          [reflexivity|reflexivity|].
        destruct (v_embed v); [destruct (v_star v); cbn [negb]|]; cbn [bbind bmap].
        * change (BOk (map (rz_field Z1) (map (embed_field (m_name x) (m_zero x)) (m_fields x))) =
                  BOk (map (rz_field Z2) (map (embed_field (m_name x') (m_zero x')) (m_fields x')))).
          now rewrite !rz_embed_map, Hxx.
        * now rewrite <- !rz_msg_fields, Hxx.
        * cbn [map]. rewrite !rz_field_eq. cbn [option_map]. rewrite Hxx. reflexivity.
      + reflexivity.
      + reflexivity.
      + reflexivity.
      + destruct o as [f|]; [|reflexivity].
        destruct kt as [s| | | | | |]; try reflexivity.
        destruct s; try reflexivity.
        change (terraform_type cfg' (view_of_map_value f vt) fp) with (terraform_type cfg (view_of_map_value f vt) fp).
        destruct (terraform_type cfg (view_of_map_value f vt) fp) as [[[[vmsg vtk] vgs] vz]|er|];
          cbn [bbind bmap]; [|reflexivity|reflexivity].
        destruct vmsg; [|reflexivity].
        destruct vt as [s|en|mn| | | |kt' vt']; try reflexivity.
        destruct (Hres mn) as [(H1 & H2)|[(er & H1 & H2)|(x & x' & Hxx & H1 & H2)]]; rewrite H1, H2; cbn [bbind bmap];
          [reflexivity|reflexivity|].
        cbn [map]. rewrite !rz_field_eq. cbn [option_map]. rewrite Hxx. reflexivity.
    - cbn [bbind].
      destruct (v_type v) as [s|en|mn| | | |kt vt] eqn:Et; cbn [bbind]; try reflexivity.
      destruct o as [f|]; [|reflexivity].
      destruct kt as [s| | | | | |]; try reflexivity.
      destruct s; try reflexivity.
      change (terraform_type cfg' (view_of_map_value f vt) fp) with (terraform_type cfg (view_of_map_value f vt) fp).
        destruct (terraform_type cfg (view_of_map_value f vt) fp) as [[[[vmsg vtk] vgs] vz]|er|];
        cbn [bbind bmap]; [|reflexivity|reflexivity].
      destruct vmsg; [|reflexivity].
      destruct vt as [s|en|mn| | | |kt' vt']; try reflexivity.
      destruct (Hres mn) as [(H1 & H2)|[(er & H1 & H2)|(x & x' & Hxx & H1 & H2)]]; rewrite H1, H2; cbn [bbind bmap];
        [reflexivity|reflexivity|].
      cbn [map]. rewrite !rz_field_eq. cbn [option_map]. rewrite Hxx. reflexivity.
  Qed.

  (* the key is excluded by its message-qualified form; on every other key the two agree, at least
     on the paths from which the key cannot be formed *)
  Hypothesis HK : forall p, o_excluded cfg K p = true.
  Hypothesis Hagree : forall tn p, tn <> K -> okp K p -> o_excluded cfg tn p = e' tn p.
  (* the two rewritings of the Go zero values agree on the zero values of the two tables *)
  Hypothesis HZ : forall n,
    Z1 n (zero_struct table (S (List.length table)) n) = Z2 n (zero_struct table' (S (List.length table')) n).

  Definition fpath_of (path : string) (g : fdesc) : string :=
    if fd_embed g then path else path ++ "." ++ fd_name g.

  (* 1. field level *)
  Lemma build_field_list_excl rec rec' d path l :
    (forall d1 p, In d1 table -> okp K p ->
       bmap (rz_msg Z1) (rec d1 p) = bmap (rz_msg Z2) (rec' (del_key K d1) p)) ->
    (forall g, In g l -> md_name d ++ "." ++ fd_name g <> K -> okp K (fpath_of path g)) ->
    bmap (map (rz_field Z1)) (build_field_list cfg table rec d path l) =
    bmap (map (rz_field Z2)) (build_field_list cfg' table' rec' (del_key K d) path (filter (keep_field K d) l)).
  Proof.
    intros Hrec. induction l as [|g r IH]; intros Hl; [reflexivity|].
    assert (IH' := IH (fun g0 Hg0 => Hl g0 (or_intror Hg0))). clear IH.
    rewrite build_field_list_cons. cbn [filter]. unfold keep_field at 1.
    destruct (String.eqb_spec (md_name d ++ "." ++ fd_name g) K) as [E|N]; cbn [negb].
    - rewrite E, build_view_excluded by apply HK. cbn [bbind]. rewrite bbind_ret. exact IH'.
    - rewrite build_field_list_cons. cbn [del_key md_name].
      pose proof (Hl g (or_introl eq_refl) N) as Hp. fold (fpath_of path g).
      pose proof (build_view_rz rec rec' d (del_key K d) (view_of_field g) false
                    (md_name d ++ "." ++ fd_name g) (fpath_of path g) (Some g)
                    (Hagree _ _ N Hp) eq_refl (fun d1 H1 => Hrec d1 _ H1 Hp)) as Hv.
      change (md_name (del_key K d)) with (md_name d) in IH'.
      destruct (build_view cfg table rec d (view_of_field g) false _ _ (Some g)) as [x|er|],
               (build_view cfg' table' rec' (del_key K d) (view_of_field g) false _ _ (Some g)) as [x'|er'|];
        cbn [bmap] in Hv; try discriminate; cbn [bbind bmap]; try exact Hv.
      injection Hv as Hv.
      destruct (build_field_list cfg table rec d path r) as [y|er|],
               (build_field_list cfg' table' rec' (del_key K d) path (filter (keep_field K d) r)) as [y'|er'|];
        cbn [bmap] in IH'; try discriminate; cbn [bbind bmap]; try exact IH'.
      injection IH' as IH'. now rewrite !map_app, Hv, IH'.
  Qed.

  (* 2. message level: one step *)
  Lemma build_message_step fuel :
    (forall d p, In d table -> okp K p ->
       bmap (rz_msg Z1) (build_message cfg table fuel d p) =
       bmap (rz_msg Z2) (build_message cfg' table' fuel (del_key K d) p)) ->
    forall d path, In d table ->
      (forall g, In g (md_fields d) -> md_name d ++ "." ++ fd_name g <> K -> okp K (fpath_of path g)) ->
      bmap (rz_msg Z1) (build_message cfg table (S fuel) d path) =
      bmap (rz_msg Z2) (build_message cfg' table' (S fuel) (del_key K d) path).
  Proof.
    intros IH d path Hd Hl. rewrite !build_message_S.
    pose proof (build_field_list_excl _ _ d path (md_fields d) IH Hl) as HL.
    change (md_fields (del_key K d)) with (filter (keep_field K d) (md_fields d)).
    change (md_name (del_key K d)) with (md_name d). change (md_oneofs (del_key K d)) with (md_oneofs d).
    change (o_injected cfg' path) with (o_injected cfg path). change (o_sort cfg') with (o_sort cfg).
    destruct (build_field_list cfg table (build_message cfg table fuel) d path (md_fields d)) as [y|er|],
             (build_field_list cfg' table' (build_message cfg' table' fuel) (del_key K d) path
                               (filter (keep_field K d) (md_fields d))) as [y'|er'|];
      cbn [bmap] in HL; try discriminate; cbn [bbind bmap];
      [|injection HL as HL; now rewrite HL|reflexivity].
    injection HL as HL. cbn [rz_msg]. rewrite HZ.
    (* the two lists of fields are empty together: the placeholder on both sides, or none *)
    destruct y as [|c r], y' as [|c' r']; try discriminate HL; [reflexivity|].
    f_equal. f_equal.
    destruct (o_sort cfg); [|exact HL].
    rewrite <- (sort_by_map _ (rz_field Z1)), <- (sort_by_map _ (rz_field Z2)) by apply rz_field_name.
    now rewrite HL.
  Qed.

  (* at a path from which the key cannot be formed, for every message of the table, at every depth *)
  Theorem build_message_excl fuel d path :
    In d table -> okp K path ->
    bmap (rz_msg Z1) (build_message cfg table fuel d path) =
    bmap (rz_msg Z2) (build_message cfg' table' fuel (del_key K d) path).
  Proof.
    revert d path. induction fuel as [|fuel IH]; intros d path Hd Hp; [reflexivity|].
    apply build_message_step; [exact IH|exact Hd|].
    intros g _ _. unfold fpath_of. destruct (fd_embed g); [exact Hp|now apply okp_ext].
  Qed.

  (* at any path, when the fields of the message itself do not collide with the key *)
  Theorem build_message_excl_top fuel d path :
    In d table ->
    (forall g, In g (md_fields d) -> md_name d ++ "." ++ fd_name g <> K -> okp K (fpath_of path g)) ->
    bmap (rz_msg Z1) (build_message cfg table fuel d path) =
    bmap (rz_msg Z2) (build_message cfg' table' fuel (del_key K d) path).
  Proof.
    intros Hd Hl. destruct fuel as [|fuel]; [reflexivity|].
    apply build_message_step; [|exact Hd|exact Hl].
    intros d1 p H1 Hp. now apply build_message_excl.
  Qed.
End Excl.

(* ------------------------------------------------------------------------------------- *)
(* the two readings of the zero-rewriting: forgetting the zero values, and recomputing them *)

Definition erase_zero : string -> goval -> goval := fun _ _ => GStruct [].
Definition keep_zero : string -> goval -> goval := fun _ z => z.
Definition zero_from (table : list mdesc) : string -> goval -> goval :=
  fun n _ => zero_struct table (S (List.length table)) n.

(* equality of two IR messages up to the zero values of the Go structs they carry
   (m_zero, and the zero values inside fi_parent and fi_inner) *)
Definition ir_eq_mod_zero (m m' : message) : Prop := rz_msg erase_zero m = rz_msg erase_zero m'.

Lemma rz_info_keep i : rz_info keep_zero i = i.
Proof.
  destruct i as [a1 a2 a3 a4 a5 a6 a7 a8 a9 a10 a11 par inn a14 a15 a16 a17 a18 a19 a20].
  unfold rz_info. cbn. f_equal.
  - destruct par as [[n z]|]; reflexivity.
  - induction inn as [|[n z] r IH]; cbn; [reflexivity|now rewrite IH].
Qed.

Lemma rz_msg_keep m : rz_msg keep_zero m = m.
Proof.
  apply (message_ind' (fun f => rz_field keep_zero f = f) (fun m => rz_msg keep_zero m = m)).
  - intros i. now rewrite rz_field_eq, rz_info_keep.
  - intros i m0 H. rewrite rz_field_eq, rz_info_keep. cbn [option_map]. now rewrite H.
  - intros n fs os inj e z H. rewrite rz_msg_eq. unfold keep_zero at 2. f_equal.
    induction H as [|f r Hf Hr IH]; cbn [map]; [reflexivity|]. now rewrite Hf, IH.
Qed.

Lemma bmap_keep (r : bres message) : bmap (rz_msg keep_zero) r = r.
Proof. destruct r; cbn [bmap]; [now rewrite rz_msg_keep|reflexivity|reflexivity]. Qed.

(* ------------------------------------------------------------------------------------- *)
(* configurations: the exclusion list holds the key, the other one does not *)

Section ExclCfg.
  Variable cfg : config.
  Variable l' : list string.
  Variable K : string.
  Hypothesis Hl : forall x, In x (c_exclude cfg) <-> x = K \/ In x l'.

  Lemma excl_key p : o_excluded (obs_of cfg) K p = true.
  Proof. cbn [obs_of o_excluded]. apply flag_iff. left. apply Hl. now left. Qed.

  Lemma excl_agree tn p : tn <> K -> okp K p -> o_excluded (obs_of cfg) tn p = flag l' tn p.
  Proof.
    intros Ht (Hp & _). cbn [obs_of o_excluded]. apply eq_iff_eq_true. rewrite !flag_iff, !Hl. tauto.
  Qed.

  Variable table : list mdesc.

  (* 2. message level, up to the zero values *)
  Theorem build_message_excl_cfg fuel d path :
    In d table -> okp K path ->
    bmap (rz_msg erase_zero) (build_message (obs_of cfg) table fuel d path) =
    bmap (rz_msg erase_zero)
         (build_message (obs_of (with_exclude l' cfg)) (map (del_key K) table) fuel (del_key K d) path).
  Proof.
    intros Hd Hp. rewrite obs_of_with_exclude.
    apply build_message_excl; auto using excl_key, excl_agree.
  Qed.

  (* 2'. literally: excluding = deleting, then giving the Go structs their fields back *)
  Theorem build_message_excl_cfg_lit fuel d path :
    In d table -> okp K path ->
    build_message (obs_of cfg) table fuel d path =
    bmap (rz_msg (zero_from table))
         (build_message (obs_of (with_exclude l' cfg)) (map (del_key K) table) fuel (del_key K d) path).
  Proof.
    intros Hd Hp. rewrite obs_of_with_exclude, <- (bmap_keep (build_message (obs_of cfg) table fuel d path)).
    apply build_message_excl; auto using excl_key, excl_agree.
  Qed.

  (* the message that declares the field, built at any path: its other fields must not collide *)
  Theorem build_message_excl_cfg_top fuel d path :
    In d table ->
    (forall g, In g (md_fields d) -> md_name d ++ "." ++ fd_name g <> K -> okp K (fpath_of path g)) ->
    build_message (obs_of cfg) table fuel d path =
    bmap (rz_msg (zero_from table))
         (build_message (obs_of (with_exclude l' cfg)) (map (del_key K) table) fuel (del_key K d) path).
  Proof.
    intros Hd Hp. rewrite obs_of_with_exclude, <- (bmap_keep (build_message (obs_of cfg) table fuel d path)).
    apply build_message_excl_top; auto using excl_key, excl_agree.
  Qed.
End ExclCfg.

(* ------------------------------------------------------------------------------------- *)
(* the key "D.f" when names are identifiers (no dot): exactly field f of the messages named D *)

Lemma filter_all {A} (p : A -> bool) l : (forall x, In x l -> p x = true) -> filter p l = l.
Proof.
  induction l as [|x r IH]; intros H; cbn; [reflexivity|].
  rewrite (H x (or_introl eq_refl)), IH; [reflexivity|]. intros y Hy. apply H. now right.
Qed.

Lemma del_key_field Dn fn m :
  nodotb Dn = true -> nodotb (md_name m) = true ->
  del_key (Dn ++ "." ++ fn) m = del_field Dn fn m.
Proof.
  intros HD Hm. unfold del_key, del_field.
  destruct (String.eqb_spec (md_name m) Dn) as [E|N].
  - f_equal. apply filter_ext. intros g. unfold keep_field. rewrite E. f_equal.
    destruct (String.eqb_spec (fd_name g) fn) as [->|N]; [apply String.eqb_refl|].
    apply String.eqb_neq. intros H. apply sapp_inv_head in H. now injection H.
  - rewrite filter_all; [now destruct m|].
    intros g _. unfold keep_field. apply negb_true_iff, String.eqb_neq. intros H.
    now destruct (dot_split_inj _ _ _ _ Hm HD H).
Qed.

(* a root is safe when the key, read as a path, cannot address one of its other fields *)
Definition root_safe (K : string) (d : mdesc) : Prop :=
  forall g, In g (md_fields d) -> md_name d ++ "." ++ fd_name g <> K -> okp K (fpath_of (md_name d) g).

(* a root with another name *)
Lemma root_safe_other Dn fn d :
  nodotb Dn = true -> nodotb (md_name d) = true -> md_name d <> Dn -> root_safe (Dn ++ "." ++ fn) d.
Proof.
  intros HD Hd N.
  assert (Hp : okp (Dn ++ "." ++ fn) (md_name d)).
  { split.
    - intros E. now apply (nodotb_spec _ Hd Dn fn).
    - intros s E. now destruct (dot_split_inj _ _ _ _ Hd HD E). }
  intros g _ _. unfold fpath_of. destruct (fd_embed g); [exact Hp|now apply okp_ext].
Qed.

(* the root that declares the field: its other fields are not embedded *)
Lemma root_safe_self Dn fn d :
  md_name d = Dn -> nodotb fn = true ->
  (forall g, In g (md_fields d) -> fd_name g <> fn -> fd_embed g = false) ->
  root_safe (Dn ++ "." ++ fn) d.
Proof.
  intros E Hf Hemb g Hg N. rewrite E in *. unfold fpath_of.
  rewrite (Hemb g Hg) by (intros F; apply N; now rewrite F).
  split; [exact N|]. intros s H. rewrite sapp_assoc in H. apply sapp_inv_head in H.
  injection H as H. symmetry in H. now apply (nodotb_spec _ Hf (fd_name g) s).
Qed.

(* ------------------------------------------------------------------------------------- *)
(* 4. the roots of a file *)

Lemma all_msgs_del K f : all_msgs (del_file K f) = map (del_key K) (all_msgs f).
Proof.
  unfold all_msgs, del_file. cbn [f_deps f_msgs]. rewrite map_app. f_equal.
  induction (f_deps f) as [|x r IH]; cbn [map flat_map]; [reflexivity|].
  now rewrite map_app, IH.
Qed.

Definition oks (l : list (string * bres message)) : list (string * message) :=
  flat_map (fun p => match snd p with BOk m => [(fst p, m)] | _ => [] end) l.

Lemma rz_roots_sort Z l : rz_roots Z (sort_by fst l) = sort_by fst (rz_roots Z l).
Proof. unfold rz_roots. symmetry. now apply sort_by_map. Qed.

Section ExclRoots.
  Variable cfg : config.
  Variable l' : list string.
  Variable K : string.
  Variable f : file.
  Variables Z1 Z2 : string -> goval -> goval.
  Hypothesis Hl : forall x, In x (c_exclude cfg) <-> x = K \/ In x l'.
  Hypothesis Hsafe : forall d, In d (all_msgs f) -> mem_str (md_name d) (c_types cfg) = true -> root_safe K d.
  Hypothesis HZ : forall n,
    Z1 n (zero_struct (all_msgs f) (S (List.length (all_msgs f))) n) =
    Z2 n (zero_struct (map (del_key K) (all_msgs f)) (S (List.length (map (del_key K) (all_msgs f)))) n).

  Lemma ok_roots_excl_gen :
    rz_roots Z1 (ok_roots cfg f) = rz_roots Z2 (ok_roots (with_exclude l' cfg) (del_file K f)).
  Proof.
    unfold ok_roots, build_roots. rewrite all_msgs_del, obs_of_with_exclude.
    cbn [c_sort c_types with_exclude]. fold oks.
    set (table := all_msgs f) in *.
    assert (H : forall l, incl l table ->
      rz_roots Z1 (oks (flat_map (fun d => if mem_str (md_name d) (c_types cfg)
          then [(md_name d, build_message (obs_of cfg) table (S (List.length table)) d (md_name d))]
          else []) l)) =
      rz_roots Z2 (oks (flat_map (fun d => if mem_str (md_name d) (c_types cfg)
          then [(md_name d, build_message (with_excl (flag l') (obs_of cfg)) (map (del_key K) table)
                              (S (List.length (map (del_key K) table))) d (md_name d))]
          else []) (map (del_key K) l)))).
    { induction l as [|d r IH]; intros Hi; [reflexivity|].
      cbn [map flat_map]. unfold oks in *. rewrite !flat_map_app. unfold rz_roots in *. rewrite !map_app.
      rewrite IH by (intros x Hx; apply Hi; now right). f_equal.
      assert (Hd : In d table) by (apply Hi; now left).
      change (md_name (del_key K d)) with (md_name d).
      destruct (mem_str (md_name d) (c_types cfg)) eqn:Hs; [|reflexivity].
      rewrite map_length.
      pose proof (build_message_excl_top (obs_of cfg) (flag l') K table Z1 Z2
                    (excl_key cfg l' K Hl) (excl_agree cfg l' K Hl) HZ
                    (S (List.length table)) d (md_name d) Hd (Hsafe d Hd Hs)) as HB.
      destruct (build_message (obs_of cfg) table (S (List.length table)) d (md_name d)) as [m|er|],
               (build_message (with_excl (flag l') (obs_of cfg)) (map (del_key K) table)
                              (S (List.length table)) (del_key K d) (md_name d)) as [m'|er'|];
        cbn [bmap] in HB; try discriminate; cbn; [|reflexivity|reflexivity].
      injection HB as HB. now rewrite HB. }
    specialize (H table (incl_refl _)). unfold oks in H.
    destruct (c_sort cfg); [|exact H].
    rewrite !rz_roots_sort. unfold oks in H. now rewrite H.
  Qed.
End ExclRoots.

(* up to the zero values *)
Theorem ok_roots_excl cfg l' K f :
  (forall x, In x (c_exclude cfg) <-> x = K \/ In x l') ->
  (forall d, In d (all_msgs f) -> mem_str (md_name d) (c_types cfg) = true -> root_safe K d) ->
  rz_roots erase_zero (ok_roots cfg f) =
  rz_roots erase_zero (ok_roots (with_exclude l' cfg) (del_file K f)).
Proof. intros Hl Hs. now apply ok_roots_excl_gen. Qed.

Lemma rz_roots_keep l : rz_roots keep_zero l = l.
Proof.
  unfold rz_roots. induction l as [|[n m] r IH]; cbn [map fst snd]; [reflexivity|].
  now rewrite rz_msg_keep, IH.
Qed.

(* literally *)
Theorem ok_roots_excl_lit cfg l' K f :
  (forall x, In x (c_exclude cfg) <-> x = K \/ In x l') ->
  (forall d, In d (all_msgs f) -> mem_str (md_name d) (c_types cfg) = true -> root_safe K d) ->
  ok_roots cfg f =
  rz_roots (zero_from (all_msgs f)) (ok_roots (with_exclude l' cfg) (del_file K f)).
Proof.
  intros Hl Hs. rewrite <- (rz_roots_keep (ok_roots cfg f)). now apply ok_roots_excl_gen.
Qed.

(* ------------------------------------------------------------------------------------- *)
(* consequences: the schema does not look at the zero values at all *)

Definition sf_of (h : hook_schema_t) (i : finfo) (oa : option (list sattr)) : sattr :=
  let body :=
    match fi_kind i, oa with
    | PrimitiveKind, _ => SLeaf (prim_ty i)
    | PrimitiveListKind, _ => SLeaf (TyList (prim_ty i))
    | PrimitiveMapKind, _ => SLeaf (TyMap (prim_ty i))
    | ObjectKind, Some a => SNested NSingle a
    | ObjectListKind, Some a => SNested NList a
    | ObjectMapKind, Some a => SNested NMap a
    | _, _ => SNoType
    end in
  let a := SAttr (fi_snake i) (fi_required i) (negb (fi_required i)) (fi_computed i) (fi_sensitive i)
                 (fi_comment i) (fi_validators i) (fi_planmods i) body in
  match fi_kind i with
  | CustomKind => h (fi_suffix i) a
  | _ => a
  end.

Lemma schema_field_eq h i om : schema_field h (Field i om) = sf_of h i (option_map (schema_attrs h) om).
Proof. destruct om; reflexivity. Qed.

Lemma schema_attrs_eq h n fs os inj e z :
  schema_attrs h (Msg n fs os inj e z) =
  fold_left (fun acc j => dict_put (inj_attr j) acc) inj
            (fold_left (fun acc f => dict_put (schema_field h f) acc) fs []).
Proof.
  change (schema_attrs h (Msg n fs os inj e z)) with
    (fold_left (fun acc j => dict_put (inj_attr j) acc) inj
       ((fix go (l : list field) (acc : list sattr) {struct l} : list sattr :=
           match l with
           | [] => acc
           | f :: r => go r (dict_put (schema_field h f) acc)
           end) fs [])).
  reflexivity.
Qed.

Theorem schema_ignores_zero h Z m : schema_attrs h (rz_msg Z m) = schema_attrs h m.
Proof.
  apply (message_ind' (fun f => schema_field h (rz_field Z f) = schema_field h f)
                      (fun m => schema_attrs h (rz_msg Z m) = schema_attrs h m)).
  - intros i. rewrite rz_field_eq, !schema_field_eq. reflexivity.
  - intros i m0 H. rewrite rz_field_eq, !schema_field_eq. cbn [option_map]. rewrite H. reflexivity.
  - intros n fs os inj e z H. rewrite rz_msg_eq, !schema_attrs_eq. f_equal.
    generalize (@nil sattr). induction H as [|f r Hf Hr IH]; intros acc; cbn [map fold_left]; [reflexivity|].
    rewrite Hf. apply IH.
Qed.

Corollary schema_eq_mod_zero h m m' : ir_eq_mod_zero m m' -> schema_attrs h m = schema_attrs h m'.
Proof.
  unfold ir_eq_mod_zero. intros H.
  rewrite <- (schema_ignores_zero h erase_zero m), <- (schema_ignores_zero h erase_zero m'). now rewrite H.
Qed.

Definition schemas (h : hook_schema_t) (l : list (string * message)) : list (string * list sattr) :=
  map (fun p => (fst p, schema_attrs h (snd p))) l.

Lemma schemas_rz h Z l : schemas h (rz_roots Z l) = schemas h l.
Proof.
  unfold schemas, rz_roots. rewrite map_map. apply map_ext. intros [n m]. cbn [fst snd].
  now rewrite schema_ignores_zero.
Qed.

(* the schemas of the generated types: excluding = deleting, for every schema hook *)
Corollary schemas_excl cfg l' K f :
  (forall x, In x (c_exclude cfg) <-> x = K \/ In x l') ->
  (forall d, In d (all_msgs f) -> mem_str (md_name d) (c_types cfg) = true -> root_safe K d) ->
  forall h, schemas h (ok_roots cfg f) = schemas h (ok_roots (with_exclude l' cfg) (del_file K f)).
Proof.
  intros Hl Hs h.
  rewrite <- (schemas_rz h erase_zero (ok_roots cfg f)), (ok_roots_excl cfg l' K f Hl Hs).
  apply schemas_rz.
Qed.

(* the converters are functions of the IR: those of the type with the field excluded are those of the
   type with the field deleted, run on the Go structs of the original descriptors *)
Corollary converters_excl cfg l' K f :
  (forall x, In x (c_exclude cfg) <-> x = K \/ In x l') ->
  (forall d, In d (all_msgs f) -> mem_str (md_name d) (c_types cfg) = true -> root_safe K d) ->
  forall hook_to hook_from,
    map (fun p => (fst p, (copy_to hook_to (snd p), copy_from hook_from (snd p)))) (ok_roots cfg f) =
    map (fun p => (fst p, (copy_to hook_to (snd p), copy_from hook_from (snd p))))
        (rz_roots (zero_from (all_msgs f)) (ok_roots (with_exclude l' cfg) (del_file K f))).
Proof. intros Hl Hs ht hf. now rewrite <- (ok_roots_excl_lit cfg l' K f Hl Hs). Qed.

(* ------------------------------------------------------------------------------------- *)
(* 1. field level, literally: same table, same builder of nested messages *)

Lemma build_view_agree cfg e' table rec d d' v b tn fp o :
  o_excluded cfg tn fp = e' tn fp -> md_oneofs d = md_oneofs d' ->
  build_view cfg table rec d v b tn fp o = build_view (with_excl e' cfg) table rec d' v b tn fp o.
Proof.
  intros Hx Ho. unfold build_view.
  change (o_excluded (with_excl e' cfg) tn fp) with (e' tn fp). rewrite <- Hx, <- Ho. reflexivity.
Qed.

Theorem build_field_list_excl_lit cfg e' K table rec d path l :
  (forall p, o_excluded cfg K p = true) ->
  (forall g, In g l -> md_name d ++ "." ++ fd_name g <> K ->
     o_excluded cfg (md_name d ++ "." ++ fd_name g) (fpath_of path g) =
     e' (md_name d ++ "." ++ fd_name g) (fpath_of path g)) ->
  build_field_list cfg table rec d path l =
  build_field_list (with_excl e' cfg) table rec (del_key K d) path (filter (keep_field K d) l).
Proof.
  intros HK. induction l as [|g r IH]; intros Hl; [reflexivity|].
  assert (IH' := IH (fun g0 Hg0 => Hl g0 (or_intror Hg0))). clear IH.
  rewrite build_field_list_cons. cbn [filter]. unfold keep_field at 1.
  destruct (String.eqb_spec (md_name d ++ "." ++ fd_name g) K) as [E|N]; cbn [negb].
  - rewrite E, build_view_excluded by apply HK. cbn [bbind]. rewrite bbind_ret. exact IH'.
  - rewrite build_field_list_cons. cbn [del_key md_name]. fold (fpath_of path g).
    rewrite <- (build_view_agree cfg e' table rec d (del_key K d))
      by (try reflexivity; apply (Hl g (or_introl eq_refl) N)).
    change (md_name (del_key K d)) with (md_name d) in IH'. now rewrite IH'.
Qed.

(* the whole field list of the message *)
Corollary build_fields_excl_lit cfg e' K table rec d path :
  (forall p, o_excluded cfg K p = true) ->
  (forall tn p, tn <> K -> o_excluded cfg tn p = e' tn p) ->
  build_field_list cfg table rec d path (md_fields d) =
  build_field_list (with_excl e' cfg) table rec (del_key K d) path (md_fields (del_key K d)).
Proof. intros HK Ha. apply build_field_list_excl_lit; auto. Qed.

(* ------------------------------------------------------------------------------------- *)
(* 3. the path form: the key "Root.a.f" hits one occurrence *)

Lemma rz_field_keep f : rz_field keep_zero f = f.
Proof.
  destruct f as [i [m|]]; rewrite rz_field_eq, rz_info_keep; cbn [option_map]; [now rewrite rz_msg_keep|reflexivity].
Qed.

Lemma map_rz_field_keep l : map (rz_field keep_zero) l = l.
Proof. induction l as [|f r IH]; cbn [map]; [reflexivity|now rewrite rz_field_keep, IH]. Qed.

Lemma bmap_fields_keep (r : bres (list field)) : bmap (map (rz_field keep_zero)) r = r.
Proof. destruct r; cbn [bmap]; [now rewrite map_rz_field_keep|reflexivity|reflexivity]. Qed.

Section ExclPath.
  Variable cfg : cfg_obs.
  Variable e' : string -> string -> bool.
  Variable P : string.                      (* the key, a path *)
  Variable table : list mdesc.
  (* the key is excluded, as a path (and as a message-qualified name: a list entry is both);
     elsewhere the two agree *)
  Hypothesis HP : forall tn p, tn = P \/ p = P -> o_excluded cfg tn p = true.
  Hypothesis Hagree : forall tn p, tn <> P -> p <> P -> o_excluded cfg tn p = e' tn p.
  (* the key is not the message-qualified name of a field of the request *)
  Hypothesis Hnot : forall d g, In d table -> In g (md_fields d) -> md_name d ++ "." ++ fd_name g <> P.

  Lemma del_key_id d : In d table -> del_key P d = d.
  Proof.
    intros Hd. unfold del_key. rewrite filter_all; [now destruct d|].
    intros g Hg. unfold keep_field. apply negb_true_iff, String.eqb_neq. now apply Hnot.
  Qed.

  Lemma del_key_table : map (del_key P) table = table.
  Proof.
    assert (H : forall l, incl l table -> map (del_key P) l = l).
    { induction l as [|d r IH]; intros Hi; cbn [map]; [reflexivity|].
      rewrite del_key_id by (apply Hi; now left). rewrite IH; [reflexivity|]. intros x Hx. apply Hi. now right. }
    apply H, incl_refl.
  Qed.

  (* 3a. nothing else changes: every occurrence of every message at a path from which the key cannot
     be formed is built identically *)
  Theorem build_message_off_path fuel d path :
    In d table -> okp P path ->
    build_message cfg table fuel d path = build_message (with_excl e' cfg) table fuel d path.
  Proof.
    intros Hd Hp.
    pose proof (build_message_excl cfg e' P table keep_zero keep_zero) as H.
    rewrite del_key_table in H.
    specialize (H (fun p => HP P p (or_introl eq_refl))
                  (fun tn p Ht Hq => Hagree tn p Ht (proj1 Hq)) (fun n => eq_refl)).
    specialize (H fuel d path Hd Hp). rewrite !bmap_keep, del_key_id in H by exact Hd. exact H.
  Qed.

  (* 3b. the occurrence itself: the message at path [par] is built as from its descriptor without the
     field [fn] (this occurrence only: the table, hence every other occurrence, is unchanged) *)
  Definition del_here (fn : string) (d : mdesc) : mdesc :=
    {| md_name := md_name d; md_comment := md_comment d; md_oneofs := md_oneofs d;
       md_fields := filter (fun g => negb (String.eqb (fd_name g) fn)) (md_fields d) |}.

  Theorem build_message_at_path fuel d par fn :
    P = par ++ "." ++ fn -> nodotb fn = true -> In d table ->
    (forall g, In g (md_fields d) -> fd_embed g = false) ->
    build_message cfg table fuel d par = build_message (with_excl e' cfg) table fuel (del_here fn d) par.
  Proof.
    intros EP Hfn Hd Hemb. destruct fuel as [|fuel]; [reflexivity|].
    rewrite !build_message_S.
    change (md_name (del_here fn d)) with (md_name d). change (md_oneofs (del_here fn d)) with (md_oneofs d).
    change (o_injected (with_excl e' cfg) par) with (o_injected cfg par).
    change (o_sort (with_excl e' cfg)) with (o_sort cfg).
    assert (HL : forall l, incl l (md_fields d) ->
      build_field_list cfg table (build_message cfg table fuel) d par l =
      build_field_list (with_excl e' cfg) table (build_message (with_excl e' cfg) table fuel) (del_here fn d) par
                       (filter (fun g => negb (String.eqb (fd_name g) fn)) l)).
    { induction l as [|g r IH]; intros Hi; [reflexivity|].
      assert (IH' := IH (fun x Hx => Hi x (or_intror Hx))). clear IH.
      assert (Hg : In g (md_fields d)) by (apply Hi; now left).
      rewrite build_field_list_cons, (Hemb g Hg). cbn [filter].
      destruct (String.eqb_spec (fd_name g) fn) as [E|N]; cbn [negb].
      - rewrite E, <- EP, build_view_excluded by (apply HP; now right). cbn [bbind]. rewrite bbind_ret. exact IH'.
      - rewrite build_field_list_cons, (Hemb g Hg). change (md_name (del_here fn d)) with (md_name d).
        assert (Hfp : okp P (par ++ "." ++ fd_name g)).
        { rewrite EP. split.
          - intros H. apply sapp_inv_head in H. now injection H.
          - intros s H. rewrite sapp_assoc in H. apply sapp_inv_head in H. injection H as H.
            symmetry in H. now apply (nodotb_spec _ Hfn (fd_name g) s). }
        pose proof (build_view_rz cfg e' P table keep_zero keep_zero
                      (build_message cfg table fuel) (build_message (with_excl e' cfg) table fuel)
                      d (del_here fn d) (view_of_field g) false (md_name d ++ "." ++ fd_name g)
                      (par ++ "." ++ fd_name g) (Some g)
                      (Hagree _ _ (Hnot d g Hd Hg) (proj1 Hfp)) eq_refl) as Hv.
        rewrite del_key_table, !bmap_fields_keep in Hv. rewrite Hv, IH'; [reflexivity|].
        intros d1 H1. rewrite !bmap_keep, del_key_id by exact H1. now apply build_message_off_path. }
    specialize (HL (md_fields d) (incl_refl _)).
    change (md_fields (del_here fn d)) with (filter (fun g => negb (String.eqb (fd_name g) fn)) (md_fields d)).
    now rewrite HL.
  Qed.
End ExclPath.

(* for configurations *)
Section ExclPathCfg.
  Variable cfg : config.
  Variable l' : list string.
  Variable P : string.
  Variable table : list mdesc.
  Hypothesis Hl : forall x, In x (c_exclude cfg) <-> x = P \/ In x l'.
  Hypothesis Hnot : forall d g, In d table -> In g (md_fields d) -> md_name d ++ "." ++ fd_name g <> P.

  Lemma path_key tn p : tn = P \/ p = P -> o_excluded (obs_of cfg) tn p = true.
  Proof.
    intros H. cbn [obs_of o_excluded]. apply flag_iff. rewrite !Hl. tauto.
  Qed.
  Lemma path_agree tn p : tn <> P -> p <> P -> o_excluded (obs_of cfg) tn p = flag l' tn p.
  Proof.
    intros Ht Hp. cbn [obs_of o_excluded]. apply eq_iff_eq_true. rewrite !flag_iff, !Hl. tauto.
  Qed.

  Theorem build_message_off_path_cfg fuel d path :
    In d table -> okp P path ->
    build_message (obs_of cfg) table fuel d path = build_message (obs_of (with_exclude l' cfg)) table fuel d path.
  Proof.
    intros Hd Hp. rewrite obs_of_with_exclude.
    apply (build_message_off_path (obs_of cfg) (flag l') P table path_key path_agree Hnot); assumption.
  Qed.

  Theorem build_message_at_path_cfg fuel d par fn :
    P = par ++ "." ++ fn -> nodotb fn = true -> In d table ->
    (forall g, In g (md_fields d) -> fd_embed g = false) ->
    build_message (obs_of cfg) table fuel d par =
    build_message (obs_of (with_exclude l' cfg)) table fuel (del_here fn d) par.
  Proof.
    intros EP Hfn Hd He. rewrite obs_of_with_exclude.
    apply (build_message_at_path (obs_of cfg) (flag l') P table path_key path_agree Hnot); assumption.
  Qed.
End ExclPathCfg.

(* the IR operation of the path form, for the computational checks below: the fields with the
   given path are removed, at every depth *)
Section RemovePath.
  Variable P : string.
  Fixpoint rp_field (f : field) : field :=
    match f with
    | Field i om => Field i (match om with Some m => Some (rp_msg m) | None => None end)
    end
  with rp_msg (m : message) : message :=
    match m with
    | Msg n fs os inj e z =>
        Msg n (flat_map (fun f => if String.eqb (fi_path (f_info f)) P then [] else [rp_field f]) fs) os inj e z
    end.
End RemovePath.
Definition remove_at_path (m : message) (P : string) : message := rp_msg P m.

(* ------------------------------------------------------------------------------------- *)
(* a small file: a root with a scalar, a message type used at several depths (singular, inline,
   list, map value, below an embedded message), exclusion keys in both forms *)

Module ExclExamples.
  Local Open Scope Z_scope.
  Definition fd (n : string) (num : Z) (t : ptype) (rep : bool) (nullable : option bool) (embed : bool)
             (oneof : option nat) : fdesc :=
    {| fd_name := n; fd_num := num; fd_type := t; fd_repeated := rep; fd_nullable := nullable;
       fd_embed := embed; fd_cast := ""; fd_custom := ""; fd_stdtime := false; fd_stddur := false;
       fd_jsontag := None; fd_oneof := oneof; fd_comment := "c" |}.
  Definition d_leaf : mdesc :=
    {| md_name := "Leaf"; md_comment := ""; md_oneofs := [];
       md_fields := [fd "a" 1 (PScalar SString) false None false None;
                     fd "u" 2 (PScalar SUint64) false None false None] |}.
  Definition d_emb : mdesc :=
    {| md_name := "Emb"; md_comment := ""; md_oneofs := [];
       md_fields := [fd "flag" 1 (PScalar SBool) false None false None;
                     fd "leaf" 2 (PMsg "Leaf") false None false None] |}.
  Definition d_mid : mdesc :=
    {| md_name := "Mid"; md_comment := ""; md_oneofs := [];
       md_fields := [fd "l1" 1 (PMsg "Leaf") false None false None;
                     fd "emb" 2 (PMsg "Emb") false None true None;
                     fd "s" 3 (PScalar SString) false None false None] |}.
  Definition d_root : mdesc :=
    {| md_name := "Root"; md_comment := ""; md_oneofs := ["k"];
       md_fields := [fd "x" 1 (PScalar SInt32) false None false None;
                     fd "p" 2 (PMsg "Leaf") false None false None;
                     fd "q" 3 (PMsg "Leaf") false (Some false) false None;
                     fd "items" 4 (PMsg "Leaf") true None false None;
                     fd "mid" 5 (PMsg "Mid") false None false None;
                     fd "mm" 6 (PMap (PScalar SString) (PMsg "Leaf")) false None false None;
                     fd "o" 7 (PScalar SString) false None false (Some 0%nat)] |}.
  Definition table := [d_leaf; d_emb; d_mid; d_root].
  Definition cfg0 (sort : bool) (ex : list string) : config :=
    {| c_types := ["Root"; "Mid"; "Leaf"]; c_duration_custom_type := ""; c_exclude := ex; c_computed := [];
       c_required := ["Leaf.a"]; c_sensitive := []; c_target_pkg := ""; c_default_pkg := ""; c_sort := sort;
       c_use_state := false; c_suffixes := []; c_name_overrides := []; c_validators := [];
       c_planmods := []; c_time_type := true; c_duration_type := true; c_injected := [];
       c_import_overrides := []; c_custom_types := [] |}.
  Definition file0 : file :=
    {| f_name := "t.proto"; f_package := "t"; f_gopkg := "t"; f_enums := []; f_msgs := table; f_deps := [] |}.

  Lemma in_table (P : mdesc -> Prop) : P d_leaf -> P d_emb -> P d_mid -> P d_root -> forall d, In d (all_msgs file0) -> P d.
  Proof. intros H1 H2 H3 H4 d [<-|[<-|[<-|[<-|[]]]]]; assumption. Qed.

  (* the hypotheses of the theorems, for the key "Leaf.a" (Leaf occurs at seven places, three depths) *)
  Lemma hl sort K : forall x, In x (c_exclude (cfg0 sort [K])) <-> x = K \/ In x [].
  Proof. intros x. cbn. intuition. Qed.
  Lemma hsafe_leaf_a sort : forall d, In d (all_msgs file0) ->
    mem_str (md_name d) (c_types (cfg0 sort ["Leaf.a"])) = true -> root_safe "Leaf.a" d.
  Proof.
    apply (in_table (fun d => mem_str (md_name d) (c_types (cfg0 sort ["Leaf.a"])) = true -> root_safe "Leaf.a" d));
      intros _.
    - apply (root_safe_self "Leaf" "a"); [reflexivity|reflexivity|].
      intros g [<-|[<-|[]]] _; reflexivity.
    - now apply (root_safe_other "Leaf" "a").
    - now apply (root_safe_other "Leaf" "a").
    - now apply (root_safe_other "Leaf" "a").
  Qed.

  (* the theorems, instantiated *)
  Example roots_leaf_a sort :
    rz_roots erase_zero (ok_roots (cfg0 sort ["Leaf.a"]) file0) =
    rz_roots erase_zero (ok_roots (with_exclude [] (cfg0 sort ["Leaf.a"])) (del_file "Leaf.a" file0)).
  Proof. apply ok_roots_excl; [apply hl|apply hsafe_leaf_a]. Qed.

  Example roots_leaf_a_lit sort :
    ok_roots (cfg0 sort ["Leaf.a"]) file0 =
    rz_roots (zero_from (all_msgs file0))
             (ok_roots (with_exclude [] (cfg0 sort ["Leaf.a"])) (del_file "Leaf.a" file0)).
  Proof. apply ok_roots_excl_lit; [apply hl|apply hsafe_leaf_a]. Qed.

  Example schemas_leaf_a sort h :
    schemas h (ok_roots (cfg0 sort ["Leaf.a"]) file0) =
    schemas h (ok_roots (cfg0 sort []) (del_file "Leaf.a" file0)).
  Proof. apply (schemas_excl (cfg0 sort ["Leaf.a"]) [] "Leaf.a" file0 (hl sort _) (hsafe_leaf_a sort)). Qed.

  (* the descriptor operation is the expected one: field a of Leaf goes, nothing else *)
  Example del_is_del_field : map (del_key "Leaf.a") table = map (del_field "Leaf" "a") table.
  Proof. reflexivity. Qed.
  Example del_leaf_a :
    map (fun d => (md_name d, map fd_name (md_fields d))) (map (del_key "Leaf.a") table) =
    [("Leaf", ["u"]); ("Emb", ["flag"; "leaf"]); ("Mid", ["l1"; "emb"; "s"]);
     ("Root", ["x"; "p"; "q"; "items"; "mid"; "mm"; "o"])].
  Proof. reflexivity. Qed.

  (* the same by computation, for other keys: a message field of the root, an embedded field, a field
     below an embedded message, a oneof member; with and without sort *)
  Definition both (sort : bool) (K : string) : Prop :=
    ok_roots (cfg0 sort [K]) file0 =
    rz_roots (zero_from (all_msgs file0)) (ok_roots (cfg0 sort []) (del_file K file0)).
  Example c1 : both true "Root.p". Proof. vm_compute. reflexivity. Qed.
  Example c2 : both false "Root.mid". Proof. vm_compute. reflexivity. Qed.
  Example c3 : both true "Mid.emb". Proof. vm_compute. reflexivity. Qed.
  Example c4 : both false "Emb.leaf". Proof. vm_compute. reflexivity. Qed.
  Example c5 : both true "Root.o". Proof. vm_compute. reflexivity. Qed.
  Example c6 : both true "Root.mm". Proof. vm_compute. reflexivity. Qed.
  (* and it does something: seven occurrences of Leaf.a are gone *)
  Example c7 : ok_roots (cfg0 false ["Leaf.a"]) file0 <> ok_roots (cfg0 false []) file0.
  Proof. vm_compute. discriminate. Qed.

  (* DEVIATION 1: without the recomputation of the zero values the two differ: the Go struct of the
     message keeps the excluded field, the struct of the descriptor without the field has lost it *)
  Example zero_differs :
    ok_roots (cfg0 false ["Leaf.a"]) file0 <> ok_roots (cfg0 false []) (del_file "Leaf.a" file0).
  Proof. vm_compute. discriminate. Qed.
  Example zero_differs_where :
    (bmap m_zero (build_message (obs_of (cfg0 false ["Leaf.a"])) table 5 d_leaf "Leaf"),
     bmap m_zero (build_message (obs_of (cfg0 false [])) (map (del_key "Leaf.a") table) 5 (del_key "Leaf.a" d_leaf) "Leaf"))
    = (BOk (GStruct [("A", GPrim (PStr "")); ("U", GPrim (PInt 0))]), BOk (GStruct [("U", GPrim (PInt 0))])).
  Proof. vm_compute. reflexivity. Qed.

  (* NO DEVIATION for a message that loses its last field: all its fields excluded, or no field declared,
     both give exactly the placeholder field and m_empty = true; by computation and by the theorem *)
  Definition d_one : mdesc :=
    {| md_name := "One"; md_comment := ""; md_oneofs := [];
       md_fields := [fd "a" 1 (PScalar SString) false None false None] |}.
  Example emptied_same :
    (bmap (fun m => (m_fields m, m_empty m))
          (build_message (obs_of (cfg0 false ["One.a"])) [d_one] 2 d_one "One"),
     bmap (fun m => (m_fields m, m_empty m))
          (build_message (obs_of (cfg0 false [])) [del_key "One.a" d_one] 2 (del_key "One.a" d_one) "One"))
    = (BOk ([placeholder_field "One"], true), BOk ([placeholder_field "One"], true)).
  Proof. vm_compute. reflexivity. Qed.
  Example emptied_same_by_theorem :
    build_message (obs_of (cfg0 false ["One.a"])) [d_one] 2 d_one "One" =
    bmap (rz_msg (zero_from [d_one]))
         (build_message (obs_of (cfg0 false [])) [del_key "One.a" d_one] 2 (del_key "One.a" d_one) "One").
  Proof.
    apply (build_message_excl_cfg_top (cfg0 false ["One.a"]) [] "One.a" (hl false _) [d_one] 2 d_one "One").
    - now left.
    - intros g [<-|[]] N. now contradiction N.
  Qed.

  (* DEVIATION 2: the key "D.f" is also a path: at the root D it also hits the field f of a message
     embedded in D (whose fields have the paths "D.<name>") *)
  Definition d_mid2 : mdesc :=
    {| md_name := "Mid"; md_comment := ""; md_oneofs := [];
       md_fields := [fd "flag" 1 (PScalar SString) false None false None;
                     fd "emb" 2 (PMsg "Emb") false None true None;
                     fd "s" 3 (PScalar SString) false None false None] |}.
  Definition table2 := [d_leaf; d_emb; d_mid2].
  Example collision :
    (bmap (fun m => map (fun f => fi_path (f_info f)) (m_fields m))
          (build_message (obs_of (cfg0 false ["Mid.flag"])) table2 4 d_mid2 "Mid"),
     bmap (fun m => map (fun f => fi_path (f_info f)) (m_fields m))
          (build_message (obs_of (cfg0 false [])) (map (del_key "Mid.flag") table2) 4 (del_key "Mid.flag" d_mid2) "Mid"))
    = (BOk ["Mid.leaf"; "Mid.s"], BOk ["Mid.flag"; "Mid.leaf"; "Mid.s"]).
  Proof. vm_compute. reflexivity. Qed.
  (* ... and only there: the same message below another root is not concerned *)
  Example no_collision_elsewhere :
    okp "Mid.flag" "Root.mid".
  Proof.
    split; [discriminate|]. intros s H. injection H as H. discriminate.
  Qed.

  (* the path form: one occurrence of Leaf.a, three levels down *)
  Lemma hnot (P : string) :
    (forallb (fun d => forallb (fun g => negb (String.eqb (md_name d ++ "." ++ fd_name g) P)) (md_fields d)) table = true) ->
    forall d g, In d table -> In g (md_fields d) -> md_name d ++ "." ++ fd_name g <> P.
  Proof.
    intros H d g Hd Hg. rewrite forallb_forall in H. specialize (H d Hd). rewrite forallb_forall in H.
    specialize (H g Hg). now apply negb_true_iff, String.eqb_neq in H.
  Qed.

  Example at_path :
    build_message (obs_of (cfg0 true ["Root.mid.l1.a"])) table 5 d_leaf "Root.mid.l1" =
    build_message (obs_of (cfg0 true [])) table 5 (del_here "a" d_leaf) "Root.mid.l1".
  Proof.
    apply (build_message_at_path_cfg (cfg0 true ["Root.mid.l1.a"]) [] "Root.mid.l1.a" table (hl true _)
             (hnot "Root.mid.l1.a" eq_refl) 5 d_leaf "Root.mid.l1" "a"); try reflexivity.
    - cbn. auto.
    - intros g [<-|[<-|[]]]; reflexivity.
  Qed.

  Example off_path :
    build_message (obs_of (cfg0 true ["Root.mid.l1.a"])) table 5 d_leaf "Root.p" =
    build_message (obs_of (cfg0 true [])) table 5 d_leaf "Root.p".
  Proof.
    apply (build_message_off_path_cfg (cfg0 true ["Root.mid.l1.a"]) [] "Root.mid.l1.a" table (hl true _)
             (hnot "Root.mid.l1.a" eq_refl) 5 d_leaf "Root.p").
    - cbn. auto.
    - split; [discriminate|]. intros s H. injection H as H. discriminate.
  Qed.

  (* at the level of the root, by computation: the IR with the path excluded is the IR without the
     exclusion with that one field removed at that one position; everything else is syntactically equal *)
  Definition root_ir (sort : bool) (ex : list string) : bres message :=
    build_message (obs_of (cfg0 sort ex)) table 5 d_root "Root".
  Example p1 : root_ir true ["Root.mid.l1.a"] = bmap (fun m => remove_at_path m "Root.mid.l1.a") (root_ir true []).
  Proof. vm_compute. reflexivity. Qed.
  Example p2 : root_ir false ["Root.p.a"] = bmap (fun m => remove_at_path m "Root.p.a") (root_ir false []).
  Proof. vm_compute. reflexivity. Qed.
  Example p3 : root_ir true ["Root.mid.leaf.a"] = bmap (fun m => remove_at_path m "Root.mid.leaf.a") (root_ir true []).
  Proof. vm_compute. reflexivity. Qed.
  Example p4 : root_ir false ["Root.items.a"] = bmap (fun m => remove_at_path m "Root.items.a") (root_ir false []).
  Proof. vm_compute. reflexivity. Qed.
  Example p5 : root_ir false ["Root.mid"] = bmap (fun m => remove_at_path m "Root.mid") (root_ir false []).
  Proof. vm_compute. reflexivity. Qed.
  Example p_one_occurrence : root_ir true ["Root.mid.l1.a"] <> root_ir true ["Leaf.a"] /\ root_ir true ["Root.mid.l1.a"] <> root_ir true [].
  Proof. split; vm_compute; discriminate. Qed.
End ExclExamples.

Print Assumptions build_view_rz.
Print Assumptions build_field_list_excl.
Print Assumptions build_field_list_excl_lit.
Print Assumptions build_message_excl.
Print Assumptions build_message_excl_top.
Print Assumptions build_message_excl_cfg.
Print Assumptions build_message_excl_cfg_lit.
Print Assumptions build_message_excl_cfg_top.
Print Assumptions build_message_off_path.
Print Assumptions build_message_at_path.
Print Assumptions build_message_off_path_cfg.
Print Assumptions build_message_at_path_cfg.
Print Assumptions del_key_field.
Print Assumptions root_safe_other.
Print Assumptions root_safe_self.
Print Assumptions ok_roots_excl.
Print Assumptions ok_roots_excl_lit.
Print Assumptions schema_ignores_zero.
Print Assumptions schemas_excl.
Print Assumptions converters_excl.
