(* C06, the diagnostics as a set of (kind, path) pairs: "each attribute missing from the object
   produces exactly one error diagnostic that names the field's path, an attribute or element of the
   wrong Go type produces a conversion error diagnostic".

   Diagnostics.Append drops a diagnostic EQUAL to one already present; in the model, [diag_append]
   (Model/Vals.v) compares the kind (severity/summary) AND the path.  A regression seen in mutation
   testing compares the path only: a ReadMissing and a ReadConv raised under the same path (two
   elements of one list of objects, one lacking attribute a, the other holding a with a wrong type)
   then collapse into one.  This file states what makes the two survive:

   1. the algebra of [diag_append]: the appended diagnostic is present, nothing present is lost,
      nothing else appears, no duplicate appears, two kinds under one path are two diagnostics, and a
      fold of [diag_append] holds exactly the diagnostics raised (C06_diag_append_monotone,
      C06_diag_kinds_independent, C06_diag_fold_exact);
   2. the converters only add to the list they receive: from_field, from_fields, the four element
      loops and the element decoders; to_field, to_fields (C06_from_diag_monotone,
      C06_to_field_diag_monotone);
   3. the twin theorem: a list (or map) of objects with one element lacking the attribute of a field
      g of the element message and another element holding it with the wrong constructor, anywhere in
      the list, in any order, among any other elements, reports BOTH (ReadMissing, path of g) and
      (ReadConv, path of g): for the element loop, for from_field, for from_fields and for copy_from
      (C06_from_twin_kinds and its variants);
   4. computed instances on MsgRoundTrip.RTExample.outer, and the collapse under the path-only
      equality (DiagKindsExample).

   All statements about the converters are partial-correctness statements (the run is assumed to
   return); that it returns is CopyFromProofs.copy_from_total_partial. *)
From Coq Require Import List String Bool ZArith Lia.
From PGT Require Import Base.Strs Base.AList Model.Vals Model.IR Model.CopyFrom Model.CopyTo.
From PGT Require Import Proofs.CopyToProofs Proofs.CopyFromProofs Proofs.CopyToTotal Proofs.MsgRoundTrip
     Proofs.PriorProofs Proofs.PrunedTargets Proofs.ToMalformed Proofs.FromMalformed.
Import ListNotations.

(* ------------------------------------------------------------------------------------- *)
(* 1. the algebra of diag_append *)

(* (a) what is appended is present *)
Theorem C06_diag_append_self (ds : list diag) (d : diag) : In d (diag_append ds d).
Proof. apply PrunedTargets.In_diag_append_self. Qed.

(* (b) nothing already reported is ever lost *)
Theorem C06_diag_append_monotone (ds : list diag) (d x : diag) : In x ds -> In x (diag_append ds d).
Proof. apply PrunedTargets.In_diag_append_old. Qed.
Print Assumptions C06_diag_append_monotone.

(* (c) nothing else appears *)
Theorem C06_diag_append_inv (ds : list diag) (d x : diag) : In x (diag_append ds d) -> In x ds \/ x = d.
Proof. apply PrunedTargets.In_diag_append_inv. Qed.

Corollary C06_diag_append_iff (ds : list diag) (d x : diag) : In x (diag_append ds d) <-> In x ds \/ x = d.
Proof.
  split; [apply C06_diag_append_inv|]. intros [I| ->]; [now apply C06_diag_append_monotone|apply C06_diag_append_self].
Qed.

(* (d) no duplicate appears *)
Theorem C06_diag_append_nodup (ds : list diag) (d : diag) : NoDup ds -> NoDup (diag_append ds d).
Proof. apply FromMalformed.NoDup_diag_append. Qed.

(* the two shapes of the result *)
Lemma diag_append_fresh (ds : list diag) (d : diag) : ~ In d ds -> diag_append ds d = ds ++ [d].
Proof.
  intros N. unfold diag_append. destruct (diag_mem d ds) eqn:E; [|reflexivity].
  exfalso. apply N. now apply PrunedTargets.diag_mem_In.
Qed.

Lemma diag_append_present (ds : list diag) (d : diag) : In d ds -> diag_append ds d = ds.
Proof. intros I. unfold diag_append. now rewrite (FromMalformed.In_diag_mem _ _ I). Qed.

(* (e) the kinds are independent: a diagnostic of another kind under the same path does not
   absorb, and is not absorbed.  (The membership holds for k1 = k2 as well; the hypothesis is what
   makes the two pairs two diagnostics, see C06_diag_kinds_independent_exact.) *)
Theorem C06_diag_kinds_independent (ds : list diag) (k1 k2 : dkind) (p : string) :
  k1 <> k2 ->
  In (k1, p) (diag_append (diag_append ds (k1, p)) (k2, p))
  /\ In (k2, p) (diag_append (diag_append ds (k1, p)) (k2, p)).
Proof.
  intros _. split; [apply C06_diag_append_monotone|]; apply C06_diag_append_self.
Qed.
Print Assumptions C06_diag_kinds_independent.

(* ... sharply: the second one is appended as an entry of its own, whatever was raised under this
   path with another kind *)
Theorem C06_diag_kinds_independent_exact (ds : list diag) (k1 k2 : dkind) (p : string) :
  k1 <> k2 -> ~ In (k2, p) ds ->
  diag_append (diag_append ds (k1, p)) (k2, p) = diag_append ds (k1, p) ++ [(k2, p)].
Proof.
  intros NK NI. apply diag_append_fresh. intros I. apply C06_diag_append_inv in I.
  destruct I as [I|E]; [exact (NI I)|]. injection E as E. apply NK. now symmetry.
Qed.

Corollary C06_diag_twin_length (k1 k2 : dkind) (p : string) :
  k1 <> k2 -> List.length (diag_append (diag_append [] (k1, p)) (k2, p)) = 2%nat.
Proof.
  intros NK. rewrite (C06_diag_kinds_independent_exact [] k1 k2 p NK (fun I => I)).
  rewrite (diag_append_fresh [] (k1, p) (fun I => I)). reflexivity.
Qed.

(* (f) a fold of diag_append holds exactly what was raised, each once *)
Lemma diag_fold_In (l : list diag) : forall (acc : list diag) (x : diag),
  In x (fold_left diag_append l acc) <-> In x acc \/ In x l.
Proof.
  induction l as [|d r IH]; intros acc x; cbn [fold_left].
  - cbn [In]. tauto.
  - rewrite IH, C06_diag_append_iff. cbn [In]. split; [intros [[I|E]|I]|intros [I|[E|I]]]; auto.
Qed.

Lemma diag_fold_nodup (l : list diag) : forall acc : list diag,
  NoDup acc -> NoDup (fold_left diag_append l acc).
Proof.
  induction l as [|d r IH]; intros acc N; cbn [fold_left]; [exact N|]. apply IH. now apply C06_diag_append_nodup.
Qed.

Theorem C06_diag_fold_exact (l : list diag) :
  (forall x : diag, In x (fold_left diag_append l []) <-> In x l) /\ NoDup (fold_left diag_append l []).
Proof.
  split.
  - intros x. rewrite diag_fold_In. cbn [In]. tauto.
  - apply diag_fold_nodup. constructor.
Qed.
Print Assumptions C06_diag_fold_exact.

(* ------------------------------------------------------------------------------------- *)
(* 2. the converters only add to the diagnostics they receive *)

Definition dincl (a b : list diag) : Prop := forall d : diag, In d a -> In d b.

Lemma dincl_refl a : dincl a a.
Proof. intros d I. exact I. Qed.

Lemma dincl_trans a b c : dincl a b -> dincl b c -> dincl a c.
Proof. intros H1 H2 d I. exact (H2 d (H1 d I)). Qed.

Lemma dincl_append a d : dincl a (diag_append a d).
Proof. intros x I. now apply C06_diag_append_monotone. Qed.

(* 2.1 one field, any kind, any message below it, any object, any target *)
Theorem from_field_diag_mono hook f attrs obj ds obj' ds' :
  from_field hook f attrs (obj, ds) = Ok (obj', ds') -> forall d, In d ds -> In d ds'.
Proof.
  intros H.
  apply (FromMalformed.R_field_all hook (fun _ a b => forall d, In d a -> In d b))
    with (f := f) (attrs := attrs) (obj := obj) (obj' := obj').
  - intros _ a d I. exact I.
  - intros _ a b c H1 H2 d I. exact (H2 d (H1 d I)).
  - intros _ _ a b _ H1. exact H1.
  - intros _ a k p _ _ d I. now apply C06_diag_append_monotone.
  - exact H.
Qed.

(* 2.2 the element decoders (MsgRoundTrip.prim_elem, decode, obj_elem: the local definitions of
   from_field as functions of their own) *)
Lemma prim_elem_diag_mono i a ds ov ds' : prim_elem i a ds = Ok (ov, ds') -> dincl ds ds'.
Proof.
  unfold prim_elem. destruct (as_prim i a) as [[[n u] p]|].
  - destruct (from_prim_value i n u p); cbn [bind]; intros H; inversion H; subst. apply dincl_refl.
  - intros H. inversion H; subst. apply dincl_append.
Qed.

Lemma decode_diag_mono hook m' at0 ds v ds' : decode hook m' at0 ds = Ok (v, ds') -> dincl ds ds'.
Proof.
  unfold decode. destruct (m_empty m').
  - intros H. inversion H; subst. apply dincl_refl.
  - intros H. exact (from_fields_diag_mono _ _ _ _ _ _ _ H).
Qed.

Lemma obj_elem_diag_mono hook i m' a ds ov ds' : obj_elem hook i m' a ds = Ok (ov, ds') -> dincl ds ds'.
Proof.
  unfold obj_elem. destruct a as [| | |aty n u at0| |]; try (intros H; inversion H; subst; apply dincl_append).
  destruct (known n u).
  - destruct (decode hook m' at0 ds) as [[v d1]|] eqn:E; cbn [bind]; intros H; inversion H; subst.
    exact (decode_diag_mono _ _ _ _ _ _ E).
  - intros H. inversion H; subst. apply dincl_refl.
Qed.

(* 2.3 a loop over the elements: a fold_left whose accumulator carries the diagnostics *)
Section Loop.
  Context {A B : Type}.
  Variable F : res (B * list diag) -> A -> res (B * list diag).
  Hypothesis F_panic : forall x, F Panic x = Panic.
  Hypothesis F_mono : forall x b d b' d', F (Ok (b, d)) x = Ok (b', d') -> dincl d d'.

  Lemma loop_diag_mono l : forall b d b' d', fold_left F l (Ok (b, d)) = Ok (b', d') -> dincl d d'.
  Proof.
    induction l as [|x r IH]; intros b d b' d' H; cbn [fold_left] in H.
    - inversion H; subst. apply dincl_refl.
    - destruct (F (Ok (b, d)) x) as [[b1 d1]|] eqn:E.
      + exact (dincl_trans _ _ _ (F_mono _ _ _ _ _ E) (IH _ _ _ _ H)).
      + rewrite (FromMalformed.fold_left_panic_gen F r F_panic) in H. discriminate H.
  Qed.

  (* every element is visited, from diagnostics which hold the incoming ones, and what its step
     returns is held by the result *)
  Lemma loop_visits l x : In x l -> forall b d b' d',
    fold_left F l (Ok (b, d)) = Ok (b', d') ->
    exists b1 d1 b2 d2, F (Ok (b1, d1)) x = Ok (b2, d2) /\ dincl d d1 /\ dincl d2 d'.
  Proof.
    induction l as [|y r IH]; intros I b d b' d' H; [destruct I|]. cbn [fold_left] in H.
    destruct (F (Ok (b, d)) y) as [[b1 d1]|] eqn:E.
    2:{ rewrite (FromMalformed.fold_left_panic_gen F r F_panic) in H. discriminate H. }
    destruct I as [->|I].
    - exists b, d, b1, d1. split; [exact E|]. split; [apply dincl_refl|exact (loop_diag_mono _ _ _ _ _ H)].
    - destruct (IH I _ _ _ _ H) as (b2 & d2 & b3 & d3 & E2 & I1 & I2).
      exists b2, d2, b3, d3. split; [exact E2|]. split; [|exact I2].
      exact (dincl_trans _ _ _ (F_mono _ _ _ _ _ E) I1).
  Qed.
End Loop.

(* 2.4 the four element loops of from_field, as functions of their own *)
Definition obj_list_step (hook : hook_from_t) (i : finfo) (m' : message)
           (acc : res (list goval * list diag)) (a : tfval) : res (list goval * list diag) :=
  do '(vs, ds1) <- acc;
  do '(ov, ds2) <- obj_elem hook i m' a ds1;
  Ok (vs ++ [match ov with Some v => v | None => if fi_nullable i then GPtr None else m_zero m' end], ds2).

Definition prim_list_step (i : finfo) (acc : res (list goval * list diag)) (a : tfval)
  : res (list goval * list diag) :=
  do '(vs, ds1) <- acc;
  do '(ov, ds2) <- prim_elem i a ds1;
  Ok (vs ++ [match ov with Some v => v | None => zero_of_prim i end], ds2).

Definition obj_map_step (hook : hook_from_t) (i : finfo) (m' : message)
           (acc : res (list (string * goval) * list diag)) (ka : string * tfval)
  : res (list (string * goval) * list diag) :=
  do '(es, ds1) <- acc;
  do '(ov, ds2) <- obj_elem hook i m' (snd ka) ds1;
  Ok (match ov with Some v => update (fst ka) v es | None => es end, ds2).

Definition prim_map_step (i : finfo) (acc : res (list (string * goval) * list diag)) (ka : string * tfval)
  : res (list (string * goval) * list diag) :=
  do '(es, ds1) <- acc;
  do '(ov, ds2) <- prim_elem i (snd ka) ds1;
  Ok (match ov with Some v => update (fst ka) v es | None => es end, ds2).

Definition obj_list_loop hook i m' (l : list tfval) st := fold_left (obj_list_step hook i m') l st.
Definition prim_list_loop i (l : list tfval) st := fold_left (prim_list_step i) l st.
Definition obj_map_loop hook i m' (l : list (string * tfval)) st := fold_left (obj_map_step hook i m') l st.
Definition prim_map_loop i (l : list (string * tfval)) st := fold_left (prim_map_step i) l st.

(* what from_field does with the value read from the loop *)
Definition store_elems (i : finfo) (obj : goval) (kn : bool) (v : goval) (ds' : list diag) : res fstate :=
  match fi_parent i, kn with
  | Some _, false => Ok (obj, ds')
  | _, _ =>
      do obj1 <- alloc_parent i obj;
      do obj' <- gset_via obj1 (fi_via i) (fi_name i) v;
      Ok (obj', ds')
  end.

Lemma store_elems_ds i obj kn v ds1 obj' ds' : store_elems i obj kn v ds1 = Ok (obj', ds') -> ds' = ds1.
Proof.
  unfold store_elems. destruct (fi_parent i), kn; repeat stepg; reflexivity.
Qed.

(* from_field on a list / a map attribute IS the loop: any field (promoted fields included), any
   target, null and unknown containers included *)
Lemma from_field_obj_list_unfold hook i m' attrs obj ds ety n u el :
  fi_kind i = ObjectListKind ->
  lookup (fi_snake i) (attrs_list attrs) = Some (VList ety n u el) ->
  from_field hook (Field i (Some m')) attrs (obj, ds) =
  do r <- (if known n u then obj_list_loop hook i m' (olist el) (Ok ([], ds)) else Ok ([], ds));
  store_elems i obj (known n u) (GSlice (Some (fst r))) (snd r).
Proof.
  intros K L. cbn [from_field]. fold (from_fields hook). rewrite attr_lookup_eq, L, K.
  destruct (known n u); [|reflexivity].
  change (fold_left _ match el with Some x => x | None => [] end (Ok ([], ds)))
    with (obj_list_loop hook i m' (olist el) (Ok ([], ds))).
  destruct (obj_list_loop hook i m' (olist el) (Ok ([], ds))) as [[vs d1]|]; reflexivity.
Qed.

Lemma from_field_prim_list_unfold hook i om attrs obj ds ety n u el :
  fi_kind i = PrimitiveListKind ->
  lookup (fi_snake i) (attrs_list attrs) = Some (VList ety n u el) ->
  from_field hook (Field i om) attrs (obj, ds) =
  do r <- (if known n u then prim_list_loop i (olist el) (Ok ([], ds)) else Ok ([], ds));
  store_elems i obj (known n u) (GSlice (Some (fst r))) (snd r).
Proof.
  intros K L. cbn [from_field]. fold (from_fields hook). rewrite attr_lookup_eq, L, K.
  destruct (known n u); [|reflexivity].
  change (fold_left _ match el with Some x => x | None => [] end (Ok ([], ds)))
    with (prim_list_loop i (olist el) (Ok ([], ds))).
  destruct (prim_list_loop i (olist el) (Ok ([], ds))) as [[vs d1]|]; reflexivity.
Qed.

Lemma from_field_obj_map_unfold hook i m' attrs obj ds ety n u el :
  fi_kind i = ObjectMapKind ->
  lookup (fi_snake i) (attrs_list attrs) = Some (VMap ety n u el) ->
  from_field hook (Field i (Some m')) attrs (obj, ds) =
  do r <- (if known n u then obj_map_loop hook i m' (olist el) (Ok ([], ds)) else Ok ([], ds));
  store_elems i obj (known n u) (GMap (Some (fst r))) (snd r).
Proof.
  intros K L. cbn [from_field]. fold (from_fields hook). rewrite attr_lookup_eq, L, K.
  destruct (known n u); [|reflexivity].
  change (fold_left _ match el with Some x => x | None => [] end (Ok ([], ds)))
    with (obj_map_loop hook i m' (olist el) (Ok ([], ds))).
  destruct (obj_map_loop hook i m' (olist el) (Ok ([], ds))) as [[vs d1]|]; reflexivity.
Qed.

Lemma from_field_prim_map_unfold hook i om attrs obj ds ety n u el :
  fi_kind i = PrimitiveMapKind ->
  lookup (fi_snake i) (attrs_list attrs) = Some (VMap ety n u el) ->
  from_field hook (Field i om) attrs (obj, ds) =
  do r <- (if known n u then prim_map_loop i (olist el) (Ok ([], ds)) else Ok ([], ds));
  store_elems i obj (known n u) (GMap (Some (fst r))) (snd r).
Proof.
  intros K L. cbn [from_field]. fold (from_fields hook). rewrite attr_lookup_eq, L, K.
  destruct (known n u); [|reflexivity].
  change (fold_left _ match el with Some x => x | None => [] end (Ok ([], ds)))
    with (prim_map_loop i (olist el) (Ok ([], ds))).
  destruct (prim_map_loop i (olist el) (Ok ([], ds))) as [[vs d1]|]; reflexivity.
Qed.

(* the steps: Panic is absorbing, the diagnostics only grow *)
Lemma obj_list_step_mono hook i m' a vs d vs' d' :
  obj_list_step hook i m' (Ok (vs, d)) a = Ok (vs', d') -> dincl d d'.
Proof.
  unfold obj_list_step. cbn [bind]. destruct (obj_elem hook i m' a d) as [[ov d2]|] eqn:E; cbn [bind]; intros H; inversion H; subst.
  exact (obj_elem_diag_mono _ _ _ _ _ _ _ E).
Qed.

Lemma prim_list_step_mono i a vs d vs' d' :
  prim_list_step i (Ok (vs, d)) a = Ok (vs', d') -> dincl d d'.
Proof.
  unfold prim_list_step. cbn [bind]. destruct (prim_elem i a d) as [[ov d2]|] eqn:E; cbn [bind]; intros H; inversion H; subst.
  exact (prim_elem_diag_mono _ _ _ _ _ E).
Qed.

Lemma obj_map_step_mono hook i m' ka es d es' d' :
  obj_map_step hook i m' (Ok (es, d)) ka = Ok (es', d') -> dincl d d'.
Proof.
  unfold obj_map_step. cbn [bind]. destruct (obj_elem hook i m' (snd ka) d) as [[ov d2]|] eqn:E; cbn [bind]; intros H; inversion H; subst.
  exact (obj_elem_diag_mono _ _ _ _ _ _ _ E).
Qed.

Lemma prim_map_step_mono i ka es d es' d' :
  prim_map_step i (Ok (es, d)) ka = Ok (es', d') -> dincl d d'.
Proof.
  unfold prim_map_step. cbn [bind]. destruct (prim_elem i (snd ka) d) as [[ov d2]|] eqn:E; cbn [bind]; intros H; inversion H; subst.
  exact (prim_elem_diag_mono _ _ _ _ _ E).
Qed.

Theorem obj_list_loop_diag_mono hook i m' l vs ds vs' ds' :
  obj_list_loop hook i m' l (Ok (vs, ds)) = Ok (vs', ds') -> forall d, In d ds -> In d ds'.
Proof.
  apply (loop_diag_mono (obj_list_step hook i m')); [reflexivity|].
  intros x b d b' d'. apply obj_list_step_mono.
Qed.

Theorem prim_list_loop_diag_mono i l vs ds vs' ds' :
  prim_list_loop i l (Ok (vs, ds)) = Ok (vs', ds') -> forall d, In d ds -> In d ds'.
Proof.
  apply (loop_diag_mono (prim_list_step i)); [reflexivity|].
  intros x b d b' d'. apply prim_list_step_mono.
Qed.

Theorem obj_map_loop_diag_mono hook i m' l es ds es' ds' :
  obj_map_loop hook i m' l (Ok (es, ds)) = Ok (es', ds') -> forall d, In d ds -> In d ds'.
Proof.
  apply (loop_diag_mono (obj_map_step hook i m')); [reflexivity|].
  intros x b d b' d'. apply obj_map_step_mono.
Qed.

Theorem prim_map_loop_diag_mono i l es ds es' ds' :
  prim_map_loop i l (Ok (es, ds)) = Ok (es', ds') -> forall d, In d ds -> In d ds'.
Proof.
  apply (loop_diag_mono (prim_map_step i)); [reflexivity|].
  intros x b d b' d'. apply prim_map_step_mono.
Qed.

(* 2.5 the statement: from_field, from_fields, copy_from; no condition on the message, the object,
   the target or the hook *)
Theorem C06_from_diag_monotone :
  forall (hook : hook_from_t) (attrs : option (list (string * tfval))) (obj : goval) (ds : list diag)
         (obj' : goval) (ds' : list diag),
    (forall f : field, from_field hook f attrs (obj, ds) = Ok (obj', ds') -> forall x : diag, In x ds -> In x ds')
    /\ (forall m : message, from_fields hook m attrs (obj, ds) = Ok (obj', ds') -> forall x : diag, In x ds -> In x ds').
Proof.
  intros hook attrs obj ds obj' ds'. split.
  - intros f. apply from_field_diag_mono.
  - intros m. apply from_fields_diag_mono.
Qed.
Print Assumptions C06_from_diag_monotone.

(* 2.6 CopyTo: to_fields is PrunedTargets.to_fields_diag_mono (C06_to_diag_monotone); one field *)
Theorem to_field_diag_mono hook f obj atys attrs ds attrs' ds' :
  to_field hook f obj atys (attrs, ds) = Ok (attrs', ds') -> forall d, In d ds -> In d ds'.
Proof.
  intros H. apply (to_field_list_diag_mono hook [f] obj atys attrs ds attrs' ds').
  cbn [to_field_list]. rewrite H. reflexivity.
Qed.

Theorem C06_to_field_diag_monotone :
  forall (hook : hook_to_t) (obj : goval) (atys : list (string * tfty)) (attrs : attrs_t) (ds : list diag)
         (attrs' : attrs_t) (ds' : list diag),
    (forall f : field, to_field hook f obj atys (attrs, ds) = Ok (attrs', ds') -> forall x : diag, In x ds -> In x ds')
    /\ (forall m : message, to_fields hook m obj atys (attrs, ds) = Ok (attrs', ds') -> forall x : diag, In x ds -> In x ds').
Proof.
  intros hook obj atys attrs ds attrs' ds'. split.
  - intros f. apply to_field_diag_mono.
  - intros m. apply to_fields_diag_mono.
Qed.
Print Assumptions C06_to_field_diag_monotone.

(* ------------------------------------------------------------------------------------- *)
(* 3. the twins *)

(* an object element which is read (not null, not unknown) and lacks the attribute of j; an
   element without attribute list lacks every attribute *)
Definition elem_lacks (j : finfo) (e : tfval) : Prop :=
  exists aty n u at0, e = VObj aty n u at0 /\ known n u = true /\ lookup (fi_snake j) (attrs_list at0) = None.

(* an object element which is read and holds, under the attribute of j, a value whose constructor
   is not the one of j's kind (PriorProofs.shaped: VNil, a scalar of another kind, a list for a
   map, ...) *)
Definition elem_miskinded (j : finfo) (e : tfval) : Prop :=
  exists aty n u at0 x, e = VObj aty n u at0 /\ known n u = true
                        /\ lookup (fi_snake j) (attrs_list at0) = Some x /\ shaped j x = false.

Section Twins.
  Variable hook : hook_from_t.
  Variable i : finfo.          (* the list / map field *)
  Variable m' : message.       (* its element message *)
  Variable g : field.          (* the field of the element message whose attribute is damaged *)
  Hypothesis NE : m_empty m' = false.
  Hypothesis G : In g (m_fields m').
  Hypothesis PH : fi_placeholder (f_info g) = false.

  Lemma obj_elem_lacks e ds ov ds' :
    elem_lacks (f_info g) e -> obj_elem hook i m' e ds = Ok (ov, ds') ->
    In (ReadMissing, fi_path (f_info g)) ds'.
  Proof.
    intros (aty & n & u & at0 & -> & KN & L). unfold obj_elem, decode. rewrite KN, NE.
    destruct (from_fields hook m' at0 (m_zero m', ds)) as [[v d1]|] eqn:E; cbn [bind]; intros H; inversion H; subst.
    exact (from_fields_missing_reported _ _ _ _ _ _ _ _ E G PH L).
  Qed.

  Lemma obj_elem_miskinded e ds ov ds' :
    fi_kind (f_info g) <> CustomKind ->
    elem_miskinded (f_info g) e -> obj_elem hook i m' e ds = Ok (ov, ds') ->
    In (ReadConv, fi_path (f_info g)) ds'.
  Proof.
    intros NC (aty & n & u & at0 & x & -> & KN & L & HS). unfold obj_elem, decode. rewrite KN, NE.
    destruct (from_fields hook m' at0 (m_zero m', ds)) as [[v d1]|] eqn:E; cbn [bind]; intros H; inversion H; subst.
    exact (from_fields_wrong_kind_reported _ _ _ _ _ _ _ _ _ E G PH NC L HS).
  Qed.

  (* the element loop of a list of objects: the two elements anywhere in the list, in any order,
     among any other elements, from any diagnostics *)
  Theorem obj_list_loop_twin_kinds l e1 e2 vs ds vs' ds' :
    fi_kind (f_info g) <> CustomKind ->
    In e1 l -> elem_lacks (f_info g) e1 ->
    In e2 l -> elem_miskinded (f_info g) e2 ->
    obj_list_loop hook i m' l (Ok (vs, ds)) = Ok (vs', ds') ->
    In (ReadMissing, fi_path (f_info g)) ds' /\ In (ReadConv, fi_path (f_info g)) ds'.
  Proof.
    intros NC I1 L1 I2 L2 H.
    assert (V : forall x, In x l -> exists b1 d1 b2 d2,
                  obj_list_step hook i m' (Ok (b1, d1)) x = Ok (b2, d2) /\ dincl ds d1 /\ dincl d2 ds').
    { intros x Ix. apply (loop_visits (obj_list_step hook i m') (fun _ => eq_refl)
                                     (fun x b d b' d' => obj_list_step_mono hook i m' x b d b' d') l x Ix vs ds vs' ds' H). }
    split.
    - destruct (V e1 I1) as (b1 & d1 & b2 & d2 & E & _ & J). apply J. revert E. unfold obj_list_step. cbn [bind].
      destruct (obj_elem hook i m' e1 d1) as [[ov d3]|] eqn:E; cbn [bind]; intros X; inversion X; subst.
      exact (obj_elem_lacks _ _ _ _ L1 E).
    - destruct (V e2 I2) as (b1 & d1 & b2 & d2 & E & _ & J). apply J. revert E. unfold obj_list_step. cbn [bind].
      destruct (obj_elem hook i m' e2 d1) as [[ov d3]|] eqn:E; cbn [bind]; intros X; inversion X; subst.
      exact (obj_elem_miskinded _ _ _ _ NC L2 E).
  Qed.

  (* the same for the entries of a map of objects, under any keys *)
  Theorem obj_map_loop_twin_kinds l k1 e1 k2 e2 es ds es' ds' :
    fi_kind (f_info g) <> CustomKind ->
    In (k1, e1) l -> elem_lacks (f_info g) e1 ->
    In (k2, e2) l -> elem_miskinded (f_info g) e2 ->
    obj_map_loop hook i m' l (Ok (es, ds)) = Ok (es', ds') ->
    In (ReadMissing, fi_path (f_info g)) ds' /\ In (ReadConv, fi_path (f_info g)) ds'.
  Proof.
    intros NC I1 L1 I2 L2 H.
    assert (V : forall x, In x l -> exists b1 d1 b2 d2,
                  obj_map_step hook i m' (Ok (b1, d1)) x = Ok (b2, d2) /\ dincl ds d1 /\ dincl d2 ds').
    { intros x Ix. apply (loop_visits (obj_map_step hook i m') (fun _ => eq_refl)
                                     (fun x b d b' d' => obj_map_step_mono hook i m' x b d b' d') l x Ix es ds es' ds' H). }
    split.
    - destruct (V _ I1) as (b1 & d1 & b2 & d2 & E & _ & J). apply J. revert E. unfold obj_map_step. cbn [bind snd].
      destruct (obj_elem hook i m' e1 d1) as [[ov d3]|] eqn:E; cbn [bind]; intros X; inversion X; subst.
      exact (obj_elem_lacks _ _ _ _ L1 E).
    - destruct (V _ I2) as (b1 & d1 & b2 & d2 & E & _ & J). apply J. revert E. unfold obj_map_step. cbn [bind snd].
      destruct (obj_elem hook i m' e2 d1) as [[ov d3]|] eqn:E; cbn [bind]; intros X; inversion X; subst.
      exact (obj_elem_miskinded _ _ _ _ NC L2 E).
  Qed.

  (* the field: a repeated message *)
  Theorem from_field_twin_kinds attrs obj ds obj' ds' ety n u l e1 e2 :
    fi_kind i = ObjectListKind -> fi_kind (f_info g) <> CustomKind ->
    lookup (fi_snake i) (attrs_list attrs) = Some (VList ety n u (Some l)) -> known n u = true ->
    In e1 l -> elem_lacks (f_info g) e1 ->
    In e2 l -> elem_miskinded (f_info g) e2 ->
    from_field hook (Field i (Some m')) attrs (obj, ds) = Ok (obj', ds') ->
    In (ReadMissing, fi_path (f_info g)) ds' /\ In (ReadConv, fi_path (f_info g)) ds'.
  Proof.
    intros K NC L KN I1 L1 I2 L2 H. rewrite (from_field_obj_list_unfold _ _ _ _ _ _ _ _ _ _ K L), KN in H.
    cbn [olist] in H. destruct (obj_list_loop hook i m' l (Ok ([], ds))) as [[vs d1]|] eqn:E; cbn [bind fst snd] in H; [|discriminate H].
    rewrite (store_elems_ds _ _ _ _ _ _ _ H). exact (obj_list_loop_twin_kinds _ _ _ _ _ _ _ NC I1 L1 I2 L2 E).
  Qed.

  (* the field: a map of messages *)
  Theorem from_field_twin_kinds_map attrs obj ds obj' ds' ety n u l k1 e1 k2 e2 :
    fi_kind i = ObjectMapKind -> fi_kind (f_info g) <> CustomKind ->
    lookup (fi_snake i) (attrs_list attrs) = Some (VMap ety n u (Some l)) -> known n u = true ->
    In (k1, e1) l -> elem_lacks (f_info g) e1 ->
    In (k2, e2) l -> elem_miskinded (f_info g) e2 ->
    from_field hook (Field i (Some m')) attrs (obj, ds) = Ok (obj', ds') ->
    In (ReadMissing, fi_path (f_info g)) ds' /\ In (ReadConv, fi_path (f_info g)) ds'.
  Proof.
    intros K NC L KN I1 L1 I2 L2 H. rewrite (from_field_obj_map_unfold _ _ _ _ _ _ _ _ _ _ K L), KN in H.
    cbn [olist] in H. destruct (obj_map_loop hook i m' l (Ok ([], ds))) as [[es d1]|] eqn:E; cbn [bind fst snd] in H; [|discriminate H].
    rewrite (store_elems_ds _ _ _ _ _ _ _ H). exact (obj_map_loop_twin_kinds _ _ _ _ _ _ _ _ _ NC I1 L1 I2 L2 E).
  Qed.
End Twins.

(* the statement: a repeated message field i with element message m'; g a field of m' which is not
   the placeholder and not a custom type (every other kind, oneof branches and promoted fields
   included); a list value which is read, holding somewhere an object element which is read and
   lacks g's attribute and somewhere an object element which is read and holds g's attribute with
   the wrong constructor.  Every hypothesis is needed: a null or unknown list or element is not
   decoded, an element which is not an object gives a ReadConv under the path of i instead
   (DiagKindsExample.not_read), a message flagged empty is not decoded, a custom type decides by
   itself. *)
Theorem C06_from_twin_kinds :
  forall (hook : hook_from_t) (i : finfo) (m' : message) (g : field)
         (attrs : option (list (string * tfval))) (obj : goval) (ds : list diag) (obj' : goval) (ds' : list diag)
         (ety : tfty) (n u : bool) (l : list tfval) (e1 e2 : tfval),
    fi_kind i = ObjectListKind -> m_empty m' = false ->
    In g (m_fields m') -> fi_placeholder (f_info g) = false -> fi_kind (f_info g) <> CustomKind ->
    lookup (fi_snake i) (attrs_list attrs) = Some (VList ety n u (Some l)) -> known n u = true ->
    In e1 l -> elem_lacks (f_info g) e1 ->
    In e2 l -> elem_miskinded (f_info g) e2 ->
    from_field hook (Field i (Some m')) attrs (obj, ds) = Ok (obj', ds') ->
    In (ReadMissing, fi_path (f_info g)) ds' /\ In (ReadConv, fi_path (f_info g)) ds'.
Proof.
  intros hook i m' g attrs obj ds obj' ds' ety n u l e1 e2 K NE G PH NC L KN I1 L1 I2 L2 H.
  exact (from_field_twin_kinds hook i m' g NE G PH attrs obj ds obj' ds' ety n u l e1 e2 K NC L KN I1 L1 I2 L2 H).
Qed.
Print Assumptions C06_from_twin_kinds.

Theorem C06_from_twin_kinds_map :
  forall (hook : hook_from_t) (i : finfo) (m' : message) (g : field)
         (attrs : option (list (string * tfval))) (obj : goval) (ds : list diag) (obj' : goval) (ds' : list diag)
         (ety : tfty) (n u : bool) (l : list (string * tfval)) (k1 : string) (e1 : tfval) (k2 : string) (e2 : tfval),
    fi_kind i = ObjectMapKind -> m_empty m' = false ->
    In g (m_fields m') -> fi_placeholder (f_info g) = false -> fi_kind (f_info g) <> CustomKind ->
    lookup (fi_snake i) (attrs_list attrs) = Some (VMap ety n u (Some l)) -> known n u = true ->
    In (k1, e1) l -> elem_lacks (f_info g) e1 ->
    In (k2, e2) l -> elem_miskinded (f_info g) e2 ->
    from_field hook (Field i (Some m')) attrs (obj, ds) = Ok (obj', ds') ->
    In (ReadMissing, fi_path (f_info g)) ds' /\ In (ReadConv, fi_path (f_info g)) ds'.
Proof.
  intros hook i m' g attrs obj ds obj' ds' ety n u l k1 e1 k2 e2 K NE G PH NC L KN I1 L1 I2 L2 H.
  exact (from_field_twin_kinds_map hook i m' g NE G PH attrs obj ds obj' ds' ety n u l k1 e1 k2 e2 K NC L KN I1 L1 I2 L2 H).
Qed.
Print Assumptions C06_from_twin_kinds_map.

(* the statement as worded: g a primitive field (no message), the elements written out: the first
   object lacks the attribute, the second holds VNil or a primitive of another Terraform kind under
   it; the two-element lists in both orders are instances (l := [e1; e2], [e2; e1]) *)
Lemma tfkind_eqb_neq a b : a <> b -> tfkind_eqb a b = false.
Proof. intros N. destruct a, b; try reflexivity; exfalso; apply N; reflexivity. Qed.

Theorem C06_from_twin_kinds_prim :
  forall (hook : hook_from_t) (i : finfo) (m' : message) (j : finfo)
         (attrs : option (list (string * tfval))) (obj : goval) (ds : list diag) (obj' : goval) (ds' : list diag)
         (ety : tfty) (l : list tfval) (aty1 aty2 : list (string * tfty)) (at1 at2 : list (string * tfval)) (x : tfval),
    fi_kind i = ObjectListKind -> m_empty m' = false ->
    In (Field j None) (m_fields m') -> fi_placeholder j = false -> fi_kind j = PrimitiveKind ->
    lookup (fi_snake i) (attrs_list attrs) = Some (VList ety false false (Some l)) ->
    In (VObj aty1 false false (Some at1)) l -> lookup (fi_snake j) at1 = None ->
    In (VObj aty2 false false (Some at2)) l -> lookup (fi_snake j) at2 = Some x ->
    (x = VNil \/ exists k n u p, x = VPrim k n u p /\ k <> fi_tk j) ->
    from_field hook (Field i (Some m')) attrs (obj, ds) = Ok (obj', ds') ->
    In (ReadMissing, fi_path j) ds' /\ In (ReadConv, fi_path j) ds'.
Proof.
  intros hook i m' j attrs obj ds obj' ds' ety l aty1 aty2 at1 at2 x K NE G PH KJ L I1 L1 I2 L2 HX H.
  apply (C06_from_twin_kinds hook i m' (Field j None) attrs obj ds obj' ds' ety false false l
           (VObj aty1 false false (Some at1)) (VObj aty2 false false (Some at2)) K NE G PH); cbn [f_info];
    try assumption; try reflexivity.
  - rewrite KJ. discriminate.
  - exists aty1, false, false, (Some at1). repeat split. exact L1.
  - exists aty2, false, false, (Some at2), x. repeat split; [exact L2|]. unfold shaped. rewrite KJ.
    destruct HX as [->|(k & n & u & p & -> & NK)]; [reflexivity|]. now apply tfkind_eqb_neq.
Qed.
Print Assumptions C06_from_twin_kinds_prim.

(* the message: the list field anywhere among the fields of m, from any diagnostics; then
   Copy<T>FromTerraform *)
Theorem from_fields_twin_kinds hook m i m' g attrs obj ds obj' ds' ety n u l e1 e2 :
  In (Field i (Some m')) (m_fields m) -> fi_placeholder i = false ->
  fi_kind i = ObjectListKind -> m_empty m' = false ->
  In g (m_fields m') -> fi_placeholder (f_info g) = false -> fi_kind (f_info g) <> CustomKind ->
  lookup (fi_snake i) (attrs_list attrs) = Some (VList ety n u (Some l)) -> known n u = true ->
  In e1 l -> elem_lacks (f_info g) e1 ->
  In e2 l -> elem_miskinded (f_info g) e2 ->
  from_fields hook m attrs (obj, ds) = Ok (obj', ds') ->
  In (ReadMissing, fi_path (f_info g)) ds' /\ In (ReadConv, fi_path (f_info g)) ds'.
Proof.
  intros F PHi K NE G PH NC L KN I1 L1 I2 L2 H.
  destruct (from_fields_field_split _ _ _ _ _ _ _ _ H F PHi) as (o1 & d1 & o2 & d2 & E & _ & M).
  destruct (C06_from_twin_kinds hook i m' g attrs o1 d1 o2 d2 ety n u l e1 e2 K NE G PH NC L KN I1 L1 I2 L2 E) as [A B].
  split; apply M; assumption.
Qed.

Theorem C06_copy_from_twin_kinds :
  forall (hook : hook_from_t) (m : message) (a : list (string * tfty)) (n0 u0 : bool) (attrs : list (string * tfval))
         (prior r : goval) (ds : list diag) (i : finfo) (m' : message) (g : field)
         (ety : tfty) (n u : bool) (l : list tfval) (e1 e2 : tfval),
    copy_from hook m (VObj a n0 u0 (Some attrs)) prior = Ok (r, ds) ->
    In (Field i (Some m')) (m_fields m) -> fi_placeholder i = false ->
    fi_kind i = ObjectListKind -> m_empty m' = false ->
    In g (m_fields m') -> fi_placeholder (f_info g) = false -> fi_kind (f_info g) <> CustomKind ->
    lookup (fi_snake i) attrs = Some (VList ety n u (Some l)) -> known n u = true ->
    In e1 l -> elem_lacks (f_info g) e1 ->
    In e2 l -> elem_miskinded (f_info g) e2 ->
    In (ReadMissing, fi_path (f_info g)) ds /\ In (ReadConv, fi_path (f_info g)) ds /\ NoDup ds.
Proof.
  intros hook m a n0 u0 attrs prior r ds i m' g ety n u l e1 e2 H F PHi K NE G PH NC L KN I1 L1 I2 L2.
  pose proof (copy_from_diags_nodup _ _ _ _ _ _ H) as ND. cbn [copy_from] in H.
  destruct (from_fields_twin_kinds hook m i m' g (Some attrs) prior [] r ds ety n u l e1 e2 F PHi K NE G PH NC L KN I1 L1 I2 L2 H) as [A B].
  split; [exact A|]. split; [exact B|exact ND].
Qed.
Print Assumptions C06_copy_from_twin_kinds.

(* ------------------------------------------------------------------------------------- *)
(* 4. computed: MsgRoundTrip.RTExample.outer, whose field "items" is a repeated Inner and whose
   field "m" is a map of Inner; Inner has the primitive fields a (string) and u (uint64) *)

Module DiagKindsExample.
  Import RTExample FromMalformedExample.
  Local Open Scope string_scope.
  Local Open Scope Z_scope.

  Definition ity : list (string * tfty) := [("a", TyPrim KStr); ("u", TyPrim KI64)].
  Definition u7 : string * tfval := ("u", VPrim KI64 false false (PInt 7)).
  (* attribute a is absent *)
  Definition lacking : tfval := VObj ity false false (Some [u7]).
  (* attribute a holds an int64 where a string is expected *)
  Definition miskinded : tfval := VObj ity false false (Some [("a", VPrim KI64 false false (PInt 1)); u7]).
  (* attribute a holds nil *)
  Definition nilled : tfval := VObj ity false false (Some [("a", VNil); u7]).
  Definition sound : tfval := VObj ity false false (Some [("a", VPrim KStr false false (PStr "ok")); u7]).

  Definition items (l : list tfval) : tfval := VList (TyObj ity) false false (Some l).
  Definition items_field : field := Field (mk "Items" "items" ObjectListKind KI64 GsInt64 true false None) (Some inner).
  Definition a_field : field := Field (mk "A" "a" PrimitiveKind KStr GsString false true None) None.

  (* the field alone: both diagnostics, in the order of the elements; the damaged elements read
     the zero value under A and everything else is copied *)
  Example twin_field :
    from_field std_hook_from items_field (Some [("items", items [lacking; miskinded])]) (m_zero outer, [])
    = Ok (GStruct [("Items", GSlice (Some [GPtr (Some (inn "" 7)); GPtr (Some (inn "" 7))])); ("Labels", GMap None);
                   ("Tags", GSlice None); ("Sub", inn "" 0); ("P", GPtr None);
                   ("N", GPrim (PF32 (SpecFloat.S754_zero false))); ("E", GPtr None);
                   ("T", GPrim (PTime (-62135596800) 0 0)); ("M", GMap None);
                   ("Kind", GOneof None); ("Other", GOneof None)],
          [(ReadMissing, "a"); (ReadConv, "a")]).
  Proof. vm_compute. reflexivity. Qed.

  Example twin_field_swapped :
    option_map snd (match from_field std_hook_from items_field (Some [("items", items [miskinded; lacking])]) (m_zero outer, [])
                    with Ok r => Some r | Panic => None end)
    = Some [(ReadConv, "a"); (ReadMissing, "a")].
  Proof. vm_compute. reflexivity. Qed.

  (* Copy<Outer>FromTerraform on the object CopyTo wrote, with the list replaced: the two
     diagnostics and nothing else; a sound element between the twins, VNil for the wrong type *)
  Example twin_message :
    option_map snd (match run (update "items" (items [lacking; sound; nilled; lacking; miskinded]) intact) with Ok r => Some r | Panic => None end)
    = Some [(ReadMissing, "a"); (ReadConv, "a")].
  Proof. vm_compute. reflexivity. Qed.

  (* the map of messages *)
  Example twin_map :
    option_map snd (match run (update "m" (VMap (TyObj ity) false false (Some [("k1", miskinded); ("k2", lacking)])) intact)
                    with Ok r => Some r | Panic => None end)
    = Some [(ReadConv, "a"); (ReadMissing, "a")].
  Proof. vm_compute. reflexivity. Qed.

  (* the theorem on this input: any hook, any target, any incoming diagnostics *)
  Example twin_by_theorem hook obj ds obj' ds' :
    from_field hook items_field (Some [("items", items [lacking; sound; miskinded])]) (obj, ds) = Ok (obj', ds') ->
    In (ReadMissing, "a") ds' /\ In (ReadConv, "a") ds'.
  Proof.
    intros H.
    apply (C06_from_twin_kinds_prim hook _ inner (mk "A" "a" PrimitiveKind KStr GsString false true None) _ _ _ _ _
             (TyObj ity) [lacking; sound; miskinded] ity ity [u7] [("a", VPrim KI64 false false (PInt 1)); u7]
             (VPrim KI64 false false (PInt 1))) in H; try reflexivity; try exact H.
    - cbn. tauto.
    - cbn. tauto.
    - cbn. tauto.
    - right. exists KI64, false, false, (PInt 1). split; [reflexivity|discriminate].
  Qed.

  (* the hypotheses "the list is read, the elements are objects and are read": a null element and
     an unknown element are not decoded, an element which is not an object is a conversion error of
     the LIST field *)
  Example not_read :
    option_map snd (match run (update "items" (items [VObj ity true false (Some [u7]);
                                                       VObj ity false true (Some [("a", VNil); u7]);
                                                       VNil]) intact) with Ok r => Some r | Panic => None end)
    = Some [(ReadConv, "items")].
  Proof. vm_compute. reflexivity. Qed.

  (* the regression: equality of diagnostics by the path alone.  The second twin is dropped, and
     none of C06_diag_append_self, C06_diag_kinds_independent, C06_diag_fold_exact holds of it *)
  Definition path_eqb (a b : diag) : bool := String.eqb (snd a) (snd b).
  Fixpoint path_mem (d : diag) (l : list diag) : bool :=
    match l with [] => false | x :: r => path_eqb d x || path_mem d r end.
  Definition path_append (l : list diag) (d : diag) : list diag := if path_mem d l then l else l ++ [d].

  Example path_equality_collapses :
    fold_left path_append [(ReadMissing, "a"); (ReadConv, "a")] [] = [(ReadMissing, "a")]
    /\ fold_left diag_append [(ReadMissing, "a"); (ReadConv, "a")] [] = [(ReadMissing, "a"); (ReadConv, "a")].
  Proof. split; vm_compute; reflexivity. Qed.

  Example path_equality_refuted :
    ~ (forall ds d, In d (path_append ds d)).
  Proof.
    intros H. specialize (H [(ReadMissing, "a")] (ReadConv, "a")). vm_compute in H.
    destruct H as [E|[]]. discriminate E.
  Qed.
End DiagKindsExample.

Print Assumptions DiagKindsExample.twin_by_theorem.
