(* Properties of the emitted Copy<T>FromTerraform (Model/CopyFrom.v):
   1. struct access lemmas;
   2. locality of the writes (C02, C05, C11): from_field_untouched, from_fields_untouched,
      copy_from_untouched;
   3. oneof groups (C07): from_fields_oneof_none (all branches null/unknown: the holder is nil),
      from_fields_oneof_some (the last known primitive branch decides the holder);
   4. totality on arbitrary payload-typed input (C06) for messages without nullable embedded
      messages: from_fields_total_partial. *)
From Coq Require Import List String Bool ZArith.
From PGT Require Import Base.Strs Base.AList Model.Vals Model.IR Model.CopyFrom.
Import ListNotations.

(* ------------------------------------------------------------------------------------- *)
(* unfolding *)

(* a fold whose accumulator is a result is a monadic fold *)
Fixpoint fold_res {A B} (g : B -> A -> res B) (l : list A) (b : B) : res B :=
  match l with
  | [] => Ok b
  | x :: r => do b' <- g b x; fold_res g r b'
  end.

Lemma fold_left_panic {A B} (g : B -> A -> res B) l :
  fold_left (fun acc x => do o <- acc; g o x) l Panic = Panic.
Proof. induction l as [|x r IH]; [reflexivity|exact IH]. Qed.

Lemma fold_left_res {A B} (g : B -> A -> res B) l : forall b,
  fold_left (fun acc x => do o <- acc; g o x) l (Ok b) = fold_res g l b.
Proof.
  induction l as [|x r IH]; intros b; [reflexivity|].
  cbn [fold_left fold_res bind]. destruct (g b x) as [b'|]; cbn [bind]; [apply IH|apply fold_left_panic].
Qed.

Fixpoint from_field_list (hook : hook_from_t) (fs : list field) (attrs : option (list (string * tfval)))
         (st : fstate) : res fstate :=
  match fs with
  | [] => Ok st
  | f :: r =>
      if fi_placeholder (f_info f) then from_field_list hook r attrs st
      else do st' <- from_field hook f attrs st; from_field_list hook r attrs st'
  end.

Definition reset_oneof (o : goval) (h : string) : res goval := gset o h (GOneof None).
Definition reset_promoted (o : goval) (f : field) : res goval :=
  match fi_oneof (f_info f), fi_parent (f_info f) with
  | Some h, None => gset o h (GOneof None)
  | _, _ => Ok o
  end.
Definition reset_parent (o : goval) (f : field) : res goval :=
  match fi_parent (f_info f) with
  | Some (pn, _) => gset o pn (GPtr None)
  | None => Ok o
  end.

Lemma from_field_go hook attrs fs : forall s,
  (fix go (l : list field) (st : fstate) {struct l} : res fstate :=
     match l with
     | [] => Ok st
     | f :: r => if fi_placeholder (f_info f) then go r st else do st' <- from_field hook f attrs st; go r st'
     end) fs s = from_field_list hook fs attrs s.
Proof.
  induction fs as [|f r IH]; intros s; [reflexivity|].
  cbn [from_field_list]. destruct (fi_placeholder (f_info f)); [apply IH|].
  destruct (from_field hook f attrs s); [|reflexivity]. cbn [bind]. apply IH.
Qed.

Lemma from_fields_unfold hook n fs os inj e z attrs st :
  from_fields hook (Msg n fs os inj e z) attrs st =
  do o1 <- fold_res reset_oneof os (fst st);
  do o2 <- fold_res reset_promoted fs o1;
  do o3 <- fold_res reset_parent fs o2;
  from_field_list hook fs attrs (o3, snd st).
Proof.
  cbn [from_fields].
  rewrite (fold_left_res reset_oneof). destruct (fold_res reset_oneof os (fst st)) as [o1|]; [|reflexivity].
  cbn [bind]. rewrite (fold_left_res reset_promoted). destruct (fold_res reset_promoted fs o1) as [o2|]; [|reflexivity].
  cbn [bind]. rewrite (fold_left_res reset_parent). destruct (fold_res reset_parent fs o2) as [o3|]; [|reflexivity].
  cbn [bind]. exact (from_field_go hook attrs fs (o3, snd st)).
Qed.

(* ------------------------------------------------------------------------------------- *)
(* 1. struct access *)

Lemma gset_other obj n v obj' n' :
  gset obj n v = Ok obj' -> n' <> n -> gfield obj' n' = gfield obj n'.
Proof.
  destruct obj; cbn; try discriminate. destruct (lookup n fs); [|discriminate].
  intros [= <-] N. cbn. now rewrite lookup_update_neq.
Qed.

Lemma gset_same obj n v obj' : gset obj n v = Ok obj' -> gfield obj' n = Ok v.
Proof.
  destruct obj; cbn; try discriminate. destruct (lookup n fs); [|discriminate].
  intros [= <-]. cbn. now rewrite lookup_update_eq.
Qed.

Lemma lookup_Some_keys {A} k (l : list (string * A)) v : lookup k l = Some v -> In k (keys l).
Proof. intros H. apply lookup_In in H. unfold keys. change k with (fst (k, v)). now apply in_map. Qed.

Lemma keys_lookup {A} k (l : list (string * A)) : In k (keys l) -> exists v, lookup k l = Some v.
Proof.
  intros H. destruct (lookup k l) eqn:E; [eauto|]. apply lookup_None_keys in E. contradiction.
Qed.

Lemma gset_keys fs n v obj' :
  gset (GStruct fs) n v = Ok obj' -> exists fs', obj' = GStruct fs' /\ keys fs' = keys fs.
Proof.
  cbn. destruct (lookup n fs) eqn:E; [|discriminate]. intros [= <-].
  eexists; split; [reflexivity|]. apply keys_update_in. eapply lookup_Some_keys; eauto.
Qed.

Lemma gset_ok fs n v : In n (keys fs) -> exists obj', gset (GStruct fs) n v = Ok obj'.
Proof. intros H. destruct (keys_lookup _ _ H) as [x E]. cbn. rewrite E. eauto. Qed.

Lemma gfield_ok fs n : In n (keys fs) -> exists v, gfield (GStruct fs) n = Ok v.
Proof. intros H. destruct (keys_lookup _ _ H) as [x E]. cbn. rewrite E. eauto. Qed.

Lemma gset_via_nil obj n v : gset_via obj [] n v = gset obj n v.
Proof. reflexivity. Qed.

Lemma gget_via_nil obj n : gget_via obj [] n = gfield obj n.
Proof. reflexivity. Qed.

(* the only top-level key a write through [via] changes is the head of [via] (the key itself when
   [via] is empty) *)
Lemma gset_via_other obj via n v obj' n' :
  gset_via obj via n v = Ok obj' -> n' <> hd n via -> gfield obj' n' = gfield obj n'.
Proof.
  destruct via as [|p r]; cbn [gset_via hd]; [apply gset_other|].
  destruct (gfield obj p) as [pv|]; cbn [bind]; [|discriminate].
  destruct pv as [| |[inner|]| | | |]; try discriminate.
  destruct (gset_via inner r n v); cbn [bind]; [|discriminate]. apply gset_other.
Qed.

Lemma gset_via_same obj via n v obj' :
  gset_via obj via n v = Ok obj' -> exists w, gfield obj' (hd n via) = Ok w.
Proof.
  destruct via as [|p r]; cbn [gset_via hd]; [intros H; eexists; eapply gset_same; eauto|].
  destruct (gfield obj p) as [pv|]; cbn [bind]; [|discriminate].
  destruct pv as [| |[inner|]| | | |]; try discriminate.
  destruct (gset_via inner r n v); cbn [bind]; [|discriminate].
  intros H; eexists; eapply gset_same; eauto.
Qed.

(* ------------------------------------------------------------------------------------- *)
(* 2. locality of the writes (C05, C11, C02) *)

(* the key of the struct a field is written to: the oneof holder for the two kinds that can be
   a oneof branch, the Go field otherwise *)
Definition write_key (i : finfo) : string :=
  match fi_oneof i, fi_kind i with
  | Some h, PrimitiveKind | Some h, ObjectKind => h
  | _, _ => fi_name i
  end.

(* the top-level Go keys a field may write *)
Definition top_keys (i : finfo) : list string :=
  hd (write_key i) (fi_via i)
  :: match fi_parent i with Some (pn, _) => [pn] | None => [] end.

(* the definition of the task statement; it agrees with [top_keys] on every field which is not a
   oneof branch, and on oneof branches of primitive and object kind *)
Definition top_keys_simple (i : finfo) : list string :=
  (match fi_via i with
   | p :: _ => [p]
   | [] => match fi_oneof i with Some h => [h] | None => [fi_name i] end
   end)
  ++ match fi_parent i with Some (pn, _) => [pn] | None => [] end.

Lemma top_keys_simple_eq i :
  fi_oneof i = None \/ fi_kind i = PrimitiveKind \/ fi_kind i = ObjectKind ->
  top_keys i = top_keys_simple i.
Proof.
  unfold top_keys, top_keys_simple, write_key.
  intros [H|[H|H]]; rewrite H; destruct (fi_via i); try reflexivity; destruct (fi_oneof i); try reflexivity;
    destruct (fi_kind i); reflexivity.
Qed.

Lemma alloc_chain_other obj pn pz r obj' n :
  alloc_chain obj ((pn, pz) :: r) = Ok obj' -> n <> pn -> gfield obj' n = gfield obj n.
Proof.
  cbn [alloc_chain]. destruct (gfield obj pn) as [pv|]; cbn [bind]; [|discriminate].
  destruct pv as [| |[x|]| | | |]; try discriminate.
  - destruct r as [|q r']; [now intros [= <-]|].
    destruct (alloc_chain x (q :: r')) as [x'|]; cbn [bind]; [|discriminate].
    intros H N. eapply gset_other; eauto.
  - destruct (alloc_chain pz r) as [z|]; cbn [bind]; [|discriminate].
    intros H N. eapply gset_other; eauto.
Qed.

Lemma alloc_parent_other i obj obj' n :
  alloc_parent i obj = Ok obj' -> ~ In n (top_keys i) -> gfield obj' n = gfield obj n.
Proof.
  unfold alloc_parent, top_keys. destruct (fi_parent i) as [[pn pz]|]; [|now intros [= <-]].
  intros H N. eapply alloc_chain_other; eauto. intros ->. apply N. cbn. tauto.
Qed.

Lemma gset_via_key_other i obj k v obj' n :
  gset_via obj (fi_via i) k v = Ok obj' -> k = write_key i -> ~ In n (top_keys i) ->
  gfield obj' n = gfield obj n.
Proof.
  intros H -> N. eapply gset_via_other; eauto. intros ->. apply N. now left.
Qed.

Ltac stepg :=
  match goal with
  | |- Ok _ = Ok _ -> _ => let H := fresh "H" in intros H; inversion H; subst; clear H
  | |- Panic = Ok _ -> _ => discriminate
  | |- bind ?x _ = Ok _ -> _ => destruct x eqn:?; cbn [bind]
  | |- match ?x with _ => _ end = Ok _ -> _ => destruct x eqn:?
  end.

Ltac wk :=
  unfold write_key;
  repeat match goal with
         | E : fi_oneof _ = _ |- _ => rewrite E
         | E : fi_kind _ = _ |- _ => rewrite E
         end;
  first [reflexivity | destruct (fi_oneof _); reflexivity].

Ltac chain n N :=
  repeat match goal with
         | H : match ?x with _ => _ end = Ok _ |- _ => destruct x eqn:?; [inversion H; subst; clear H|]
         | H : gset_via _ (fi_via _) _ _ = Ok ?o |- gfield ?o n = _ =>
             rewrite (gset_via_key_other _ _ _ _ _ n H ltac:(wk) N)
         | H : alloc_parent _ _ = Ok ?o |- gfield ?o n = _ => rewrite (alloc_parent_other _ _ _ n H N)
         end;
  reflexivity.

Lemma from_field_untouched hook f attrs obj ds obj' ds' :
  from_field hook f attrs (obj, ds) = Ok (obj', ds') ->
  forall n, ~ In n (top_keys (f_info f)) -> gfield obj' n = gfield obj n.
Proof.
  destruct f as [i om]. cbn [from_field f_info].
  repeat stepg.
  all: intros n N.
  all: try reflexivity.
  all: chain n N.
Qed.

Lemma from_field_list_untouched hook fs attrs : forall obj ds obj' ds',
  from_field_list hook fs attrs (obj, ds) = Ok (obj', ds') ->
  forall n, ~ In n (flat_map (fun f => top_keys (f_info f)) fs) -> gfield obj' n = gfield obj n.
Proof.
  induction fs as [|f r IH]; intros obj ds obj' ds' H n N; cbn [from_field_list] in H.
  - now inversion H.
  - cbn [flat_map] in N. rewrite in_app_iff in N.
    destruct (fi_placeholder (f_info f)); [apply (IH _ _ _ _ H n); tauto|].
    destruct (from_field hook f attrs (obj, ds)) as [[o1 d1]|] eqn:E; cbn [bind] in H; [|discriminate].
    rewrite (IH _ _ _ _ H n) by tauto. apply (from_field_untouched _ _ _ _ _ _ _ E). tauto.
Qed.

Lemma fold_res_other {A} (g : goval -> A -> res goval) (K : A -> list string) n :
  (forall o x o', g o x = Ok o' -> ~ In n (K x) -> gfield o' n = gfield o n) ->
  forall l o o', fold_res g l o = Ok o' -> ~ In n (flat_map K l) -> gfield o' n = gfield o n.
Proof.
  intros Hg. induction l as [|x r IH]; intros o o' H N; cbn [fold_res] in H.
  - now inversion H.
  - destruct (g o x) as [o1|] eqn:E; cbn [bind] in H; [|discriminate].
    cbn [flat_map] in N. rewrite in_app_iff in N.
    rewrite (IH _ _ H) by tauto. apply (Hg _ _ _ E). tauto.
Qed.

(* the holders reset for the oneofs promoted from by-value embedded messages *)
Definition promoted_keys (i : finfo) : list string :=
  match fi_oneof i, fi_parent i with
  | Some h, None => [h]
  | _, _ => []
  end.

Lemma reset_oneof_other n o h o' :
  reset_oneof o h = Ok o' -> ~ In n [h] -> gfield o' n = gfield o n.
Proof. unfold reset_oneof. intros H N. eapply gset_other; eauto. intros ->. apply N. now left. Qed.

Lemma reset_promoted_other n o f o' :
  reset_promoted o f = Ok o' -> ~ In n (promoted_keys (f_info f)) -> gfield o' n = gfield o n.
Proof.
  unfold reset_promoted, promoted_keys. destruct (fi_oneof (f_info f)) as [h|]; [|now intros [= <-]].
  destruct (fi_parent (f_info f)); [now intros [= <-]|].
  intros H N. eapply gset_other; eauto. intros ->. apply N. now left.
Qed.

Lemma reset_parent_other n o f o' :
  reset_parent o f = Ok o' -> ~ In n (top_keys (f_info f)) -> gfield o' n = gfield o n.
Proof.
  unfold reset_parent, top_keys. destruct (fi_parent (f_info f)) as [[pn pz]|]; [|now intros [= <-]].
  intros H N. eapply gset_other; eauto. intros ->. apply N. cbn. tauto.
Qed.

(* C05, C11: a key which is neither a oneof holder of the message nor written by one of its fields
   keeps its value *)
Theorem from_fields_untouched hook m attrs obj ds obj' ds' :
  from_fields hook m attrs (obj, ds) = Ok (obj', ds') ->
  forall n,
    ~ In n (m_oneofs m) ->
    ~ In n (flat_map (fun f => top_keys (f_info f)) (m_fields m)) ->
    ~ In n (flat_map (fun f => promoted_keys (f_info f)) (m_fields m)) ->
    gfield obj' n = gfield obj n.
Proof.
  destruct m as [nm fs os inj e z]. rewrite from_fields_unfold. cbn [fst snd m_oneofs m_fields].
  intros H n N1 N2 N3.
  destruct (fold_res reset_oneof os obj) as [o1|] eqn:E1; cbn [bind] in H; [|discriminate].
  destruct (fold_res reset_promoted fs o1) as [o2|] eqn:E2; cbn [bind] in H; [|discriminate].
  destruct (fold_res reset_parent fs o2) as [o3|] eqn:E3; cbn [bind] in H; [|discriminate].
  rewrite (from_field_list_untouched _ _ _ _ _ _ _ H n N2).
  rewrite (fold_res_other _ (fun f => top_keys (f_info f)) n (reset_parent_other n) _ _ _ E3 N2).
  rewrite (fold_res_other _ (fun f => promoted_keys (f_info f)) n (reset_promoted_other n) _ _ _ E2 N3).
  apply (fold_res_other _ (fun h => [h]) n (reset_oneof_other n) _ _ _ E1).
  intros HI. apply N1. clear -HI. induction os as [|h r IH]; cbn in *; tauto.
Qed.

Print Assumptions from_fields_untouched.

Corollary copy_from_untouched hook m a nl u at0 obj obj' ds n :
  copy_from hook m (VObj a nl u at0) obj = Ok (obj', ds) ->
  ~ In n (m_oneofs m) ->
  ~ In n (flat_map (fun f => top_keys (f_info f)) (m_fields m)) ->
  ~ In n (flat_map (fun f => promoted_keys (f_info f)) (m_fields m)) ->
  gfield obj' n = gfield obj n.
Proof. cbn [copy_from]. intros H. exact (from_fields_untouched _ _ _ _ _ _ _ H n). Qed.

(* the statement with the simple key sets, for messages whose oneof branches are primitives or
   objects, and whose promoted oneof branches are reached without a pointer *)
Corollary from_fields_untouched_simple hook m attrs obj ds obj' ds' :
  (forall f, In f (m_fields m) -> fi_oneof (f_info f) <> None ->
             (fi_kind (f_info f) = PrimitiveKind \/ fi_kind (f_info f) = ObjectKind) /\
             (fi_parent (f_info f) = None -> fi_via (f_info f) = [])) ->
  from_fields hook m attrs (obj, ds) = Ok (obj', ds') ->
  forall n, ~ In n (m_oneofs m) ->
            ~ In n (flat_map (fun f => top_keys_simple (f_info f)) (m_fields m)) ->
            gfield obj' n = gfield obj n.
Proof.
  intros W H n N1 N2. apply (from_fields_untouched _ _ _ _ _ _ _ H n N1).
  - intros HI. apply N2. apply in_flat_map in HI. destruct HI as [f [Hf HI]].
    apply in_flat_map. exists f. split; [exact Hf|]. rewrite <- top_keys_simple_eq; [exact HI|].
    destruct (fi_oneof (f_info f)) eqn:E; [|now left]. right. apply (W f Hf). congruence.
  - intros HI. apply N2. apply in_flat_map in HI. destruct HI as [f [Hf HI]].
    apply in_flat_map. exists f. split; [exact Hf|]. unfold promoted_keys in HI. unfold top_keys_simple.
    destruct (fi_oneof (f_info f)) as [h|] eqn:E; [|destruct HI].
    destruct (fi_parent (f_info f)) eqn:E2; [destruct HI|].
    destruct (W f Hf) as [_ V]; [congruence|]. rewrite (V E2). apply in_or_app. now left.
Qed.

(* ------------------------------------------------------------------------------------- *)
(* 3. oneof groups (C07) *)

Definition attrs_list (attrs : option (list (string * tfval))) : list (string * tfval) :=
  match attrs with Some l => l | None => [] end.

Lemma attr_lookup_eq s attrs :
  match attrs with Some l => lookup s l | None => None end = lookup s (attrs_list attrs).
Proof. now destruct attrs. Qed.

(* a value which is null or unknown *)
Definition not_known (a : tfval) : Prop :=
  match a with
  | VPrim _ n u _ => known n u = false
  | VObj _ n u _ => known n u = false
  | _ => True
  end.

Lemma as_prim_inv i a n u p : as_prim i a = Some (n, u, p) -> a = VPrim (fi_tk i) n u p.
Proof.
  destruct a; cbn; try discriminate. destruct (tfkind_eqb k (fi_tk i)) eqn:E; [|discriminate].
  intros [= -> -> ->]. f_equal. destruct k, (fi_tk i); (reflexivity || discriminate).
Qed.

(* a branch of a oneof whose attribute is missing, ill-typed, null or unknown writes nothing *)
Lemma from_field_oneof_unknown hook i om attrs obj ds obj' ds' h :
  fi_oneof i = Some h ->
  fi_kind i = PrimitiveKind \/ fi_kind i = ObjectKind ->
  (forall a, lookup (fi_snake i) (attrs_list attrs) = Some a -> not_known a) ->
  from_field hook (Field i om) attrs (obj, ds) = Ok (obj', ds') -> obj' = obj.
Proof.
  intros O K A. rewrite <- attr_lookup_eq in A. cbn [from_field]. rewrite O.
  destruct K as [K|K]; rewrite K.
  - repeat stepg; try reflexivity.
    exfalso. specialize (A _ eq_refl). apply as_prim_inv in Heqo0. subst t. cbn in A. congruence.
  - repeat stepg; try reflexivity.
    all: exfalso; specialize (A _ eq_refl); cbn in A; congruence.
Qed.

Lemma fold_res_inv {A B} (g : B -> A -> res B) (P : B -> Prop) l :
  (forall x, In x l -> forall o o', P o -> g o x = Ok o' -> P o') ->
  forall o o', P o -> fold_res g l o = Ok o' -> P o'.
Proof.
  induction l as [|x r IH]; intros Hg o o' HP H; cbn [fold_res] in H.
  - inversion H. now subst.
  - destruct (g o x) as [o1|] eqn:E; cbn [bind] in H; [|discriminate].
    apply (IH (fun y Hy => Hg y (or_intror Hy)) o1 o'); [|exact H].
    apply (Hg x (or_introl eq_refl) o o1 HP E).
Qed.

Lemma gset_nil_preserved o k o' h :
  gset o k (GOneof None) = Ok o' ->
  k = h \/ gfield o h = Ok (GOneof None) -> gfield o' h = Ok (GOneof None).
Proof.
  intros H [->|P]; [eapply gset_same; eauto|].
  destruct (string_dec h k) as [->|N]; [eapply gset_same; eauto|].
  rewrite (gset_other _ _ _ _ _ H N). exact P.
Qed.

Lemma reset_oneofs_nil h os : forall o o',
  fold_res reset_oneof os o = Ok o' ->
  In h os \/ gfield o h = Ok (GOneof None) -> gfield o' h = Ok (GOneof None).
Proof.
  induction os as [|k r IH]; intros o o' H P; cbn [fold_res] in H.
  - inversion H. subst. destruct P as [[]|P]. exact P.
  - unfold reset_oneof at 1 in H. destruct (gset o k (GOneof None)) as [o1|] eqn:E; cbn [bind] in H; [|discriminate].
    apply (IH _ _ H). destruct P as [[->|P]|P]; [right|now left|right].
    + eapply gset_same; eauto.
    + eapply gset_nil_preserved; eauto.
Qed.

(* the side condition on the IR: the key [h] is written by branches of the oneof [h] only, and no
   nullable embedded message is stored under it *)
Definition oneof_only (h : string) (i : finfo) : Prop :=
  In h (top_keys i) ->
  fi_oneof i = Some h /\
  (fi_kind i = PrimitiveKind \/ fi_kind i = ObjectKind) /\
  (forall pn pz, fi_parent i = Some (pn, pz) -> pn <> h).

Lemma from_field_oneof_keep hook f attrs obj ds obj' ds' h :
  oneof_only h (f_info f) ->
  (fi_oneof (f_info f) = Some h ->
   forall a, lookup (fi_snake (f_info f)) (attrs_list attrs) = Some a -> not_known a) ->
  from_field hook f attrs (obj, ds) = Ok (obj', ds') ->
  gfield obj' h = gfield obj h.
Proof.
  intros W A H. destruct (in_dec string_dec h (top_keys (f_info f))) as [I|I].
  - destruct (W I) as [O [K _]]. destruct f as [i om]. cbn [f_info] in *.
    now rewrite (from_field_oneof_unknown _ _ _ _ _ _ _ _ _ O K (A O) H).
  - exact (from_field_untouched _ _ _ _ _ _ _ H h I).
Qed.

Lemma from_field_list_oneof_keep hook attrs h fs : forall obj ds obj' ds',
  (forall f, In f fs -> oneof_only h (f_info f)) ->
  (forall f a, In f fs -> fi_oneof (f_info f) = Some h ->
               lookup (fi_snake (f_info f)) (attrs_list attrs) = Some a -> not_known a) ->
  from_field_list hook fs attrs (obj, ds) = Ok (obj', ds') ->
  gfield obj' h = gfield obj h.
Proof.
  induction fs as [|f r IH]; intros obj ds obj' ds' W A H; cbn [from_field_list] in H.
  - inversion H. now subst.
  - destruct (fi_placeholder (f_info f)).
    { apply (IH obj ds obj' ds'); [intros; apply W; now right|intros g a Hg; apply A; now right|exact H]. }
    destruct (from_field hook f attrs (obj, ds)) as [[o1 d1]|] eqn:E; cbn [bind] in H; [|discriminate].
    rewrite (IH o1 d1 obj' ds'); [|intros; apply W; now right|intros g a Hg; apply A; now right|exact H].
    apply (from_field_oneof_keep _ _ _ _ _ _ _ _ (W f (or_introl eq_refl)) (fun O a => A f a (or_introl eq_refl) O) E).
Qed.

(* C07: when every branch attribute of a oneof is missing, ill-typed, null or unknown, the holder
   is nil after CopyFrom, whatever the target held before *)
Theorem from_fields_oneof_none hook m attrs obj ds obj' ds' h :
  from_fields hook m attrs (obj, ds) = Ok (obj', ds') ->
  In h (m_oneofs m) ->
  (forall f, In f (m_fields m) -> oneof_only h (f_info f)) ->
  (forall f a, In f (m_fields m) -> fi_oneof (f_info f) = Some h ->
               lookup (fi_snake (f_info f)) (attrs_list attrs) = Some a -> not_known a) ->
  gfield obj' h = Ok (GOneof None).
Proof.
  destruct m as [nm fs os inj e z]. rewrite from_fields_unfold. cbn [fst snd m_oneofs m_fields].
  intros H I W A.
  destruct (fold_res reset_oneof os obj) as [o1|] eqn:E1; cbn [bind] in H; [|discriminate].
  destruct (fold_res reset_promoted fs o1) as [o2|] eqn:E2; cbn [bind] in H; [|discriminate].
  destruct (fold_res reset_parent fs o2) as [o3|] eqn:E3; cbn [bind] in H; [|discriminate].
  rewrite (from_field_list_oneof_keep _ _ _ _ _ _ _ _ W A H).
  apply (fold_res_inv reset_parent (fun o => gfield o h = Ok (GOneof None)) fs) with (o := o2); [|
    apply (fold_res_inv reset_promoted (fun o => gfield o h = Ok (GOneof None)) fs) with (o := o1); [|
      apply (reset_oneofs_nil h os _ _ E1); now left | exact E2] | exact E3].
  - intros f Hf o o' P. unfold reset_parent. destruct (fi_parent (f_info f)) as [[pn pz]|] eqn:EP; [|now intros [= <-]].
    intros S. rewrite (gset_other _ _ _ _ h S); [exact P|].
    intros ->. destruct (W f Hf) as [_ [_ N]]; [unfold top_keys; rewrite EP; cbn; tauto|].
    now apply (N _ _ EP).
  - intros f Hf o o' P. unfold reset_promoted. destruct (fi_oneof (f_info f)) as [k|]; [|now intros [= <-]].
    destruct (fi_parent (f_info f)); [now intros [= <-]|].
    intros S. eapply gset_nil_preserved; eauto.
Qed.

Print Assumptions from_fields_oneof_none.

(* the statement with the stronger side condition of the task *)
Corollary from_fields_oneof_none' hook m attrs obj ds obj' ds' h :
  from_fields hook m attrs (obj, ds) = Ok (obj', ds') ->
  In h (m_oneofs m) ->
  (forall f, In f (m_fields m) -> In h (top_keys (f_info f)) ->
             fi_oneof (f_info f) = Some h /\ fi_via (f_info f) = [] /\ fi_parent (f_info f) = None /\
             (fi_kind (f_info f) = PrimitiveKind \/ fi_kind (f_info f) = ObjectKind)) ->
  (forall f a, In f (m_fields m) -> fi_oneof (f_info f) = Some h ->
               lookup (fi_snake (f_info f)) (match attrs with Some l => l | None => [] end) = Some a ->
               match a with
               | VPrim _ n u _ => known n u = false
               | VObj _ n u _ => known n u = false
               | _ => True
               end) ->
  gfield obj' h = Ok (GOneof None).
Proof.
  intros H I W A. apply (from_fields_oneof_none _ _ _ _ _ _ _ _ H I); [|exact A].
  intros f Hf Hh. destruct (W f Hf Hh) as [O [_ [P K]]]. repeat split; auto. intros pn pz E. congruence.
Qed.

(* the positive half, for a primitive branch: the last branch of the oneof whose attribute is
   known decides the holder *)
Lemma from_field_list_app hook attrs l1 l2 : forall st,
  from_field_list hook (l1 ++ l2) attrs st =
  do st' <- from_field_list hook l1 attrs st; from_field_list hook l2 attrs st'.
Proof.
  induction l1 as [|f r IH]; intros st; [reflexivity|]. cbn [app from_field_list].
  destruct (fi_placeholder (f_info f)); [apply IH|].
  destruct (from_field hook f attrs st); [|reflexivity]. cbn [bind]. apply IH.
Qed.

Lemma tfkind_eqb_refl k : tfkind_eqb k k = true.
Proof. now destruct k. Qed.

Lemma from_field_oneof_prim hook i om attrs obj ds obj' ds' h n u p :
  fi_oneof i = Some h -> fi_kind i = PrimitiveKind -> fi_via i = [] ->
  lookup (fi_snake i) (attrs_list attrs) = Some (VPrim (fi_tk i) n u p) -> known n u = true ->
  from_field hook (Field i om) attrs (obj, ds) = Ok (obj', ds') ->
  exists t, from_prim_value i n u p = Ok t /\ gfield obj' h = Ok (GOneof (Some (fi_name i, t))).
Proof.
  intros O K V L N. rewrite <- attr_lookup_eq in L. cbn [from_field]. rewrite K, L, O, V. cbn [as_prim].
  rewrite tfkind_eqb_refl, N. cbn [gset_via].
  destruct (from_prim_value i n u p) as [t|]; cbn [bind]; [|discriminate].
  destruct (alloc_parent i obj) as [o1|]; cbn [bind]; [|discriminate].
  destruct (gset o1 h (GOneof (Some (fi_name i, t)))) as [o2|] eqn:E; cbn [bind]; [|discriminate].
  intros [= <- <-]. exists t. split; [reflexivity|]. eapply gset_same; eauto.
Qed.

Theorem from_fields_oneof_some hook m attrs obj ds obj' ds' h pre i om post n u p :
  from_fields hook m attrs (obj, ds) = Ok (obj', ds') ->
  m_fields m = pre ++ Field i om :: post ->
  fi_placeholder i = false ->
  fi_oneof i = Some h -> fi_kind i = PrimitiveKind -> fi_via i = [] ->
  lookup (fi_snake i) (attrs_list attrs) = Some (VPrim (fi_tk i) n u p) -> known n u = true ->
  (forall f, In f post -> oneof_only h (f_info f)) ->
  (forall f a, In f post -> fi_oneof (f_info f) = Some h ->
               lookup (fi_snake (f_info f)) (attrs_list attrs) = Some a -> not_known a) ->
  exists t, from_prim_value i n u p = Ok t /\ gfield obj' h = Ok (GOneof (Some (fi_name i, t))).
Proof.
  destruct m as [nm fs os inj e z]. rewrite from_fields_unfold. cbn [fst snd m_fields].
  intros H -> PH O K V L N W A.
  destruct (fold_res reset_oneof os obj) as [o1|]; cbn [bind] in H; [|discriminate].
  destruct (fold_res reset_promoted _ o1) as [o2|]; cbn [bind] in H; [|discriminate].
  destruct (fold_res reset_parent _ o2) as [o3|]; cbn [bind] in H; [|discriminate].
  rewrite from_field_list_app in H.
  destruct (from_field_list hook pre attrs (o3, ds)) as [[o4 d4]|]; cbn [bind] in H; [|discriminate].
  cbn [from_field_list f_info] in H. rewrite PH in H.
  destruct (from_field hook (Field i om) attrs (o4, d4)) as [[o5 d5]|] eqn:E; cbn [bind] in H; [|discriminate].
  destruct (from_field_oneof_prim _ _ _ _ _ _ _ _ _ _ _ _ O K V L N E) as [t [Et G]].
  exists t. split; [exact Et|]. now rewrite (from_field_list_oneof_keep _ _ _ _ _ _ _ _ W A H).
Qed.

Print Assumptions from_fields_oneof_some.

(* ------------------------------------------------------------------------------------- *)
(* 4. totality on arbitrary input (C06), fragment without nullable embedded messages *)

(* the payload of a primitive value has the Go type of its kind (types.Int64 holds an int64, ...):
   a representation invariant of the Terraform values, not a property of the input *)
Definition prim_has_kind (k : tfkind) (p : prim) : bool :=
  match k, p with
  | KI64, PInt _ | KF64, PF64 _ | KStr, PStr _ | KBool, PBool _ | KTime, PTime _ _ _ | KDur, PInt _ => true
  | _, _ => false
  end.

Fixpoint tf_typed (a : tfval) : bool :=
  match a with
  | VPrim k _ _ p => prim_has_kind k p
  | VList _ _ _ (Some l) => forallb tf_typed l
  | VMap _ _ _ (Some l) => forallb (fun ka => tf_typed (snd ka)) l
  | VObj _ _ _ (Some l) => forallb (fun ka => tf_typed (snd ka)) l
  | _ => true
  end.

Definition attrs_typed (attrs : option (list (string * tfval))) : bool :=
  match attrs with
  | Some l => forallb (fun ka => tf_typed (snd ka)) l
  | None => true
  end.

(* the cast of the field accepts the payloads of the field's kind *)
Definition cast_compat (k : tfkind) (c : goscalar) : bool :=
  match k, c with
  | KI64, (GsInt32 | GsInt64 | GsUint32 | GsUint64 | GsEnum | GsDuration) => true
  | KDur, (GsInt32 | GsInt64 | GsUint32 | GsUint64 | GsEnum | GsDuration) => true
  | KF64, (GsFloat32 | GsFloat64) => true
  | KStr, (GsString | GsBytes) => true
  | KBool, GsBool => true
  | KTime, GsTime => true
  | _, _ => false
  end.

Lemma cast_compat_ok k c p :
  cast_compat k c = true -> prim_has_kind k p = true -> exists g, cast_from c p = Ok g.
Proof. destruct k, c; try discriminate; destruct p; try discriminate; intros _ _; cbn; eauto. Qed.

(* the restriction on one field *)
Definition info_ok (i : finfo) (om : option message) : bool :=
  match fi_via i with [] => true | _ => false end
  && match fi_parent i with None => true | Some _ => false end
  && match fi_kind i with
     | PrimitiveKind | PrimitiveListKind | PrimitiveMapKind => cast_compat (fi_tk i) (fi_cast i)
     | ObjectKind | ObjectListKind | ObjectMapKind => match om with Some _ => true | None => false end
     | CustomKind => true
     end
  && match fi_oneof i with
     | None => true
     | Some _ => match fi_kind i with PrimitiveKind | ObjectKind => true | _ => false end
     end.

Fixpoint flat_ok (m : message) : bool :=
  match m with
  | Msg _ fs _ _ _ _ =>
      (fix go (l : list field) : bool :=
         match l with
         | [] => true
         | f :: r => fflat_ok f && go r
         end) fs
  end
with fflat_ok (f : field) : bool :=
  match f with
  | Field i om => info_ok i om && match om with Some m' => flat_ok m' | None => true end
  end.

Lemma flat_ok_forallb n fs os inj e z : flat_ok (Msg n fs os inj e z) = forallb fflat_ok fs.
Proof. cbn [flat_ok]. induction fs as [|f r IH]; [reflexivity|]. cbn [forallb]. now rewrite IH. Qed.

Definition wkey (i : finfo) : string :=
  match fi_oneof i with Some h => h | None => fi_name i end.

Definition has_keys (m : message) (obj : goval) : Prop :=
  exists fs, obj = GStruct fs /\
             (forall h, In h (m_oneofs m) -> In h (keys fs)) /\
             (forall f, In f (m_fields m) ->
                        In (match fi_oneof (f_info f) with Some h => h | None => fi_name (f_info f) end) (keys fs)).

(* the zero value of every nested message has the keys of the message *)
Fixpoint zeros_ok (m : message) : Prop :=
  match m with
  | Msg _ fs _ _ _ _ =>
      (fix go (l : list field) : Prop :=
         match l with
         | [] => True
         | f :: r => fzeros_ok f /\ go r
         end) fs
  end
with fzeros_ok (f : field) : Prop :=
  match f with
  | Field _ (Some m') => has_keys m' (m_zero m') /\ zeros_ok m'
  | Field _ None => True
  end.

Lemma zeros_ok_Forall n fs os inj e z : zeros_ok (Msg n fs os inj e z) <-> Forall fzeros_ok fs.
Proof.
  cbn [zeros_ok]. induction fs as [|f r IH]; [split; auto|].
  split; [intros [H1 H2]; constructor; tauto|intros H; inversion H; subst; tauto].
Qed.

Lemma put_total fs k v :
  In k (keys fs) -> exists fs', gset (GStruct fs) k v = Ok (GStruct fs') /\ keys fs' = keys fs.
Proof.
  intros H. destruct (gset_ok fs k v H) as [o E]. destruct (gset_keys _ _ _ _ E) as [fs' [-> K]]. eauto.
Qed.

Lemma from_prim_value_total i n u p :
  cast_compat (fi_tk i) (fi_cast i) = true -> prim_has_kind (fi_tk i) p = true ->
  exists t, from_prim_value i n u p = Ok t.
Proof.
  intros C T. unfold from_prim_value. destruct (known n u); [|eauto].
  destruct (cast_compat_ok _ _ _ C T) as [g ->]. cbn [bind]. eauto.
Qed.

Lemma fold_left_total {A B} (F : res B -> A -> res B) l :
  (forall x, In x l -> forall b, exists b', F (Ok b) x = Ok b') ->
  forall b, exists b', fold_left F l (Ok b) = Ok b'.
Proof.
  induction l as [|x r IH]; intros H b; cbn [fold_left]; [eauto|].
  destruct (H x (or_introl eq_refl) b) as [b' ->]. apply IH. intros y Hy. apply H. now right.
Qed.

Lemma typed_lookup s l a :
  forallb (fun ka : string * tfval => tf_typed (snd ka)) l = true -> lookup s l = Some a -> tf_typed a = true.
Proof.
  intros T H. apply lookup_In in H. rewrite forallb_forall in T. exact (T _ H).
Qed.

Lemma info_ok_inv i om :
  info_ok i om = true ->
  fi_via i = [] /\ fi_parent i = None /\
  match fi_kind i with
  | PrimitiveKind | PrimitiveListKind | PrimitiveMapKind => cast_compat (fi_tk i) (fi_cast i) = true
  | ObjectKind | ObjectListKind | ObjectMapKind => exists m', om = Some m'
  | CustomKind => True
  end /\
  match fi_oneof i with
  | None => True
  | Some _ => fi_kind i = PrimitiveKind \/ fi_kind i = ObjectKind
  end.
Proof.
  unfold info_ok. rewrite !andb_true_iff. intros [[[V P] K] O]. repeat split.
  - destruct (fi_via i); [reflexivity|discriminate].
  - destruct (fi_parent i); [discriminate|reflexivity].
  - destruct (fi_kind i); try exact K; try exact I; destruct om; try discriminate; eauto.
  - destruct (fi_oneof i); [|exact I]. destruct (fi_kind i); try discriminate; auto.
Qed.

Ltac fin := do 2 eexists; split; [reflexivity|first [reflexivity|assumption|congruence]].
Tactic Notation "put" constr(W) ident(fs1) ident(K1) :=
  match goal with
  | |- context [gset (GStruct ?fs) ?k ?v] =>
      destruct (put_total fs k v W) as [fs1 [-> K1]]; cbn [bind]
  end.

Lemma alloc_parent_none i obj : fi_parent i = None -> alloc_parent i obj = Ok obj.
Proof. unfold alloc_parent. now intros ->. Qed.

Lemma typed_elems (el : option (list tfval)) :
  match el with Some l => forallb tf_typed l | None => true end = true ->
  forall x, In x (match el with Some x => x | None => [] end) -> tf_typed x = true.
Proof. destruct el as [l|]; [|intros _ x []]. intros T x Hx. rewrite forallb_forall in T. auto. Qed.

Lemma typed_entries (el : option (list (string * tfval))) :
  match el with Some l => forallb (fun ka => tf_typed (snd ka)) l | None => true end = true ->
  forall x, In x (match el with Some x => x | None => [] end) -> tf_typed (snd x) = true.
Proof. destruct el as [l|]; [|intros _ x []]. intros T x Hx. rewrite forallb_forall in T. auto. Qed.

Ltac folds TL :=
  match goal with
  | |- context [fold_left ?F ?l (Ok ?b)] =>
      let vs := fresh "vs" in let ds1 := fresh "ds" in let x := fresh "x" in let Hx := fresh "Hx" in
      let E := fresh "E" in
      assert (E : exists b', fold_left F l (Ok b) = Ok b');
      [apply fold_left_total; intros x Hx [vs ds1]; cbn [bind]; specialize (TL x Hx)
      |destruct E as [[vs ds1] ->]; cbn [bind]]
  end.

Lemma from_field_total hook i om :
  info_ok i om = true ->
  (* decoding the nested message from its zero value is total *)
  (forall m', om = Some m' -> forall at0, attrs_typed at0 = true -> forall ds,
        exists v ds', from_fields hook m' at0 (m_zero m', ds) = Ok (v, ds')) ->
  forall attrs fs ds,
    attrs_typed attrs = true -> In (wkey i) (keys fs) ->
    exists fs' ds', from_field hook (Field i om) attrs (GStruct fs, ds) = Ok (GStruct fs', ds') /\ keys fs' = keys fs.
Proof.
  intros IOK DEC attrs fs ds T W. destruct (info_ok_inv _ _ IOK) as [V [P [K O]]].
  assert (T0 : forall a, match attrs with Some l => lookup (fi_snake i) l | None => None end = Some a -> tf_typed a = true).
  { destruct attrs as [l|]; [|discriminate]. intros a. apply typed_lookup. exact T. }
  assert (D : forall m', om = Some m' -> forall at0, attrs_typed at0 = true -> forall ds,
               exists x, (if m_empty m' then Ok (m_zero m', ds) else from_fields hook m' at0 (m_zero m', ds)) = Ok x).
  { intros m' E at0 Ta ds0. destruct (m_empty m'); [eauto|]. destruct (DEC m' E at0 Ta ds0) as [v [ds' ->]]. eauto. }
  clear T DEC. unfold wkey in W.
  cbn [from_field]. fold (from_fields hook). rewrite !(alloc_parent_none i) by exact P. rewrite V, P.
  cbn [gset_via gget_via bind].
  destruct (match attrs with Some l => lookup (fi_snake i) l | None => None end) as [a|] eqn:EA.
  2:{ destruct (fi_kind i) eqn:EK; try (do 2 eexists; split; reflexivity).
      destruct (fi_oneof i); [destruct O; discriminate|].
      destruct (gfield_ok _ _ W) as [cur ->]. cbn [bind]. put W fs1 K1; fin. }
  specialize (T0 a eq_refl).
  destruct (fi_kind i) eqn:EK.
  - (* PrimitiveKind *)
    destruct (as_prim i a) as [[[n u] p]|] eqn:EP; [|fin].
    apply as_prim_inv in EP. subst a. cbn in T0.
    destruct (from_prim_value_total i n u p K T0) as [t ->]. cbn [bind].
    destruct (fi_oneof i) as [h|]; [destruct (known n u); [|fin]|]; put W fs1 K1; fin.
  - (* PrimitiveListKind *)
    destruct (fi_oneof i); [destruct O; discriminate|].
    destruct a as [| aty n u el | | | |]; try fin. cbn [tf_typed] in T0. pose proof (typed_elems _ T0) as TL.
    destruct (known n u); cbn [bind].
    + folds TL.
      * destruct (as_prim i x) as [[[n0 u0] p]|] eqn:EP; [|cbn [bind]; eauto].
        apply as_prim_inv in EP. subst x. cbn in TL.
        destruct (from_prim_value_total i n0 u0 p K TL) as [t ->]. cbn [bind]. eauto.
      * put W fs1 K1; fin.
    + put W fs1 K1; fin.
  - (* ObjectKind *)
    destruct K as [m' ->]. specialize (D m' eq_refl).
    destruct a as [| | | aty n u at0 | |]; try fin. cbn [tf_typed] in T0. change (attrs_typed at0 = true) in T0.
    destruct (fi_oneof i) as [h|].
    + destruct (known n u); [|fin]. cbn [bind]. destruct (D at0 T0 ds) as [[v ds'] ->]. cbn [bind].
      put W fs1 K1; fin.
    + put W fs1 K1. destruct (known n u); [|fin]. rewrite alloc_parent_none by exact P. cbn [bind].
      destruct (D at0 T0 ds) as [[v ds'] ->]. cbn [bind]. rewrite <- K1 in W. put W fs2 K2. fin.
  - (* ObjectListKind *)
    destruct K as [m' ->]. specialize (D m' eq_refl).
    destruct (fi_oneof i); [destruct O; discriminate|].
    destruct a as [| aty n u el | | | |]; try fin. cbn [tf_typed] in T0. pose proof (typed_elems _ T0) as TL.
    destruct (known n u); cbn [bind].
    + folds TL.
      * destruct x as [| | | aty0 n0 u0 at0 | |]; try (cbn [bind]; eauto).
        cbn [tf_typed] in TL. change (attrs_typed at0 = true) in TL.
        destruct (known n0 u0); [|cbn [bind]; eauto].
        destruct (D at0 TL ds0) as [[v ds'] ->]. cbn [bind]. eauto.
      * put W fs1 K1; fin.
    + put W fs1 K1; fin.
  - (* PrimitiveMapKind *)
    destruct (fi_oneof i); [destruct O; discriminate|].
    destruct a as [| | aty n u el | | |]; try fin. cbn [tf_typed] in T0. pose proof (typed_entries _ T0) as TL.
    destruct (known n u); cbn [bind].
    + folds TL.
      * destruct x as [k a']. cbn [fst snd] in *.
        destruct (as_prim i a') as [[[n0 u0] p]|] eqn:EP; [|cbn [bind]; eauto].
        apply as_prim_inv in EP. subst a'. cbn in TL.
        destruct (from_prim_value_total i n0 u0 p K TL) as [t ->]. cbn [bind]. eauto.
      * put W fs1 K1; fin.
    + put W fs1 K1; fin.
  - (* ObjectMapKind *)
    destruct K as [m' ->]. specialize (D m' eq_refl).
    destruct (fi_oneof i); [destruct O; discriminate|].
    destruct a as [| | aty n u el | | |]; try fin. cbn [tf_typed] in T0. pose proof (typed_entries _ T0) as TL.
    destruct (known n u); cbn [bind].
    + folds TL.
      * destruct x as [k a']. cbn [fst snd] in *.
        destruct a' as [| | | aty0 n0 u0 at0 | |]; try (cbn [bind]; eauto).
        cbn [tf_typed] in TL. change (attrs_typed at0 = true) in TL.
        destruct (known n0 u0); [|cbn [bind]; eauto].
        destruct (D at0 TL ds0) as [[v ds'] ->]. cbn [bind]. eauto.
      * put W fs1 K1; fin.
    + put W fs1 K1; fin.
  - (* CustomKind *)
    destruct (fi_oneof i); [destruct O; discriminate|].
    destruct (gfield_ok _ _ W) as [cur ->]. cbn [bind]. put W fs1 K1; fin.
Qed.

Lemma put_total_K fs K k v :
  keys fs = K -> In k K -> exists fs', gset (GStruct fs) k v = Ok (GStruct fs') /\ keys fs' = K.
Proof. intros <- H. now apply put_total. Qed.

Lemma fold_res_keys {A} (g : goval -> A -> res goval) l (K : list string) :
  (forall x, In x l -> forall fs, keys fs = K -> exists fs', g (GStruct fs) x = Ok (GStruct fs') /\ keys fs' = K) ->
  forall fs, keys fs = K -> exists fs', fold_res g l (GStruct fs) = Ok (GStruct fs') /\ keys fs' = K.
Proof.
  induction l as [|x r IH]; intros H fs E; cbn [fold_res]; [eauto|].
  destruct (H x (or_introl eq_refl) fs E) as [fs1 [-> E1]]. cbn [bind].
  apply IH; [|exact E1]. intros y Hy. apply H. now right.
Qed.

Lemma from_field_list_total hook attrs (K : list string) l :
  (forall f, In f l -> forall fs ds, keys fs = K ->
     exists fs' ds', from_field hook f attrs (GStruct fs, ds) = Ok (GStruct fs', ds') /\ keys fs' = K) ->
  forall fs ds, keys fs = K ->
    exists fs' ds', from_field_list hook l attrs (GStruct fs, ds) = Ok (GStruct fs', ds') /\ keys fs' = K.
Proof.
  induction l as [|f r IH]; intros H fs ds E; cbn [from_field_list]; [eauto|].
  destruct (fi_placeholder (f_info f)); [apply IH; [|exact E]; intros y Hy; apply H; now right|].
  destruct (H f (or_introl eq_refl) fs ds E) as [fs1 [ds1 [-> E1]]]. cbn [bind].
  apply IH; [|exact E1]. intros y Hy. apply H. now right.
Qed.

Definition field_total (hook : hook_from_t) (f : field) : Prop :=
  fflat_ok f = true -> fzeros_ok f ->
  forall attrs fs ds, attrs_typed attrs = true -> In (wkey (f_info f)) (keys fs) ->
    exists fs' ds', from_field hook f attrs (GStruct fs, ds) = Ok (GStruct fs', ds') /\ keys fs' = keys fs.

Definition message_total (hook : hook_from_t) (m : message) : Prop :=
  flat_ok m = true -> zeros_ok m ->
  forall attrs fs ds, attrs_typed attrs = true ->
    (forall h, In h (m_oneofs m) -> In h (keys fs)) ->
    (forall f, In f (m_fields m) -> In (wkey (f_info f)) (keys fs)) ->
    exists fs' ds', from_fields hook m attrs (GStruct fs, ds) = Ok (GStruct fs', ds') /\ keys fs' = keys fs.

Lemma total_mutual hook : forall m, message_total hook m.
Proof.
  apply (message_ind' (field_total hook) (message_total hook)).
  - (* a field without message *)
    intros i F _ attrs fs ds T W. cbn [fflat_ok] in F. rewrite andb_true_r in F.
    apply from_field_total; auto. intros m' [=].
  - (* a field with a message *)
    intros i m IH F Z attrs fs ds T W. cbn [fflat_ok] in F. apply andb_true_iff in F. destruct F as [F1 F2].
    cbn [fzeros_ok] in Z. destruct Z as [[zs [EZ [Z1 Z2]]] Z3].
    apply from_field_total; auto. intros m' [= <-] at0 Ta ds0. rewrite EZ.
    destruct (IH F2 Z3 at0 zs ds0 Ta Z1 Z2) as [fs' [ds' [E _]]]. eauto.
  - (* a message *)
    intros n l os inj e z IH F Z attrs fs ds T H1 H2. rewrite flat_ok_forallb in F. rewrite zeros_ok_Forall in Z.
    cbn [m_oneofs m_fields] in H1, H2. rewrite forallb_forall in F. rewrite Forall_forall in IH, Z.
    rewrite from_fields_unfold. cbn [fst snd].
    destruct (fold_res_keys reset_oneof os (keys fs)) with (fs := fs) as [fs1 [-> E1]]; [|reflexivity|].
    { intros h Hh fs0 E0. unfold reset_oneof. apply put_total_K; auto. }
    cbn [bind].
    destruct (fold_res_keys reset_promoted l (keys fs)) with (fs := fs1) as [fs2 [-> E2]]; [|exact E1|].
    { intros f Hf fs0 E0. unfold reset_promoted. specialize (H2 f Hf). unfold wkey in H2.
      destruct (fi_oneof (f_info f)) as [h|]; [|eauto]. destruct (fi_parent (f_info f)); [eauto|].
      apply put_total_K; auto. }
    cbn [bind].
    destruct (fold_res_keys reset_parent l (keys fs)) with (fs := fs2) as [fs3 [-> E3]]; [|exact E2|].
    { intros f Hf fs0 E0. unfold reset_parent. specialize (F f Hf). destruct f as [i om].
      cbn [fflat_ok f_info] in *. apply andb_true_iff in F. destruct F as [F _].
      destruct (info_ok_inv _ _ F) as [_ [-> _]]. eauto. }
    cbn [bind].
    apply from_field_list_total; [|exact E3].
    intros f Hf fs0 ds0 E0. rewrite <- E0. apply (IH f Hf (F f Hf) (Z f Hf)); [exact T|].
    rewrite E0. auto.
Qed.

(* C06 on the fragment: for every payload-typed input (missing attributes, attributes of the wrong
   kind, VNil, nil containers, at any depth) CopyFrom returns, and the target keeps its shape *)
Theorem from_fields_total_partial hook m :
  flat_ok m = true -> zeros_ok m ->
  forall attrs obj ds, attrs_typed attrs = true -> has_keys m obj ->
    exists obj' ds', from_fields hook m attrs (obj, ds) = Ok (obj', ds') /\ has_keys m obj'.
Proof.
  intros F Z attrs obj ds T [fs [-> [H1 H2]]].
  destruct (total_mutual hook m F Z attrs fs ds T H1 H2) as [fs' [ds' [E K]]].
  exists (GStruct fs'), ds'. split; [exact E|]. exists fs'. rewrite K. auto.
Qed.

Print Assumptions from_fields_total_partial.

Corollary copy_from_total_partial hook m a n u at0 obj :
  flat_ok m = true -> zeros_ok m -> attrs_typed at0 = true -> has_keys m obj ->
  exists obj' ds, copy_from hook m (VObj a n u at0) obj = Ok (obj', ds) /\ has_keys m obj'.
Proof. intros F Z T H. cbn [copy_from]. now apply from_fields_total_partial. Qed.

(* ------------------------------------------------------------------------------------- *)
(* the hypotheses of the totality theorem are satisfiable: a message with a oneof, a nested
   message and a list of nested messages *)
Module Example.
  Local Open Scope string_scope.

  Definition mk (name snake : string) (k : kind) (tk : tfkind) (c : goscalar) (nullable : bool)
             (oneof : option string) : finfo :=
    {| fi_name := name; fi_snake := snake; fi_path := snake; fi_kind := k; fi_tk := tk; fi_cast := c;
       fi_nullable := nullable; fi_zero := false; fi_placeholder := false; fi_oneof := oneof; fi_via := [];
       fi_parent := None; fi_inner := []; fi_required := false; fi_computed := false; fi_sensitive := false;
       fi_validators := []; fi_planmods := []; fi_comment := ""; fi_suffix := "" |}.

  Definition inner : message :=
    Msg "Inner" [Field (mk "A" "a" PrimitiveKind KStr GsString false None) None] [] [] false
        (GStruct [("A", GPrim (PStr ""))]).

  Definition outer : message :=
    Msg "Outer"
        [Field (mk "X" "x" PrimitiveKind KI64 GsInt32 false (Some "Kind")) None;
         Field (mk "Y" "y" ObjectKind KStr GsString true (Some "Kind")) (Some inner);
         Field (mk "Items" "items" ObjectListKind KStr GsString true None) (Some inner);
         Field (mk "Labels" "labels" PrimitiveMapKind KStr GsString false None) None]
        ["Kind"] [] false
        (GStruct [("Kind", GOneof None); ("Items", GSlice None); ("Labels", GMap None)]).

  Lemma inner_keys : has_keys inner (m_zero inner).
  Proof.
    eexists. split; [reflexivity|]. split; [intros h []|].
    intros f [<-|[]]. cbn. tauto.
  Qed.

  Lemma outer_ok : flat_ok outer = true /\ zeros_ok outer /\ has_keys outer (m_zero outer).
  Proof.
    split; [reflexivity|]. split.
    - cbn. pose proof inner_keys. tauto.
    - eexists. split; [reflexivity|]. split.
      + intros h [<-|[]]. cbn. tauto.
      + intros f [<-|[<-|[<-|[<-|[]]]]]; cbn; tauto.
  Qed.

  Lemma outer_total hook attrs :
    attrs_typed attrs = true -> exists obj' ds, from_fields hook outer attrs (m_zero outer, []) = Ok (obj', ds).
  Proof.
    intros T. destruct outer_ok as [F [Z K]].
    destruct (from_fields_total_partial hook outer F Z attrs _ [] T K) as [o [d [E _]]]. eauto.
  Qed.
End Example.
