(* [kinds] The link between the decision getKind takes (Proofs/SrcKinds.v: model_kind, proved equal to the
   rules regenerated from field.go) and the kind the model's front end writes into a field
   (Model/Build.v, build_view): the five flags of a view, as field.go sets them before getKind runs, and
   the theorem that the built field has model_kind of those flags. *)
From Coq Require Import List String Ascii Bool ZArith.
From PGT Require Import Base.Strs Base.AList Model.Vals Model.IR Model.Names Model.Desc Model.Build.
From PGT Require Import Generated.Src.
From PGT Require Import Proofs.NamesProofs Proofs.SrcKinds.
Import ListNotations.
Local Open Scope string_scope.

(* ------------------------------------------------------------------------------------- *)
(* A. the flags of a view *)

(* Field.IsMessage as setTerraformType leaves it: GetTerraformType's is-message result
   (terraform_type_is_msg): a message type that is neither time nor duration *)
Definition view_is_message (cfg : cfg_obs) (v : fview) : bool :=
  negb (v_is_time v) && negb (v_is_duration cfg v) && is_message_type (v_type v).

(* the value field of a map entry, as NewMapValueFieldBuildContext sees it, without the star (which
   GetTerraformType does not look at): view_of_map_value f vt up to v_star *)
Definition map_value_view (vt : ptype) : fview :=
  {| v_name := "value"; v_type := vt; v_repeated := false; v_embed := false; v_cast := ""; v_custom := "";
     v_stdtime := false; v_stddur := false; v_jsontag := None; v_oneof := None; v_comment := "";
     v_star := false |}.

(* the flags of a view, as field.go sets them before getKind runs *)
Definition view_flags (cfg : cfg_obs) (v : fview) (fpath : string) : kflags :=
  {| k_custom := match o_custom_type cfg fpath with
                 | Some _ => true
                 | None => negb (String.eqb (v_custom v) "")
                 end;
     k_map := v_is_map v;
     k_mapmsg := match v_type v with
                 | PMap _ vt => view_is_message cfg (map_value_view vt)
                 | _ => false
                 end;
     k_repeated := v_is_repeated v;
     k_message := view_is_message cfg v |}.

(* the is-message result does not depend on the star: the value view build_view uses gives the same *)
Lemma view_is_message_map_value cfg f vt :
  view_is_message cfg (view_of_map_value f vt) = view_is_message cfg (map_value_view vt).
Proof. reflexivity. Qed.

(* what the flag says of a map value: a message, or (never in a descriptor) a map; time and duration are not *)
Lemma map_value_is_message cfg vt :
  view_is_message cfg (map_value_view vt) =
  match vt with PMsg _ | PMap _ _ => true | _ => false end.
Proof.
  unfold view_is_message, v_is_time, v_is_duration, map_value_view.
  cbn [v_stdtime v_stddur v_type v_cast].
  assert (Hc : (negb (String.eqb (o_duration_custom_type cfg) "")
                && String.eqb "" (o_duration_custom_type cfg))%bool = false).
  { destruct (o_duration_custom_type cfg); reflexivity. }
  rewrite Hc. destruct vt; reflexivity.
Qed.

(* ------------------------------------------------------------------------------------- *)
(* B. tests: the kind build_view writes against model_kind of the flags *)

Module KindTests.
  Definition cfg0 (ct : option string) : cfg_obs :=
    {| o_excluded := fun _ _ => false; o_required := fun _ _ => false; o_computed := fun _ _ => false;
       o_sensitive := fun _ _ => false; o_name_override := fun _ _ => None; o_validators := fun _ _ => None;
       o_planmods := fun _ _ => None; o_injected := fun _ => None; o_custom_type := fun _ => ct;
       o_suffix := fun _ => None; o_sort := false; o_use_state := false; o_time_type := true;
       o_duration_type := true; o_duration_custom_type := "" |}.

  Definition fd (t : ptype) (rep : bool) (cust : string) (stdtime stddur : bool) : fdesc :=
    {| fd_name := "x"; fd_num := 1%Z; fd_type := t; fd_repeated := rep; fd_nullable := None; fd_embed := false;
       fd_cast := ""; fd_custom := cust; fd_stdtime := stdtime; fd_stddur := stddur; fd_jsontag := None;
       fd_oneof := None; fd_comment := "" |}.

  Definition inner : mdesc :=
    {| md_name := "In"; md_comment := ""; md_oneofs := [];
       md_fields := [fd (PScalar SString) false "" false false] |}.
  Definition outer : mdesc := {| md_name := "Out"; md_comment := ""; md_oneofs := []; md_fields := [] |}.
  Definition table0 : list mdesc := [inner; outer].

  (* (the kind built, the kind of the flags) *)
  Definition run (ct : option string) (f : fdesc) : option (kind * kind) :=
    let cfg := cfg0 ct in
    match build_view cfg table0 (build_message cfg table0 3) outer (view_of_field f) false "Out.x" "Out.x" (Some f) with
    | BOk [Field i _] => Some (fi_kind i, model_kind (view_flags cfg (view_of_field f) "Out.x"))
    | _ => None
    end.

  Definition str := PScalar SString.
  Example t_scalar : run None (fd str false "" false false) = Some (PrimitiveKind, PrimitiveKind).
  Proof. vm_compute. reflexivity. Qed.
  Example t_rep_scalar : run None (fd str true "" false false) = Some (PrimitiveListKind, PrimitiveListKind).
  Proof. vm_compute. reflexivity. Qed.
  Example t_msg : run None (fd (PMsg "In") false "" false false) = Some (ObjectKind, ObjectKind).
  Proof. vm_compute. reflexivity. Qed.
  Example t_rep_msg : run None (fd (PMsg "In") true "" false false) = Some (ObjectListKind, ObjectListKind).
  Proof. vm_compute. reflexivity. Qed.
  Example t_map_scalar : run None (fd (PMap str str) false "" false false) = Some (PrimitiveMapKind, PrimitiveMapKind).
  Proof. vm_compute. reflexivity. Qed.
  Example t_map_msg : run None (fd (PMap str (PMsg "In")) false "" false false) = Some (ObjectMapKind, ObjectMapKind).
  Proof. vm_compute. reflexivity. Qed.
  Example t_map_time : run None (fd (PMap str PTimestamp) false "" false false) = Some (PrimitiveMapKind, PrimitiveMapKind).
  Proof. vm_compute. reflexivity. Qed.
  Example t_map_dur : run None (fd (PMap str PDuration) false "" false false) = Some (PrimitiveMapKind, PrimitiveMapKind).
  Proof. vm_compute. reflexivity. Qed.
  Example t_custom_scalar : run None (fd str false "T" false false) = Some (CustomKind, CustomKind).
  Proof. vm_compute. reflexivity. Qed.
  Example t_custom_rep : run None (fd str true "T" false false) = Some (CustomKind, CustomKind).
  Proof. vm_compute. reflexivity. Qed.
  Example t_cfg_custom_scalar : run (Some "T") (fd str false "" false false) = Some (CustomKind, CustomKind).
  Proof. vm_compute. reflexivity. Qed.
  Example t_cfg_custom_rep : run (Some "T") (fd str true "" false false) = Some (CustomKind, CustomKind).
  Proof. vm_compute. reflexivity. Qed.
  Example t_cfg_custom_map : run (Some "T") (fd (PMap str (PMsg "In")) false "" false false) = Some (CustomKind, CustomKind).
  Proof. vm_compute. reflexivity. Qed.
  Example t_time : run None (fd PTimestamp false "" false false) = Some (PrimitiveKind, PrimitiveKind).
  Proof. vm_compute. reflexivity. Qed.
  Example t_stdtime : run None (fd PTimestamp false "" true false) = Some (PrimitiveKind, PrimitiveKind).
  Proof. vm_compute. reflexivity. Qed.
  Example t_rep_time : run None (fd PTimestamp true "" false false) = Some (PrimitiveListKind, PrimitiveListKind).
  Proof. vm_compute. reflexivity. Qed.
  Example t_dur : run None (fd PDuration false "" false false) = Some (PrimitiveKind, PrimitiveKind).
  Proof. vm_compute. reflexivity. Qed.
  Example t_stddur : run None (fd PDuration false "" false true) = Some (PrimitiveKind, PrimitiveKind).
  Proof. vm_compute. reflexivity. Qed.
  Example t_rep_dur : run None (fd PDuration true "" false false) = Some (PrimitiveListKind, PrimitiveListKind).
  Proof. vm_compute. reflexivity. Qed.

  (* a map view without its declared field (build_field_list never asks this) falls through setMapValues and
     comes out an object, not a map: hence the hypothesis of build_view_kind on a map's declared field *)
  Example t_map_no_orig :
    let f := fd (PMap str str) false "" false false in
    match build_view (cfg0 None) table0 (build_message (cfg0 None) table0 3) outer (view_of_field f) false "Out.x" "Out.x" None with
    | BOk [Field i _] => Some (fi_kind i, model_kind (view_flags (cfg0 None) (view_of_field f) "Out.x"))
    | _ => None
    end = Some (ObjectKind, PrimitiveMapKind).
  Proof. vm_compute. reflexivity. Qed.
End KindTests.

(* ------------------------------------------------------------------------------------- *)
(* C. the theorem *)

(* setMapValues: the map value information exists exactly for a map, and says "message" as the flag does *)
Lemma map_values_flags cfg table (rec : mdesc -> string -> bres message) (v : fview) (fp : string) (o : option fdesc) mv :
  (match v_type v, o with
   | PMap kt vt, Some f =>
       match kt with
       | PScalar SString =>
           let vv := view_of_map_value f vt in
           bdo tt1 <- terraform_type cfg vv fp;
           let '(vmsg, vtk, vgs, _) := tt1 in
           bdo vom <-
             (if vmsg then
                match vt with
                | PMsg mn =>
                    match find_msg table mn with
                    | Some d' => bdo m' <- rec d' fp; BOk (Some m')
                    | None => BErr ("failed to resolve message " ++ mn)
                    end
                | _ => BOk None
                end
              else BOk None);
           BOk (Some (vmsg, vtk, vgs, v_star vv, vom))
       | _ => BErr ("non-string map keys are not supported " ++ fp)
       end
   | _, _ => BOk None
   end) = BOk mv ->
  (v_is_map v = true -> o <> None) ->
  match mv with
  | Some (vmsg, _, _, _, _) => v_is_map v = true /\ vmsg = k_mapmsg (view_flags cfg v fp)
  | None => v_is_map v = false
  end.
Proof.
  intros H Hm. unfold v_is_map in *. unfold view_flags; cbn [k_mapmsg].
  destruct (v_type v) as [s|n|n| | | |kt vt].
  1-6: injection H as <-; reflexivity.
  destruct o as [f|]; [|exfalso; apply Hm; reflexivity].
  destruct kt as [[]| | | | | |]; try discriminate.
  cbv zeta in H.
  destruct (terraform_type cfg (view_of_map_value f vt) fp) as [[[[vmsg vtk] vgs] vz]|e|] eqn:Ev;
    cbn [bbind] in H; try discriminate.
  apply terraform_type_is_msg in Ev.
  match type of H with bbind ?X _ = _ => destruct X as [vom|e|] end; cbn [bbind] in H; try discriminate.
  injection H as <-. split; [reflexivity|].
  rewrite Ev. reflexivity.
Qed.

(* The kind of the field the front end builds is getKind's decision on the five flags of the view. The
   side conditions: the field is not excluded, the view is not an expanded embedded message (as in
   build_view_single), and a map view comes with its declared field (as build_field_list passes it). *)
Theorem build_view_kind cfg table rec d v b tn fp o i om :
  build_view cfg table rec d v b tn fp o = BOk [Field i om] ->
  o_excluded cfg tn fp = false ->
  (v_embed v = false \/ is_message_type (v_type v) = false \/ v_is_map v = true \/
   v_is_time v = true \/ v_is_duration cfg v = true) ->
  (v_is_map v = true -> o <> None) ->
  fi_kind i = model_kind (view_flags cfg v fp).
Proof.
  intros H Hx Hs Hm. unfold build_view in H. rewrite Hx in H.
  destruct (terraform_type cfg v fp) as [[[[im tk] gs] z]|e|] eqn:Et; cbn [bbind] in H; try discriminate.
  apply terraform_type_is_msg in Et.
  match type of H with bbind ?X _ = _ => destruct X as [om0|e|] end; cbn [bbind] in H; try discriminate.
  assert (Hne : (im && negb (v_is_map v) && v_embed v)%bool = false).
  { rewrite Et.
    destruct Hs as [E|[E|[E|[E|E]]]]; rewrite E; cbn [negb andb];
      rewrite ?andb_false_r; reflexivity. }
  assert (Hk : forall mv : option (bool * tfkind * goscalar * bool * option message),
             match mv with
             | Some (vmsg, _, _, _, _) => v_is_map v = true /\ vmsg = k_mapmsg (view_flags cfg v fp)
             | None => v_is_map v = false
             end ->
             match match o_custom_type cfg fp with
                   | Some t => Some t
                   | None => if String.eqb (v_custom v) "" then None else Some (v_custom v)
                   end with
             | Some _ => CustomKind
             | None =>
                 match mv with
                 | Some (vmsg, _, _, _, _) => if vmsg : bool then ObjectMapKind else PrimitiveMapKind
                 | None => if v_is_repeated v then (if im then ObjectListKind else PrimitiveListKind)
                           else if im then ObjectKind else PrimitiveKind
                 end
             end = model_kind (view_flags cfg v fp)).
  { intros mv Hmv. unfold model_kind.
    change (k_custom (view_flags cfg v fp))
      with (match o_custom_type cfg fp with Some _ => true | None => negb (String.eqb (v_custom v) "") end).
    change (k_map (view_flags cfg v fp)) with (v_is_map v).
    change (k_repeated (view_flags cfg v fp)) with (v_is_repeated v).
    change (k_message (view_flags cfg v fp)) with (view_is_message cfg v).
    unfold view_is_message. rewrite <- Et.
    destruct (o_custom_type cfg fp); [reflexivity|].
    destruct (String.eqb (v_custom v) ""); [|reflexivity]. cbn [negb].
    destruct mv as [[[[[vmsg vtk] vgs] vstar] vom]|].
    - destruct Hmv as [Em Ev]. rewrite Em, <- Ev. reflexivity.
    - rewrite Hmv. reflexivity. }
  destruct om0 as [m'|]; rewrite ?Hne in H; cbv iota in H.
  - match type of H with bbind ?X _ = _ => destruct X as [mv|e|] eqn:Emv end; cbn [bbind] in H; try discriminate.
    apply map_values_flags in Emv; [|exact Hm]. specialize (Hk mv Emv).
    destruct mv as [[[[[vmsg vtk] vgs] vstar] vom]|]; cbv beta iota zeta in H;
      injection H as Hi _; rewrite <- Hi; cbn [fi_kind]; exact Hk.
  - match type of H with bbind ?X _ = _ => destruct X as [mv|e|] eqn:Emv end; cbn [bbind] in H; try discriminate.
    apply map_values_flags in Emv; [|exact Hm]. specialize (Hk mv Emv).
    destruct mv as [[[[[vmsg vtk] vgs] vstar] vom]|]; cbv beta iota zeta in H;
      injection H as Hi _; rewrite <- Hi; cbn [fi_kind]; exact Hk.
Qed.
Print Assumptions build_view_kind.

(* the call build_field_list makes: the view of a declared field, with the field *)
Corollary build_view_kind_declared cfg table rec d f b tn fp i om :
  build_view cfg table rec d (view_of_field f) b tn fp (Some f) = BOk [Field i om] ->
  o_excluded cfg tn fp = false ->
  (v_embed (view_of_field f) = false \/ is_message_type (v_type (view_of_field f)) = false \/
   v_is_map (view_of_field f) = true \/
   v_is_time (view_of_field f) = true \/ v_is_duration cfg (view_of_field f) = true) ->
  fi_kind i = model_kind (view_flags cfg (view_of_field f) fp).
Proof.
  intros H Hx Hs. eapply build_view_kind; [exact H|exact Hx|exact Hs|]. intros _. discriminate.
Qed.
Print Assumptions build_view_kind_declared.

(* ------------------------------------------------------------------------------------- *)
(* D. the rules regenerated from field.go *)

(* src_kind_rules_agree, for a record that is not a literal *)
Lemma src_kind_rules_agree_flags (f : kflags) :
  eval_rules f src_kind_rules src_kind_default = Some (kind_name (model_kind f)).
Proof. destruct f as [c m mm r ms]. exact (src_kind_rules_agree c m mm r ms). Qed.

(* the kind of the built field is the one the Go switch, as regenerated from the source, names *)
Corollary build_view_kind_from_source cfg table rec d v b tn fp o i om :
  build_view cfg table rec d v b tn fp o = BOk [Field i om] ->
  o_excluded cfg tn fp = false ->
  (v_embed v = false \/ is_message_type (v_type v) = false \/ v_is_map v = true \/
   v_is_time v = true \/ v_is_duration cfg v = true) ->
  (v_is_map v = true -> o <> None) ->
  eval_rules (view_flags cfg v fp) src_kind_rules src_kind_default = Some (kind_name (fi_kind i)).
Proof.
  intros H Hx Hs Hm. rewrite (build_view_kind _ _ _ _ _ _ _ _ _ _ _ H Hx Hs Hm).
  apply src_kind_rules_agree_flags.
Qed.
Print Assumptions build_view_kind_from_source.
