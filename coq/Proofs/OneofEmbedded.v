(* C07 for a oneof PROMOTED FROM A NULLABLE EMBEDDED MESSAGE.

   The branches of such a oneof are fields with fi_oneof i = Some h AND fi_parent i = Some (p, _): the
   holder is obj.<p>.<...>.<h>, reached through the embedded pointers fi_via i = p :: map fst (fi_inner i),
   and exists only when every pointer on the chain is set.  OneofProofs.v covers the oneofs a message
   declares itself (flat_ok: fi_via = [], fi_parent = None); this file covers the promoted ones, for
   every message, object and PRIOR TARGET (no bound on sizes, no typing of the prior target).

   What the model does (Model/CopyFrom.v, from_fields), in this order:
     1. obj.<h> = nil for the oneofs of the message itself (m_oneofs);
     2. obj.<h> = nil for every field with fi_oneof = Some h and fi_parent = None (by-value embedding);
     3. obj.<pn> = nil for EVERY field with fi_parent = Some (pn, _), oneof branch or not: only the
        OUTERMOST embedded pointer of the chain is reset, unconditionally (reset_parent);
     4. the fields in order; a branch whose attribute is known and not null allocates the chain
        (alloc_parent: only the nil pointers, from the zero structs recorded in the IR) and stores
        GOneof (Some (name, payload)) in the holder through fi_via; a branch whose attribute is missing,
        ill-kinded, null or unknown writes nothing.
   So the holder of a promoted oneof is never reset itself: it disappears with the embedded pointer
   in step 3 and reappears, nil, from the ZERO STRUCT of the embedded message when another field
   promoted from the same pointer allocates it.

   Results (all closed under the global context; no float fact is used, the payload of a scalar
   branch is whatever cast_from returns):
     - C07_from_none_promoted: every branch attribute of the group missing/ill-kinded/null/unknown =>
       afterwards a pointer of the chain is nil or the holder is GOneof None ([no_branch]), whatever the
       target held; CopyTo's read_holder then returns GOneof None.  NO condition on the other
       attributes promoted from the same embedded message is needed (they may be known: the pointer
       is then re-allocated from the zero struct, whose holder is nil).  The conditions which ARE
       needed are on the IR only ([group_sep]): every other field writes elsewhere ([apart_b]) and the
       zero structs of its chain hold no branch ([zeros_clean]); both are shown necessary by computed
       counterexamples (from_none_dirty_zero_refuted, from_none_not_apart_refuted), and the reset of
       step 3 is shown to be what removes the prior branch (prior_branch_survives_without_reset).
     - C07_from_last_promoted / C07_from_one_promoted: a branch whose attribute is known and not null,
       the later branches of the group being null/unknown: the chain is allocated and the holder is
       GOneof (Some (name, payload)), payload the cast attribute value (scalar branch) or a pointer to
       the decoded message (message branch), whatever the target held.
     - C07_to_promoted_nil_parent_prim / _msg / C07_to_promoted_nil_parent: CopyTo of a branch whose
       chain is nil in the source, into a target without a value for the attribute: the attribute is
       null for a nullable scalar branch without zero literal, for a value scalar branch with a zero
       literal, and for a nullable message branch.  NOT for a value scalar branch without zero
       literal (a by-value time): to_nil_parent_nozero_refuted.
     - C07_promoted_none_end_to_end: CopyFrom (all branch attributes null) followed by CopyTo into
       an empty target renders every branch attribute null.
     - Module HasChoiceExample: the IRs (HasChoice: one own field and a nullable embedded Choice whose
       only fields are two oneof branches; HasChoice2: a sibling field, a message and a time branch;
       Root/Mid/Choice: a chain of two pointers) are produced by Model/Build.v from descriptors; the
       theorems are applied to them for every prior target. *)
From Coq Require Import List String Bool ZArith Lia.
From PGT Require Import Base.Strs Base.AList Model.Vals Model.IR Model.CopyTo Model.CopyFrom.
From PGT Require Import Proofs.CopyToProofs Proofs.CopyFromProofs Proofs.CopyToTotal.
From PGT Require Import Proofs.EmbeddedProofs Proofs.ChainProofs Proofs.OneofProofs Proofs.RefreshEmbedded.
From PGT Require Model.Desc Model.Build.
Import ListNotations.

(* ------------------------------------------------------------------------------------- *)
(* 1. the holder at the end of a chain of embedded pointers *)

(* "no branch": some pointer on the path is nil (the earlier ones being set), or every pointer is
   set and the holder of the innermost struct is nil *)
Fixpoint no_branch (obj : goval) (via : list string) (h : string) : Prop :=
  match via with
  | [] => gfield obj h = Ok (GOneof None)
  | p :: r => gfield obj p = Ok (GPtr None)
              \/ exists x, gfield obj p = Ok (GPtr (Some x)) /\ no_branch x r h
  end.

(* the same, computed *)
Fixpoint no_branch_b (obj : goval) (via : list string) (h : string) : bool :=
  match via with
  | [] => match gfield obj h with Ok (GOneof None) => true | _ => false end
  | p :: r => match gfield obj p with
              | Ok (GPtr None) => true
              | Ok (GPtr (Some x)) => no_branch_b x r h
              | _ => false
              end
  end.

Lemma no_branch_b_spec via : forall obj h, no_branch_b obj via h = true <-> no_branch obj via h.
Proof.
  induction via as [|p r IH]; intros obj h; cbn [no_branch_b no_branch].
  - destruct (gfield obj h) as [[| | | | | |[x|]]|]; split; congruence.
  - destruct (gfield obj p) as [[| |[x|]| | | |]|].
    3: { rewrite IH. split.
         - intros B. right. exists x. split; [reflexivity|exact B].
         - intros [E|(y & E & B)]; [discriminate E|]. inversion E; subst. exact B. }
    3: { split; [now left|reflexivity]. }
    all: split; [discriminate|]; intros [E|(y & E & _)]; discriminate E.
Qed.

(* in the vocabulary of ChainProofs.v *)
Lemma no_branch_iff via : forall obj h,
  no_branch obj via h <->
  broken obj via \/ exists inner, reaches obj via inner /\ gfield inner h = Ok (GOneof None).
Proof.
  induction via as [|p r IH]; intros obj h; cbn [no_branch broken reaches].
  - split; [intros G; right; eauto|]. intros [[]|(inner & <- & G)]. exact G.
  - split.
    + intros [G|(x & G & B)]; [left; now left|]. apply IH in B. destruct B as [B|(inner & R & Gh)].
      * left. right. eauto.
      * right. exists inner. split; [eauto|exact Gh].
    + intros [[G|(x & G & B)]|(inner & (x & G & R) & Gh)].
      * now left.
      * right. exists x. split; [exact G|]. apply IH. now left.
      * right. exists x. split; [exact G|]. apply IH. right. eauto.
Qed.

Lemma no_branch_ext obj obj' p r h :
  gfield obj' p = gfield obj p -> no_branch obj (p :: r) h -> no_branch obj' (p :: r) h.
Proof. cbn [no_branch]. now intros ->. Qed.

Lemma gget_via_cons_inv obj p r h v :
  gget_via obj (p :: r) h = Ok v -> exists x, gfield obj p = Ok (GPtr (Some x)) /\ gget_via x r h = Ok v.
Proof.
  cbn [gget_via]. destruct (gfield obj p) as [pv|]; cbn [bind]; [|discriminate].
  destruct pv as [| |[x|]| | | |]; try discriminate. eauto.
Qed.

Lemma gget_via_ext obj obj' p r h :
  gfield obj' p = gfield obj p -> gget_via obj' (p :: r) h = gget_via obj (p :: r) h.
Proof. cbn [gget_via]. now intros ->. Qed.

(* a value read through the path: every pointer on it is set *)
Lemma gget_via_chain_set via : forall obj h v, gget_via obj via h = Ok v -> chain_nil obj via = Ok false.
Proof.
  induction via as [|p r IH]; intros obj h v H; [reflexivity|].
  destruct (gget_via_cons_inv _ _ _ _ _ H) as (x & G & H'). cbn [chain_nil]. rewrite G. cbn [bind]. eauto.
Qed.

Lemma gget_via_reaches via : forall obj h v,
  gget_via obj via h = Ok v <-> exists inner, reaches obj via inner /\ gfield inner h = Ok v.
Proof.
  induction via as [|p r IH]; intros obj h v; cbn [reaches].
  - cbn [gget_via]. split; [eauto|]. now intros (inner & <- & G).
  - split.
    + intros H. destruct (gget_via_cons_inv _ _ _ _ _ H) as (x & G & H'). apply IH in H'.
      destruct H' as (inner & R & Gh). exists inner. split; [eauto|exact Gh].
    + intros (inner & (x & G & R) & Gh). cbn [gget_via]. rewrite G. cbn [bind]. apply IH. eauto.
Qed.

(* the stored value is read back *)
Lemma gset_via_get via : forall obj h v obj', gset_via obj via h v = Ok obj' -> gget_via obj' via h = Ok v.
Proof.
  induction via as [|p r IH]; intros obj h v obj' H.
  - cbn [gset_via gget_via] in *. eapply gset_same; eauto.
  - destruct (gset_via_inv _ _ _ _ _ _ H) as (fs & inner & inner' & -> & L & E & ->).
    cbn [gget_via gfield]. rewrite lookup_update_eq. cbn [bind]. eauto.
Qed.

(* what CopyTo's oneof stub reads *)
Lemma no_branch_chain via : forall obj h,
  no_branch obj via h ->
  chain_nil obj via = Ok true \/ (chain_nil obj via = Ok false /\ gget_via obj via h = Ok (GOneof None)).
Proof.
  induction via as [|p r IH]; intros obj h; cbn [no_branch chain_nil gget_via].
  - intros G. right. split; [reflexivity|exact G].
  - intros [G|(x & G & B)]; rewrite G; cbn [bind]; [now left|]. apply IH. exact B.
Qed.

Lemma no_branch_read_holder i h obj p z :
  fi_parent i = Some (p, z) -> fi_via i = p :: map fst (fi_inner i) ->
  no_branch obj (fi_via i) h -> read_holder i h obj = Ok (GOneof None).
Proof.
  intros P V NB. unfold read_holder, parent_is_nil. rewrite P, <- V.
  destruct (no_branch_chain _ _ _ NB) as [C|[C G]]; rewrite C; cbn [bind]; [reflexivity|exact G].
Qed.

(* ------------------------------------------------------------------------------------- *)
(* 2. what the writes of another field leave of the holder *)

(* 2a. a write through [vf] at key [k] which is not the holder and not a pointer on its chain *)
Lemma gset_via_no_branch vf : forall obj obj' k v via h,
  gset_via obj vf k v = Ok obj' -> prefix_b (vf ++ [k]) (via ++ [h]) = false ->
  no_branch obj via h -> no_branch obj' via h.
Proof.
  induction vf as [|q s IH]; intros obj obj' k v via h H NP NB.
  - cbn [gset_via] in H. destruct via as [|p r]; cbn [app prefix_b] in NP; rewrite andb_true_r in NP;
      apply String.eqb_neq in NP.
    + cbn [no_branch] in *. rewrite (gset_other _ _ _ _ h H); [exact NB|congruence].
    + apply (no_branch_ext obj); [|exact NB]. apply (gset_other _ _ _ _ p H). congruence.
  - destruct (gset_via_inv _ _ _ _ _ _ H) as (fs & inner & inner' & -> & L & E & ->).
    destruct via as [|p r].
    + cbn [no_branch gfield] in *. destruct (string_dec h q) as [->|N].
      * rewrite L in NB. discriminate NB.
      * now rewrite lookup_update_neq.
    + cbn [app prefix_b] in NP. destruct (String.eqb q p) eqn:Eq; cbn [andb] in NP.
      * apply String.eqb_eq in Eq. subst q. cbn [no_branch gfield] in *. rewrite L in NB.
        destruct NB as [NB|(x & NB & B)]; [discriminate NB|]. inversion NB; subst x.
        right. exists inner'. rewrite lookup_update_eq. split; [reflexivity|]. eapply IH; eauto.
      * apply String.eqb_neq in Eq. apply (no_branch_ext (GStruct fs)); [|exact NB].
        cbn [gfield]. rewrite lookup_update_neq by congruence. reflexivity.
Qed.

Lemma gset_via_holds vf : forall obj obj' k v via h o,
  gset_via obj vf k v = Ok obj' -> prefix_b (vf ++ [k]) (via ++ [h]) = false ->
  gget_via obj via h = Ok (GOneof o) -> gget_via obj' via h = Ok (GOneof o).
Proof.
  induction vf as [|q s IH]; intros obj obj' k v via h o H NP G.
  - cbn [gset_via] in H. destruct via as [|p r]; cbn [app prefix_b] in NP; rewrite andb_true_r in NP;
      apply String.eqb_neq in NP.
    + cbn [gget_via] in *. rewrite (gset_other _ _ _ _ h H); [exact G|congruence].
    + rewrite (gget_via_ext obj obj'); [exact G|]. apply (gset_other _ _ _ _ p H). congruence.
  - destruct (gset_via_inv _ _ _ _ _ _ H) as (fs & inner & inner' & -> & L & E & ->).
    destruct via as [|p r].
    + cbn [gget_via gfield] in *. destruct (string_dec h q) as [->|N].
      * rewrite L in G. discriminate G.
      * now rewrite lookup_update_neq.
    + cbn [app prefix_b] in NP. destruct (String.eqb q p) eqn:Eq; cbn [andb] in NP.
      * apply String.eqb_eq in Eq. subst q. cbn [gget_via gfield] in *. rewrite L in G. cbn [bind] in G.
        rewrite lookup_update_eq. cbn [bind]. eapply IH; eauto.
      * apply String.eqb_neq in Eq. rewrite (gget_via_ext (GStruct fs)); [exact G|].
        cbn [gfield]. rewrite lookup_update_neq by congruence. reflexivity.
Qed.

(* 2b. an allocation: the zero structs it takes must hold no branch where they land on the path of the
   holder *)
Fixpoint zeros_clean (ps : list (string * goval)) (via : list string) (h : string) : bool :=
  match ps, via with
  | (p, z) :: r, q :: s => negb (String.eqb p q) || (no_branch_b z s h && zeros_clean r s h)
  | _, _ => true
  end.

Lemma alloc_chain_no_branch ps : forall obj obj' via h,
  alloc_chain obj ps = Ok obj' -> zeros_clean ps via h = true ->
  no_branch obj via h -> no_branch obj' via h.
Proof.
  induction ps as [|[p z] r IH]; intros obj obj' via h H Z NB.
  - cbn [alloc_chain] in H. now inversion H; subst.
  - destruct via as [|q s].
    + (* the holder is in this struct: the allocation changes the key p only *)
      cbn [no_branch] in *. destruct (string_dec h p) as [->|N].
      * destruct (alloc_chain_inv _ _ _ _ _ H) as (fs & -> & [(L & _)|(x & x' & L & _)]);
          cbn [gfield] in NB; rewrite L in NB; discriminate NB.
      * now rewrite (alloc_chain_other _ _ _ _ _ _ H N).
    + cbn [zeros_clean] in Z. destruct (String.eqb p q) eqn:Epq; cbn [negb orb] in Z.
      * apply String.eqb_eq in Epq. subst q. apply andb_prop in Z. destruct Z as [Zz Zr].
        apply no_branch_b_spec in Zz.
        destruct (alloc_chain_inv _ _ _ _ _ H) as (fs & -> & [(L & z' & E & ->)|(x & x' & L & E & ->)]);
          cbn [no_branch gfield] in *; rewrite lookup_update_eq.
        -- right. exists z'. split; [reflexivity|]. eapply IH; eauto.
        -- rewrite L in NB. destruct NB as [NB|(y & NB & B)]; [discriminate NB|]. inversion NB; subst y.
           right. exists x'. split; [reflexivity|]. eapply IH; eauto.
      * apply String.eqb_neq in Epq. apply (no_branch_ext obj); [|exact NB].
        apply (alloc_chain_other _ _ _ _ _ _ H). congruence.
Qed.

(* a holder which is set is kept by every allocation: no zero struct is taken on its path *)
Lemma alloc_chain_holds ps : forall obj obj' via h o,
  alloc_chain obj ps = Ok obj' -> gget_via obj via h = Ok (GOneof o) -> gget_via obj' via h = Ok (GOneof o).
Proof.
  induction ps as [|[p z] r IH]; intros obj obj' via h o H G.
  - cbn [alloc_chain] in H. now inversion H; subst.
  - destruct via as [|q s].
    + cbn [gget_via] in *. destruct (string_dec h p) as [->|N].
      * destruct (alloc_chain_inv _ _ _ _ _ H) as (fs & -> & [(L & _)|(x & x' & L & _)]);
          cbn [gfield] in G; rewrite L in G; discriminate G.
      * now rewrite (alloc_chain_other _ _ _ _ _ _ H N).
    + destruct (string_dec p q) as [<-|N].
      * destruct (gget_via_cons_inv _ _ _ _ _ G) as (y & Gy & G').
        destruct (alloc_chain_inv _ _ _ _ _ H) as (fs & -> & [(L & _)|(x & x' & L & E & ->)]);
          cbn [gfield] in Gy; rewrite L in Gy; [discriminate Gy|]. inversion Gy; subst y.
        cbn [gget_via gfield]. rewrite lookup_update_eq. cbn [bind]. eapply IH; eauto.
      * rewrite (gget_via_ext obj obj'); [exact G|]. apply (alloc_chain_other _ _ _ _ _ _ H). congruence.
Qed.

(* ------------------------------------------------------------------------------------- *)
(* 3. one field of CopyFrom *)

(* every change from_field makes to the target is an allocation of the field's chain or a write
   through fi_via at the field's write key *)
Lemma from_field_inv hook f attrs obj ds obj' ds' (P : goval -> Prop) :
  (forall o o', alloc_parent (f_info f) o = Ok o' -> P o -> P o') ->
  (forall o o' v, gset_via o (fi_via (f_info f)) (write_key (f_info f)) v = Ok o' -> P o -> P o') ->
  from_field hook f attrs (obj, ds) = Ok (obj', ds') -> P obj -> P obj'.
Proof.
  destruct f as [i om]. cbn [from_field f_info]. intros HA HS.
  repeat stepg.
  all: intros HP.
  all: try exact HP.
  all: repeat match goal with
              | H : match fi_parent ?j with _ => _ end = Ok _ |- _ =>
                  destruct (fi_parent j); [inversion H; subst; clear H|]
              | H : alloc_parent _ ?o = Ok ?o' |- _ => apply (HA _ _ H); clear H
              | H : gset_via ?o (fi_via ?j) ?k ?v = Ok ?o' |- _ =>
                  apply (HS o o' v); [replace (write_key j) with k by (symmetry; wk); exact H|]; clear H
              end.
  all: exact HP.
Qed.

Definition chain_of_parent (i : finfo) : list (string * goval) :=
  match fi_parent i with Some pz => pz :: fi_inner i | None => [] end.

Lemma chain_of_parent_eq i : chain_of_parent i = chain_of i.
Proof. reflexivity. Qed.

(* the field writes neither the holder [via].[h] nor a pointer on its chain *)
Definition apart_b (via : list string) (h : string) (i : finfo) : bool :=
  negb (prefix_b (fi_via i ++ [write_key i]) (via ++ [h])).

(* the field is a branch of the group [via].[h] *)
Definition member_b (via : list string) (h : string) (i : finfo) : bool :=
  match fi_oneof i with Some h' => String.eqb h' h | None => false end
  && strs_eqb (fi_via i) via
  && match fi_kind i with PrimitiveKind | ObjectKind => true | _ => false end.

Lemma member_b_inv via h i : member_b via h i = true ->
  fi_oneof i = Some h /\ fi_via i = via /\ (fi_kind i = PrimitiveKind \/ fi_kind i = ObjectKind).
Proof.
  unfold member_b. intros H. apply andb_prop in H. destruct H as [H K]. apply andb_prop in H. destruct H as [O V].
  split; [|split].
  - destruct (fi_oneof i) as [h'|]; [|discriminate O]. apply String.eqb_eq in O. now subst.
  - now apply strs_eqb_eq.
  - destruct (fi_kind i); try discriminate K; auto.
Qed.

Lemma alloc_parent_no_branch i obj obj' via h :
  alloc_parent i obj = Ok obj' -> zeros_clean (chain_of i) via h = true ->
  no_branch obj via h -> no_branch obj' via h.
Proof.
  unfold alloc_parent, chain_of. destruct (fi_parent i) as [pz|]; [|now intros [= <-]].
  apply alloc_chain_no_branch.
Qed.

Lemma alloc_parent_holds i obj obj' via h o :
  alloc_parent i obj = Ok obj' -> gget_via obj via h = Ok (GOneof o) -> gget_via obj' via h = Ok (GOneof o).
Proof.
  unfold alloc_parent. destruct (fi_parent i) as [pz|]; [|now intros [= <-]]. apply alloc_chain_holds.
Qed.

(* a field which is apart keeps "no branch" ... *)
Lemma from_field_apart_no_branch hook f attrs obj ds obj' ds' via h :
  apart_b via h (f_info f) = true -> zeros_clean (chain_of (f_info f)) via h = true ->
  from_field hook f attrs (obj, ds) = Ok (obj', ds') -> no_branch obj via h -> no_branch obj' via h.
Proof.
  intros A Z. apply negb_true_iff in A.
  apply (from_field_inv hook f attrs obj ds obj' ds' (fun x => no_branch x via h)).
  - intros o o' E. eapply alloc_parent_no_branch; eauto.
  - intros o o' v E. eapply gset_via_no_branch; eauto.
Qed.

(* ... and a holder which is set *)
Lemma from_field_apart_holds hook f attrs obj ds obj' ds' via h o :
  apart_b via h (f_info f) = true ->
  from_field hook f attrs (obj, ds) = Ok (obj', ds') ->
  gget_via obj via h = Ok (GOneof o) -> gget_via obj' via h = Ok (GOneof o).
Proof.
  intros A. apply negb_true_iff in A. apply (from_field_inv hook f attrs obj ds obj' ds' (fun x => gget_via x via h = Ok (GOneof o))).
  - intros x x' E. eapply alloc_parent_holds; eauto.
  - intros x x' v E. eapply gset_via_holds; eauto.
Qed.

(* a branch whose attribute is missing, ill-kinded, null or unknown (sets_holder of OneofProofs.v is
   false) writes nothing: from_field_oneof_skip.  In terms of not_known: *)
Lemma not_known_sets_holder h attrs f :
  (forall a, lookup (fi_snake (f_info f)) (attrs_list attrs) = Some a -> not_known a) ->
  sets_holder h attrs f = false.
Proof.
  intros A. unfold sets_holder.
  destruct (lookup (fi_snake (f_info f)) (attrs_list attrs)) as [a|]; [|apply andb_false_r].
  specialize (A a eq_refl). destruct a; cbn [not_known] in A; rewrite ?A, ?andb_false_r; reflexivity.
Qed.

(* a branch whose attribute is well-kinded, known and not null: the chain is allocated and the holder
   is set to the branch; the payload is the cast attribute value, resp. a pointer to the decoded
   message *)
Definition branch_payload (hook : hook_from_t) (i : finfo) (om : option message)
           (attrs : option (list (string * tfval))) (payload : goval) : Prop :=
  match lookup (fi_snake i) (attrs_list attrs), om with
  | Some (VPrim _ _ _ q), _ =>
      exists c, cast_from (fi_cast i) q = Ok c /\ payload = (if fi_nullable i then GPtr (Some c) else c)
  | Some (VObj _ _ _ at0), Some m' =>
      exists v d d',
        (if m_empty m' then Ok (m_zero m', d) else from_fields hook m' at0 (m_zero m', d)) = Ok (v, d')
        /\ payload = GPtr (Some v)
  | _, _ => False
  end.

Lemma from_field_branch_prim hook i om attrs obj ds obj' ds' h n u q :
  fi_oneof i = Some h -> fi_kind i = PrimitiveKind ->
  lookup (fi_snake i) (attrs_list attrs) = Some (VPrim (fi_tk i) n u q) -> known n u = true ->
  from_field hook (Field i om) attrs (obj, ds) = Ok (obj', ds') ->
  exists c, cast_from (fi_cast i) q = Ok c /\
    gget_via obj' (fi_via i) h
    = Ok (GOneof (Some (fi_name i, if fi_nullable i then GPtr (Some c) else c))).
Proof.
  intros O K L N. rewrite <- attr_lookup_eq in L. cbn [from_field]. rewrite K, L, O. cbn [as_prim].
  rewrite CopyFromProofs.tfkind_eqb_refl, N. unfold from_prim_value. rewrite N.
  destruct (cast_from (fi_cast i) q) as [c|]; cbn [bind]; [|discriminate].
  destruct (alloc_parent i obj) as [o1|]; cbn [bind]; [|discriminate].
  match goal with |- bind ?x _ = _ -> _ => destruct x as [o2|] eqn:E end; cbn [bind]; [|discriminate].
  intros [= <- <-]. exists c. split; [reflexivity|]. eapply gset_via_get; eauto.
Qed.

Lemma from_field_branch_obj hook i m' attrs obj ds obj' ds' h a n u at0 :
  fi_oneof i = Some h -> fi_kind i = ObjectKind ->
  lookup (fi_snake i) (attrs_list attrs) = Some (VObj a n u at0) -> known n u = true ->
  from_field hook (Field i (Some m')) attrs (obj, ds) = Ok (obj', ds') ->
  exists v d',
    (if m_empty m' then Ok (m_zero m', ds) else from_fields hook m' at0 (m_zero m', ds)) = Ok (v, d')
    /\ gget_via obj' (fi_via i) h = Ok (GOneof (Some (fi_name i, GPtr (Some v)))).
Proof.
  intros O K L N. rewrite <- attr_lookup_eq in L. cbn [from_field]. fold (from_fields hook).
  rewrite K, L, O, N.
  destruct (alloc_parent i obj) as [o1|]; cbn [bind]; [|discriminate].
  match goal with |- bind ?x _ = _ -> _ => destruct x as [[v d]|] eqn:D end; cbn [bind]; [|discriminate].
  match goal with |- bind ?x _ = _ -> _ => destruct x as [o2|] eqn:E end; cbn [bind]; [|discriminate].
  intros [= <- <-]. exists v, d. split; [reflexivity|]. eapply gset_via_get; eauto.
Qed.

Lemma from_field_branch_sets hook i om attrs obj ds obj' ds' h :
  sets_holder h attrs (Field i om) = true ->
  from_field hook (Field i om) attrs (obj, ds) = Ok (obj', ds') ->
  exists payload, gget_via obj' (fi_via i) h = Ok (GOneof (Some (fi_name i, payload)))
                  /\ branch_payload hook i om attrs payload.
Proof.
  intros S H. unfold sets_holder, is_branch in S. cbn [f_info] in S.
  apply andb_prop in S. destruct S as [S S3]. apply andb_prop in S. destruct S as [_ S2].
  destruct (fi_oneof i) as [h'|] eqn:O; [|discriminate S2]. apply String.eqb_eq in S2. subst h'.
  unfold branch_payload.
  destruct (lookup (fi_snake i) (attrs_list attrs)) as [[k n u q| | |a n u at0| |]|] eqn:L; try discriminate S3.
  - apply andb_prop in S3. destruct S3 as [S3 N]. apply andb_prop in S3. destruct S3 as [K Ek].
    assert (K' : fi_kind i = PrimitiveKind) by (destruct (fi_kind i); (reflexivity || discriminate K)).
    apply tfkind_eqb_eq in Ek. subst k.
    destruct (from_field_branch_prim hook i om attrs obj ds obj' ds' h n u q O K' L N H) as (c & C & G).
    eexists. split; [exact G|]. eauto.
  - apply andb_prop in S3. destruct S3 as [K N].
    assert (K' : fi_kind i = ObjectKind) by (destruct (fi_kind i); (reflexivity || discriminate K)).
    destruct om as [m'|].
    + destruct (from_field_branch_obj hook i m' attrs obj ds obj' ds' h a n u at0 O K' L N H) as (v & d' & D & G).
      eexists. split; [exact G|]. eauto 6.
    + exfalso. rewrite <- attr_lookup_eq in L. cbn [from_field] in H. rewrite K', L in H. discriminate H.
Qed.

(* ------------------------------------------------------------------------------------- *)
(* 4. the fields of the message one after the other *)

(* a field which cannot put a branch into the holder [via].[h]: the placeholder (skipped), a branch of
   the group whose attribute is not (well-kinded, known and not null), a field which writes elsewhere
   and whose zero structs hold no branch *)
Definition silent_b (via : list string) (h : string) (attrs : option (list (string * tfval))) (f : field) : bool :=
  fi_placeholder (f_info f)
  || (member_b via h (f_info f) && negb (sets_holder h attrs f))
  || (apart_b via h (f_info f) && zeros_clean (chain_of (f_info f)) via h).

(* a field which cannot change a holder which is set *)
Definition keeps_b (via : list string) (h : string) (attrs : option (list (string * tfval))) (f : field) : bool :=
  fi_placeholder (f_info f)
  || (member_b via h (f_info f) && negb (sets_holder h attrs f))
  || apart_b via h (f_info f).

Lemma silent_keeps via h attrs f : silent_b via h attrs f = true -> keeps_b via h attrs f = true.
Proof.
  unfold silent_b, keeps_b. intros H. apply orb_prop in H. destruct H as [H|H]; [now rewrite H|].
  apply andb_prop in H. destruct H as [-> _]. apply orb_true_r.
Qed.

Lemma member_skip hook f attrs obj ds obj' ds' via h :
  fi_placeholder (f_info f) = false -> member_b via h (f_info f) = true -> sets_holder h attrs f = false ->
  from_field hook f attrs (obj, ds) = Ok (obj', ds') -> obj' = obj.
Proof.
  destruct f as [i om]. cbn [f_info]. intros Pl M S H. destruct (member_b_inv _ _ _ M) as (O & _ & K).
  exact (from_field_oneof_skip hook i om attrs obj ds obj' ds' h O K Pl S H).
Qed.

Lemma from_field_list_no_branch hook attrs via h fs : forall obj ds obj' ds',
  forallb (silent_b via h attrs) fs = true ->
  from_field_list hook fs attrs (obj, ds) = Ok (obj', ds') ->
  no_branch obj via h -> no_branch obj' via h.
Proof.
  induction fs as [|f r IH]; intros obj ds obj' ds' Q H NB; cbn [from_field_list] in H.
  - now inversion H; subst.
  - cbn [forallb] in Q. apply andb_prop in Q. destruct Q as [Qf Qr].
    destruct (fi_placeholder (f_info f)) eqn:Pl; [now apply (IH obj ds obj' ds')|].
    destruct (from_field hook f attrs (obj, ds)) as [[o1 d1]|] eqn:E; cbn [bind] in H; [|discriminate].
    apply (IH o1 d1 obj' ds' Qr H). unfold silent_b in Qf. rewrite Pl in Qf. cbn [orb] in Qf.
    apply orb_prop in Qf. destruct Qf as [Qf|Qf]; apply andb_prop in Qf; destruct Qf as [Q1 Q2].
    + apply negb_true_iff in Q2. now rewrite (member_skip hook f attrs obj ds o1 d1 via h Pl Q1 Q2 E).
    + exact (from_field_apart_no_branch hook f attrs obj ds o1 d1 via h Q1 Q2 E NB).
Qed.

Lemma from_field_list_holds hook attrs via h o fs : forall obj ds obj' ds',
  forallb (keeps_b via h attrs) fs = true ->
  from_field_list hook fs attrs (obj, ds) = Ok (obj', ds') ->
  gget_via obj via h = Ok (GOneof o) -> gget_via obj' via h = Ok (GOneof o).
Proof.
  induction fs as [|f r IH]; intros obj ds obj' ds' Q H G; cbn [from_field_list] in H.
  - now inversion H; subst.
  - cbn [forallb] in Q. apply andb_prop in Q. destruct Q as [Qf Qr].
    destruct (fi_placeholder (f_info f)) eqn:Pl; [now apply (IH obj ds obj' ds')|].
    destruct (from_field hook f attrs (obj, ds)) as [[o1 d1]|] eqn:E; cbn [bind] in H; [|discriminate].
    apply (IH o1 d1 obj' ds' Qr H). unfold keeps_b in Qf. rewrite Pl in Qf. cbn [orb] in Qf.
    apply orb_prop in Qf. destruct Qf as [Qf|Qf].
    + apply andb_prop in Qf. destruct Qf as [Q1 Q2]. apply negb_true_iff in Q2.
      now rewrite (member_skip hook f attrs obj ds o1 d1 via h Pl Q1 Q2 E).
    + exact (from_field_apart_holds hook f attrs obj ds o1 d1 via h o Qf E G).
Qed.

(* ------------------------------------------------------------------------------------- *)
(* 5. C07, CopyFrom direction, promoted oneofs *)

(* the class, a condition on the IR alone: every field of the message which is not the placeholder is
   a branch of the group [via].[h], or writes elsewhere and takes zero structs without a branch *)
Definition group_sep (via : list string) (h : string) (m : message) : bool :=
  forallb (fun f => fi_placeholder (f_info f)
                    || member_b via h (f_info f)
                    || (apart_b via h (f_info f) && zeros_clean (chain_of (f_info f)) via h)) (m_fields m).

Lemma group_sep_silent via h attrs fs :
  forallb (fun f => fi_placeholder (f_info f) || member_b via h (f_info f)
                    || (apart_b via h (f_info f) && zeros_clean (chain_of (f_info f)) via h)) fs = true ->
  (forall f, In f fs -> member_b via h (f_info f) = true -> sets_holder h attrs f = false) ->
  forallb (silent_b via h attrs) fs = true.
Proof.
  intros G A. rewrite forallb_forall in *. intros f If. specialize (G f If). unfold silent_b.
  destruct (fi_placeholder (f_info f)); [reflexivity|]. cbn [orb] in *.
  destruct (member_b via h (f_info f)) eqn:M; cbn [orb andb] in *; [|exact G].
  now rewrite (A f If M).
Qed.

(* 5a. every branch attribute missing, ill-kinded, null or unknown: no branch afterwards, whatever the
   target held (in particular: the embedded pointers set and a branch stored) *)
Theorem C07_from_none_promoted hook m attrs prior ds obj' ds' b h :
  In b (m_fields m) -> fi_oneof (f_info b) = Some h -> chain_wf (f_info b) = true ->
  group_sep (fi_via (f_info b)) h m = true ->
  (forall f, In f (m_fields m) -> member_b (fi_via (f_info b)) h (f_info f) = true ->
             sets_holder h attrs f = false) ->
  from_fields hook m attrs (prior, ds) = Ok (obj', ds') ->
  no_branch obj' (fi_via (f_info b)) h /\ read_holder (f_info b) h obj' = Ok (GOneof None).
Proof.
  intros Ib O W G A H. destruct (chain_wf_inv _ W) as (p & z & P & V).
  assert (NB : no_branch obj' (fi_via (f_info b)) h).
  { destruct m as [nm fs os inj e z0]. rewrite from_fields_unfold in H. unfold group_sep in G.
    cbn [fst snd m_fields] in *.
    destruct (fold_res reset_oneof os prior) as [o1|] eqn:E1; cbn [bind] in H; [|discriminate].
    destruct (fold_res reset_promoted fs o1) as [o2|] eqn:E2; cbn [bind] in H; [|discriminate].
    destruct (fold_res reset_parent fs o2) as [o3|] eqn:E3; cbn [bind] in H; [|discriminate].
    apply (from_field_list_no_branch hook attrs _ h fs o3 ds obj' ds' (group_sep_silent _ _ _ _ G A) H).
    (* the reset of the outermost embedded pointer *)
    rewrite V. cbn [no_branch]. left. apply (reset_parents_nil p fs _ _ E3). left.
    unfold parents. apply in_flat_map. exists b. split; [exact Ib|]. unfold parent_of. rewrite P. now left. }
  split; [exact NB|]. exact (no_branch_read_holder _ _ _ p z P V NB).
Qed.

(* ... with the hypothesis on the attributes in the words of the property: null or unknown (missing,
   or not a scalar resp. an object, included) *)
Corollary C07_from_none_promoted_null hook m attrs prior ds obj' ds' b h :
  In b (m_fields m) -> fi_oneof (f_info b) = Some h -> chain_wf (f_info b) = true ->
  group_sep (fi_via (f_info b)) h m = true ->
  (forall f a, In f (m_fields m) -> member_b (fi_via (f_info b)) h (f_info f) = true ->
               lookup (fi_snake (f_info f)) (attrs_list attrs) = Some a -> not_known a) ->
  from_fields hook m attrs (prior, ds) = Ok (obj', ds') ->
  no_branch obj' (fi_via (f_info b)) h /\ read_holder (f_info b) h obj' = Ok (GOneof None).
Proof.
  intros Ib O W G A. apply C07_from_none_promoted; auto.
  intros f If M. apply not_known_sets_holder. intros a. now apply A.
Qed.

Corollary C07_copy_from_none_promoted hook m t prior obj' ds b h :
  In b (m_fields m) -> fi_oneof (f_info b) = Some h -> chain_wf (f_info b) = true ->
  group_sep (fi_via (f_info b)) h m = true ->
  (forall f, In f (m_fields m) -> member_b (fi_via (f_info b)) h (f_info f) = true ->
             sets_holder h (tf_attrs t) f = false) ->
  copy_from hook m t prior = Ok (obj', ds) ->
  no_branch obj' (fi_via (f_info b)) h /\ read_holder (f_info b) h obj' = Ok (GOneof None).
Proof.
  intros Ib O W G A H. destruct t as [| | |a n u at0| |]; try discriminate H. cbn [copy_from tf_attrs] in *.
  exact (C07_from_none_promoted hook m at0 prior [] obj' ds b h Ib O W G A H).
Qed.

(* 5b. a branch whose attribute is well-kinded, known and not null, the later fields being silent:
   the chain is allocated, the holder is the branch with the decoded payload *)
Theorem C07_from_last_promoted hook m attrs prior ds obj' ds' pre i om post h :
  m_fields m = pre ++ Field i om :: post ->
  sets_holder h attrs (Field i om) = true ->
  forallb (keeps_b (fi_via i) h attrs) post = true ->
  from_fields hook m attrs (prior, ds) = Ok (obj', ds') ->
  exists payload,
    gget_via obj' (fi_via i) h = Ok (GOneof (Some (fi_name i, payload)))
    /\ chain_nil obj' (fi_via i) = Ok false
    /\ branch_payload hook i om attrs payload.
Proof.
  destruct m as [nm fs os inj e z]. rewrite from_fields_unfold. cbn [fst snd m_fields].
  intros -> S Q H.
  destruct (fold_res reset_oneof os prior) as [o1|]; cbn [bind] in H; [|discriminate].
  destruct (fold_res reset_promoted _ o1) as [o2|]; cbn [bind] in H; [|discriminate].
  destruct (fold_res reset_parent _ o2) as [o3|]; cbn [bind] in H; [|discriminate].
  rewrite from_field_list_app in H.
  destruct (from_field_list hook pre attrs (o3, ds)) as [[o4 d4]|]; cbn [bind] in H; [|discriminate].
  cbn [from_field_list f_info] in H.
  assert (Pl : fi_placeholder i = false).
  { unfold sets_holder in S. cbn [f_info] in S. destruct (fi_placeholder i); [discriminate S|reflexivity]. }
  rewrite Pl in H.
  destruct (from_field hook (Field i om) attrs (o4, d4)) as [[o5 d5]|] eqn:E; cbn [bind] in H; [|discriminate].
  destruct (from_field_branch_sets hook i om attrs o4 d4 o5 d5 h S E) as (payload & G & BP).
  pose proof (from_field_list_holds hook attrs (fi_via i) h _ post o5 d5 obj' ds' Q H G) as G'.
  exists payload. split; [exact G'|]. split; [eapply gget_via_chain_set; eauto|exact BP].
Qed.

(* ... exactly one branch attribute of the group known and not null *)
Corollary C07_from_one_promoted hook m attrs prior ds obj' ds' pre i om post h :
  m_fields m = pre ++ Field i om :: post ->
  sets_holder h attrs (Field i om) = true ->
  group_sep (fi_via i) h m = true ->
  (forall f, In f (pre ++ post) -> member_b (fi_via i) h (f_info f) = true -> sets_holder h attrs f = false) ->
  from_fields hook m attrs (prior, ds) = Ok (obj', ds') ->
  exists payload,
    gget_via obj' (fi_via i) h = Ok (GOneof (Some (fi_name i, payload)))
    /\ chain_nil obj' (fi_via i) = Ok false
    /\ branch_payload hook i om attrs payload.
Proof.
  intros Em S G A. apply (C07_from_last_promoted hook m attrs prior ds obj' ds' pre i om post h Em S).
  unfold group_sep in G. rewrite Em, forallb_app in G. apply andb_prop in G. destruct G as [_ G].
  cbn [forallb] in G. apply andb_prop in G. destruct G as [_ G].
  assert (Sl : forallb (silent_b (fi_via i) h attrs) post = true).
  { apply group_sep_silent; [exact G|]. intros f If. apply A. apply in_or_app. now right. }
  rewrite forallb_forall in *. intros f If. apply silent_keeps. now apply Sl.
Qed.

Corollary C07_copy_from_one_promoted hook m t prior obj' ds pre i om post h :
  m_fields m = pre ++ Field i om :: post ->
  sets_holder h (tf_attrs t) (Field i om) = true ->
  group_sep (fi_via i) h m = true ->
  (forall f, In f (pre ++ post) -> member_b (fi_via i) h (f_info f) = true ->
             sets_holder h (tf_attrs t) f = false) ->
  copy_from hook m t prior = Ok (obj', ds) ->
  exists payload,
    gget_via obj' (fi_via i) h = Ok (GOneof (Some (fi_name i, payload)))
    /\ chain_nil obj' (fi_via i) = Ok false
    /\ branch_payload hook i om (tf_attrs t) payload.
Proof.
  intros Em S G A H. destruct t as [| | |a n u at0| |]; try discriminate H. cbn [copy_from tf_attrs] in *.
  exact (C07_from_one_promoted hook m at0 prior [] obj' ds pre i om post h Em S G A H).
Qed.

(* ------------------------------------------------------------------------------------- *)
(* 6. C07, CopyTo direction: an inactive promoted branch into a target without a value for it *)

Lemma read_holder_nil_parent i h obj :
  parent_is_nil i obj = Ok (Some true) -> read_holder i h obj = Ok (GOneof None).
Proof. intros PN. unfold read_holder. now rewrite PN. Qed.

(* the zero value of the branch's Go type is rendered null on a target without a value: a nullable
   scalar has no zero literal (the nil pointer is tested), a value scalar has one and its cast zero
   value is that literal *)
Definition zero_renders_null (i : finfo) : Prop :=
  (fi_nullable i = true /\ fi_zero i = false)
  \/ (fi_nullable i = false /\ fi_zero i = true /\
      exists c, cast_to (fi_tk i) (zero_scalar (fi_cast i)) = Ok c /\ prim_is_zero c = true).

(* all CopyTo reads of a branch is the holder, through read_holder: a nil chain and a nil holder at
   the end of a chain which is set are the same to it *)
Lemma to_field_branch_inactive_prim hook i om obj atys attrs ds h t :
  fi_kind i = PrimitiveKind -> fi_oneof i = Some h -> fi_placeholder i = false ->
  read_holder i h obj = Ok (GOneof None) ->
  lookup (fi_snake i) atys = Some t -> lookup (fi_snake i) attrs = None ->
  zero_renders_null i ->
  exists p, to_field hook (Field i om) obj atys (attrs, ds)
            = Ok (update (fi_snake i) (VPrim (fi_tk i) true false p) attrs, snd (fresh_st i t ds)).
Proof.
  intros K O Pl RH T C Cond. rewrite to_field_eq. cbv zeta. rewrite T, C, K, O, RH. cbn [bind].
  unfold read_field. rewrite O, RH. cbn [bind]. unfold to_prim_value, fresh_st. rewrite Pl, O.
  destruct Cond as [[Nn Zz]|(Nn & Zz & c & Cz & PZ)]; rewrite Nn, Zz; unfold zero_of_prim; rewrite Nn.
  - destruct (null_value t) as [k2 n2 u2 p2|e2 n2 u2 el2|e2 n2 u2 el2|a2 n2 u2 at2| |s2 f2 n2 u2 g2 ty2 c2];
      try destruct (tfkind_eqb (fi_tk i) k2); cbn [bind snd]; eexists; reflexivity.
  - destruct (null_value t) as [k2 n2 u2 p2|e2 n2 u2 el2|e2 n2 u2 el2|a2 n2 u2 at2| |s2 f2 n2 u2 g2 ty2 c2];
      try destruct (tfkind_eqb (fi_tk i) k2); cbn [bind snd]; rewrite Cz; cbn [bind]; rewrite PZ;
      eexists; reflexivity.
Qed.

Lemma to_field_branch_inactive_msg hook i m' obj atys attrs ds h ats :
  fi_kind i = ObjectKind -> fi_oneof i = Some h -> fi_nullable i = true ->
  read_holder i h obj = Ok (GOneof None) ->
  lookup (fi_snake i) atys = Some (TyObj ats) -> lookup (fi_snake i) attrs = None ->
  to_field hook (Field i (Some m')) obj atys (attrs, ds)
  = Ok (update (fi_snake i) (VObj ats true false (Some [])) attrs, ds).
Proof.
  intros K O Nn RH T C. rewrite to_field_eq. cbv zeta. rewrite T, C, K.
  unfold read_source, read_field. rewrite O, RH, Nn. cbn [bind].
  unfold obj_value. rewrite Nn. cbn [bind]. reflexivity.
Qed.

(* 6a. a scalar branch promoted from a nullable embedded message one of whose pointers is nil in the
   source: the attribute is null (payload: the one of the null value of the attribute type for a
   pointer scalar, the cast zero value for a value scalar), without a diagnostic when the attribute
   type is the one of the schema *)
Theorem C07_to_promoted_nil_parent_prim hook i om obj atys attrs ds h t :
  fi_kind i = PrimitiveKind -> fi_oneof i = Some h -> fi_placeholder i = false ->
  parent_is_nil i obj = Ok (Some true) ->
  lookup (fi_snake i) atys = Some t -> lookup (fi_snake i) attrs = None ->
  zero_renders_null i ->
  exists p, to_field hook (Field i om) obj atys (attrs, ds)
            = Ok (update (fi_snake i) (VPrim (fi_tk i) true false p) attrs, snd (fresh_st i t ds))
            /\ (t = TyPrim (fi_tk i) -> snd (fresh_st i t ds) = ds).
Proof.
  intros K O Pl PN T C Z.
  destruct (to_field_branch_inactive_prim hook i om obj atys attrs ds h t K O Pl
              (read_holder_nil_parent i h obj PN) T C Z) as (p & E).
  exists p. split; [exact E|]. intros ->. unfold fresh_st. cbn [null_value].
  now rewrite CopyToProofs.tfkind_eqb_refl.
Qed.

(* 6b. a message branch (a pointer in Go: fi_nullable) *)
Theorem C07_to_promoted_nil_parent_msg hook i m' obj atys attrs ds h ats :
  fi_kind i = ObjectKind -> fi_oneof i = Some h -> fi_nullable i = true ->
  parent_is_nil i obj = Ok (Some true) ->
  lookup (fi_snake i) atys = Some (TyObj ats) -> lookup (fi_snake i) attrs = None ->
  to_field hook (Field i (Some m')) obj atys (attrs, ds)
  = Ok (update (fi_snake i) (VObj ats true false (Some [])) attrs, ds).
Proof.
  intros K O Nn PN T C.
  exact (to_field_branch_inactive_msg hook i m' obj atys attrs ds h ats K O Nn (read_holder_nil_parent i h obj PN) T C).
Qed.

(* 6c. at the level of the message *)
Definition to_branch_ok (atys : list (string * tfty)) (f : field) : Prop :=
  match fi_kind (f_info f), f_msg f with
  | PrimitiveKind, _ =>
      fi_placeholder (f_info f) = false /\ (exists t, lookup (fi_snake (f_info f)) atys = Some t)
      /\ zero_renders_null (f_info f)
  | ObjectKind, Some _ =>
      fi_nullable (f_info f) = true /\ exists ats, lookup (fi_snake (f_info f)) atys = Some (TyObj ats)
  | _, _ => False
  end.

Lemma to_field_branch_inactive hook f obj atys attrs ds attrs' ds' h :
  fi_oneof (f_info f) = Some h -> read_holder (f_info f) h obj = Ok (GOneof None) ->
  to_branch_ok atys f -> lookup (fi_snake (f_info f)) attrs = None ->
  to_field hook f obj atys (attrs, ds) = Ok (attrs', ds') ->
  attr_null (lookup (fi_snake (f_info f)) attrs') = true.
Proof.
  destruct f as [i om]. unfold to_branch_ok. cbn [f_info f_msg]. intros O RH B C H.
  destruct (fi_kind i) eqn:K; try contradiction.
  - destruct B as (Pl & (t & T) & Z).
    destruct (to_field_branch_inactive_prim hook i om obj atys attrs ds h t K O Pl RH T C Z) as (p & E).
    rewrite E in H. inversion H; subst. now rewrite lookup_update_eq.
  - destruct om as [m'|]; [|contradiction]. destruct B as (Nn & ats & T).
    rewrite (to_field_branch_inactive_msg hook i m' obj atys attrs ds h ats K O Nn RH T C) in H.
    inversion H; subst. now rewrite lookup_update_eq.
Qed.

Lemma to_fields_branch_inactive hook m obj atys attrs0 ds attrs' ds' f h :
  to_fields hook m obj atys (attrs0, ds) = Ok (attrs', ds') ->
  NoDup (map (fun f => fi_snake (f_info f)) (m_fields m)) ->
  In f (m_fields m) -> lookup (fi_snake (f_info f)) attrs0 = None ->
  fi_oneof (f_info f) = Some h -> read_holder (f_info f) h obj = Ok (GOneof None) ->
  to_branch_ok atys f ->
  attr_null (lookup (fi_snake (f_info f)) attrs') = true.
Proof.
  rewrite to_fields_m_fields. intros H ND If C O RH B.
  destruct (in_split _ _ If) as (l1 & l2 & Em). rewrite Em in H, ND.
  rewrite map_app in ND. cbn [map] in ND. pose proof (NoDup_remove_2 _ _ _ ND) as NI.
  rewrite in_app_iff in NI.
  rewrite to_field_list_app in H.
  destruct (to_field_list hook l1 obj atys (attrs0, ds)) as [[a1 d1]|] eqn:E1; cbn [bind] in H; [|discriminate].
  cbn [to_field_list] in H.
  destruct (to_field hook f obj atys (a1, d1)) as [[a2 d2]|] eqn:E2; cbn [bind] in H; [|discriminate].
  rewrite (to_field_list_local hook l2 obj atys a2 d2 attrs' ds' H) by tauto.
  apply (to_field_branch_inactive hook f obj atys a1 d1 a2 d2 h O RH B); [|exact E2].
  rewrite (to_field_list_local hook l1 obj atys attrs0 ds a1 d1 E1) by tauto. exact C.
Qed.

(* CopyTo into a target without a value for the branch attribute (in particular the empty object of
   the schema's type): a branch promoted from a nullable embedded message which is nil in the source
   is rendered null *)
Theorem C07_to_promoted_nil_parent hook m obj atys nl u at0 attrs' ds f h a' n' u' :
  copy_to hook m obj (VObj atys nl u at0) = Ok (VObj a' n' u' (Some attrs'), ds) ->
  NoDup (map (fun f => fi_snake (f_info f)) (m_fields m)) ->
  In f (m_fields m) -> lookup (fi_snake (f_info f)) (match at0 with Some x => x | None => [] end) = None ->
  fi_oneof (f_info f) = Some h -> parent_is_nil (f_info f) obj = Ok (Some true) ->
  to_branch_ok atys f ->
  attr_null (lookup (fi_snake (f_info f)) attrs') = true.
Proof.
  cbn [copy_to]. intros H ND If C O PN B.
  destruct (to_fields hook m obj atys (match at0 with Some x => x | None => [] end, []))
    as [[a1 d1]|] eqn:E; cbn [bind] in H; [|discriminate]. inversion H; subst.
  exact (to_fields_branch_inactive hook m obj _ _ [] attrs' ds f h E ND If C O
           (read_holder_nil_parent _ h obj PN) B).
Qed.

(* ------------------------------------------------------------------------------------- *)
(* 7. both directions: an object whose branch attributes are all null or unknown is read into ANY
   target, the result is written into a target without values: every branch attribute is null *)
Theorem C07_promoted_none_end_to_end hook_from hook_to m attrs prior ds obj' ds1 atys d0 attrs' ds2 b h :
  In b (m_fields m) -> fi_oneof (f_info b) = Some h -> chain_wf (f_info b) = true ->
  group_sep (fi_via (f_info b)) h m = true ->
  (forall f, In f (m_fields m) -> member_b (fi_via (f_info b)) h (f_info f) = true ->
             sets_holder h attrs f = false) ->
  from_fields hook_from m attrs (prior, ds) = Ok (obj', ds1) ->
  NoDup (map (fun f => fi_snake (f_info f)) (m_fields m)) -> to_branch_ok atys b ->
  to_fields hook_to m obj' atys ([], d0) = Ok (attrs', ds2) ->
  attr_null (lookup (fi_snake (f_info b)) attrs') = true.
Proof.
  intros Ib O W G A H ND B T.
  destruct (C07_from_none_promoted hook_from m attrs prior ds obj' ds1 b h Ib O W G A H) as [_ RH].
  exact (to_fields_branch_inactive hook_to m obj' atys [] d0 attrs' ds2 b h T ND Ib eq_refl O RH B).
Qed.

(* ------------------------------------------------------------------------------------- *)
(* 8. the statements are not vacuous, and the hypotheses are needed *)
Module HasChoiceExample.
  Import PGT.Model.Desc PGT.Model.Build.
  Import EmbExample.
  Local Open Scope string_scope.
  Local Open Scope Z_scope.

  (* HasChoice{name; *Choice embedded}, Choice{oneof kind {int64 a; string b}}: the IR the front end
     (Model/Build.v) produces *)
  Definition d_leaf : mdesc :=
    {| md_name := "Leaf"; md_comment := ""; md_oneofs := [];
       md_fields := [fd "v" 1 (PScalar SString) false None false None] |}.
  Definition d_choice : mdesc :=
    {| md_name := "Choice"; md_comment := ""; md_oneofs := ["kind"];
       md_fields := [fd "a" 1 (PScalar SInt64) false None false (Some 0%nat);
                     fd "b" 2 (PScalar SString) false None false (Some 0%nat)] |}.
  Definition d_has : mdesc :=
    {| md_name := "HasChoice"; md_comment := ""; md_oneofs := [];
       md_fields := [fd "name" 1 (PScalar SString) false None false None;
                     fd "choice" 2 (PMsg "Choice") false (Some true) true None] |}.
  Definition has_choice : message :=
    Eval vm_compute in
      match build_message (obs_of cfg) [d_leaf; d_choice; d_has] 5 d_has "HasChoice" with BOk m => m | _ => dummy end.

  Definition z_choice : goval := GStruct [("Kind", GOneof None)].
  Example has_choice_shape :
    map (fun f => (fi_name (f_info f), fi_snake (f_info f), fi_kind (f_info f), fi_oneof (f_info f),
                   fi_via (f_info f), fi_parent (f_info f))) (m_fields has_choice)
    = [("Name", "name", PrimitiveKind, None, [], None);
       ("A", "a", PrimitiveKind, Some "Kind", ["Choice"], Some ("Choice", z_choice));
       ("B", "b", PrimitiveKind, Some "Kind", ["Choice"], Some ("Choice", z_choice))]
    /\ m_oneofs has_choice = []
    /\ m_zero has_choice = GStruct [("Name", GPrim (PStr "")); ("Choice", GPtr None)].
  Proof. repeat split; reflexivity. Qed.

  Definition f_a : field := Eval vm_compute in nth 1 (m_fields has_choice) (placeholder_field "").
  Definition f_b : field := Eval vm_compute in nth 2 (m_fields has_choice) (placeholder_field "").

  (* the class *)
  Example has_choice_class :
    In f_a (m_fields has_choice) /\ In f_b (m_fields has_choice)
    /\ chain_wf (f_info f_a) = true /\ chain_wf (f_info f_b) = true
    /\ group_sep ["Choice"] "Kind" has_choice = true
    /\ flat_ok has_choice = false.    (* outside the class of OneofProofs.v *)
  Proof. repeat split; try (vm_compute; reflexivity); cbn; tauto. Qed.

  Definition kS (s : string) := VPrim KStr false false (PStr s).
  Definition nS := VPrim KStr true false (PStr "").
  Definition uS := VPrim KStr false true (PStr "").
  Definition kI (z : Z) := VPrim KI64 false false (PInt z).
  Definition nI := VPrim KI64 true false (PInt 0).

  Definition choice (k : option (string * goval)) : goval := GStruct [("Kind", GOneof k)].
  Definition hc (name : string) (c : option goval) : goval :=
    GStruct [("Name", GPrim (PStr name)); ("Choice", GPtr c)].
  (* a target which holds branch A = 5 *)
  Definition prior_a : goval := hc "old" (Some (choice (Some ("A", GPrim (PInt 5))))).
  Definition tf (name a b : tfval) : tfval :=
    VObj (msg_ty has_choice) false false (Some [("name", name); ("a", a); ("b", b)]).
  Definition tf_none := tf (kS "n") nI uS.          (* a null, b unknown *)
  Definition tf_b := tf (kS "n") nI (kS "x").       (* exactly b known *)

  (* all branch attributes null or unknown: the embedded pointer is nil afterwards, the prior branch
     is gone *)
  Example from_none_computed :
    copy_from std_hook_from has_choice tf_none prior_a = Ok (hc "n" None, []).
  Proof. vm_compute. reflexivity. Qed.

  (* ... by the theorem, for EVERY prior target *)
  Example from_none_by_theorem hook prior obj' ds :
    copy_from hook has_choice tf_none prior = Ok (obj', ds) ->
    no_branch obj' ["Choice"] "Kind" /\ read_holder (f_info f_a) "Kind" obj' = Ok (GOneof None)
    /\ read_holder (f_info f_b) "Kind" obj' = Ok (GOneof None).
  Proof.
    intros H. destruct has_choice_class as (Ia & Ib & Wa & Wb & G & _).
    assert (A : forall f, In f (m_fields has_choice) -> member_b ["Choice"] "Kind" (f_info f) = true ->
                          sets_holder "Kind" (tf_attrs tf_none) f = false).
    { intros f [<-|[<-|[<-|[]]]] _; vm_compute; reflexivity. }
    destruct (C07_copy_from_none_promoted hook has_choice tf_none prior obj' ds f_a "Kind" Ia eq_refl Wa G A H) as [N Ra].
    destruct (C07_copy_from_none_promoted hook has_choice tf_none prior obj' ds f_b "Kind" Ib eq_refl Wb G A H) as [_ Rb].
    auto.
  Qed.

  (* it is the reset of the embedded pointer which removes the prior branch: the field loop alone
     (every branch attribute null or unknown: no branch writes) keeps it.  A generator which does not
     emit obj.Choice = nil for a message all of whose fields are oneof branches has this behaviour. *)
  Example prior_branch_survives_without_reset :
    from_field_list std_hook_from (m_fields has_choice) (tf_attrs tf_none) (prior_a, [])
    = Ok (hc "n" (Some (choice (Some ("A", GPrim (PInt 5))))), [])
    /\ no_branch_b (hc "n" (Some (choice (Some ("A", GPrim (PInt 5)))))) ["Choice"] "Kind" = false.
  Proof. split; vm_compute; reflexivity. Qed.

  (* exactly one branch known: the pointer is allocated and the holder is that branch, the prior
     branch A is replaced *)
  Example from_one_computed :
    copy_from std_hook_from has_choice tf_b prior_a = Ok (hc "n" (Some (choice (Some ("B", GPrim (PStr "x"))))), []).
  Proof. vm_compute. reflexivity. Qed.

  Example from_one_by_theorem hook prior obj' ds :
    copy_from hook has_choice tf_b prior = Ok (obj', ds) ->
    gget_via obj' ["Choice"] "Kind" = Ok (GOneof (Some ("B", GPrim (PStr "x"))))
    /\ chain_nil obj' ["Choice"] = Ok false.
  Proof.
    intros H. destruct has_choice_class as (_ & _ & _ & _ & G & _).
    destruct (C07_copy_from_one_promoted hook has_choice tf_b prior obj' ds
                [nth 0 (m_fields has_choice) f_a; f_a] (f_info f_b) None [] "Kind" eq_refl eq_refl G) as (p & Gp & C & BP); [|exact H|].
    { intros f [<-|[<-|[]]] _; vm_compute; reflexivity. }
    split; [|exact C]. unfold branch_payload in BP. cbn in BP. destruct BP as (c & Ec & ->).
    inversion Ec; subst c. exact Gp.
  Qed.

  (* CopyTo: the embedded pointer nil, a nil holder under a set pointer, an active branch *)
  Definition empty_tf := VObj (msg_ty has_choice) false false None.
  Example to_nil_parent_computed :
    copy_to std_hook_to has_choice (hc "n" None) empty_tf
    = Ok (VObj (msg_ty has_choice) false false (Some [("name", kS "n"); ("a", nI); ("b", nS)]), [])
    /\ copy_to std_hook_to has_choice (hc "n" (Some (choice None))) empty_tf
       = Ok (VObj (msg_ty has_choice) false false (Some [("name", kS "n"); ("a", nI); ("b", nS)]), [])
    /\ copy_to std_hook_to has_choice (hc "n" (Some (choice (Some ("B", GPrim (PStr "x")))))) empty_tf
       = Ok (VObj (msg_ty has_choice) false false (Some [("name", kS "n"); ("a", nI); ("b", kS "x")]), []).
  Proof. repeat split; vm_compute; reflexivity. Qed.

  Example to_nil_parent_by_theorem hook name a' n' u' attrs' ds :
    copy_to hook has_choice (hc name None) empty_tf = Ok (VObj a' n' u' (Some attrs'), ds) ->
    attr_null (lookup "a" attrs') = true /\ attr_null (lookup "b" attrs') = true.
  Proof.
    intros H. destruct has_choice_class as (Ia & Ib & _).
    assert (ND : NoDup (map (fun f => fi_snake (f_info f)) (m_fields has_choice))).
    { apply nodup_b_NoDup. vm_compute. reflexivity. }
    split.
    - apply (C07_to_promoted_nil_parent hook has_choice _ _ _ _ _ attrs' ds f_a "Kind" a' n' u' H ND Ia);
        try reflexivity.
      cbn. split; [reflexivity|]. split; [eauto|]. right. cbn. eauto 6.
    - apply (C07_to_promoted_nil_parent hook has_choice _ _ _ _ _ attrs' ds f_b "Kind" a' n' u' H ND Ib);
        try reflexivity.
      cbn. split; [reflexivity|]. split; [eauto|]. right. cbn. eauto 6.
  Qed.

  (* both directions by the theorem: any prior target, any hooks *)
  Example end_to_end hook_from hook_to prior obj' ds1 d0 attrs' ds2 :
    from_fields hook_from has_choice (tf_attrs tf_none) (prior, []) = Ok (obj', ds1) ->
    to_fields hook_to has_choice obj' (msg_ty has_choice) ([], d0) = Ok (attrs', ds2) ->
    attr_null (lookup "a" attrs') = true /\ attr_null (lookup "b" attrs') = true.
  Proof.
    intros H T. destruct has_choice_class as (Ia & Ib & Wa & Wb & G & _).
    assert (ND : NoDup (map (fun f => fi_snake (f_info f)) (m_fields has_choice))).
    { apply nodup_b_NoDup. vm_compute. reflexivity. }
    assert (A : forall f, In f (m_fields has_choice) -> member_b ["Choice"] "Kind" (f_info f) = true ->
                          sets_holder "Kind" (tf_attrs tf_none) f = false).
    { intros f [<-|[<-|[<-|[]]]] _; vm_compute; reflexivity. }
    split.
    - apply (C07_promoted_none_end_to_end hook_from hook_to has_choice _ prior [] obj' ds1 (msg_ty has_choice) d0 attrs' ds2 f_a "Kind"
               Ia eq_refl Wa G A H ND); [|exact T].
      cbn. split; [reflexivity|]. split; [eauto|]. right. cbn. eauto 6.
    - apply (C07_promoted_none_end_to_end hook_from hook_to has_choice _ prior [] obj' ds1 (msg_ty has_choice) d0 attrs' ds2 f_b "Kind"
               Ib eq_refl Wb G A H ND); [|exact T].
      cbn. split; [reflexivity|]. split; [eauto|]. right. cbn. eauto 6.
  Qed.

  (* ----------------------------------------------------------------------------------- *)
  (* the embedded message has a field which is not a branch, a message branch and a time branch:
     HasChoice2{name; *Choice2 embedded}, Choice2{tag; oneof kind {int64 a; Leaf l; Timestamp ts}} *)
  Definition d_choice2 : mdesc :=
    {| md_name := "Choice2"; md_comment := ""; md_oneofs := ["kind"];
       md_fields := [fd "tag" 1 (PScalar SString) false None false None;
                     fd "a" 2 (PScalar SInt64) false None false (Some 0%nat);
                     fd "l" 3 (PMsg "Leaf") false None false (Some 0%nat);
                     fd "ts" 4 PTimestamp false None false (Some 0%nat)] |}.
  Definition d_has2 : mdesc :=
    {| md_name := "HasChoice2"; md_comment := ""; md_oneofs := [];
       md_fields := [fd "name" 1 (PScalar SString) false None false None;
                     fd "choice2" 2 (PMsg "Choice2") false (Some true) true None] |}.
  Definition has_choice2 : message :=
    Eval vm_compute in
      match build_message (obs_of cfg) [d_leaf; d_choice2; d_has2] 5 d_has2 "HasChoice2" with BOk m => m | _ => dummy end.

  Definition z_choice2 : goval := GStruct [("Tag", GPrim (PStr "")); ("Kind", GOneof None)].
  Example has_choice2_shape :
    map (fun f => (fi_name (f_info f), fi_kind (f_info f), fi_nullable (f_info f), fi_zero (f_info f),
                   fi_oneof (f_info f), fi_via (f_info f), fi_parent (f_info f))) (m_fields has_choice2)
    = [("Name", PrimitiveKind, false, true, None, [], None);
       ("Tag", PrimitiveKind, false, true, None, ["Choice2"], Some ("Choice2", z_choice2));
       ("A", PrimitiveKind, false, true, Some "Kind", ["Choice2"], Some ("Choice2", z_choice2));
       ("L", ObjectKind, true, false, Some "Kind", ["Choice2"], Some ("Choice2", z_choice2));
       ("Ts", PrimitiveKind, true, false, Some "Kind", ["Choice2"], Some ("Choice2", z_choice2))]
    /\ group_sep ["Choice2"] "Kind" has_choice2 = true.
  Proof. split; vm_compute; reflexivity. Qed.

  Definition choice2 (tag : string) (k : option (string * goval)) : goval :=
    GStruct [("Tag", GPrim (PStr tag)); ("Kind", GOneof k)].
  Definition hc2 (name : string) (c : option goval) : goval :=
    GStruct [("Name", GPrim (PStr name)); ("Choice2", GPtr c)].
  Definition prior2 : goval := hc2 "old" (Some (choice2 "t0" (Some ("A", GPrim (PInt 5))))).
  Definition leaf_ty : list (string * tfty) := [("v", TyPrim KStr)].
  Definition nL := VObj leaf_ty true false None.
  Definition nT := VPrim KTime true false (PTime 0 0 0).
  Definition tf2 (name tag a l ts : tfval) : tfval :=
    VObj (msg_ty has_choice2) false false (Some [("name", name); ("tag", tag); ("a", a); ("l", l); ("ts", ts)]).

  (* NO condition on the other attributes promoted from the same embedded message: tag is known, the
     pointer is re-allocated from the zero struct, whose holder is nil; the prior branch is gone *)
  Example sibling_known_holder_nil :
    copy_from std_hook_from has_choice2 (tf2 (kS "n") (kS "t") nI nL nT) prior2
    = Ok (hc2 "n" (Some (choice2 "t" None)), []).
  Proof. vm_compute. reflexivity. Qed.

  Example sibling_known_by_theorem hook prior obj' ds :
    copy_from hook has_choice2 (tf2 (kS "n") (kS "t") nI nL nT) prior = Ok (obj', ds) ->
    no_branch obj' ["Choice2"] "Kind".
  Proof.
    intros H. destruct has_choice2_shape as [_ G].
    apply (C07_copy_from_none_promoted hook has_choice2 (tf2 (kS "n") (kS "t") nI nL nT) prior obj' ds
             (nth 2 (m_fields has_choice2) f_a) "Kind"); try reflexivity; try exact H; try exact G.
    - cbn. tauto.
    - intros f [<-|[<-|[<-|[<-|[<-|[]]]]]] _; vm_compute; reflexivity.
  Qed.

  (* a message branch known: a pointer to the decoded message *)
  Example from_msg_branch_computed :
    copy_from std_hook_from has_choice2
              (tf2 (kS "n") nS nI (VObj leaf_ty false false (Some [("v", kS "q")])) nT) prior2
    = Ok (hc2 "n" (Some (choice2 "" (Some ("L", GPtr (Some (GStruct [("V", GPrim (PStr "q"))])))))), []).
  Proof. vm_compute. reflexivity. Qed.

  Example from_msg_branch_by_theorem hook prior obj' ds :
    copy_from hook has_choice2 (tf2 (kS "n") nS nI (VObj leaf_ty false false (Some [("v", kS "q")])) nT) prior
    = Ok (obj', ds) ->
    exists v, gget_via obj' ["Choice2"] "Kind" = Ok (GOneof (Some ("L", GPtr (Some v)))).
  Proof.
    intros H. destruct has_choice2_shape as [_ G].
    destruct (C07_copy_from_one_promoted hook has_choice2
                (tf2 (kS "n") nS nI (VObj leaf_ty false false (Some [("v", kS "q")])) nT) prior obj' ds
                (firstn 3 (m_fields has_choice2)) (f_info (nth 3 (m_fields has_choice2) f_a))
                (f_msg (nth 3 (m_fields has_choice2) f_a)) (skipn 4 (m_fields has_choice2)) "Kind"
                eq_refl eq_refl G) as (p & Gp & _ & BP); [|exact H|].
    { intros f [<-|[<-|[<-|[<-|[]]]]] _; vm_compute; reflexivity. }
    unfold branch_payload in BP. cbn in BP. destruct BP as (v & _ & _ & _ & ->). eauto.
  Qed.

  (* CopyTo with the pointer nil: the scalar, the message and the (pointer) time branch are null *)
  Example to_nil_parent2_computed :
    copy_to std_hook_to has_choice2 (hc2 "n" None) (VObj (msg_ty has_choice2) false false None)
    = Ok (VObj (msg_ty has_choice2) false false
               (Some [("name", kS "n"); ("tag", nS); ("a", nI); ("l", VObj leaf_ty true false (Some []));
                      ("ts", VPrim KTime true false (PTime (-62135596800) 0 0))]), []).
  Proof. vm_compute. reflexivity. Qed.

  (* ----------------------------------------------------------------------------------- *)
  (* a chain of two embedded pointers: Root{own; *Mid embedded}, Mid{x; *Choice embedded}: the holder
     is obj.Mid.Choice.Kind; only obj.Mid is reset *)
  Definition d_mid : mdesc :=
    {| md_name := "Mid"; md_comment := ""; md_oneofs := [];
       md_fields := [fd "x" 1 (PScalar SInt64) false None false None;
                     fd "choice" 2 (PMsg "Choice") false (Some true) true None] |}.
  Definition d_root : mdesc :=
    {| md_name := "Root"; md_comment := ""; md_oneofs := [];
       md_fields := [fd "own" 1 (PScalar SString) false None false None;
                     fd "mid" 2 (PMsg "Mid") false (Some true) true None] |}.
  Definition deep : message :=
    Eval vm_compute in
      match build_message (obs_of cfg) [d_choice; d_mid; d_root] 5 d_root "Root" with BOk m => m | _ => dummy end.
  Definition z_mid : goval := GStruct [("X", GPrim (PInt 0)); ("Choice", GPtr None)].
  Example deep_shape :
    map (fun f => (fi_name (f_info f), fi_oneof (f_info f), fi_via (f_info f), fi_parent (f_info f), fi_inner (f_info f)))
        (m_fields deep)
    = [("Own", None, [], None, []);
       ("X", None, ["Mid"], Some ("Mid", z_mid), []);
       ("A", Some "Kind", ["Mid"; "Choice"], Some ("Mid", z_mid), [("Choice", z_choice)]);
       ("B", Some "Kind", ["Mid"; "Choice"], Some ("Mid", z_mid), [("Choice", z_choice)])]
    /\ group_sep ["Mid"; "Choice"] "Kind" deep = true.
  Proof. split; vm_compute; reflexivity. Qed.

  Definition mid (x : Z) (c : option goval) : goval := GStruct [("X", GPrim (PInt x)); ("Choice", GPtr c)].
  Definition root (own : string) (m : option goval) : goval := GStruct [("Own", GPrim (PStr own)); ("Mid", GPtr m)].
  Definition prior_deep : goval := root "old" (Some (mid 1 (Some (choice (Some ("A", GPrim (PInt 5))))))).
  Definition tf3 (own x a b : tfval) : tfval :=
    VObj (msg_ty deep) false false (Some [("own", own); ("x", x); ("a", a); ("b", b)]).

  (* x known, the branch attributes null: Mid is re-allocated from its zero struct, whose Choice is nil *)
  Example deep_from_none_computed :
    copy_from std_hook_from deep (tf3 (kS "o") (kI 3) nI nS) prior_deep = Ok (root "o" (Some (mid 3 None)), [])
    /\ copy_from std_hook_from deep (tf3 (kS "o") nI nI nS) prior_deep = Ok (root "o" None, []).
  Proof. split; vm_compute; reflexivity. Qed.

  Example deep_from_none_by_theorem hook prior obj' ds x :
    copy_from hook deep (tf3 (kS "o") x nI nS) prior = Ok (obj', ds) ->
    no_branch obj' ["Mid"; "Choice"] "Kind".
  Proof.
    intros H. destruct deep_shape as [_ G].
    apply (C07_copy_from_none_promoted hook deep (tf3 (kS "o") x nI nS) prior obj' ds
             (nth 2 (m_fields deep) f_a) "Kind"); try reflexivity; try exact H; try exact G.
    - cbn. tauto.
    - intros f [<-|[<-|[<-|[<-|[]]]]] M; try discriminate M; vm_compute; reflexivity.
  Qed.

  (* b known: both pointers are allocated *)
  Example deep_from_one_computed :
    copy_from std_hook_from deep (tf3 (kS "o") nI nI (kS "y")) prior_deep
    = Ok (root "o" (Some (mid 0 (Some (choice (Some ("B", GPrim (PStr "y"))))))), []).
  Proof. vm_compute. reflexivity. Qed.

  Example deep_from_one_by_theorem hook prior obj' ds x :
    copy_from hook deep (tf3 (kS "o") x nI (kS "y")) prior = Ok (obj', ds) ->
    gget_via obj' ["Mid"; "Choice"] "Kind" = Ok (GOneof (Some ("B", GPrim (PStr "y"))))
    /\ chain_nil obj' ["Mid"; "Choice"] = Ok false.
  Proof.
    intros H. destruct deep_shape as [_ G].
    destruct (C07_copy_from_one_promoted hook deep (tf3 (kS "o") x nI (kS "y")) prior obj' ds
                (firstn 3 (m_fields deep)) (f_info (nth 3 (m_fields deep) f_a)) None [] "Kind"
                eq_refl eq_refl G) as (p & Gp & C & BP); [|exact H|].
    { intros f [<-|[<-|[<-|[]]]] M; try discriminate M; vm_compute; reflexivity. }
    split; [|exact C]. unfold branch_payload in BP. cbn in BP. destruct BP as (c & Ec & ->).
    inversion Ec; subst c. exact Gp.
  Qed.

  (* ----------------------------------------------------------------------------------- *)
  (* the hypotheses are needed *)

  Definition with_parent (i : finfo) (name : string) (k : kind) (o : option string) (pz : option (string * goval))
    : finfo :=
    {| fi_name := name; fi_snake := fi_snake i; fi_path := fi_path i; fi_kind := k; fi_tk := fi_tk i;
       fi_cast := fi_cast i; fi_nullable := fi_nullable i; fi_zero := fi_zero i;
       fi_placeholder := fi_placeholder i; fi_oneof := o; fi_via := fi_via i; fi_parent := pz;
       fi_inner := fi_inner i; fi_required := fi_required i; fi_computed := fi_computed i;
       fi_sensitive := fi_sensitive i; fi_validators := fi_validators i; fi_planmods := fi_planmods i;
       fi_comment := fi_comment i; fi_suffix := fi_suffix i |}.

  (* zeros_clean: the zero struct recorded for Choice2 holds a branch (an IR the front end does not
     produce); tag known, every branch attribute null: the holder holds the branch of the zero struct *)
  Definition dirty_zero : goval := GStruct [("Tag", GPrim (PStr "")); ("Kind", GOneof (Some ("A", GPrim (PInt 9))))].
  Definition dirty : message :=
    match has_choice2 with
    | Msg n fs os inj e z =>
        Msg n (map (fun f => match fi_parent (f_info f) with
                             | Some (p, _) => Field (with_parent (f_info f) (fi_name (f_info f)) (fi_kind (f_info f))
                                                                 (fi_oneof (f_info f)) (Some (p, dirty_zero))) (f_msg f)
                             | None => f
                             end) fs) os inj e z
    end.

  Lemma from_none_dirty_zero_refuted :
    ~ (forall hook m attrs prior ds obj' ds' b h,
          In b (m_fields m) -> fi_oneof (f_info b) = Some h -> chain_wf (f_info b) = true ->
          forallb (fun f => fi_placeholder (f_info f) || member_b (fi_via (f_info b)) h (f_info f)
                            || apart_b (fi_via (f_info b)) h (f_info f)) (m_fields m) = true ->
          (forall f, In f (m_fields m) -> member_b (fi_via (f_info b)) h (f_info f) = true ->
                     sets_holder h attrs f = false) ->
          from_fields hook m attrs (prior, ds) = Ok (obj', ds') ->
          no_branch obj' (fi_via (f_info b)) h).
  Proof.
    intros C.
    specialize (C std_hook_from dirty (tf_attrs (tf2 (kS "n") (kS "t") nI nL nT)) prior2 []
                  (hc2 "n" (Some (GStruct [("Tag", GPrim (PStr "t")); ("Kind", GOneof (Some ("A", GPrim (PInt 9))))]))) []
                  (nth 2 (m_fields dirty) f_a) "Kind").
    apply no_branch_b_spec in C; [vm_compute in C; discriminate C| | | | | |]; try (vm_compute; reflexivity).
    - cbn. tauto.
    - intros f [<-|[<-|[<-|[<-|[<-|[]]]]]] _; vm_compute; reflexivity.
  Qed.

  Example dirty_not_clean : group_sep ["Choice2"] "Kind" dirty = false.
  Proof. vm_compute. reflexivity. Qed.

  (* apart_b: a custom-typed field stored under the Go name of the holder (an IR the front end does
     not produce: a Go struct has no two fields of one name); its hook writes the holder *)
  Definition clash : message :=
    match has_choice2 with
    | Msg n fs os inj e z =>
        Msg n (map (fun f => if String.eqb (fi_name (f_info f)) "Tag"
                             then Field (with_parent (f_info f) "Kind" CustomKind None (fi_parent (f_info f))) None
                             else f) fs) os inj e z
    end.
  Definition hook_attr : tfval :=
    VHook "" true false false (Some (GOneof (Some ("A", GPrim (PInt 9))))) None None.

  Lemma from_none_not_apart_refuted :
    ~ (forall hook m attrs prior ds obj' ds' b h,
          In b (m_fields m) -> fi_oneof (f_info b) = Some h -> chain_wf (f_info b) = true ->
          forallb (fun f => fi_placeholder (f_info f) || member_b (fi_via (f_info b)) h (f_info f)
                            || zeros_clean (chain_of (f_info f)) (fi_via (f_info b)) h) (m_fields m) = true ->
          (forall f, In f (m_fields m) -> member_b (fi_via (f_info b)) h (f_info f) = true ->
                     sets_holder h attrs f = false) ->
          from_fields hook m attrs (prior, ds) = Ok (obj', ds') ->
          no_branch obj' (fi_via (f_info b)) h).
  Proof.
    intros C.
    specialize (C std_hook_from clash (tf_attrs (tf2 (kS "n") hook_attr nI nL nT)) prior2 []
                  (hc2 "n" (Some (choice2 "" (Some ("A", GPrim (PInt 9)))))) []
                  (nth 2 (m_fields clash) f_a) "Kind").
    apply no_branch_b_spec in C; [vm_compute in C; discriminate C| | | | | |]; try (vm_compute; reflexivity).
    - cbn. tauto.
    - intros f [<-|[<-|[<-|[<-|[<-|[]]]]]] _; vm_compute; reflexivity.
  Qed.

  (* zero_renders_null: a BY-VALUE time branch (fi_nullable = false, no zero literal; the front end
     gives it for a oneof field with nullable = false only) is rendered NON-null although the embedded
     pointer is nil and the target is empty: the zero time *)
  Definition ts_value : finfo :=
    {| fi_name := "Ts"; fi_snake := "ts"; fi_path := "HasChoice2.ts"; fi_kind := PrimitiveKind; fi_tk := KTime;
       fi_cast := GsTime; fi_nullable := false; fi_zero := false; fi_placeholder := false;
       fi_oneof := Some "Kind"; fi_via := ["Choice2"]; fi_parent := Some ("Choice2", z_choice2); fi_inner := [];
       fi_required := false; fi_computed := false; fi_sensitive := false; fi_validators := [];
       fi_planmods := []; fi_comment := ""; fi_suffix := "" |}.

  Lemma to_nil_parent_nozero_refuted :
    ~ (forall hook i om obj atys attrs ds h t attrs' ds',
          fi_kind i = PrimitiveKind -> fi_oneof i = Some h -> fi_placeholder i = false ->
          parent_is_nil i obj = Ok (Some true) ->
          lookup (fi_snake i) atys = Some t -> lookup (fi_snake i) attrs = None ->
          to_field hook (Field i om) obj atys (attrs, ds) = Ok (attrs', ds') ->
          attr_null (lookup (fi_snake i) attrs') = true).
  Proof.
    intros C.
    specialize (C std_hook_to ts_value None (hc2 "n" None) [("ts", TyPrim KTime)] [] [] "Kind" (TyPrim KTime)
                  [("ts", VPrim KTime false false (PTime (-62135596800) 0 0))] []
                  eq_refl eq_refl eq_refl eq_refl eq_refl eq_refl eq_refl).
    vm_compute in C. discriminate C.
  Qed.
End HasChoiceExample.

Print Assumptions C07_from_none_promoted.
Print Assumptions C07_from_none_promoted_null.
Print Assumptions C07_copy_from_none_promoted.
Print Assumptions C07_from_last_promoted.
Print Assumptions C07_from_one_promoted.
Print Assumptions C07_copy_from_one_promoted.
Print Assumptions C07_to_promoted_nil_parent_prim.
Print Assumptions C07_to_promoted_nil_parent_msg.
Print Assumptions C07_to_promoted_nil_parent.
Print Assumptions C07_promoted_none_end_to_end.
Print Assumptions HasChoiceExample.from_none_by_theorem.
Print Assumptions HasChoiceExample.from_one_by_theorem.
Print Assumptions HasChoiceExample.to_nil_parent_by_theorem.
Print Assumptions HasChoiceExample.end_to_end.
Print Assumptions HasChoiceExample.prior_branch_survives_without_reset.
Print Assumptions HasChoiceExample.sibling_known_by_theorem.
Print Assumptions HasChoiceExample.from_msg_branch_by_theorem.
Print Assumptions HasChoiceExample.deep_from_none_by_theorem.
Print Assumptions HasChoiceExample.deep_from_one_by_theorem.
Print Assumptions HasChoiceExample.from_none_dirty_zero_refuted.
Print Assumptions HasChoiceExample.from_none_not_apart_refuted.
Print Assumptions HasChoiceExample.to_nil_parent_nozero_refuted.
