(* Fields promoted from a nullable (pointer) embedded message: the repaired behaviour of the
   generated converters, pinned down on the model (Model/CopyTo.v, Model/CopyFrom.v).

   The existing classes (tf_ok, flat_ok, rt_ok) exclude every field with fi_via <> [] or
   fi_parent <> None.  Here a message may hold, at its top level, next to ordinary fields, fields
   promoted from pointer-embedded messages through exactly one pointer (fi_via = [p],
   fi_parent = Some (p, z)); several embedded pointers are allowed.  Class [emb_ok]:
   - ordinary fields as in tf_ok / flat_ok; they do not write the key of an embedded pointer;
   - promoted fields: all six non-custom kinds, pointer or value; no oneof branch, no placeholder,
     no custom type; the messages nested below are of the classes tf_ok / flat_ok (no embedded
     pointer below the top level);
   - distinct attribute names.
   A. copy_to_total_embedded_partial, copy_to_conforms_embedded_partial (C03),
      copy_to_nil_parent_renders_null (C20), copy_to_promoted_scalar (C20, pointer set).
   B. copy_from_total_embedded_partial (C06), copy_from_parent_state, copy_from_allocates_parent
      (C04), copy_from_resets_parent (C05).
   C. promoted_scalar_round_trip_partial.
   The class keeps to one embedded pointer per promoted field (fi_inner = []).  Outside the class,
   without panic since the repair (module EmbExample): a custom type under an embedded pointer; two
   levels of pointer embedding (lemmas chain_nil_two, alloc_chain_two_outer_nil etc.); a oneof in the embedded message. *)
From Coq Require Import List String Bool ZArith Lia.
From PGT Require Import Base.Strs Base.AList Model.Vals Model.IR Model.CopyTo Model.CopyFrom.
From PGT Require Import Proofs.CopyToProofs Proofs.CopyFromProofs Proofs.CopyToTotal.
From PGT Require Model.Desc Model.Build.
Import ListNotations.

(* ------------------------------------------------------------------------------------- *)
(* A. CopyTo *)

(* a promoted field the class admits: one pointer-embedded parent, no oneof branch, no placeholder,
   no custom type; nested messages of the class tf_ok *)
Definition pinfo_to_ok (i : finfo) (om : option message) : bool :=
  match fi_via i, fi_parent i with
  | [p], Some (p', _) => String.eqb p p'
  | _, _ => false
  end
  && match fi_inner i with [] => true | _ => false end
  && match fi_oneof i with None => true | Some _ => false end
  && negb (fi_placeholder i)
  && match fi_kind i with
     | PrimitiveKind | PrimitiveListKind | PrimitiveMapKind => negb (fi_zero i) || negb (fi_nullable i)
     | ObjectKind | ObjectListKind | ObjectMapKind => match om with Some m' => tf_ok m' | None => false end
     | CustomKind => false
     end.

Definition efield_to_ok (f : field) : bool :=
  ftf_ok f || pinfo_to_ok (f_info f) (f_msg f).

Definition emb_to_ok (m : message) : bool :=
  nodup_b (snakes (m_fields m)) && forallb efield_to_ok (m_fields m).

(* the zero value a promoted non-pointer message field is read as when the parent is nil *)
Definition zero_typed (i : finfo) (om : option message) : Prop :=
  match fi_kind i, om with
  | ObjectKind, Some m' => fi_nullable i = false -> typed m' (m_zero m')
  | _, _ => True
  end.

(* the struct holds the field: directly, or in the struct the embedded pointer points to; the
   embedded pointer may be nil *)
Definition eftyped (f : field) (gs : list (string * goval)) : Prop :=
  match fi_via (f_info f) with
  | [] => ftyped f gs
  | p :: _ => (lookup p gs = Some (GPtr None) /\ zero_typed (f_info f) (f_msg f))
              \/ exists ps, lookup p gs = Some (GPtr (Some (GStruct ps))) /\ ftyped f ps
  end.

Definition emb_typed (m : message) (obj : goval) : Prop :=
  exists gs, obj = GStruct gs /\ Forall (fun f => eftyped f gs) (m_fields m).

(* what CopyTo writes for a promoted field when the embedded pointer is nil *)
Definition nil_render (t : tfty) : tfval :=
  match t with
  | TyPrim k => VPrim k true false (zero_prim_of_kind k)
  | TyList e => VList e true false (Some [])
  | TyMap e => VMap e true false (Some [])
  | TyObj ats => VObj ats true false (Some [])
  | TyHook s => VNil
  end.

Definition tf_is_null (v : tfval) : bool :=
  match v with
  | VPrim _ n _ _ | VList _ n _ _ | VMap _ n _ _ | VObj _ n _ _ => n
  | _ => false
  end.

Lemma nil_render_null t : (forall s, t <> TyHook s) -> tf_is_null (nil_render t) = true.
Proof. destruct t; intros H; try reflexivity. now contradiction (H suffix). Qed.

Definition nil_parent (f : field) (gs : list (string * goval)) : Prop :=
  match fi_via (f_info f) with
  | p :: _ => lookup p gs = Some (GPtr None)
  | [] => False
  end.

(* every kind but the message by value, which is rendered as the object of its zero value *)
Definition null_when_nil (f : field) : Prop :=
  fi_kind (f_info f) = ObjectKind -> fi_nullable (f_info f) = true.

Lemma pinfo_to_ok_inv i om : pinfo_to_ok i om = true ->
  exists p z, fi_via i = [p] /\ fi_parent i = Some (p, z) /\ fi_inner i = [] /\ fi_oneof i = None /\ fi_placeholder i = false /\
    fi_kind i <> CustomKind /\
    (is_prim_kind (fi_kind i) = true -> fi_zero i = true -> fi_nullable i = false) /\
    (is_prim_kind (fi_kind i) = false -> exists m', om = Some m' /\ tf_ok m' = true).
Proof.
  unfold pinfo_to_ok. intros H.
  apply andb_prop in H. destruct H as [H H4]. apply andb_prop in H. destruct H as [H H3].
  apply andb_prop in H. destruct H as [H H2]. apply andb_prop in H. destruct H as [H1 H5].
  destruct (fi_via i) as [|p [|q r]]; try discriminate H1.
  destruct (fi_parent i) as [[p' z]|]; try discriminate H1. apply String.eqb_eq in H1. subst p'.
  exists p, z. split; [reflexivity|]. split; [reflexivity|].
  split; [destruct (fi_inner i); [reflexivity|discriminate]|].
  split; [destruct (fi_oneof i); [discriminate|reflexivity]|].
  split; [destruct (fi_placeholder i); [discriminate|reflexivity]|].
  split; [intros K; rewrite K in H4; discriminate|].
  split.
  - intros P Z. rewrite Z in H4. destruct (fi_kind i); try discriminate P; now destruct (fi_nullable i).
  - intros P. destruct (fi_kind i); try discriminate P; destruct om as [m'|]; try discriminate H4; eauto.
Qed.

(* with a single embedded pointer, obj.<Parent> == nil is the whole test *)
Lemma parent_is_nil_single i p z obj :
  fi_parent i = Some (p, z) -> fi_inner i = [] ->
  parent_is_nil i obj
  = (do pv <- gfield obj p;
     match pv with
     | GPtr None => Ok (Some true)
     | GPtr (Some _) => Ok (Some false)
     | _ => Panic
     end).
Proof.
  intros P IN. unfold parent_is_nil. rewrite P, IN. cbn [map chain_nil].
  destruct (gfield obj p) as [pv|]; cbn [bind]; [|reflexivity].
  destruct pv as [| |[x|]| | | |]; reflexivity.
Qed.

(* two embedded pointers on the way: nil when the outer is nil, or the outer is set and the inner is nil *)
Lemma chain_nil_two obj p q :
  chain_nil obj [p; q]
  = (do pv <- gfield obj p;
     match pv with
     | GPtr None => Ok true
     | GPtr (Some inner) =>
         do qv <- gfield inner q;
         match qv with
         | GPtr None => Ok true
         | GPtr (Some _) => Ok false
         | _ => Panic
         end
     | _ => Panic
     end).
Proof.
  cbn [chain_nil]. destruct (gfield obj p) as [pv|]; cbn [bind]; [|reflexivity].
  destruct pv as [| |[inner|]| | | |]; reflexivity.
Qed.

Lemma pin_nil i p z gs :
  fi_parent i = Some (p, z) -> fi_inner i = [] -> lookup p gs = Some (GPtr None) ->
  parent_is_nil i (GStruct gs) = Ok (Some true).
Proof. intros P IN L. rewrite (parent_is_nil_single i p z _ P IN). cbn [gfield bind]. now rewrite L. Qed.

Lemma pin_set i p z gs x :
  fi_parent i = Some (p, z) -> fi_inner i = [] -> lookup p gs = Some (GPtr (Some x)) ->
  parent_is_nil i (GStruct gs) = Ok (Some false).
Proof. intros P IN L. rewrite (parent_is_nil_single i p z _ P IN). cbn [gfield bind]. now rewrite L. Qed.

Lemma gget_via_set p gs x n :
  lookup p gs = Some (GPtr (Some x)) -> gget_via (GStruct gs) [p] n = gfield x n.
Proof. intros L. cbn [gget_via gfield bind]. now rewrite L. Qed.

Lemma to_prim_value_p_nil i rd obj ds :
  fi_oneof i = None -> fi_placeholder i = false -> parent_is_nil i obj = Ok (Some true) ->
  to_prim_value i rd obj (TyPrim (fi_tk i)) None ds
  = Ok (VPrim (fi_tk i) true false (zero_prim_of_kind (fi_tk i)), ds).
Proof.
  intros O PH PN. unfold to_prim_value. rewrite O, PH, PN. cbn [null_value]. rewrite tfkind_eqb_refl.
  destruct (fi_zero i); reflexivity.
Qed.

Lemma to_prim_value_p_set i g obj ds :
  fi_oneof i = None -> fi_placeholder i = false -> parent_is_nil i obj = Ok (Some false) ->
  (fi_zero i = true -> fi_nullable i = false) -> sc_shape i g ->
  exists n p, to_prim_value i (Ok g) obj (TyPrim (fi_tk i)) None ds = Ok (VPrim (fi_tk i) n false p, ds)
              /\ prim_has_kind (fi_tk i) p = true.
Proof.
  intros O PH PN Z S. unfold to_prim_value. rewrite O, PH, PN. cbn [null_value]. rewrite tfkind_eqb_refl.
  unfold sc_shape, elem_shape in S. destruct (fi_nullable i) eqn:N.
  - destruct (fi_zero i); [specialize (Z eq_refl); discriminate|].
    destruct S as [->|(x & -> & Sx)].
    + cbn [bind]. do 2 eexists. split; [reflexivity|apply zero_prim_kind].
    + destruct (cast_ok _ _ Sx) as (p & E & K). cbn [bind]. rewrite E. cbn [bind]. eauto.
  - destruct (cast_ok _ _ S) as (p & E & K).
    destruct (fi_zero i); cbn [bind]; rewrite E; cbn [bind]; eauto.
Qed.

Section ToEmb.
  Variable hook : hook_to_t.

  (* the field, run on the struct gs over an attribute list which does not hold its attribute yet *)
  Definition runs (gs : list (string * goval)) (f : field) : Prop :=
    forall atys attrs ds t, field_ty f = Some t ->
      lookup (snake f) atys = Some t -> lookup (snake f) attrs = None ->
      exists v, to_field hook f (GStruct gs) atys (attrs, ds) = Ok (update (snake f) v attrs, ds)
                /\ conforms t v = true
                /\ (nil_parent f gs -> null_when_nil f -> v = nil_render t).

  Lemma ordinary_runs gs f : ftf_ok f = true -> eftyped f gs -> runs gs f.
  Proof.
    destruct f as [i om]. intros F T atys attrs ds t FT La Lc. cbn [ftf_ok] in F.
    apply andb_prop in F. destruct F as [F1 F2].
    destruct (finfo_ok_inv _ _ F1) as (V & _).
    unfold eftyped in T. cbn [f_info] in T. rewrite V in T.
    assert (G : field_good hook (Field i om)).
    { apply field_step; [exact F1|]. intros m' ->. split; [exact F2|]. now apply total_mutual. }
    destruct (G gs atys attrs ds t T FT La Lc) as (v & E & C). exists v. split; [exact E|]. split; [exact C|].
    unfold nil_parent. cbn [f_info]. rewrite V. intros [].
  Qed.

  Lemma promoted_runs gs i om : pinfo_to_ok i om = true -> eftyped (Field i om) gs -> runs gs (Field i om).
  Proof.
    intros F T atys attrs ds t FT La Lc.
    destruct (pinfo_to_ok_inv _ _ F) as (p & z & V & P & IN & O & PH & NC & Z & OM).
    unfold eftyped in T. cbn [f_info f_msg] in T. rewrite V in T.
    unfold nil_parent, null_when_nil. cbn [f_info]. rewrite V.
    rewrite to_field_eq. cbv zeta. unfold snake in *. cbn [f_info] in *. rewrite La, Lc.
    cbn [field_ty] in FT. cbn [ftyped] in T. rewrite PH in T. unfold reads in T. rewrite O in T.
    unfold zero_typed, val_shape in T.
    destruct T as [[Lp ZT]|(ps & Lp & g & Lg & Sg)].
    - (* the embedded pointer is nil *)
      pose proof (pin_nil i p z gs P IN Lp) as PN.
      assert (RS : forall z0, read_source i z0 (GStruct gs) = Ok z0).
      { intros z0. unfold read_source. rewrite O, PN. reflexivity. }
      revert ZT Z OM FT NC. destruct (fi_kind i) eqn:K; intros ZT Z OM FT NC.
      + inversion FT; subst t; clear FT. rewrite O. cbn [bind].
        rewrite (to_prim_value_p_nil i _ _ ds O PH PN). cbn [bind]. eexists. split; [reflexivity|].
        split; [apply conforms_prim, zero_prim_kind|]. reflexivity.
      + inversion FT; subst t; clear FT. rewrite RS. cbn [bind]. eexists. split; [reflexivity|].
        split; [apply conforms_list; now left|]. reflexivity.
      + destruct (OM eq_refl) as (m' & -> & T'). inversion FT; subst t; clear FT.
        rewrite RS. cbn [bind]. destruct (fi_nullable i) eqn:N.
        * unfold obj_value. rewrite N. cbn [bind]. eexists. split; [reflexivity|].
          split; [|reflexivity]. rewrite conforms_obj, tfty_eqb_refl. reflexivity.
        * destruct (obj_value_total hook i gs m' (m_zero m') ds T' (total_mutual hook m' T')) as (v & Ev & Cv).
          { unfold elem_shape. rewrite N. exact (ZT eq_refl). }
          rewrite Ev. cbn [bind]. eexists. split; [reflexivity|]. split; [exact Cv|].
          intros _ H. specialize (H eq_refl). discriminate H.
      + destruct (OM eq_refl) as (m' & -> & T'). inversion FT; subst t; clear FT. rewrite RS. cbn [bind].
        eexists. split; [reflexivity|]. split; [apply conforms_list; now left|]. reflexivity.
      + inversion FT; subst t; clear FT. rewrite RS. cbn [bind]. eexists. split; [reflexivity|].
        split; [apply conforms_map; now left|]. reflexivity.
      + destruct (OM eq_refl) as (m' & -> & T'). inversion FT; subst t; clear FT. rewrite RS. cbn [bind].
        eexists. split; [reflexivity|]. split; [apply conforms_map; now left|]. reflexivity.
      + now contradiction NC.
    - (* the embedded pointer is set *)
      pose proof (pin_set i p z gs _ P IN Lp) as PN.
      assert (NN : forall v t', lookup p gs = Some (GPtr None) -> (fi_kind i = ObjectKind -> fi_nullable i = true) -> v = nil_render t')
        by (intros v t' C; rewrite Lp in C; discriminate C).
      assert (RS : forall z0, read_source i z0 (GStruct gs) = Ok g).
      { intros z0. unfold read_source. rewrite O, PN, V. cbn [bind].
        rewrite (gget_via_set _ _ _ _ Lp). cbn [gfield]. now rewrite Lg. }
      assert (RF : forall bz, read_field i bz (GStruct gs) = Ok g).
      { intros bz. unfold read_field. rewrite O, V. rewrite (gget_via_set _ _ _ _ Lp). cbn [gfield]. now rewrite Lg. }
      revert Sg Z OM FT NC. destruct (fi_kind i) eqn:K; intros Sg Z OM FT NC.
      + (* PrimitiveKind *)
        inversion FT; subst t; clear FT. specialize (Z eq_refl). rewrite O. cbn [bind]. rewrite RF.
        destruct (to_prim_value_p_set i g (GStruct gs) ds O PH PN Z Sg) as (n & q & Ev & Kq).
        rewrite Ev. cbn [bind]. eexists. split; [reflexivity|]. split; [now apply conforms_prim|apply NN].
      + (* PrimitiveListKind *)
        inversion FT; subst t; clear FT. specialize (Z eq_refl). rewrite RS. cbn [bind].
        destruct Sg as (o & -> & Hl). destruct o as [l|]; cbv beta iota zeta.
        * assert (HF : Forall (fun a => forall ds, exists v,
                                   (fun a d => to_prim_value i (Ok a) (GStruct gs) (TyPrim (fi_tk i)) None d) a ds
                                   = Ok (v, ds) /\ conforms (TyPrim (fi_tk i)) v = true) l).
          { eapply Forall_impl; [|exact (Hl l eq_refl)]. intros a Sa d.
            destruct (to_prim_value_p_set i a (GStruct gs) d O PH PN Z Sa) as (n & q & Ev & Kq).
            eexists. split; [exact Ev|now apply conforms_prim]. }
          destruct (fold_list_total _ _ l HF [] ds) as (vs & Ef & Cvs). cbv beta in Ef. rewrite Ef.
          cbn [bind app]. eexists. split; [reflexivity|]. split; [apply conforms_list; now right|apply NN].
        * eexists. split; [reflexivity|]. split; [apply conforms_list; now left|apply NN].
      + (* ObjectKind *)
        destruct (OM eq_refl) as (m' & -> & T'). inversion FT; subst t; clear FT.
        rewrite RS. cbn [bind].
        destruct (obj_value_total hook i gs m' g ds T' (total_mutual hook m' T') Sg) as (v & Ev & Cv).
        rewrite Ev. cbn [bind]. eexists. split; [reflexivity|]. split; [exact Cv|apply NN].
      + (* ObjectListKind *)
        destruct (OM eq_refl) as (m' & -> & T'). inversion FT; subst t; clear FT. rewrite RS. cbn [bind].
        destruct Sg as (o & -> & Hl). destruct o as [l|]; cbv beta iota zeta.
        * assert (HF : Forall (fun a => forall ds, exists v,
                                   (fun a d => obj_value hook i (GStruct gs) None m' (Ok a) (msg_ty m') d) a ds
                                   = Ok (v, ds) /\ conforms (TyObj (msg_ty m')) v = true) l).
          { eapply Forall_impl; [|exact (Hl l eq_refl)]. intros a Sa d.
            apply obj_value_total; [exact T'|now apply total_mutual|exact Sa]. }
          destruct (fold_list_total _ _ l HF [] ds) as (vs & Ef & Cvs). cbv beta in Ef. rewrite Ef.
          cbn [bind app]. eexists. split; [reflexivity|]. split; [apply conforms_list; now right|apply NN].
        * eexists. split; [reflexivity|]. split; [apply conforms_list; now left|apply NN].
      + (* PrimitiveMapKind *)
        inversion FT; subst t; clear FT. specialize (Z eq_refl). rewrite RS. cbn [bind].
        destruct Sg as (o & -> & Hl). destruct o as [l|]; cbv beta iota zeta.
        * assert (HF : Forall (fun ka : string * goval => forall ds, exists v,
                                   (fun a d => to_prim_value i (Ok a) (GStruct gs) (TyPrim (fi_tk i)) None d) (snd ka) ds
                                   = Ok (v, ds) /\ conforms (TyPrim (fi_tk i)) v = true) l).
          { eapply Forall_impl; [|exact (Hl l eq_refl)]. intros a Sa d.
            destruct (to_prim_value_p_set i (snd a) (GStruct gs) d O PH PN Z Sa) as (n & q & Ev & Kq).
            eexists. split; [exact Ev|now apply conforms_prim]. }
          destruct (fold_map_total _ _ l HF [] ds eq_refl) as (es & Ef & Ces). cbv beta in Ef. rewrite Ef.
          cbn [bind]. eexists. split; [reflexivity|]. split; [apply conforms_map; now right|apply NN].
        * eexists. split; [reflexivity|]. split; [apply conforms_map; now left|apply NN].
      + (* ObjectMapKind *)
        destruct (OM eq_refl) as (m' & -> & T'). inversion FT; subst t; clear FT. rewrite RS. cbn [bind].
        destruct Sg as (o & -> & Hl). destruct o as [l|]; cbv beta iota zeta.
        * assert (HF : Forall (fun ka : string * goval => forall ds, exists v,
                                   (fun a d => obj_value hook i (GStruct gs) None m' (Ok a) (msg_ty m') d) (snd ka) ds
                                   = Ok (v, ds) /\ conforms (TyObj (msg_ty m')) v = true) l).
          { eapply Forall_impl; [|exact (Hl l eq_refl)]. intros a Sa d.
            apply obj_value_total; [exact T'|now apply total_mutual|exact Sa]. }
          destruct (fold_map_total _ _ l HF [] ds eq_refl) as (es & Ef & Ces). cbv beta in Ef. rewrite Ef.
          cbn [bind]. eexists. split; [reflexivity|]. split; [apply conforms_map; now right|apply NN].
        * eexists. split; [reflexivity|]. split; [apply conforms_map; now left|apply NN].
      + now contradiction NC.
  Qed.
End ToEmb.

Section ToEmbMsg.
  Variable hook : hook_to_t.

  (* the fields one after the other: each writes its own, still absent, attribute *)
  Lemma run_list_good l gs atys :
    Forall (runs hook gs) l ->
    (forall f, In f l -> exists t, field_ty f = Some t /\ lookup (snake f) atys = Some t) ->
    NoDup (snakes l) ->
    forall attrs ds, (forall f, In f l -> lookup (snake f) attrs = None) ->
    exists attrs', to_field_list hook l (GStruct gs) atys (attrs, ds) = Ok (attrs', ds)
      /\ (forall k, ~ In k (snakes l) -> lookup k attrs' = lookup k attrs)
      /\ (forall f t, In f l -> field_ty f = Some t ->
                      exists v, lookup (snake f) attrs' = Some v /\ conforms t v = true
                                /\ (nil_parent f gs -> null_when_nil f -> v = nil_render t)).
  Proof.
    induction l as [|f r IH]; intros G A ND attrs ds N; cbn [to_field_list].
    - exists attrs. split; [reflexivity|]. split; [reflexivity|]. intros f t [].
    - inversion G as [|? ? Gf Gr]; subst.
      cbn [snakes map] in ND. inversion ND as [|? ? N1 N2]; subst.
      destruct (A f (or_introl eq_refl)) as (t & FT & La).
      destruct (Gf atys attrs ds t FT La (N f (or_introl eq_refl))) as (v & E & Cv & Nv).
      rewrite E. cbn [bind].
      destruct (IH Gr (fun f' I => A f' (or_intror I)) N2 (update (snake f) v attrs) ds)
        as (attrs' & E' & L' & C').
      { intros f' I. rewrite lookup_update_neq; [apply N; now right|].
        intros Eq. apply N1. rewrite <- Eq. now apply in_map. }
      exists attrs'. split; [exact E'|]. split.
      + intros k Nk. cbn [snakes map In] in Nk. rewrite L' by tauto. apply lookup_update_neq.
        intros ->. tauto.
      + intros f' t' [<-|I] FT'.
        * rewrite L' by exact N1. rewrite lookup_update_eq. rewrite FT in FT'. inversion FT'; subst. eauto.
        * now apply C'.
  Qed.

  Lemma efield_ty_some f : efield_to_ok f = true -> exists t, field_ty f = Some t.
  Proof.
    destruct f as [i om]. unfold efield_to_ok. cbn [f_info f_msg ftf_ok]. intros H.
    apply orb_prop in H. destruct H as [H|H].
    - apply andb_prop in H. destruct H as [H _]. now apply field_ty_some.
    - destruct (pinfo_to_ok_inv _ _ H) as (p & z & _ & _ & _ & _ & _ & NC & _ & OM). cbn [field_ty].
      destruct (fi_kind i); eauto; try (destruct (OM eq_refl) as (m' & -> & _); eauto). now contradiction NC.
  Qed.

  Lemma emb_runs gs f : efield_to_ok f = true -> eftyped f gs -> runs hook gs f.
  Proof.
    intros H T. unfold efield_to_ok in H. apply orb_prop in H. destruct H as [H|H].
    - now apply ordinary_runs.
    - destruct f as [i om]. now apply promoted_runs.
  Qed.

  (* C03 and C20 for promoted fields, on the empty object of the schema's type *)
  Theorem copy_to_spec_embedded_partial m obj :
    emb_to_ok m = true -> emb_typed m obj ->
    exists attrs, copy_to hook m obj (VObj (msg_ty m) false false None)
                  = Ok (VObj (msg_ty m) false false (Some attrs), [])
                  /\ attrs_conform (msg_ty m) attrs = true
                  /\ forall f t gs, In f (m_fields m) -> field_ty f = Some t -> obj = GStruct gs ->
                       nil_parent f gs -> null_when_nil f ->
                       lookup (snake f) attrs = Some (nil_render t).
  Proof.
    intros F (gs & -> & T). unfold emb_to_ok in F. apply andb_prop in F. destruct F as [F1 F3].
    apply nodup_b_NoDup in F1. rewrite forallb_forall in F3.
    cbn [copy_to]. rewrite to_fields_m_fields, msg_ty_fields.
    set (fs := m_fields m) in *.
    assert (G : Forall (runs hook gs) fs).
    { rewrite Forall_forall in T |- *. intros f I. apply emb_runs; auto. }
    assert (A : forall f, In f fs -> exists t, field_ty f = Some t /\ lookup (snake f) (fields_ty fs) = Some t).
    { intros f I. destruct (efield_ty_some f (F3 f I)) as (t & FT). exists t. split; [exact FT|].
      now apply lookup_fields_ty. }
    destruct (run_list_good fs gs (fields_ty fs) G A F1 [] []) as (attrs' & E & L & C); [reflexivity|].
    rewrite E. cbn [bind]. exists attrs'. split; [reflexivity|]. split.
    - unfold attrs_conform. apply andb_true_intro. split.
      + rewrite forallb_forall. intros [k t] I.
        unfold fields_ty in I. apply in_flat_map in I. destruct I as (f & If & I).
        destruct (field_ty f) as [t0|] eqn:FT; [|destruct I]. destruct I as [[= <- <-]|[]]. cbn [fst snd].
        destruct (C f t0 If FT) as (v & Lv & Cv & _). now rewrite Lv.
      + rewrite forallb_forall. intros [k v] I. cbn [fst]. unfold has_key.
        destruct (in_dec string_dec k (snakes fs)) as [Ik|Nk].
        * unfold snakes in Ik. apply in_map_iff in Ik. destruct Ik as (f & <- & If).
          destruct (A f If) as (t & _ & Lt). now rewrite Lt.
        * exfalso. specialize (L k Nk). cbn [lookup] in L. apply lookup_None_keys in L. apply L.
          unfold keys. change k with (fst (k, v)). now apply in_map.
    - intros f t gs' I FT [= <-] NP NK. destruct (C f t I FT) as (v & Lv & _ & Nv).
      rewrite Lv. f_equal. now apply Nv.
  Qed.
End ToEmbMsg.

(* A message of the class with its embedded pointer nil or set: no panic, no diagnostic *)
Theorem copy_to_total_embedded_to hook m obj :
  emb_to_ok m = true -> emb_typed m obj ->
  exists attrs, copy_to hook m obj (VObj (msg_ty m) false false None)
                = Ok (VObj (msg_ty m) false false (Some attrs), []).
Proof. intros F T. destruct (copy_to_spec_embedded_partial hook m obj F T) as (attrs & E & _). eauto. Qed.

Theorem copy_to_conforms_embedded_to hook m obj t ds :
  emb_to_ok m = true -> emb_typed m obj ->
  copy_to hook m obj (VObj (msg_ty m) false false None) = Ok (t, ds) ->
  conforms (TyObj (msg_ty m)) t = true /\ ds = [].
Proof.
  intros F T H. destruct (copy_to_spec_embedded_partial hook m obj F T) as (attrs & E & C & _).
  rewrite E in H. inversion H; subst. split; [|reflexivity]. rewrite conforms_obj, tfty_eqb_refl, C. reflexivity.
Qed.

(* C20 under a nil embedded pointer: every attribute of a field promoted from it is null, except
   that of a message held by value, which is the object of the zero value *)
Theorem copy_to_nil_parent_renders_null_to hook m gs t ds p :
  emb_to_ok m = true -> emb_typed m (GStruct gs) ->
  lookup p gs = Some (GPtr None) ->
  copy_to hook m (GStruct gs) (VObj (msg_ty m) false false None) = Ok (t, ds) ->
  exists attrs, t = VObj (msg_ty m) false false (Some attrs) /\ ds = [] /\
    forall i om, In (Field i om) (m_fields m) -> fi_via i = [p] ->
                 (fi_kind i = ObjectKind -> fi_nullable i = true) ->
                 exists ty, field_ty (Field i om) = Some ty
                            /\ lookup (fi_snake i) attrs = Some (nil_render ty)
                            /\ tf_is_null (nil_render ty) = true.
Proof.
  intros F T Lp H. destruct (copy_to_spec_embedded_partial hook m _ F T) as (attrs & E & _ & N).
  rewrite E in H. inversion H; subst. exists attrs. split; [reflexivity|]. split; [reflexivity|].
  intros i om I V NK.
  unfold emb_to_ok in F. apply andb_prop in F. destruct F as [_ F3]. rewrite forallb_forall in F3.
  destruct (efield_ty_some _ (F3 _ I)) as (ty & FT). exists ty. split; [exact FT|]. split.
  - apply (N (Field i om) ty gs I FT eq_refl).
    + unfold nil_parent. cbn [f_info]. rewrite V. exact Lp.
    + exact NK.
  - apply nil_render_null. intros s ->. cbn [field_ty] in FT.
    destruct (fi_kind i), om; discriminate FT.
Qed.

(* ------------------------------------------------------------------------------------- *)
(* B. CopyFrom *)

Definition pinfo_from_ok (i : finfo) (om : option message) : bool :=
  match fi_via i, fi_parent i with
  | [p], Some (p', _) => String.eqb p p'
  | _, _ => false
  end
  && match fi_inner i with [] => true | _ => false end
  && match fi_oneof i with None => true | Some _ => false end
  && negb (fi_placeholder i)
  && match fi_kind i with
     | PrimitiveKind | PrimitiveListKind | PrimitiveMapKind => cast_compat (fi_tk i) (fi_cast i)
     | ObjectKind | ObjectListKind | ObjectMapKind => match om with Some m' => flat_ok m' | None => false end
     | CustomKind => false
     end.

(* the embedded pointers of a message, and the Go names promoted from one of them *)
Definition parent_of (f : field) : list string :=
  match fi_parent (f_info f) with Some (p, _) => [p] | None => [] end.
Definition parents (fs : list field) : list string := flat_map parent_of fs.
Definition pnames (p : string) (fs : list field) : list string :=
  flat_map (fun f => match fi_parent (f_info f) with
                     | Some (p', _) => if String.eqb p p' then [fi_name (f_info f)] else []
                     | None => []
                     end) fs.

(* an ordinary field does not write the key of an embedded pointer *)
Definition efield_from_ok (fs : list field) (f : field) : bool :=
  (fflat_ok f && negb (mem_str (wkey (f_info f)) (parents fs)))
  || pinfo_from_ok (f_info f) (f_msg f).

Definition emb_from_ok (m : message) : bool := forallb (efield_from_ok (m_fields m)) (m_fields m).

(* the zero value of the embedded struct has the promoted fields; the zero values of the nested
   messages have their keys *)
Definition pzeros_ok (fs : list field) : Prop :=
  forall f p z, In f fs -> fi_parent (f_info f) = Some (p, z) ->
    exists zs, z = GStruct zs /\ incl (pnames p fs) (keys zs).

Definition emb_zeros (m : message) : Prop := pzeros_ok (m_fields m) /\ Forall fzeros_ok (m_fields m).

(* an embedded pointer is nil or points to a struct with the promoted fields *)
Definition pstate (fs : list field) (gs : list (string * goval)) : Prop :=
  forall p, In p (parents fs) ->
    lookup p gs = Some (GPtr None)
    \/ exists ps, lookup p gs = Some (GPtr (Some (GStruct ps))) /\ incl (pnames p fs) (keys ps).

(* the target struct: the oneof holders, the ordinary fields and the embedded pointers are there *)
Definition emb_keys (m : message) (obj : goval) : Prop :=
  exists gs, obj = GStruct gs /\
             (forall h, In h (m_oneofs m) -> In h (keys gs)) /\
             (forall f, In f (m_fields m) -> fi_parent (f_info f) = None -> In (wkey (f_info f)) (keys gs)) /\
             (forall p, In p (parents (m_fields m)) -> In p (keys gs)).

(* the attribute makes CopyFrom write the field: present, of the field's type, known and not null *)
Definition alloc_attr (i : finfo) (a : tfval) : bool :=
  match fi_kind i, a with
  | PrimitiveKind, VPrim k n u _ => tfkind_eqb k (fi_tk i) && known n u
  | ObjectKind, VObj _ n u _ => known n u
  | (PrimitiveListKind | ObjectListKind), VList _ n u _ => known n u
  | (PrimitiveMapKind | ObjectMapKind), VMap _ n u _ => known n u
  | _, _ => false
  end.

Definition allocating (i : finfo) (a0 : option tfval) : bool :=
  match a0 with Some a => alloc_attr i a | None => false end.

(* the field is promoted from q and its attribute makes CopyFrom write it *)
Definition allocs (attrs : option (list (string * tfval))) (q : string) (f : field) : bool :=
  match fi_parent (f_info f) with
  | Some (p, _) => String.eqb q p && allocating (f_info f) (lookup (fi_snake (f_info f)) (attrs_list attrs))
  | None => false
  end.

Lemma in_parents f p z fs : In f fs -> fi_parent (f_info f) = Some (p, z) -> In p (parents fs).
Proof.
  intros I P. unfold parents. apply in_flat_map. exists f. split; [exact I|]. unfold parent_of. rewrite P. now left.
Qed.

Lemma in_pnames f p z fs : In f fs -> fi_parent (f_info f) = Some (p, z) -> In (fi_name (f_info f)) (pnames p fs).
Proof.
  intros I P. unfold pnames. apply in_flat_map. exists f. split; [exact I|]. rewrite P, String.eqb_refl. now left.
Qed.

Lemma gset_upd fs n v : In n (keys fs) -> gset (GStruct fs) n v = Ok (GStruct (update n v fs)).
Proof. intros H. destruct (keys_lookup _ _ H) as [x E]. cbn [gset]. now rewrite E. Qed.

(* with a single embedded pointer, allocateEmbedded is: if obj.<Parent> == nil { obj.<Parent> = &Parent{} } *)
Lemma alloc_parent_single i p z obj :
  fi_parent i = Some (p, z) -> fi_inner i = [] ->
  alloc_parent i obj
  = (do pv <- gfield obj p;
     match pv with
     | GPtr None => gset obj p (GPtr (Some z))
     | GPtr (Some _) => Ok obj
     | _ => Panic
     end).
Proof.
  intros P IN. unfold alloc_parent. rewrite P, IN. cbn [alloc_chain].
  destruct (gfield obj p) as [pv|]; cbn [bind]; [|reflexivity].
  destruct pv as [| |[x|]| | | |]; reflexivity.
Qed.

(* two embedded pointers on the way: the outer nil (the inner one is allocated in the fresh outer
   struct), the outer set and the inner nil, both set *)
Lemma alloc_chain_two_outer_nil obj p pz q qz :
  gfield obj p = Ok (GPtr None) -> gfield pz q = Ok (GPtr None) ->
  alloc_chain obj [(p, pz); (q, qz)]
  = (do pz' <- gset pz q (GPtr (Some qz)); gset obj p (GPtr (Some pz'))).
Proof. intros Gp Gq. cbn [alloc_chain]. rewrite Gp. cbn [bind]. rewrite Gq. reflexivity. Qed.

Lemma alloc_chain_two_inner_nil obj p pz q qz inner :
  gfield obj p = Ok (GPtr (Some inner)) -> gfield inner q = Ok (GPtr None) ->
  alloc_chain obj [(p, pz); (q, qz)]
  = (do inner' <- gset inner q (GPtr (Some qz)); gset obj p (GPtr (Some inner'))).
Proof. intros Gp Gq. cbn [alloc_chain]. rewrite Gp. cbn [bind]. rewrite Gq. reflexivity. Qed.

Lemma alloc_chain_two_both_set obj p pz q qz inner x :
  gfield obj p = Ok (GPtr (Some inner)) -> gfield inner q = Ok (GPtr (Some x)) ->
  alloc_chain obj [(p, pz); (q, qz)] = gset obj p (GPtr (Some inner)).
Proof. intros Gp Gq. cbn [alloc_chain]. rewrite Gp. cbn [bind]. rewrite Gq. reflexivity. Qed.

Lemma alloc_ok FS gs i p zs :
  fi_parent i = Some (p, GStruct zs) -> fi_inner i = [] ->
  incl (pnames p FS) (keys zs) -> In p (parents FS) -> pstate FS gs ->
  exists gs1 ps, alloc_parent i (GStruct gs) = Ok (GStruct gs1) /\ keys gs1 = keys gs /\ pstate FS gs1
     /\ lookup p gs1 = Some (GPtr (Some (GStruct ps))) /\ incl (pnames p FS) (keys ps)
     /\ forall q, q <> p -> lookup q gs1 = lookup q gs.
Proof.
  intros P IN Z Ip S. rewrite (alloc_parent_single i p _ _ P IN). cbn [gfield bind].
  destruct (S p Ip) as [L|(ps & L & Hps)]; rewrite L; cbn [bind].
  - pose proof (lookup_Some_keys _ _ _ L) as Kp. rewrite (gset_upd _ _ _ Kp).
    exists (update p (GPtr (Some (GStruct zs))) gs), zs. split; [reflexivity|].
    split; [now apply keys_update_in|]. split.
    { intros q Iq. destruct (string_dec q p) as [->|N].
      - right. exists zs. now rewrite lookup_update_eq.
      - rewrite (lookup_update_neq _ _ _ _ N). now apply S. }
    split; [apply lookup_update_eq|]. split; [exact Z|]. intros q N. now apply lookup_update_neq.
  - exists gs, ps. repeat split; auto.
Qed.

Lemma pset_ok FS gs p ps n v :
  lookup p gs = Some (GPtr (Some (GStruct ps))) -> incl (pnames p FS) (keys ps) -> In n (keys ps) -> pstate FS gs ->
  exists gs', gset_via (GStruct gs) [p] n v = Ok (GStruct gs') /\ keys gs' = keys gs /\ pstate FS gs'
     /\ lookup p gs' = Some (GPtr (Some (GStruct (update n v ps))))
     /\ forall q, q <> p -> lookup q gs' = lookup q gs.
Proof.
  intros L Hps In S. cbn [gset_via gfield bind]. rewrite L. cbn [bind gset_via]. rewrite (gset_upd _ _ _ In). cbn [bind].
  pose proof (lookup_Some_keys _ _ _ L) as Kp. rewrite (gset_upd _ _ _ Kp).
  eexists. split; [reflexivity|]. split; [now apply keys_update_in|]. split.
  { intros q Iq. destruct (string_dec q p) as [->|N].
    - right. eexists. rewrite lookup_update_eq. split; [reflexivity|]. now rewrite keys_update_in.
    - rewrite (lookup_update_neq _ _ _ _ N). now apply S. }
  split; [apply lookup_update_eq|]. intros q N. now apply lookup_update_neq.
Qed.

Lemma pinfo_from_ok_inv i om : pinfo_from_ok i om = true ->
  exists p z, fi_via i = [p] /\ fi_parent i = Some (p, z) /\ fi_inner i = [] /\ fi_oneof i = None /\ fi_placeholder i = false /\
    match fi_kind i with
    | PrimitiveKind | PrimitiveListKind | PrimitiveMapKind => cast_compat (fi_tk i) (fi_cast i) = true
    | ObjectKind | ObjectListKind | ObjectMapKind => exists m', om = Some m' /\ flat_ok m' = true
    | CustomKind => False
    end.
Proof.
  unfold pinfo_from_ok. intros H.
  apply andb_prop in H. destruct H as [H H4]. apply andb_prop in H. destruct H as [H H3].
  apply andb_prop in H. destruct H as [H H2]. apply andb_prop in H. destruct H as [H1 H5].
  destruct (fi_via i) as [|p [|q r]]; try discriminate H1.
  destruct (fi_parent i) as [[p' z]|]; try discriminate H1. apply String.eqb_eq in H1. subst p'.
  exists p, z. split; [reflexivity|]. split; [reflexivity|].
  split; [destruct (fi_inner i); [reflexivity|discriminate]|].
  split; [destruct (fi_oneof i); [discriminate|reflexivity]|].
  split; [destruct (fi_placeholder i); [discriminate|reflexivity]|].
  destruct (fi_kind i); try exact H4; try discriminate H4; destruct om as [m'|]; try discriminate H4; eauto.
Qed.

Ltac pwrite FS S P IN Z Ip In :=
  let gs1 := fresh "gs1" in let ps1 := fresh "ps1" in let K1 := fresh "K1" in let S1 := fresh "S1" in
  let L1 := fresh "L1" in let H1 := fresh "H1" in let Q1 := fresh "Q1" in
  let gs2 := fresh "gs2" in let K2 := fresh "K2" in let S2 := fresh "S2" in
  let L2 := fresh "L2" in let Q2 := fresh "Q2" in
  destruct (alloc_ok FS _ _ _ _ P IN Z Ip S) as (gs1 & ps1 & -> & K1 & S1 & L1 & H1 & Q1); cbn [bind];
  match goal with
  | |- context [gset_via (GStruct gs1) [?p] ?n ?v] =>
      destruct (pset_ok FS gs1 p ps1 n v L1 H1 (H1 _ In) S1) as (gs2 & -> & K2 & S2 & L2 & Q2); cbn [bind]
  end;
  exists gs2; eexists; split; [reflexivity|];
  split; [now rewrite K2|]; split; [exact S2|];
  split; [intros q' N'; now rewrite (Q2 q' N'), (Q1 q' N')|eexists; exact L2].

Ltac pkeep gs :=
  exists gs; eexists; split; [reflexivity|]; split; [reflexivity|]; split; [assumption|];
  split; [reflexivity|reflexivity].

Lemma promoted_from_step hook FS attrs i om gs ds p zs :
  pinfo_from_ok i om = true -> fzeros_ok (Field i om) ->
  fi_parent i = Some (p, GStruct zs) -> incl (pnames p FS) (keys zs) -> In p (parents FS) ->
  In (fi_name i) (pnames p FS) ->
  attrs_typed attrs = true -> pstate FS gs ->
  exists gs' ds', from_field hook (Field i om) attrs (GStruct gs, ds) = Ok (GStruct gs', ds')
     /\ keys gs' = keys gs /\ pstate FS gs'
     /\ (forall q, q <> p -> lookup q gs' = lookup q gs)
     /\ (if allocating i (lookup (fi_snake i) (attrs_list attrs))
         then exists ps, lookup p gs' = Some (GPtr (Some (GStruct ps)))
         else gs' = gs).
Proof.
  intros F ZO P Z Ip In T S.
  destruct (pinfo_from_ok_inv _ _ F) as (p' & z' & V & P' & IN & O & PH & K).
  rewrite P in P'. inversion P'; subst p' z'. clear P'.
  assert (T0 : forall a, lookup (fi_snake i) (attrs_list attrs) = Some a -> tf_typed a = true).
  { destruct attrs as [l|]; [|discriminate]. intros a. apply typed_lookup. exact T. }
  assert (D : forall m', om = Some m' -> flat_ok m' = true -> forall at0, attrs_typed at0 = true -> forall ds,
               exists x, (if m_empty m' then Ok (m_zero m', ds) else from_fields hook m' at0 (m_zero m', ds)) = Ok x).
  { intros m' -> FM at0 Ta ds0. destruct (m_empty m'); [eauto|]. cbn [fzeros_ok] in ZO. destruct ZO as [HK ZM].
    destruct (from_fields_total_partial hook m' FM ZM at0 _ ds0 Ta HK) as (v & ds' & E & _). rewrite E. eauto. }
  clear T ZO F.
  cbn [from_field]. fold (from_fields hook). rewrite attr_lookup_eq. rewrite V, P, O.
  destruct (lookup (fi_snake i) (attrs_list attrs)) as [a|] eqn:EA; cbn [allocating].
  2:{ destruct (fi_kind i) eqn:EK; try (now contradiction K); pkeep gs. }
  specialize (T0 a eq_refl). unfold alloc_attr.
  destruct (fi_kind i) eqn:EK.
  - (* PrimitiveKind *)
    destruct (as_prim i a) as [[[n u] q]|] eqn:EP.
    2:{ destruct a; try pkeep gs. cbn [as_prim] in EP. destruct (tfkind_eqb k (fi_tk i)); [discriminate|]. pkeep gs. }
    apply as_prim_inv in EP. subst a. cbn in T0. rewrite tfkind_eqb_refl. cbn [andb].
    destruct (from_prim_value_total i n u q K T0) as [t ->]. cbn [bind].
    destruct (known n u); [|pkeep gs]. pwrite FS S P IN Z Ip In.
  - (* PrimitiveListKind *)
    destruct a as [| aty n u el | | | |]; try pkeep gs. cbn [tf_typed] in T0. pose proof (typed_elems _ T0) as TL.
    destruct (known n u); cbn [bind].
    + folds TL.
      * destruct (as_prim i x) as [[[n0 u0] q]|] eqn:EP; [|cbn [bind]; eauto].
        apply as_prim_inv in EP. subst x. cbn in TL.
        destruct (from_prim_value_total i n0 u0 q K TL) as [t ->]. cbn [bind]. eauto.
      * pwrite FS S P IN Z Ip In.
    + pkeep gs.
  - (* ObjectKind *)
    destruct K as (m' & -> & FM). specialize (D m' eq_refl FM).
    destruct a as [| | | aty n u at0 | |]; try pkeep gs. cbn [tf_typed] in T0. change (attrs_typed at0 = true) in T0.
    cbn [bind]. destruct (known n u); [|pkeep gs].
    destruct (alloc_ok FS _ _ _ _ P IN Z Ip S) as (gs1 & ps1 & -> & K1 & S1 & L1 & H1 & Q1); cbn [bind].
    destruct (D at0 T0 ds) as [[v ds'] ->]. cbn [bind].
    match goal with
    | |- context [gset_via (GStruct gs1) [?p] ?n ?v] =>
        destruct (pset_ok FS gs1 p ps1 n v L1 H1 (H1 _ In) S1) as (gs2 & -> & K2 & S2 & L2 & Q2); cbn [bind]
    end.
    exists gs2; eexists; split; [reflexivity|].
    split; [now rewrite K2|]. split; [exact S2|].
    split; [intros q' N'; now rewrite (Q2 q' N'), (Q1 q' N')|eexists; exact L2].
  - (* ObjectListKind *)
    destruct K as (m' & -> & FM). specialize (D m' eq_refl FM).
    destruct a as [| aty n u el | | | |]; try pkeep gs. cbn [tf_typed] in T0. pose proof (typed_elems _ T0) as TL.
    destruct (known n u); cbn [bind].
    + folds TL.
      * destruct x as [| | | aty0 n0 u0 at0 | |]; try (cbn [bind]; eauto).
        cbn [tf_typed] in TL. change (attrs_typed at0 = true) in TL.
        destruct (known n0 u0); [|cbn [bind]; eauto].
        destruct (D at0 TL ds0) as [[v ds'] ->]. cbn [bind]. eauto.
      * pwrite FS S P IN Z Ip In.
    + pkeep gs.
  - (* PrimitiveMapKind *)
    destruct a as [| | aty n u el | | |]; try pkeep gs. cbn [tf_typed] in T0. pose proof (typed_entries _ T0) as TL.
    destruct (known n u); cbn [bind].
    + folds TL.
      * destruct x as [k a']. cbn [fst snd] in *.
        destruct (as_prim i a') as [[[n0 u0] q]|] eqn:EP; [|cbn [bind]; eauto].
        apply as_prim_inv in EP. subst a'. cbn in TL.
        destruct (from_prim_value_total i n0 u0 q K TL) as [t ->]. cbn [bind]. eauto.
      * pwrite FS S P IN Z Ip In.
    + pkeep gs.
  - (* ObjectMapKind *)
    destruct K as (m' & -> & FM). specialize (D m' eq_refl FM).
    destruct a as [| | aty n u el | | |]; try pkeep gs. cbn [tf_typed] in T0. pose proof (typed_entries _ T0) as TL.
    destruct (known n u); cbn [bind].
    + folds TL.
      * destruct x as [k a']. cbn [fst snd] in *.
        destruct a' as [| | | aty0 n0 u0 at0 | |]; try (cbn [bind]; eauto).
        cbn [tf_typed] in TL. change (attrs_typed at0 = true) in TL.
        destruct (known n0 u0); [|cbn [bind]; eauto].
        destruct (D at0 TL ds0) as [[v ds'] ->]. cbn [bind]. eauto.
      * pwrite FS S P IN Z Ip In.
    + pkeep gs.
  - now contradiction K.
Qed.

Lemma gfield_eq_lookup a b n : gfield (GStruct a) n = gfield (GStruct b) n -> lookup n a = lookup n b.
Proof. cbn [gfield]. destruct (lookup n a), (lookup n b); intros H; inversion H; reflexivity. Qed.

Lemma info_ok_write_key i om : info_ok i om = true -> top_keys i = [wkey i].
Proof.
  intros F. destruct (info_ok_inv _ _ F) as (V & P & _ & O). unfold top_keys, write_key, wkey. rewrite V, P. cbn [hd].
  destruct (fi_oneof i); [|reflexivity]. destruct O as [-> | ->]; reflexivity.
Qed.

Lemma ordinary_from_step hook FS attrs f gs ds :
  fflat_ok f = true -> fzeros_ok f -> ~ In (wkey (f_info f)) (parents FS) ->
  attrs_typed attrs = true -> In (wkey (f_info f)) (keys gs) -> pstate FS gs ->
  exists gs' ds', from_field hook f attrs (GStruct gs, ds) = Ok (GStruct gs', ds')
     /\ keys gs' = keys gs /\ pstate FS gs'
     /\ forall q, In q (parents FS) -> lookup q gs' = lookup q gs.
Proof.
  destruct f as [i om]. cbn [f_info fflat_ok]. intros F ZO N T W S.
  apply andb_prop in F. destruct F as [F1 F2].
  destruct (from_field_total hook i om F1) with (attrs := attrs) (fs := gs) (ds := ds) as (gs' & ds' & E & Kg); auto.
  { intros m' -> at0 Ta ds0. cbn [fzeros_ok] in ZO. destruct ZO as [HK ZM].
    destruct (from_fields_total_partial hook m' F2 ZM at0 _ ds0 Ta HK) as (v & d & Ev & _). eauto. }
  exists gs', ds'. split; [exact E|]. split; [exact Kg|].
  assert (Q : forall q, In q (parents FS) -> lookup q gs' = lookup q gs).
  { intros q Iq. apply gfield_eq_lookup. apply (from_field_untouched _ _ _ _ _ _ _ E). cbn [f_info].
    rewrite (info_ok_write_key _ _ F1). intros [<-|[]]. contradiction. }
  split; [|exact Q]. intros q Iq. rewrite (Q q Iq). now apply S.
Qed.

(* the state of the embedded pointer q after a list of fields *)
Definition after_fields (attrs : option (list (string * tfval))) (l : list field) (q : string)
           (gs gs' : list (string * goval)) : Prop :=
  if existsb (allocs attrs q) l then exists ps, lookup q gs' = Some (GPtr (Some (GStruct ps)))
  else lookup q gs' = lookup q gs.

Lemma from_list_embedded hook FS attrs l :
  attrs_typed attrs = true -> pzeros_ok FS -> incl l FS ->
  (forall f, In f l -> efield_from_ok FS f = true) -> Forall fzeros_ok l ->
  forall gs ds,
    (forall f, In f l -> fi_parent (f_info f) = None -> In (wkey (f_info f)) (keys gs)) -> pstate FS gs ->
    exists gs' ds', from_field_list hook l attrs (GStruct gs, ds) = Ok (GStruct gs', ds')
       /\ keys gs' = keys gs /\ pstate FS gs'
       /\ forall q, In q (parents FS) -> after_fields attrs l q gs gs'.
Proof.
  intros T PZ. induction l as [|f r IH]; intros Inc F ZO gs ds W S; cbn [from_field_list].
  - exists gs, ds. split; [reflexivity|]. split; [reflexivity|]. split; [exact S|]. intros q _. reflexivity.
  - assert (If : In f FS) by (apply Inc; now left).
    assert (Incr : incl r FS) by (intros x Hx; apply Inc; now right).
    inversion ZO as [|? ? Zf Zr]; subst.
    pose proof (F f (or_introl eq_refl)) as Ff. unfold efield_from_ok in Ff. apply orb_prop in Ff.
    assert (STEP : exists gs1 ds1,
               (if fi_placeholder (f_info f) then Ok (GStruct gs, ds) else from_field hook f attrs (GStruct gs, ds))
               = Ok (GStruct gs1, ds1)
               /\ keys gs1 = keys gs /\ pstate FS gs1
               /\ forall q, In q (parents FS) ->
                    if allocs attrs q f then exists ps, lookup q gs1 = Some (GPtr (Some (GStruct ps)))
                    else lookup q gs1 = lookup q gs).
    { destruct Ff as [Ff|Ff].
      - apply andb_prop in Ff. destruct Ff as [F1 F2]. apply negb_true_iff in F2.
        assert (N : ~ In (wkey (f_info f)) (parents FS)) by (intros X; apply mem_str_In in X; congruence).
        assert (PN : fi_parent (f_info f) = None).
        { destruct f as [i om]. cbn [fflat_ok f_info] in *. apply andb_prop in F1. destruct F1 as [F1 _].
          now destruct (info_ok_inv _ _ F1) as (_ & ? & _). }
        assert (AF : forall q, allocs attrs q f = false) by (intros q; unfold allocs; now rewrite PN).
        destruct (fi_placeholder (f_info f)).
        + exists gs, ds. split; [reflexivity|]. split; [reflexivity|]. split; [exact S|].
          intros q _. now rewrite AF.
        + destruct (ordinary_from_step hook FS attrs f gs ds F1 Zf N T (W f (or_introl eq_refl) PN) S)
            as (gs1 & ds1 & E & K1 & S1 & Q1).
          exists gs1, ds1. split; [exact E|]. split; [exact K1|]. split; [exact S1|].
          intros q Iq. rewrite AF. now apply Q1.
      - destruct f as [i om]. cbn [f_info f_msg] in *.
        destruct (pinfo_from_ok_inv _ _ Ff) as (p & z & V & P & IN & O & PH & K). rewrite PH.
        destruct (PZ (Field i om) p z If P) as (zs & -> & Z).
        pose proof (in_parents _ _ _ _ If P) as Ip. pose proof (in_pnames _ _ _ _ If P) as In. cbn [f_info] in In.
        destruct (promoted_from_step hook FS attrs i om gs ds p zs Ff Zf P Z Ip In T S)
          as (gs1 & ds1 & E & K1 & S1 & Q1 & A1).
        exists gs1, ds1. split; [exact E|]. split; [exact K1|]. split; [exact S1|].
        intros q Iq. unfold allocs. cbn [f_info]. rewrite P.
        destruct (String.eqb q p) eqn:Eq.
        + apply String.eqb_eq in Eq. subst q. cbn [andb].
          destruct (allocating i (lookup (fi_snake i) (attrs_list attrs))); [exact A1|now subst gs1].
        + apply String.eqb_neq in Eq. cbn [andb]. now apply Q1. }
    destruct STEP as (gs1 & ds1 & E & K1 & S1 & Q1).
    assert (E' : (if fi_placeholder (f_info f) then from_field_list hook r attrs (GStruct gs, ds)
                  else do st' <- from_field hook f attrs (GStruct gs, ds); from_field_list hook r attrs st')
                 = from_field_list hook r attrs (GStruct gs1, ds1)).
    { destruct (fi_placeholder (f_info f)); [now inversion E|]. now rewrite E. }
    rewrite E'.
    destruct (IH Incr (fun x Hx => F x (or_intror Hx)) Zr gs1 ds1) as (gs2 & ds2 & E2 & K2 & S2 & Q2).
    { intros x Hx Px. rewrite K1. apply W; [now right|exact Px]. }
    { exact S1. }
    exists gs2, ds2. split; [exact E2|]. split; [now rewrite K2|]. split; [exact S2|].
    intros q Iq. specialize (Q1 q Iq). specialize (Q2 q Iq). unfold after_fields in *. cbn [existsb].
    destruct (allocs attrs q f); cbn [orb].
    + destruct (existsb (allocs attrs q) r); [exact Q2|]. rewrite Q2. exact Q1.
    + destruct (existsb (allocs attrs q) r); [exact Q2|]. now rewrite Q2.
Qed.

(* the reset of the embedded pointers at the head of CopyFrom *)
Lemma reset_parents_nil p fs : forall o o',
  fold_res reset_parent fs o = Ok o' ->
  In p (parents fs) \/ gfield o p = Ok (GPtr None) -> gfield o' p = Ok (GPtr None).
Proof.
  induction fs as [|f r IH]; intros o o' H Q; cbn [fold_res] in H.
  - inversion H. subst. destruct Q as [[]|Q]. exact Q.
  - destruct (reset_parent o f) as [o1|] eqn:E; cbn [bind] in H; [|discriminate].
    apply (IH _ _ H). unfold reset_parent in E. unfold parents in Q. cbn [flat_map] in Q.
    unfold parent_of at 1 in Q.
    destruct (fi_parent (f_info f)) as [[pn pz]|].
    + destruct (string_dec p pn) as [->|N].
      * right. eapply gset_same; eauto.
      * rewrite (gset_other _ _ _ _ _ E N).
        destruct Q as [Q|Q]; [|now right]. apply in_app_or in Q. destruct Q as [[Q|[]]|Q]; [congruence|now left].
    + inversion E; subst. exact Q.
Qed.

Lemma gfield_lookup gs n v : gfield (GStruct gs) n = Ok v -> lookup n gs = Some v.
Proof. cbn [gfield]. destruct (lookup n gs); intros H; inversion H; reflexivity. Qed.

(* C06 with embedded pointers, and the state of every embedded pointer afterwards: CopyFrom returns
   on every payload-typed input, whatever the target holds; an embedded pointer is allocated exactly
   when the attribute of one of the fields promoted from it is present, well-kinded, known and not
   null, and is nil otherwise *)
Theorem from_fields_embedded_spec hook m attrs obj ds :
  emb_from_ok m = true -> emb_zeros m -> attrs_typed attrs = true -> emb_keys m obj ->
  exists obj' ds', from_fields hook m attrs (obj, ds) = Ok (obj', ds') /\ emb_keys m obj' /\
    forall p, In p (parents (m_fields m)) ->
      if existsb (allocs attrs p) (m_fields m)
      then exists ps, gfield obj' p = Ok (GPtr (Some (GStruct ps)))
      else gfield obj' p = Ok (GPtr None).
Proof.
  destruct m as [nm fs os inj e z]. unfold emb_from_ok, emb_zeros, emb_keys. cbn [m_fields m_oneofs].
  intros F [PZ ZO] T (gs & -> & H1 & H2 & H3). rewrite forallb_forall in F.
  rewrite from_fields_unfold. cbn [fst snd].
  destruct (fold_res_keys reset_oneof os (keys gs)) with (fs := gs) as [gs1 [E1 K1]]; [|reflexivity|].
  { intros h Hh fs0 E0. unfold reset_oneof. apply put_total_K; auto. }
  rewrite E1. cbn [bind].
  destruct (fold_res_keys reset_promoted fs (keys gs)) with (fs := gs1) as [gs2 [E2 K2]]; [|exact K1|].
  { intros f Hf fs0 E0. unfold reset_promoted.
    destruct (fi_oneof (f_info f)) as [h|] eqn:O; [|eauto]. destruct (fi_parent (f_info f)) eqn:P; [eauto|].
    apply put_total_K; auto. specialize (H2 f Hf P). unfold wkey in H2. now rewrite O in H2. }
  rewrite E2. cbn [bind].
  destruct (fold_res_keys reset_parent fs (keys gs)) with (fs := gs2) as [gs3 [E3 K3]]; [|exact K2|].
  { intros f Hf fs0 E0. unfold reset_parent. destruct (fi_parent (f_info f)) as [[pn pz]|] eqn:P; [|eauto].
    apply put_total_K; auto. apply H3. eapply in_parents; eauto. }
  rewrite E3. cbn [bind].
  assert (S3 : pstate fs gs3).
  { intros p Ip. left. apply gfield_lookup. apply (reset_parents_nil p fs _ _ E3). now left. }
  destruct (from_list_embedded hook fs attrs fs T PZ (incl_refl _) F ZO gs3 ds) as (gs4 & ds4 & E4 & K4 & S4 & Q4).
  { intros f Hf P. rewrite K3. now apply H2. }
  { exact S3. }
  exists (GStruct gs4), ds4. split; [exact E4|]. split.
  - exists gs4. split; [reflexivity|]. rewrite K4, K3. auto.
  - intros p Ip. specialize (Q4 p Ip). unfold after_fields in Q4.
    destruct (existsb (allocs attrs p) fs).
    + destruct Q4 as (ps & L). exists ps. cbn [gfield]. now rewrite L.
    + destruct (S3 p Ip) as [L|(ps & L & _)].
      * cbn [gfield]. now rewrite Q4, L.
      * exfalso. assert (G : gfield (GStruct gs3) p = Ok (GPtr None))
          by (apply (reset_parents_nil p fs _ _ E3); now left).
        cbn [gfield] in G. rewrite L in G. discriminate G.
Qed.

(* ------------------------------------------------------------------------------------- *)
(* the class, and the statements on it *)

Definition emb_ok (m : message) : bool := emb_to_ok m && emb_from_ok m.

Lemma emb_ok_to m : emb_ok m = true -> emb_to_ok m = true.
Proof. unfold emb_ok. intros H. apply andb_prop in H. tauto. Qed.
Lemma emb_ok_from m : emb_ok m = true -> emb_from_ok m = true.
Proof. unfold emb_ok. intros H. apply andb_prop in H. tauto. Qed.

(* A. C03: CopyTo with a nil (or set) embedded pointer returns, without diagnostic *)
Theorem copy_to_total_embedded_partial hook m obj :
  emb_ok m = true -> emb_typed m obj ->
  exists attrs, copy_to hook m obj (VObj (msg_ty m) false false None)
                = Ok (VObj (msg_ty m) false false (Some attrs), []).
Proof. intros F. apply copy_to_total_embedded_to. now apply emb_ok_to. Qed.

(* ... and the result has exactly the schema's type *)
Theorem copy_to_conforms_embedded_partial hook m obj t ds :
  emb_ok m = true -> emb_typed m obj ->
  copy_to hook m obj (VObj (msg_ty m) false false None) = Ok (t, ds) ->
  conforms (TyObj (msg_ty m)) t = true /\ ds = [].
Proof. intros F. apply copy_to_conforms_embedded_to. now apply emb_ok_to. Qed.

(* C20: under a nil embedded pointer every promoted attribute is null *)
Theorem copy_to_nil_parent_renders_null hook m gs t ds p :
  emb_ok m = true -> emb_typed m (GStruct gs) ->
  lookup p gs = Some (GPtr None) ->
  copy_to hook m (GStruct gs) (VObj (msg_ty m) false false None) = Ok (t, ds) ->
  exists attrs, t = VObj (msg_ty m) false false (Some attrs) /\ ds = [] /\
    forall i om, In (Field i om) (m_fields m) -> fi_via i = [p] ->
                 (fi_kind i = ObjectKind -> fi_nullable i = true) ->
                 exists ty, field_ty (Field i om) = Some ty
                            /\ lookup (fi_snake i) attrs = Some (nil_render ty)
                            /\ tf_is_null (nil_render ty) = true.
Proof. intros F. apply copy_to_nil_parent_renders_null_to. now apply emb_ok_to. Qed.

(* B. C06: CopyFrom returns on every payload-typed input, whatever the target holds *)
Theorem copy_from_total_embedded_partial hook m a n u at0 obj :
  emb_ok m = true -> emb_zeros m -> attrs_typed at0 = true -> emb_keys m obj ->
  exists obj' ds, copy_from hook m (VObj a n u at0) obj = Ok (obj', ds) /\ emb_keys m obj'.
Proof.
  intros F Z T K. cbn [copy_from].
  destruct (from_fields_embedded_spec hook m at0 obj [] (emb_ok_from _ F) Z T K) as (obj' & ds & E & K' & _). eauto.
Qed.

(* C04: the embedded pointer is allocated exactly when a promoted attribute is to be written *)
Theorem copy_from_parent_state hook m a n u at0 obj obj' ds p :
  emb_ok m = true -> emb_zeros m -> attrs_typed at0 = true -> emb_keys m obj ->
  copy_from hook m (VObj a n u at0) obj = Ok (obj', ds) ->
  In p (parents (m_fields m)) ->
  if existsb (allocs at0 p) (m_fields m)
  then exists ps, gfield obj' p = Ok (GPtr (Some (GStruct ps)))
  else gfield obj' p = Ok (GPtr None).
Proof.
  intros F Z T K H Ip. cbn [copy_from] in H.
  destruct (from_fields_embedded_spec hook m at0 obj [] (emb_ok_from _ F) Z T K) as (o & d & E & _ & Q).
  rewrite E in H. inversion H; subst. now apply Q.
Qed.

Theorem copy_from_allocates_parent hook m a n u at0 obj obj' ds p i om z av :
  emb_ok m = true -> emb_zeros m -> attrs_typed at0 = true -> emb_keys m obj ->
  copy_from hook m (VObj a n u at0) obj = Ok (obj', ds) ->
  In (Field i om) (m_fields m) -> fi_parent i = Some (p, z) ->
  lookup (fi_snake i) (attrs_list at0) = Some av -> alloc_attr i av = true ->
  exists ps, gfield obj' p = Ok (GPtr (Some (GStruct ps))).
Proof.
  intros F Z T K H I P L A.
  pose proof (copy_from_parent_state hook m a n u at0 obj obj' ds p F Z T K H (in_parents _ _ _ _ I P)) as Q.
  assert (X : existsb (allocs at0 p) (m_fields m) = true).
  { apply existsb_exists. exists (Field i om). split; [exact I|]. unfold allocs. cbn [f_info].
    now rewrite P, String.eqb_refl, L. }
  now rewrite X in Q.
Qed.

(* an attribute which is null or unknown *)
Definition null_or_unknown (a : tfval) : Prop :=
  match a with
  | VPrim _ n u _ | VList _ n u _ | VMap _ n u _ | VObj _ n u _ => known n u = false
  | _ => True
  end.

Lemma null_not_alloc i a : null_or_unknown a -> alloc_attr i a = false.
Proof.
  unfold alloc_attr. destruct (fi_kind i), a; cbn [null_or_unknown]; intros H; try reflexivity; rewrite H;
    try reflexivity. apply andb_false_r.
Qed.

(* C05: when all the promoted attributes are missing, null or unknown, the embedded pointer is nil
   afterwards, whatever the target held *)
Theorem copy_from_resets_parent hook m a n u at0 obj obj' ds p :
  emb_ok m = true -> emb_zeros m -> attrs_typed at0 = true -> emb_keys m obj ->
  copy_from hook m (VObj a n u at0) obj = Ok (obj', ds) ->
  In p (parents (m_fields m)) ->
  (forall i om z av, In (Field i om) (m_fields m) -> fi_parent i = Some (p, z) ->
                     lookup (fi_snake i) (attrs_list at0) = Some av -> null_or_unknown av) ->
  gfield obj' p = Ok (GPtr None).
Proof.
  intros F Z T K H Ip N.
  pose proof (copy_from_parent_state hook m a n u at0 obj obj' ds p F Z T K H Ip) as Q.
  assert (X : existsb (allocs at0 p) (m_fields m) = false).
  { destruct (existsb (allocs at0 p) (m_fields m)) eqn:E; [|reflexivity]. exfalso.
    apply existsb_exists in E. destruct E as ([i om] & I & A). unfold allocs in A. cbn [f_info] in A.
    destruct (fi_parent i) as [[p' z]|] eqn:P; [|discriminate].
    apply andb_prop in A. destruct A as [A1 A2]. apply String.eqb_eq in A1. subst p'.
    unfold allocating in A2. destruct (lookup (fi_snake i) (attrs_list at0)) as [av|] eqn:L; [|discriminate].
    rewrite (null_not_alloc i av (N i om z av I P L)) in A2. discriminate. }
  now rewrite X in Q.
Qed.

(* ------------------------------------------------------------------------------------- *)
(* C. round trip of a scalar promoted from an embedded pointer *)

Lemma to_prim_value_p_value i g c obj ds :
  fi_oneof i = None -> fi_placeholder i = false -> fi_nullable i = false ->
  parent_is_nil i obj = Ok (Some false) -> cast_to (fi_tk i) g = Ok c ->
  to_prim_value i (Ok g) obj (TyPrim (fi_tk i)) None ds
  = Ok (VPrim (fi_tk i) (if fi_zero i then prim_is_zero c else false) false c, ds).
Proof.
  intros O PH NU PN C. unfold to_prim_value. rewrite O, PH, NU, PN. cbn [null_value]. rewrite tfkind_eqb_refl.
  destruct (fi_zero i); cbn [bind]; rewrite C; reflexivity.
Qed.

Lemma promoted_of_parent f p z : efield_to_ok f = true -> fi_parent (f_info f) = Some (p, z) ->
  pinfo_to_ok (f_info f) (f_msg f) = true.
Proof.
  unfold efield_to_ok. intros H P. apply orb_prop in H. destruct H as [H|H]; [|exact H].
  destruct f as [i om]. cbn [ftf_ok f_info] in *. apply andb_prop in H. destruct H as [H _].
  destruct (finfo_ok_inv _ _ H) as (_ & P' & _). congruence.
Qed.

(* C20 with the embedded pointer set: the attribute of a promoted value scalar *)
Theorem copy_to_promoted_scalar hook m gs a n u attrs ds i om p z x g c :
  emb_to_ok m = true ->
  copy_to hook m (GStruct gs) (VObj (msg_ty m) false false None) = Ok (VObj a n u (Some attrs), ds) ->
  In (Field i om) (m_fields m) ->
  fi_kind i = PrimitiveKind -> fi_nullable i = false -> fi_parent i = Some (p, z) ->
  lookup p gs = Some (GPtr (Some x)) -> gfield x (fi_name i) = Ok g -> cast_to (fi_tk i) g = Ok c ->
  lookup (fi_snake i) attrs
  = Some (VPrim (fi_tk i) (if fi_zero i then prim_is_zero c else false) false c).
Proof.
  intros F H I K NU P Lp G C. unfold emb_to_ok in F. apply andb_prop in F. destruct F as [ND FF].
  apply nodup_b_NoDup in ND. rewrite forallb_forall in FF.
  pose proof (promoted_of_parent _ _ _ (FF _ I) P) as FP. cbn [f_info f_msg] in FP.
  destruct (pinfo_to_ok_inv _ _ FP) as (p' & z' & V & P' & IN & O & PH & _).
  rewrite P in P'. inversion P'; subst p' z'. clear P'.
  assert (FT : field_ty (Field i om) = Some (TyPrim (fi_tk i))) by (cbn [field_ty]; now rewrite K).
  pose proof (lookup_fields_ty _ _ _ ND I FT) as La. rewrite <- msg_ty_fields in La.
  unfold snake in La. cbn [f_info] in La.
  cbn [copy_to] in H.
  destruct (to_fields hook m (GStruct gs) (msg_ty m) ([], [])) as [[a0 d0]|] eqn:E; cbn [bind] in H; [|discriminate].
  inversion H; subst; clear H. rewrite to_fields_m_fields in E.
  destruct (in_split _ _ I) as (l1 & l2 & EQ). rewrite EQ in E, ND.
  rewrite to_field_list_app in E.
  destruct (to_field_list hook l1 (GStruct gs) (msg_ty m) ([], [])) as [[a1 d1]|] eqn:E1; cbn [bind] in E; [|discriminate].
  cbn [to_field_list] in E.
  destruct (to_field hook (Field i om) (GStruct gs) (msg_ty m) (a1, d1)) as [[a2 d2]|] eqn:E2; cbn [bind] in E; [|discriminate].
  unfold snakes in ND. rewrite map_app in ND. cbn [map] in ND. apply NoDup_remove_2 in ND.
  unfold snake in ND. cbn [f_info] in ND.
  assert (N1 : ~ In (fi_snake i) (map (fun f => fi_snake (f_info f)) l1)) by (intros X; apply ND, in_or_app; now left).
  assert (N2 : ~ In (fi_snake i) (map (fun f => fi_snake (f_info f)) l2)) by (intros X; apply ND, in_or_app; now right).
  rewrite (to_field_list_local _ _ _ _ _ _ _ _ E _ N2).
  pose proof (to_field_list_local _ _ _ _ _ _ _ _ E1 _ N1) as Lc. cbn [lookup] in Lc.
  rewrite to_field_eq in E2. cbv zeta in E2. rewrite La, Lc, K, O in E2. cbn [bind] in E2.
  unfold read_field in E2. rewrite O, V in E2. rewrite (gget_via_set _ _ _ _ Lp), G in E2.
  rewrite (to_prim_value_p_value i g c _ d1 O PH NU (pin_set i p z gs x P IN Lp) C) in E2. cbn [bind] in E2.
  inversion E2; subst. apply lookup_update_eq.
Qed.

Lemma promoted_top_keys i om : pinfo_from_ok i om = true ->
  exists p z, fi_parent i = Some (p, z) /\ top_keys i = [p; p].
Proof.
  intros F. destruct (pinfo_from_ok_inv _ _ F) as (p & z & V & P & _). exists p, z. split; [exact P|].
  unfold top_keys. now rewrite V, P.
Qed.

(* CopyFrom, seen from the only field promoted from p, a value scalar: the attribute alone decides
   the embedded pointer *)
Lemma copy_from_single_promoted hook m a n u attrs tgt obj' ds i om p zs nl c :
  emb_from_ok m = true -> NoDup (snakes (m_fields m)) ->
  copy_from hook m (VObj a n u (Some attrs)) tgt = Ok (obj', ds) ->
  In (Field i om) (m_fields m) ->
  fi_kind i = PrimitiveKind -> fi_nullable i = false -> fi_parent i = Some (p, GStruct zs) ->
  (forall f z, In f (m_fields m) -> fi_parent (f_info f) = Some (p, z) -> f = Field i om) ->
  lookup (fi_snake i) attrs = Some (VPrim (fi_tk i) nl false c) ->
  if nl then gfield obj' p = Ok (GPtr None)
  else exists t, cast_from (fi_cast i) c = Ok t
                 /\ gfield obj' p = Ok (GPtr (Some (GStruct (update (fi_name i) t zs)))).
Proof.
  destruct m as [nm fs os inj e z0]. unfold emb_from_ok. cbn [m_fields copy_from].
  intros F ND H I K NU P ONLY L. rewrite forallb_forall in F. rewrite from_fields_unfold in H. cbn [fst snd] in H.
  destruct (fold_res reset_oneof os tgt) as [o1|] eqn:E1; cbn [bind] in H; [|discriminate].
  destruct (fold_res reset_promoted fs o1) as [o2|] eqn:E2; cbn [bind] in H; [|discriminate].
  destruct (fold_res reset_parent fs o2) as [o3|] eqn:E3; cbn [bind] in H; [|discriminate].
  pose proof (in_parents _ _ _ _ I P) as Ip.
  assert (G3 : gfield o3 p = Ok (GPtr None)) by (apply (reset_parents_nil p fs _ _ E3); now left).
  (* the other fields do not write p *)
  assert (OTH : forall f, In f fs -> f <> Field i om -> ~ In p (top_keys (f_info f))).
  { intros f If Nf X. pose proof (F f If) as Ff. unfold efield_from_ok in Ff. apply orb_prop in Ff.
    destruct Ff as [Ff|Ff].
    - apply andb_prop in Ff. destruct Ff as [F1 F2]. apply negb_true_iff in F2.
      destruct f as [i' om']. cbn [fflat_ok f_info] in *. apply andb_prop in F1. destruct F1 as [F1 _].
      rewrite (info_ok_write_key _ _ F1) in X. destruct X as [X|[]].
      rewrite X in F2. apply mem_str_In in Ip. congruence.
    - destruct f as [i' om']. cbn [f_info f_msg] in *.
      destruct (promoted_top_keys _ _ Ff) as (p' & z' & P' & TK). rewrite TK in X.
      assert (p' = p) by (destruct X as [X|[X|[]]]; exact X). subst p'.
      apply Nf. exact (ONLY _ _ If P'). }
  pose proof (F _ I) as Fi. unfold efield_from_ok in Fi. apply orb_prop in Fi. destruct Fi as [Fi|Fi].
  { exfalso. apply andb_prop in Fi. destruct Fi as [Fi _]. cbn [fflat_ok] in Fi. apply andb_prop in Fi.
    destruct Fi as [Fi _]. destruct (info_ok_inv _ _ Fi) as (_ & P' & _). congruence. }
  cbn [f_info f_msg] in Fi. destruct (pinfo_from_ok_inv _ _ Fi) as (p' & z' & V & P' & IN & O & PH & _).
  rewrite P in P'. inversion P'; subst p' z'. clear P'.
  destruct (in_split _ _ I) as (l1 & l2 & EQ). rewrite EQ in H, ND.
  unfold snakes in ND. rewrite map_app in ND. cbn [map] in ND. apply NoDup_remove_2 in ND.
  assert (NI : forall f, In f l1 \/ In f l2 -> f <> Field i om).
  { intros f If ->. apply ND. apply in_or_app. destruct If as [If|If]; [left|right]; exact (in_map _ _ _ If). }
  assert (U : forall l, (forall f, In f l -> In f fs /\ f <> Field i om) ->
                        ~ In p (flat_map (fun f => top_keys (f_info f)) l)).
  { intros l Hl X. apply in_flat_map in X. destruct X as (f & If & X). destruct (Hl f If) as [A B].
    exact (OTH f A B X). }
  rewrite from_field_list_app in H.
  destruct (from_field_list hook l1 (Some attrs) (o3, [])) as [[o4 d4]|] eqn:E4; cbn [bind] in H; [|discriminate].
  cbn [from_field_list f_info] in H. rewrite PH in H.
  destruct (from_field hook (Field i om) (Some attrs) (o4, d4)) as [[o5 d5]|] eqn:E5; cbn [bind] in H; [|discriminate].
  assert (G4 : gfield o4 p = Ok (GPtr None)).
  { rewrite (from_field_list_untouched _ _ _ _ _ _ _ E4 p); [exact G3|]. apply U. intros f If.
    split; [rewrite EQ; apply in_or_app; now left|apply NI; now left]. }
  assert (G6 : gfield obj' p = gfield o5 p).
  { apply (from_field_list_untouched _ _ _ _ _ _ _ H p). apply U. intros f If.
    split; [rewrite EQ; apply in_or_app; right; now right|apply NI; now right]. }
  rewrite G6. clear H G6 E4.
  cbn [from_field] in E5. rewrite K, L, V, P, O in E5. cbn [as_prim] in E5. rewrite tfkind_eqb_refl in E5.
  unfold from_prim_value in E5. rewrite NU in E5.
  destruct nl; cbn [known negb andb bind] in E5.
  - inversion E5; subst. exact G4.
  - destruct (cast_from (fi_cast i) c) as [t|] eqn:EC; cbn [bind] in E5; [|discriminate].
    exists t. split; [reflexivity|].
    rewrite (alloc_parent_single i p _ _ P IN), G4 in E5. cbn [bind] in E5.
    destruct (gset o4 p (GPtr (Some (GStruct zs)))) as [o6|] eqn:E6; cbn [bind gset_via] in E5; [|discriminate].
    rewrite (gset_same _ _ _ _ E6) in E5. cbn [bind gset] in E5.
    destruct (lookup (fi_name i) zs); cbn [bind] in E5; [|discriminate].
    match type of E5 with
    | bind ?X _ = _ => destruct X as [o7|] eqn:E7; cbn [bind] in E5; [|discriminate]
    end.
    inversion E5; subst. exact (gset_same _ _ _ _ E7).
Qed.

(* C02/C04 for a scalar which is the only field promoted from the embedded pointer p: CopyTo on the
   empty object, then CopyFrom into any target.  The embedded pointer comes back nil when it was
   nil, and also when it was set and the scalar held the zero value of a field with a zero literal
   (the normal form); otherwise it comes back as the zero value of the embedded struct with the
   scalar set to the converted value. *)
Theorem promoted_scalar_round_trip_partial hook_to hook_from m gs tgt tf ds1 obj' ds2 i om p zs :
  emb_ok m = true -> emb_typed m (GStruct gs) ->
  In (Field i om) (m_fields m) -> fi_kind i = PrimitiveKind -> fi_nullable i = false ->
  fi_parent i = Some (p, GStruct zs) ->
  (forall f z, In f (m_fields m) -> fi_parent (f_info f) = Some (p, z) -> f = Field i om) ->
  copy_to hook_to m (GStruct gs) (VObj (msg_ty m) false false None) = Ok (tf, ds1) ->
  copy_from hook_from m tf tgt = Ok (obj', ds2) ->
  (lookup p gs = Some (GPtr None) /\ gfield obj' p = Ok (GPtr None))
  \/ exists ps g c,
       lookup p gs = Some (GPtr (Some (GStruct ps))) /\ lookup (fi_name i) ps = Some g /\
       cast_to (fi_tk i) g = Ok c /\
       if fi_zero i && prim_is_zero c then gfield obj' p = Ok (GPtr None)
       else exists t, cast_from (fi_cast i) c = Ok t
                      /\ gfield obj' p = Ok (GPtr (Some (GStruct (update (fi_name i) t zs)))).
Proof.
  intros F T I K NU P ONLY Hto Hfrom.
  pose proof (emb_ok_to _ F) as Fto. pose proof (emb_ok_from _ F) as Ffrom.
  assert (ND : NoDup (snakes (m_fields m))).
  { unfold emb_to_ok in Fto. apply andb_prop in Fto. destruct Fto as [ND _]. now apply nodup_b_NoDup. }
  assert (FI : pinfo_to_ok i om = true).
  { unfold emb_to_ok in Fto. apply andb_prop in Fto. destruct Fto as [_ FF]. rewrite forallb_forall in FF.
    exact (promoted_of_parent _ _ _ (FF _ I) P). }
  destruct (pinfo_to_ok_inv _ _ FI) as (p' & z' & V & P' & IN & O & PH & _).
  rewrite P in P'. inversion P'; subst p' z'. clear P'.
  destruct (copy_to_spec_embedded_partial hook_to m _ Fto T) as (attrs & E & _ & N).
  rewrite E in Hto. inversion Hto; subst tf ds1. clear Hto.
  destruct T as (gs' & [= <-] & T). rewrite Forall_forall in T. specialize (T _ I).
  unfold eftyped in T. cbn [f_info f_msg] in T. rewrite V in T.
  assert (FT : field_ty (Field i om) = Some (TyPrim (fi_tk i))) by (cbn [field_ty]; now rewrite K).
  destruct T as [[Lp _]|(ps & Lp & T)].
  - left. split; [exact Lp|].
    assert (L : lookup (fi_snake i) attrs = Some (nil_render (TyPrim (fi_tk i)))).
    { apply (N (Field i om) _ gs I FT eq_refl).
      - unfold nil_parent. cbn [f_info]. now rewrite V.
      - unfold null_when_nil. cbn [f_info]. rewrite K. discriminate. }
    cbn [nil_render] in L.
    exact (copy_from_single_promoted hook_from m _ _ _ attrs tgt obj' ds2 i om p zs true _ Ffrom ND Hfrom I K NU P ONLY L).
  - right. cbn [ftyped] in T. rewrite PH in T. unfold reads in T. rewrite O in T. destruct T as (g & Lg & Sg).
    unfold val_shape in Sg. rewrite K in Sg. unfold elem_shape in Sg. rewrite NU in Sg.
    destruct (cast_ok _ _ Sg) as (c & C & _).
    exists ps, g, c. split; [exact Lp|]. split; [exact Lg|]. split; [exact C|].
    assert (G : gfield (GStruct ps) (fi_name i) = Ok g) by (cbn [gfield]; now rewrite Lg).
    pose proof (copy_to_promoted_scalar hook_to m gs _ _ _ attrs [] i om p _ _ g c Fto E I K NU P Lp G C) as L.
    pose proof (copy_from_single_promoted hook_from m _ _ _ attrs tgt obj' ds2 i om p zs _ _ Ffrom ND Hfrom I K NU P ONLY L) as R.
    destruct (fi_zero i); cbn [andb]; exact R.
Qed.

Module EmbExample.
  Import PGT.Model.Desc PGT.Model.Build.
  Local Open Scope string_scope.
  Local Open Scope Z_scope.

  Definition fd (n : string) (num : Z) (t : ptype) (rep : bool) (nullable : option bool) (embed : bool)
             (oneof : option nat) : fdesc :=
    {| fd_name := n; fd_num := num; fd_type := t; fd_repeated := rep; fd_nullable := nullable;
       fd_embed := embed; fd_cast := ""; fd_custom := ""; fd_stdtime := false; fd_stddur := false;
       fd_jsontag := None; fd_oneof := oneof; fd_comment := "" |}.

  Definition d_inner : mdesc :=
    {| md_name := "Inner"; md_comment := ""; md_oneofs := [];
       md_fields := [fd "a" 1 (PScalar SString) false None false None] |}.
  Definition d_p : mdesc :=
    {| md_name := "P"; md_comment := ""; md_oneofs := [];
       md_fields := [fd "s" 1 (PScalar SString) false None false None;
                     fd "l" 2 (PScalar SInt32) true None false None;
                     fd "n" 3 (PMsg "Inner") false None false None;
                     fd "v" 4 (PMsg "Inner") false (Some false) false None;
                     fd "mm" 5 (PMap (PScalar SString) (PMsg "Inner")) false None false None;
                     fd "t" 6 PTimestamp false None false None] |}.
  Definition d_outer : mdesc :=
    {| md_name := "Outer"; md_comment := ""; md_oneofs := [];
       md_fields := [fd "x" 1 (PScalar SInt32) false None false None;
                     fd "p" 2 (PMsg "P") false (Some true) true None] |}.
  Definition cfg : config :=
    {| c_types := ["Outer"]; c_duration_custom_type := ""; c_exclude := []; c_computed := [];
       c_required := []; c_sensitive := []; c_target_pkg := ""; c_default_pkg := ""; c_sort := false;
       c_use_state := false; c_suffixes := []; c_name_overrides := []; c_validators := [];
       c_planmods := []; c_time_type := true; c_duration_type := true; c_injected := [];
       c_import_overrides := []; c_custom_types := [] |}.
  Definition dummy := Msg "" [] [] [] false (GStruct []).
  Definition m : message :=
    Eval vm_compute in
      match build_message (obs_of cfg) [d_inner; d_p; d_outer] 5 d_outer "Outer" with BOk m => m | _ => dummy end.
  Example m_fields_shape :
    map (fun f => (fi_name (f_info f), fi_kind (f_info f), fi_nullable (f_info f), fi_via (f_info f))) (m_fields m)
    = [("X", PrimitiveKind, false, []); ("S", PrimitiveKind, false, ["P"]);
       ("L", PrimitiveListKind, false, ["P"]); ("N", ObjectKind, true, ["P"]); ("V", ObjectKind, false, ["P"]);
       ("Mm", ObjectMapKind, true, ["P"]); ("T", PrimitiveKind, true, ["P"])].
  Proof. reflexivity. Qed.

  Example m_ok : emb_ok m = true.
  Proof. vm_compute. reflexivity. Qed.

  Definition inn (s : string) : goval := GStruct [("A", GPrim (PStr s))].
  Definition pset : goval :=
    GStruct [("S", GPrim (PStr "hi")); ("L", GSlice (Some [GPrim (PInt 3)])); ("N", GPtr (Some (inn "in")));
             ("V", inn "v"); ("Mm", GMap (Some [("k", GPtr (Some (inn "e")))])); ("T", GPtr None)].
  Definition pzero : goval :=
    GStruct [("S", GPrim (PStr "")); ("L", GSlice None); ("N", GPtr None); ("V", inn "");
             ("Mm", GMap None); ("T", GPtr None)].
  Definition o_nil : goval := GStruct [("X", GPrim (PInt 7)); ("P", GPtr None)].
  Definition o_set : goval := GStruct [("X", GPrim (PInt 7)); ("P", GPtr (Some pset))].
  Definition o_zero : goval := GStruct [("X", GPrim (PInt 7)); ("P", GPtr (Some pzero))].
  Definition empty_tf : tfval := VObj (msg_ty m) false false None.

  (* the zero value the front end records for the embedded struct *)
  Example parent_zero :
    forall f, In f (m_fields m) -> fi_via (f_info f) = ["P"] -> fi_parent (f_info f) = Some ("P", pzero).
  Proof. intros f I. repeat (destruct I as [<-|I]; [vm_compute; (reflexivity || discriminate)|]). destruct I. Qed.

  Ltac inn_typed := cbn; eexists; (split; [reflexivity|]); (split; [|exact I]); eexists; split; reflexivity.

  Example nil_typed : emb_typed m o_nil.
  Proof.
    eexists. split; [reflexivity|].
    repeat apply Forall_cons; try apply Forall_nil; unfold eftyped; cbn [f_info f_msg fi_via].
    - cbn. eexists. split; reflexivity.
    - left. split; [reflexivity|exact I].
    - left. split; [reflexivity|exact I].
    - left. split; [reflexivity|]. intros H. discriminate H.
    - left. split; [reflexivity|]. intros _. inn_typed.
    - left. split; [reflexivity|exact I].
    - left. split; [reflexivity|exact I].
  Qed.

  Example set_typed : emb_typed m o_set.
  Proof.
    eexists. split; [reflexivity|].
    repeat apply Forall_cons; try apply Forall_nil; unfold eftyped; cbn [f_info f_msg fi_via].
    - cbn. eexists. split; reflexivity.
    - right. eexists. split; [reflexivity|]. cbn. eexists. split; reflexivity.
    - right. eexists. split; [reflexivity|]. cbn. eexists. split; [reflexivity|]. eexists. split; [reflexivity|].
      intros l [= <-]. repeat constructor.
    - right. eexists. split; [reflexivity|]. cbn. eexists. split; [reflexivity|]. right. eexists. split; [reflexivity|].
      inn_typed.
    - right. eexists. split; [reflexivity|]. cbn. eexists. split; [reflexivity|]. inn_typed.
    - right. eexists. split; [reflexivity|]. cbn. eexists. split; [reflexivity|]. eexists. split; [reflexivity|].
      intros l [= <-]. constructor; [|constructor]. right. eexists. split; [reflexivity|]. inn_typed.
    - right. eexists. split; [reflexivity|]. cbn. eexists. split; [reflexivity|]. now left.
  Qed.

  (* custom type under the embedded pointer; two levels of pointer embedding; a promoted oneof *)
  Definition cfg_custom : config :=
    {| c_types := ["Outer"]; c_duration_custom_type := ""; c_exclude := []; c_computed := [];
       c_required := []; c_sensitive := []; c_target_pkg := ""; c_default_pkg := ""; c_sort := false;
       c_use_state := false; c_suffixes := []; c_name_overrides := []; c_validators := [];
       c_planmods := []; c_time_type := true; c_duration_type := true; c_injected := [];
       c_import_overrides := []; c_custom_types := [("Outer.s", "Custom")] |}.
  Definition m_custom : message :=
    Eval vm_compute in
      match build_message (obs_of cfg_custom) [d_inner; d_p; d_outer] 5 d_outer "Outer" with BOk m => m | _ => dummy end.
  Example custom_shape :
    map (fun f => (fi_name (f_info f), fi_kind (f_info f), fi_via (f_info f))) (m_fields m_custom)
    = [("X", PrimitiveKind, []); ("S", CustomKind, ["P"]); ("L", PrimitiveListKind, ["P"]);
       ("N", ObjectKind, ["P"]); ("V", ObjectKind, ["P"]); ("Mm", ObjectMapKind, ["P"]); ("T", PrimitiveKind, ["P"])].
  Proof. reflexivity. Qed.

  Definition d_q : mdesc :=
    {| md_name := "Q"; md_comment := ""; md_oneofs := [];
       md_fields := [fd "w" 1 (PScalar SString) false None false None] |}.
  Definition d_p2 : mdesc :=
    {| md_name := "P2"; md_comment := ""; md_oneofs := [];
       md_fields := [fd "q" 1 (PMsg "Q") false (Some true) true None] |}.
  Definition d_outer2 : mdesc :=
    {| md_name := "Outer2"; md_comment := ""; md_oneofs := [];
       md_fields := [fd "x" 1 (PScalar SInt32) false None false None;
                     fd "p" 2 (PMsg "P2") false (Some true) true None] |}.
  Definition m_two : message :=
    Eval vm_compute in
      match build_message (obs_of cfg) [d_q; d_p2; d_outer2] 5 d_outer2 "Outer2" with BOk m => m | _ => dummy end.
  Definition two_nil := GStruct [("X", GPrim (PInt 1)); ("P2", GPtr None)].
  Definition two_half := GStruct [("X", GPrim (PInt 1)); ("P2", GPtr (Some (GStruct [("Q", GPtr None)])))].
  Definition two_full := GStruct [("X", GPrim (PInt 1)); ("P2", GPtr (Some (GStruct [("Q", GPtr (Some (GStruct [("W", GPrim (PStr "w"))])))])))].
  Definition tf_two (nl : bool) := VObj (msg_ty m_two) false false (Some [("x", VPrim KI64 false false (PInt 1)); ("w", VPrim KStr nl false (PStr "w"))]).
  (* formerly a panic (1): a custom type under the embedded pointer.  CopyTo with a nil pointer hands
     the zero value of the field to the hook; CopyFrom allocates the pointer before calling the hook
     -- always, also when every attribute is missing: with a custom field promoted from it the
     embedded pointer never comes back nil (the object type is that of [m], which has an attribute
     for the custom field; the message is outside emb_ok) *)
  Example custom_to_nil_zero_to_hook :
    exists attrs, copy_to std_hook_to m_custom o_nil (VObj (msg_ty m) false false None)
                  = Ok (VObj (msg_ty m) false false (Some attrs), [])
                  /\ lookup "s" attrs
                     = Some (VHook "Custom" false false false (Some (GPrim (PStr ""))) (Some (TyPrim KStr)) (Some None))
                  /\ lookup "l" attrs = Some (VList (TyPrim KI64) true false (Some [])).
  Proof. eexists. split; [vm_compute; reflexivity|]. split; reflexivity. Qed.
  Example custom_to_set_ok :
    exists attrs, copy_to std_hook_to m_custom o_set (VObj (msg_ty m) false false None)
                  = Ok (VObj (msg_ty m) false false (Some attrs), [])
                  /\ lookup "s" attrs
                     = Some (VHook "Custom" false false false (Some (GPrim (PStr "hi"))) (Some (TyPrim KStr)) (Some None)).
  Proof. eexists. split; [vm_compute; reflexivity|]. reflexivity. Qed.
  Example custom_from_allocates :
    forall tgt, tgt = o_set \/ tgt = o_nil ->
    exists ds, copy_from std_hook_from m_custom (VObj (msg_ty m) false false None) tgt = Ok (o_zero, ds).
  Proof. intros tgt [-> | ->]; eexists; vm_compute; reflexivity. Qed.

  (* formerly a panic (2): two levels of pointer embedding.  The front end records the inner
     pointer in fi_inner; both pointers are tested by CopyTo and allocated by CopyFrom *)
  Example two_shape :
    map (fun f => (fi_name (f_info f), fi_via (f_info f), fi_parent (f_info f), fi_inner (f_info f))) (m_fields m_two)
    = [("X", [], None, []);
       ("W", ["P2"; "Q"], Some ("P2", GStruct [("Q", GPtr None)]), [("Q", GStruct [("W", GPrim (PStr ""))])])].
  Proof. reflexivity. Qed.
  Definition two_null_tf : tfval :=
    VObj (msg_ty m_two) false false
         (Some [("x", VPrim KI64 false false (PInt 1)); ("w", VPrim KStr true false (PStr ""))]).
  Example two_to_outer_nil_ok :
    copy_to std_hook_to m_two two_nil (VObj (msg_ty m_two) false false None) = Ok (two_null_tf, []).
  Proof. vm_compute. reflexivity. Qed.
  Example two_to_inner_nil_renders_null :
    copy_to std_hook_to m_two two_half (VObj (msg_ty m_two) false false None) = Ok (two_null_tf, []).
  Proof. vm_compute. reflexivity. Qed.
  Example two_to_full_ok :
    copy_to std_hook_to m_two two_full (VObj (msg_ty m_two) false false None) = Ok (tf_two false, []).
  Proof. vm_compute. reflexivity. Qed.
  Example two_from_null_resets : copy_from std_hook_from m_two (tf_two true) two_full = Ok (two_nil, []).
  Proof. vm_compute. reflexivity. Qed.
  Example two_from_known_allocates_both :
    forall tgt, tgt = two_nil \/ tgt = two_half \/ tgt = two_full ->
    copy_from std_hook_from m_two (tf_two false) tgt = Ok (two_full, []).
  Proof. intros tgt [-> | [-> | ->]]; vm_compute; reflexivity. Qed.
  (* the class keeps to one embedded pointer per promoted field *)
  Example two_not_in_class : emb_ok m_two = false /\ emb_ok m_custom = false.
  Proof. split; vm_compute; reflexivity. Qed.

  (* oneof inside the embedded message *)
  Definition d_po : mdesc :=
    {| md_name := "PO"; md_comment := ""; md_oneofs := ["kind"];
       md_fields := [fd "a" 1 (PScalar SString) false None false (Some 0%nat);
                     fd "b" 2 (PMsg "Q") false None false (Some 0%nat)] |}.
  Definition d_outer3 : mdesc :=
    {| md_name := "Outer3"; md_comment := ""; md_oneofs := [];
       md_fields := [fd "p" 2 (PMsg "PO") false (Some true) true None] |}.
  Definition m_one : message :=
    Eval vm_compute in
      match build_message (obs_of cfg) [d_q; d_po; d_outer3] 5 d_outer3 "Outer3" with BOk m => m | _ => dummy end.
  (* outside the class, without panic in the model: a oneof inside the embedded message *)
  Example oneof_shape :
    map (fun f => (fi_name (f_info f), fi_oneof (f_info f), fi_via (f_info f))) (m_fields m_one)
    = [("A", Some "Kind", ["PO"]); ("B", Some "Kind", ["PO"])] /\ emb_ok m_one = false.
  Proof. split; vm_compute; reflexivity. Qed.
  Example oneof_to_nil_ok :
    copy_to std_hook_to m_one (GStruct [("PO", GPtr None)]) (VObj (msg_ty m_one) false false None)
    = Ok (VObj (msg_ty m_one) false false
               (Some [("a", VPrim KStr true false (PStr "")); ("b", VObj [("w", TyPrim KStr)] true false (Some []))]), []).
  Proof. vm_compute. reflexivity. Qed.
  Example oneof_from_allocates :
    copy_from std_hook_from m_one
              (VObj (msg_ty m_one) false false (Some [("a", VPrim KStr false false (PStr "w"))])) (GStruct [("PO", GPtr None)])
    = Ok (GStruct [("PO", GPtr (Some (GStruct [("Kind", GOneof (Some ("A", GPrim (PStr "w"))))])))],
          [(ReadMissing, "Outer3.b")]).
  Proof. vm_compute. reflexivity. Qed.

  (* ---- the hypotheses of the theorems hold on the example, and what they give ---- *)

  Example zeros_hold : emb_zeros m.
  Proof.
    split.
    - intros f p z If P. exists [("S", GPrim (PStr "")); ("L", GSlice None); ("N", GPtr None); ("V", inn "");
                                 ("Mm", GMap None); ("T", GPtr None)].
      repeat (destruct If as [<-|If]; [vm_compute in P; try discriminate P; inversion P; subst p z;
                                       (split; [reflexivity|]); intros x Hx; vm_compute in Hx |- *; tauto|]).
      destruct If.
    - repeat apply Forall_cons; try apply Forall_nil; cbn [fzeros_ok]; try exact I.
      all: split; [|cbn; tauto].
      all: eexists; split; [reflexivity|]; split; [intros h []|]; intros f [<-|[]]; cbn; tauto.
  Qed.

  Example keys_hold : emb_keys m o_set /\ emb_keys m o_nil /\ emb_keys m (m_zero m).
  Proof.
    assert (K : forall pv, emb_keys m (GStruct [("X", GPrim (PInt 7)); ("P", pv)])).
    { intros pv. eexists. split; [reflexivity|]. split; [intros h []|]. split.
      - intros f If P. repeat (destruct If as [<-|If]; [vm_compute in P |- *; try discriminate P; tauto|]). destruct If.
      - intros p Ip. vm_compute in Ip |- *. tauto. }
    split; [apply K|]. split; [apply K|].
    eexists. split; [reflexivity|]. split; [intros h []|]. split.
    - intros f If P. repeat (destruct If as [<-|If]; [vm_compute in P |- *; try discriminate P; tauto|]). destruct If.
    - intros p Ip. vm_compute in Ip |- *. tauto.
  Qed.

  (* observed: the embedded pointer nil *)
  Example to_nil :
    copy_to std_hook_to m o_nil empty_tf
    = Ok (VObj (msg_ty m) false false
               (Some [("x", VPrim KI64 false false (PInt 7));
                      ("s", VPrim KStr true false (PStr ""));
                      ("l", VList (TyPrim KI64) true false (Some []));
                      ("n", VObj [("a", TyPrim KStr)] true false (Some []));
                      ("v", VObj [("a", TyPrim KStr)] false false (Some [("a", VPrim KStr true false (PStr ""))]));
                      ("mm", VMap (TyObj [("a", TyPrim KStr)]) true false (Some []));
                      ("t", VPrim KTime true false (PTime (-62135596800) 0 0))]), []).
  Proof. vm_compute. reflexivity. Qed.

  (* a set embedded pointer whose fields are all zero renders as the nil one: the normal form *)
  Example to_zero_is_to_nil : copy_to std_hook_to m o_zero empty_tf = copy_to std_hook_to m o_nil empty_tf.
  Proof. vm_compute. reflexivity. Qed.

  Definition tf_of (o : goval) : tfval :=
    match copy_to std_hook_to m o empty_tf with Ok (v, _) => v | Panic => VNil end.

  (* the message by value is not null under the nil pointer: CopyFrom of CopyTo of the nil pointer
     allocates the embedded struct *)
  Example from_nil_allocates_for_value_message :
    copy_from std_hook_from m (tf_of o_nil) o_set = Ok (o_zero, []).
  Proof. vm_compute. reflexivity. Qed.

  Example from_set_round_trip : copy_from std_hook_from m (tf_of o_set) (m_zero m) = Ok (o_set, []).
  Proof. vm_compute. reflexivity. Qed.

  (* all promoted attributes null: reset, whatever the target held *)
  Definition tf_nulls : tfval :=
    VObj (msg_ty m) false false
         (Some [("x", VPrim KI64 false false (PInt 1)); ("s", VPrim KStr true false (PStr ""));
                ("l", VList (TyPrim KI64) true false None); ("n", VObj [("a", TyPrim KStr)] true false None);
                ("v", VObj [("a", TyPrim KStr)] false true None); ("t", VPrim KTime true false (PTime 0 0 0))]).
  Example from_nulls_resets :
    copy_from std_hook_from m tf_nulls o_set
    = Ok (GStruct [("X", GPrim (PInt 1)); ("P", GPtr None)], [(ReadMissing, "Outer.mm")]).
  Proof. vm_compute. reflexivity. Qed.

  (* one known, empty list: allocated *)
  Definition tf_list : tfval :=
    VObj (msg_ty m) false false
         (Some [("s", VPrim KStr true false (PStr "")); ("l", VList (TyPrim KI64) false false (Some []))]).
  Example from_list_allocates :
    exists ps ds, copy_from std_hook_from m tf_list (m_zero m)
                  = Ok (GStruct [("X", GPrim (PInt 0)); ("P", GPtr (Some (GStruct ps)))], ds)
                  /\ lookup "L" ps = Some (GSlice (Some [])).
  Proof. do 2 eexists. split; vm_compute; reflexivity. Qed.

  (* the theorems, instantiated *)
  Example thm_to_nil : exists attrs, copy_to std_hook_to m o_nil empty_tf = Ok (VObj (msg_ty m) false false (Some attrs), []).
  Proof. exact (copy_to_total_embedded_partial std_hook_to m o_nil m_ok nil_typed). Qed.
  Example thm_to_set : exists attrs, copy_to std_hook_to m o_set empty_tf = Ok (VObj (msg_ty m) false false (Some attrs), []).
  Proof. exact (copy_to_total_embedded_partial std_hook_to m o_set m_ok set_typed). Qed.
  Example thm_from hook a n u at0 :
    attrs_typed at0 = true -> exists obj' ds, copy_from hook m (VObj a n u at0) o_set = Ok (obj', ds) /\ emb_keys m obj'.
  Proof. intros T. exact (copy_from_total_embedded_partial hook m a n u at0 o_set m_ok zeros_hold T (proj1 keys_hold)). Qed.

  (* C: a message whose embedded struct holds one scalar *)
  Definition d_outer4 : mdesc :=
    {| md_name := "Outer4"; md_comment := ""; md_oneofs := [];
       md_fields := [fd "x" 1 (PScalar SInt32) false None false None;
                     fd "q" 2 (PMsg "Q") false (Some true) true None;
                     fd "y" 3 (PScalar SBool) false None false None] |}.
  Definition m_c : message :=
    Eval vm_compute in
      match build_message (obs_of cfg) [d_q; d_outer4] 5 d_outer4 "Outer4" with BOk m => m | _ => dummy end.
  Definition c_val (pv : goval) : list (string * goval) := [("X", GPrim (PInt 1)); ("Q", pv); ("Y", GPrim (PBool true))].
  Definition w_field : field :=
    Eval vm_compute in match m_fields m_c with _ :: f :: _ => f | _ => Field (f_info (hd (placeholder_field "") [])) None end.

  Example c_ok : emb_ok m_c = true /\ In w_field (m_fields m_c)
                 /\ fi_parent (f_info w_field) = Some ("Q", GStruct [("W", GPrim (PStr ""))]).
  Proof. split; [vm_compute; reflexivity|]. split; [right; left; reflexivity|reflexivity]. Qed.

  Example c_typed s : emb_typed m_c (GStruct (c_val (GPtr (Some (GStruct [("W", GPrim (PStr s))]))))).
  Proof.
    eexists. split; [reflexivity|].
    repeat apply Forall_cons; try apply Forall_nil; unfold eftyped; cbn [f_info f_msg fi_via].
    - cbn. eexists. split; reflexivity.
    - right. eexists. split; [reflexivity|]. cbn. eexists. split; reflexivity.
    - cbn. eexists. split; reflexivity.
  Qed.

  Example c_round_trip_value :
    copy_from std_hook_from m_c
      (match copy_to std_hook_to m_c (GStruct (c_val (GPtr (Some (GStruct [("W", GPrim (PStr "w"))])))))
                     (VObj (msg_ty m_c) false false None) with Ok (v, _) => v | Panic => VNil end)
      (GStruct (c_val (GPtr None)))
    = Ok (GStruct (c_val (GPtr (Some (GStruct [("W", GPrim (PStr "w"))])))), []).
  Proof. vm_compute. reflexivity. Qed.

  Example c_round_trip_zero_normalises :
    copy_from std_hook_from m_c
      (match copy_to std_hook_to m_c (GStruct (c_val (GPtr (Some (GStruct [("W", GPrim (PStr ""))])))))
                     (VObj (msg_ty m_c) false false None) with Ok (v, _) => v | Panic => VNil end)
      (GStruct (c_val (GPtr (Some (GStruct [("W", GPrim (PStr "old"))])))))
    = Ok (GStruct (c_val (GPtr None)), []).
  Proof. vm_compute. reflexivity. Qed.
End EmbExample.

Print Assumptions copy_to_total_embedded_partial.
Print Assumptions copy_to_conforms_embedded_partial.
Print Assumptions copy_to_nil_parent_renders_null.
Print Assumptions copy_from_total_embedded_partial.
Print Assumptions copy_from_parent_state.
Print Assumptions copy_from_allocates_parent.
Print Assumptions copy_from_resets_parent.
Print Assumptions copy_to_promoted_scalar.
Print Assumptions promoted_scalar_round_trip_partial.
