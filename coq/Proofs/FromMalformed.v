(* C06, CopyFrom direction, at the level of the message: "each attribute missing from the object
   produces exactly one error diagnostic that names the field's path, an attribute or element of the
   wrong type produces a conversion error diagnostic, and all well-formed attributes are still
   copied", for the model of Copy<T>FromTerraform (Model/CopyFrom.v).

   What the model does (established by computation, FromMalformedExample, and by the theorems):
   - a missing attribute gives (ReadMissing, path of the field) for EVERY field which is not the
     placeholder: all kinds, custom types included (the hook is still called, with nil), oneof
     branches included, promoted fields included; no condition on the message, the object or the
     target (copy_from_missing_reported).  An object without attribute list (VObj _ _ _ None) reports
     every field (copy_from_nil_attrs_all_reported); the null/unknown flags of the object are never
     looked at;
   - an attribute whose constructor is not the one of the field's kind (PriorProofs.shaped is
     false: VNil, a scalar of another kind, a list for a map, ...) gives (ReadConv, path) and leaves
     the target alone, for the six kinds which are not custom types, oneof branches included
     (copy_from_wrong_kind_reported, from_field_wrong_kind).  A custom type reports nothing by
     itself (from_field_custom_present);
   - the diagnostics only grow (from_fields_diag_mono), every new one is a ReadMissing or a
     ReadConv under the path of a field of the message or of a nested message
     (copy_from_only_read_diags), and they are pairwise distinct (copy_from_diags_nodup: "exactly
     one"; Diagnostics.Append de-duplicates, so that two fields with the same path, or two bad
     elements of one list, give ONE diagnostic);
   - what is read does not depend on the diagnostics gathered so far (from_fields_sv);
   - the content of a Go key after CopyFrom depends on the attributes of the fields which write
     this key only, and on what the key held before (from_fields_key_local); on the class dl_ok
     (fields reached directly, oneof holders listed, Go keys distinct; custom types allowed) this
     gives: damage to the attributes K leaves every field outside K, and every oneof without a
     branch in K, as read from the intact object (copy_from_damage_is_local_partial,
     copy_from_deletions_local_partial); one level down for message fields
     (from_field_nested_damage_local).
   All statements are partial-correctness statements (the runs are assumed to return); that they do
   return is CopyFromProofs.copy_from_total_partial (copy_from_deletions_total_partial). *)
From Coq Require Import List String Bool ZArith Lia.
From PGT Require Import Base.Strs Base.AList Model.Vals Model.IR Model.CopyFrom Model.CopyTo.
From PGT Require Import Proofs.CopyToProofs Proofs.CopyFromProofs Proofs.CopyToTotal Proofs.MsgRoundTrip
     Proofs.PriorProofs Proofs.PrunedTargets.
Import ListNotations.

(* ------------------------------------------------------------------------------------- *)
(* 1. the paths a run of CopyFrom may name *)

Fixpoint msg_paths (m : message) : list string :=
  match m with
  | Msg _ fs _ _ _ _ =>
      (fix go (l : list field) : list string :=
         match l with
         | [] => []
         | f :: r => (if fi_placeholder (f_info f) then [] else fpaths f) ++ go r
         end) fs
  end
with fpaths (f : field) : list string :=
  match f with
  | Field i om => fi_path i :: match om with Some m' => msg_paths m' | None => [] end
  end.

Definition live_paths (f : field) : list string := if fi_placeholder (f_info f) then [] else fpaths f.

Lemma msg_paths_eq n fs os inj e z : msg_paths (Msg n fs os inj e z) = flat_map live_paths fs.
Proof. cbn [msg_paths]. induction fs as [|f r IH]; [reflexivity|]. cbn [flat_map]. now rewrite IH. Qed.

(* ------------------------------------------------------------------------------------- *)
(* 2. one invariant of the run, for a preorder on the lists of diagnostics indexed by the paths
   which may be named *)

Definition read_kind (k : dkind) : Prop := k = ReadMissing \/ k = ReadConv.

Section Diags.
  Variable hook : hook_from_t.
  Variable R : list string -> list diag -> list diag -> Prop.
  Hypothesis R_refl : forall P a, R P a a.
  Hypothesis R_trans : forall P a b c, R P a b -> R P b c -> R P a c.
  Hypothesis R_weaken : forall P P' a b, incl P P' -> R P a b -> R P' a b.
  Hypothesis R_step : forall P a k p, read_kind k -> In p P -> R P a (diag_append a (k, p)).

  Definition field_R (f : field) : Prop :=
    forall attrs obj ds obj' ds',
      from_field hook f attrs (obj, ds) = Ok (obj', ds') -> R (fpaths f) ds ds'.

  Definition msg_R (m : message) : Prop :=
    forall attrs obj ds obj' ds',
      from_fields hook m attrs (obj, ds) = Ok (obj', ds') -> R (msg_paths m) ds ds'.

  Lemma fold_left_R {A B} (F : res (B * list diag) -> A -> res (B * list diag)) P l :
    (forall x, F Panic x = Panic) ->
    (forall x b d b' d', In x l -> F (Ok (b, d)) x = Ok (b', d') -> R P d d') ->
    forall b d b' d', fold_left F l (Ok (b, d)) = Ok (b', d') -> R P d d'.
  Proof.
    intros HP. induction l as [|x r IH]; intros HF b d b' d' H; cbn [fold_left] in H.
    - injection H as _ <-. apply R_refl.
    - destruct (F (Ok (b, d)) x) as [[b1 d1]|] eqn:E.
      + apply (R_trans _ _ d1); [apply (HF x b d b1 d1 (or_introl eq_refl) E)|].
        apply (IH (fun y c e c' e' Hy => HF y c e c' e' (or_intror Hy)) b1 d1 b' d' H).
      + exfalso. clear -H HP. assert (X : forall l, fold_left F l Panic = Panic).
        { induction l as [|y l IH]; [reflexivity|]. cbn [fold_left]. rewrite HP. exact IH. }
        rewrite X in H. discriminate H.
  Qed.

  Ltac Rfin :=
    repeat match goal with
           | |- R _ ?a ?a => apply R_refl
           | |- R _ _ (match ?x with _ => _ end) => destruct x
           | |- R _ ?a (diag_append ?a (_, _)) => apply R_step; [first [now left|now right]|now left]
           | H : R _ ?a ?b |- R _ ?a ?b => exact H
           | H : R _ ?a ?b |- R _ ?a (diag_append ?b (_, _)) =>
               apply (R_trans _ _ b); [exact H|apply R_step; [first [now left|now right]|now left]]
           end.

  Lemma from_field_R i om :
    (forall m', om = Some m' -> msg_R m') -> field_R (Field i om).
  Proof.
    intros DEC attrs obj ds obj' ds'.
    assert (DEC' : forall m' at0 o d o' d', om = Some m' ->
                     from_fields hook m' at0 (o, d) = Ok (o', d') -> R (fpaths (Field i om)) d d').
    { intros m' at0 o d o' d' E H. apply (R_weaken (msg_paths m')).
      - subst om. cbn [fpaths]. intros p Hp. now right.
      - exact (DEC m' E _ _ _ _ _ H). }
    clear DEC. cbn [from_field]. fold (from_fields hook).
    repeat stepg.
    all: repeat (Rfin;
                 match goal with
                 | H : fold_left _ _ (Ok (_, _)) = Ok (_, _) |- _ =>
                     eapply (fun hp hf => fold_left_R _ _ _ hp hf _ _ _ _ H); clear H;
                     [intros x1; reflexivity|intros x1 b1 d1 b1' d1' _; cbn [bind]; repeat stepg]
                 | H : (if m_empty ?m then _ else _) = Ok _ |- _ =>
                     destruct (m_empty m); [inversion H; subst; clear H|]
                 | H : from_fields hook _ _ (_, _) = Ok (_, _) |- _ =>
                     eapply DEC' in H; [|first [reflexivity|eassumption]]
                 | H : (match _ with _ => _ end) = Ok _ |- _ => revert H; repeat stepg; intros
                 | H : bind _ _ = Ok _ |- _ => revert H; repeat stepg; intros
                 | H : Ok _ = Ok _ |- _ => inversion H; subst; clear H
                 end).
    all: Rfin.
  Qed.

  Lemma from_field_list_R fs :
    Forall field_R fs -> forall attrs obj ds obj' ds',
      from_field_list hook fs attrs (obj, ds) = Ok (obj', ds') -> R (flat_map live_paths fs) ds ds'.
  Proof.
    induction 1 as [|f r Hf Hr IH]; intros attrs obj ds obj' ds' H; cbn [from_field_list] in H.
    - injection H as _ <-. apply R_refl.
    - cbn [flat_map]. unfold live_paths at 1. destruct (fi_placeholder (f_info f)).
      + cbn [app]. exact (IH _ _ _ _ _ H).
      + destruct (from_field hook f attrs (obj, ds)) as [[o1 d1]|] eqn:E; cbn [bind] in H; [|discriminate H].
        apply (R_trans _ _ d1).
        * apply (R_weaken (fpaths f)); [intros p Hp; apply in_or_app; now left|exact (Hf _ _ _ _ _ E)].
        * apply (R_weaken (flat_map live_paths r)); [intros p Hp; apply in_or_app; now right|exact (IH _ _ _ _ _ H)].
  Qed.

  Lemma msg_R_of_fields n fs os inj e z : Forall field_R fs -> msg_R (Msg n fs os inj e z).
  Proof.
    intros IH attrs obj ds obj' ds' H. rewrite msg_paths_eq. rewrite from_fields_unfold in H. cbn [fst snd] in H.
    destruct (fold_res reset_oneof os obj) as [o1|]; cbn [bind] in H; [|discriminate H].
    destruct (fold_res reset_promoted fs o1) as [o2|]; cbn [bind] in H; [|discriminate H].
    destruct (fold_res reset_parent fs o2) as [o3|]; cbn [bind] in H; [|discriminate H].
    exact (from_field_list_R fs IH _ _ _ _ _ H).
  Qed.

  Theorem R_mutual : forall m, msg_R m.
  Proof.
    apply (message_ind' field_R msg_R).
    - intros i. apply from_field_R. intros m' E. discriminate E.
    - intros i m IH. apply from_field_R. intros m' E. injection E as <-. exact IH.
    - exact msg_R_of_fields.
  Qed.

  Theorem R_field_all : forall f, field_R f.
  Proof.
    apply (field_ind' field_R msg_R).
    - intros i. apply from_field_R. intros m' E. discriminate E.
    - intros i m IH. apply from_field_R. intros m' E. injection E as <-. exact IH.
    - exact msg_R_of_fields.
  Qed.

  Lemma from_field_list_R_all fs attrs obj ds obj' ds' :
    from_field_list hook fs attrs (obj, ds) = Ok (obj', ds') -> R (flat_map live_paths fs) ds ds'.
  Proof. apply from_field_list_R. apply Forall_forall. intros f _. apply R_field_all. Qed.
End Diags.

(* ------------------------------------------------------------------------------------- *)
(* 3. the instances *)

Lemma diag_eqb_refl (d : diag) : diag_eqb d d = true.
Proof. destruct d as [k p]. unfold diag_eqb. cbn [fst snd]. rewrite String.eqb_refl. now destruct k. Qed.

Lemma In_diag_mem d l : In d l -> diag_mem d l = true.
Proof.
  induction l as [|x r IH]; cbn [diag_mem]; intros H; [destruct H|].
  destruct H as [<-|H]; [now rewrite diag_eqb_refl|]. rewrite (IH H). apply orb_true_r.
Qed.

Lemma NoDup_diag_append l d : NoDup l -> NoDup (diag_append l d).
Proof.
  intros N. unfold diag_append. destruct (diag_mem d l) eqn:E; [exact N|].
  apply NoDup_app_intro; [exact N|constructor; [intros []|constructor]|].
  intros x Hx [<-|[]]. rewrite (In_diag_mem _ _ Hx) in E. discriminate E.
Qed.

(* 1. diagnostics are never lost: any message, any object, any target *)
Theorem from_fields_diag_mono hook m attrs obj ds obj' ds' :
  from_fields hook m attrs (obj, ds) = Ok (obj', ds') -> forall d, In d ds -> In d ds'.
Proof.
  intros H.
  apply (R_mutual hook (fun _ a b => forall d, In d a -> In d b)) with (m := m) (attrs := attrs) (obj := obj) (obj' := obj').
  - intros _ a d I. exact I.
  - intros _ a b c H1 H2 d I. exact (H2 d (H1 d I)).
  - intros _ _ a b _ H1. exact H1.
  - intros _ a k p _ _ d I. now apply In_diag_append_old.
  - exact H.
Qed.

Lemma from_field_list_diag_mono hook fs attrs obj ds obj' ds' :
  from_field_list hook fs attrs (obj, ds) = Ok (obj', ds') -> forall d, In d ds -> In d ds'.
Proof.
  intros H.
  apply (from_field_list_R_all hook (fun _ a b => forall d, In d a -> In d b)) with (fs := fs) (attrs := attrs) (obj := obj) (obj' := obj').
  - intros _ a d I. exact I.
  - intros _ a b c H1 H2 d I. exact (H2 d (H1 d I)).
  - intros _ _ a b _ H1. exact H1.
  - intros _ a k p _ _ d I. now apply In_diag_append_old.
  - exact H.
Qed.

(* 4. every new diagnostic is a ReadMissing or a ReadConv and names the path of a field of the
   message or of a message nested in it (placeholders excluded): any message, any object *)
Theorem from_fields_only_read_diags hook m attrs obj ds obj' ds' :
  from_fields hook m attrs (obj, ds) = Ok (obj', ds') ->
  forall d, In d ds' -> In d ds \/ (read_kind (fst d) /\ In (snd d) (msg_paths m)).
Proof.
  intros H.
  apply (R_mutual hook (fun P a b => forall d, In d b -> In d a \/ (read_kind (fst d) /\ In (snd d) P)))
    with (m := m) (attrs := attrs) (obj := obj) (obj' := obj').
  - intros P a d I. now left.
  - intros P a b c H1 H2 d I. destruct (H2 d I) as [I2|I2]; [exact (H1 d I2)|now right].
  - intros P P' a b HI H1 d I. destruct (H1 d I) as [I1|[I1 I2]]; [now left|right]. split; [exact I1|exact (HI _ I2)].
  - intros P a k p HK HP d I. apply In_diag_append_inv in I. destruct I as [I|E]; [now left|right]. subst d. now split.
  - exact H.
Qed.

(* the diagnostics stay pairwise distinct: "exactly one" *)
Theorem from_fields_diag_nodup hook m attrs obj ds obj' ds' :
  from_fields hook m attrs (obj, ds) = Ok (obj', ds') -> NoDup ds -> NoDup ds'.
Proof.
  intros H.
  apply (R_mutual hook (fun _ a b => NoDup a -> NoDup b)) with (m := m) (attrs := attrs) (obj := obj) (obj' := obj').
  - intros _ a N. exact N.
  - intros _ a b c H1 H2 N. exact (H2 (H1 N)).
  - intros _ _ a b _ H1. exact H1.
  - intros _ a k p _ _ N. now apply NoDup_diag_append.
  - exact H.
Qed.

(* ------------------------------------------------------------------------------------- *)
(* 4. what one field reports *)

(* a missing attribute: every kind of field, custom types included, oneof branches included,
   fields promoted from embedded messages included; nothing is asked of the message *)
Lemma from_field_missing hook f attrs obj ds obj' ds' :
  from_field hook f attrs (obj, ds) = Ok (obj', ds') ->
  lookup (fi_snake (f_info f)) (attrs_list attrs) = None ->
  In (ReadMissing, fi_path (f_info f)) ds'.
Proof.
  destruct f as [i om]. cbn [f_info from_field]. rewrite attr_lookup_eq. intros H L. revert H. rewrite L.
  destruct (fi_kind i); repeat stepg; apply In_diag_append_self.
Qed.

(* ... and the target is left as it was, but for a custom type, whose hook is called with nil *)
Lemma from_field_missing_keeps hook f attrs obj ds obj' ds' :
  from_field hook f attrs (obj, ds) = Ok (obj', ds') ->
  lookup (fi_snake (f_info f)) (attrs_list attrs) = None -> fi_kind (f_info f) <> CustomKind ->
  obj' = obj /\ ds' = diag_append ds (ReadMissing, fi_path (f_info f)).
Proof.
  destruct f as [i om]. cbn [f_info from_field]. rewrite attr_lookup_eq. intros H L NC. revert H. rewrite L.
  destruct (fi_kind i); try congruence; repeat stepg; split; reflexivity.
Qed.

(* an attribute whose constructor is not the one of the field's kind (VNil and a value of another
   primitive kind included): every kind but the custom types, oneof branches included *)
Lemma from_field_wrong_kind hook i om attrs obj ds obj' ds' x :
  from_field hook (Field i om) attrs (obj, ds) = Ok (obj', ds') ->
  lookup (fi_snake i) (attrs_list attrs) = Some x -> shaped i x = false -> fi_kind i <> CustomKind ->
  obj' = obj /\ ds' = diag_append ds (ReadConv, fi_path i).
Proof.
  cbn [from_field]. rewrite attr_lookup_eq. intros H L HS NC. revert H. rewrite L. unfold shaped in HS. unfold as_prim.
  destruct (fi_kind i); try congruence; destruct x; try discriminate HS; rewrite ?HS; repeat stepg; split; reflexivity.
Qed.

(* a custom type never reports a conversion error by itself: the hook decides *)
Lemma from_field_custom_present hook i om attrs obj ds obj' ds' x :
  from_field hook (Field i om) attrs (obj, ds) = Ok (obj', ds') ->
  lookup (fi_snake i) (attrs_list attrs) = Some x -> fi_kind i = CustomKind -> ds' = ds.
Proof.
  cbn [from_field]. rewrite attr_lookup_eq. intros H L K. revert H. rewrite L, K. repeat stepg. reflexivity.
Qed.

(* (an ELEMENT of the wrong constructor gives one ReadConv under the path of the FIELD, the list
   element reads as the zero value and the map entry is dropped: FromMalformedExample.elements,
   computed; not stated as a theorem here) *)

(* ------------------------------------------------------------------------------------- *)
(* 5. the message *)

Lemma from_fields_field_split hook m attrs obj ds obj' ds' f :
  from_fields hook m attrs (obj, ds) = Ok (obj', ds') -> In f (m_fields m) -> fi_placeholder (f_info f) = false ->
  exists o1 d1 o2 d2, from_field hook f attrs (o1, d1) = Ok (o2, d2)
                      /\ (forall d, In d ds -> In d d1) /\ (forall d, In d d2 -> In d ds').
Proof.
  destruct m as [n fs os inj e z]. cbn [m_fields]. rewrite from_fields_unfold. cbn [fst snd]. intros H I PH.
  destruct (fold_res reset_oneof os obj) as [o1|]; cbn [bind] in H; [|discriminate H].
  destruct (fold_res reset_promoted fs o1) as [o2|]; cbn [bind] in H; [|discriminate H].
  destruct (fold_res reset_parent fs o2) as [o3|]; cbn [bind] in H; [|discriminate H].
  destruct (in_split _ _ I) as (l1 & l2 & EQ). rewrite EQ in H. rewrite from_field_list_app in H.
  destruct (from_field_list hook l1 attrs (o3, ds)) as [[o4 d4]|] eqn:E1; cbn [bind] in H; [|discriminate H].
  cbn [from_field_list] in H. rewrite PH in H.
  destruct (from_field hook f attrs (o4, d4)) as [[o5 d5]|] eqn:E2; cbn [bind] in H; [|discriminate H].
  exists o4, d4, o5, d5. split; [exact E2|]. split.
  - exact (from_field_list_diag_mono _ _ _ _ _ _ _ E1).
  - exact (from_field_list_diag_mono _ _ _ _ _ _ _ H).
Qed.

(* 2. each missing attribute is reported under the path of its field: any message (custom types,
   oneof branches, promoted fields), any object, any target *)
Theorem from_fields_missing_reported hook m attrs obj ds obj' ds' f :
  from_fields hook m attrs (obj, ds) = Ok (obj', ds') ->
  In f (m_fields m) -> fi_placeholder (f_info f) = false ->
  lookup (fi_snake (f_info f)) (attrs_list attrs) = None ->
  In (ReadMissing, fi_path (f_info f)) ds'.
Proof.
  intros H I PH L. destruct (from_fields_field_split _ _ _ _ _ _ _ _ H I PH) as (o1 & d1 & o2 & d2 & E & _ & M).
  apply M. exact (from_field_missing _ _ _ _ _ _ _ E L).
Qed.

Theorem copy_from_missing_reported hook m a n u attrs prior g ds f :
  copy_from hook m (VObj a n u (Some attrs)) prior = Ok (g, ds) ->
  In f (m_fields m) -> fi_placeholder (f_info f) = false ->
  lookup (fi_snake (f_info f)) attrs = None ->
  In (ReadMissing, fi_path (f_info f)) ds.
Proof. cbn [copy_from]. intros H. exact (from_fields_missing_reported _ _ _ _ _ _ _ _ H). Qed.

(* an object without attribute list (null, or built by hand): every field is reported *)
Theorem copy_from_nil_attrs_all_reported hook m a n u prior g ds f :
  copy_from hook m (VObj a n u None) prior = Ok (g, ds) ->
  In f (m_fields m) -> fi_placeholder (f_info f) = false ->
  In (ReadMissing, fi_path (f_info f)) ds.
Proof. cbn [copy_from]. intros H I PH. exact (from_fields_missing_reported _ _ _ _ _ _ _ _ H I PH eq_refl). Qed.

(* 3. each attribute of the wrong constructor is reported as a conversion error under the path of
   its field, for every kind but the custom types *)
Theorem from_fields_wrong_kind_reported hook m attrs obj ds obj' ds' f x :
  from_fields hook m attrs (obj, ds) = Ok (obj', ds') ->
  In f (m_fields m) -> fi_placeholder (f_info f) = false -> fi_kind (f_info f) <> CustomKind ->
  lookup (fi_snake (f_info f)) (attrs_list attrs) = Some x -> shaped (f_info f) x = false ->
  In (ReadConv, fi_path (f_info f)) ds'.
Proof.
  intros H I PH NC L HS. destruct (from_fields_field_split _ _ _ _ _ _ _ _ H I PH) as (o1 & d1 & o2 & d2 & E & _ & M).
  apply M. destruct f as [i om]. cbn [f_info] in *.
  destruct (from_field_wrong_kind _ _ _ _ _ _ _ _ _ E L HS NC) as [_ ->]. apply In_diag_append_self.
Qed.

Theorem copy_from_wrong_kind_reported hook m a n u attrs prior g ds f x :
  copy_from hook m (VObj a n u (Some attrs)) prior = Ok (g, ds) ->
  In f (m_fields m) -> fi_placeholder (f_info f) = false -> fi_kind (f_info f) <> CustomKind ->
  lookup (fi_snake (f_info f)) attrs = Some x -> shaped (f_info f) x = false ->
  In (ReadConv, fi_path (f_info f)) ds.
Proof. cbn [copy_from]. intros H. exact (from_fields_wrong_kind_reported _ _ _ _ _ _ _ _ _ H). Qed.

(* 4. *)
Theorem copy_from_only_read_diags hook m t prior g ds :
  copy_from hook m t prior = Ok (g, ds) ->
  forall d, In d ds -> (fst d = ReadMissing \/ fst d = ReadConv) /\ In (snd d) (msg_paths m).
Proof.
  destruct t; try discriminate. cbn [copy_from]. intros H d I.
  destruct (from_fields_only_read_diags _ _ _ _ _ _ _ H d I) as [[]|X]. exact X.
Qed.

Theorem copy_from_diags_nodup hook m t prior g ds :
  copy_from hook m t prior = Ok (g, ds) -> NoDup ds.
Proof.
  destruct t; try discriminate. cbn [copy_from]. intros H.
  apply (from_fields_diag_nodup _ _ _ _ _ _ _ H). constructor.
Qed.

(* ------------------------------------------------------------------------------------- *)
(* 6. what is read does not depend on the diagnostics gathered so far: two runs from the same
   target which differ in the incoming diagnostics panic together or return the same struct; any
   message *)

Definition sv {A} (r1 r2 : res (A * list diag)) : Prop :=
  match r1, r2 with
  | Ok (x, _), Ok (y, _) => x = y
  | Panic, Panic => True
  | _, _ => False
  end.

Lemma fold_left_panic_gen {A B} (F : res B -> A -> res B) l :
  (forall x, F Panic x = Panic) -> fold_left F l Panic = Panic.
Proof. intros HP. induction l as [|y l IH]; [reflexivity|]. cbn [fold_left]. rewrite HP. exact IH. Qed.

Lemma fold_left_sv {A B} (F : res (B * list diag) -> A -> res (B * list diag)) l :
  (forall x, F Panic x = Panic) ->
  (forall x b d1 d2, In x l -> sv (F (Ok (b, d1)) x) (F (Ok (b, d2)) x)) ->
  forall b d1 d2, sv (fold_left F l (Ok (b, d1))) (fold_left F l (Ok (b, d2))).
Proof.
  intros HP. induction l as [|x r IH]; intros HF b d1 d2; cbn [fold_left].
  - reflexivity.
  - pose proof (HF x b d1 d2 (or_introl eq_refl)) as H.
    destruct (F (Ok (b, d1)) x) as [[b1 e1]|], (F (Ok (b, d2)) x) as [[b2 e2]|]; cbn [sv] in H; try contradiction.
    + subst b2. apply IH. intros y c e1' e2' Hy. apply HF. now right.
    + rewrite !(fold_left_panic_gen F r HP). exact I.
Qed.

Lemma bind_assoc {A B C} (x : res A) (k1 : A -> res B) (k2 : B -> res C) :
  bind (bind x k1) k2 = bind x (fun a => bind (k1 a) k2).
Proof. now destruct x. Qed.

Ltac inner x :=
  lazymatch x with
  | match ?y with _ => _ end => inner y
  | _ => destruct x
  end.

Section SameValue.
  Variable hook : hook_from_t.

  Definition msg_sv (m : message) : Prop :=
    forall attrs obj d1 d2, sv (from_fields hook m attrs (obj, d1)) (from_fields hook m attrs (obj, d2)).
  Definition field_sv (f : field) : Prop :=
    forall attrs obj d1 d2, sv (from_field hook f attrs (obj, d1)) (from_field hook f attrs (obj, d2)).

  Ltac sv_step D :=
    match goal with
    | |- sv Panic Panic => exact I
    | |- sv (Ok (_, _)) (Ok (_, _)) => cbn [sv]; reflexivity
    | |- sv (bind (bind _ _) _) _ => rewrite !bind_assoc
    | |- sv (bind (from_fields hook ?m ?at0 (?z, ?d1)) _) (bind (from_fields hook ?m ?at0 (?z, ?d2)) _) =>
        let S := fresh "S" in
        pose proof (D at0 z d1 d2) as S;
        destruct (from_fields hook m at0 (z, d1)) as [[? ?]|], (from_fields hook m at0 (z, d2)) as [[? ?]|];
        cbn [sv] in S; try contradiction; try subst; cbn [bind]
    | |- sv (bind (fold_left ?F ?l (Ok (?b, ?d1))) _) (bind (fold_left ?F ?l (Ok (?b, ?d2))) _) =>
        let S := fresh "S" in
        assert (S : sv (fold_left F l (Ok (b, d1))) (fold_left F l (Ok (b, d2))));
        [apply fold_left_sv; [intros ?; reflexivity|intros ? ? ? ? _; cbn [bind]]
        |destruct (fold_left F l (Ok (b, d1))) as [[? ?]|], (fold_left F l (Ok (b, d2))) as [[? ?]|];
         cbn [sv] in S; try contradiction; try subst; cbn [bind]]
    | |- sv (bind ?x _) _ => inner x; cbn [bind]
    | |- sv (match ?x with _ => _ end) _ => inner x; cbn [bind]
    end.

  Lemma from_field_sv i om : (forall m', om = Some m' -> msg_sv m') -> field_sv (Field i om).
  Proof.
    intros DEC attrs obj d1 d2. cbn [from_field]. fold (from_fields hook).
    destruct om as [m'|]; [pose proof (DEC m' eq_refl) as D|pose proof I as D]; clear DEC;
      destruct (fi_kind i); repeat sv_step D.
  Qed.

  Lemma from_field_list_sv fs :
    Forall field_sv fs -> forall attrs obj d1 d2,
      sv (from_field_list hook fs attrs (obj, d1)) (from_field_list hook fs attrs (obj, d2)).
  Proof.
    induction 1 as [|f r Hf Hr IH]; intros attrs obj d1 d2; cbn [from_field_list].
    - reflexivity.
    - destruct (fi_placeholder (f_info f)); [apply IH|].
      pose proof (Hf attrs obj d1 d2) as S.
      destruct (from_field hook f attrs (obj, d1)) as [[o1 e1]|], (from_field hook f attrs (obj, d2)) as [[o2 e2]|];
        cbn [sv] in S; try contradiction; cbn [bind]; [|exact I].
      subst o2. apply IH.
  Qed.

  Lemma msg_sv_of_fields n fs os inj e z : Forall field_sv fs -> msg_sv (Msg n fs os inj e z).
  Proof.
    intros IH attrs obj d1 d2. rewrite !from_fields_unfold. cbn [fst snd].
    destruct (fold_res reset_oneof os obj) as [o1|]; cbn [bind]; [|exact I].
    destruct (fold_res reset_promoted fs o1) as [o2|]; cbn [bind]; [|exact I].
    destruct (fold_res reset_parent fs o2) as [o3|]; cbn [bind]; [|exact I].
    now apply from_field_list_sv.
  Qed.

  Theorem from_fields_sv : forall m, msg_sv m.
  Proof.
    apply (message_ind' field_sv msg_sv).
    - intros i. apply from_field_sv. intros m' E. discriminate E.
    - intros i m IH. apply from_field_sv. intros m' E. injection E as <-. exact IH.
    - exact msg_sv_of_fields.
  Qed.

  Theorem from_field_sv_all : forall f, field_sv f.
  Proof.
    apply (field_ind' field_sv msg_sv).
    - intros i. apply from_field_sv. intros m' E. discriminate E.
    - intros i m IH. apply from_field_sv. intros m' E. injection E as <-. exact IH.
    - exact msg_sv_of_fields.
  Qed.

  (* the two statements as they are used *)
  Corollary from_fields_diags_irrelevant m attrs obj d1 g e1 :
    from_fields hook m attrs (obj, d1) = Ok (g, e1) ->
    forall d2, exists e2, from_fields hook m attrs (obj, d2) = Ok (g, e2).
  Proof.
    intros H d2. pose proof (from_fields_sv m attrs obj d1 d2) as S. rewrite H in S.
    destruct (from_fields hook m attrs (obj, d2)) as [[g2 e2]|]; cbn [sv] in S; [|contradiction].
    subst g2. now exists e2.
  Qed.

  Corollary from_field_diags_irrelevant f attrs obj d1 g e1 :
    from_field hook f attrs (obj, d1) = Ok (g, e1) ->
    forall d2, exists e2, from_field hook f attrs (obj, d2) = Ok (g, e2).
  Proof.
    intros H d2. pose proof (from_field_sv_all f attrs obj d1 d2) as S. rewrite H in S.
    destruct (from_field hook f attrs (obj, d2)) as [[g2 e2]|]; cbn [sv] in S; [|contradiction].
    subst g2. now exists e2.
  Qed.
End SameValue.

(* ------------------------------------------------------------------------------------- *)
(* 7. "all well-formed attributes are still copied": the content of a Go key after CopyFrom depends
   on the attributes of the fields which write this key only (and on what the key held before) *)

(* two results agree under the key k (partial correctness: nothing is said when a run panics) *)
Definition relk (k : string) (r1 r2 : res fstate) : Prop :=
  match r1, r2 with
  | Ok (x, _), Ok (y, _) => gfield x k = gfield y k
  | _, _ => True
  end.

Lemma gset_agree k x y key v x' y' :
  gset x key v = Ok x' -> gset y key v = Ok y' -> gfield x k = gfield y k -> gfield x' k = gfield y' k.
Proof.
  intros E1 E2 HA. destruct (string_dec k key) as [->|N].
  - now rewrite (gset_same _ _ _ _ E1), (gset_same _ _ _ _ E2).
  - now rewrite (gset_other _ _ _ _ k E1 N), (gset_other _ _ _ _ k E2 N).
Qed.

Lemma gset_relk k x y key v (c1 c2 : goval -> res fstate) :
  gfield x k = gfield y k ->
  (forall x' y', gfield x' k = gfield y' k -> relk k (c1 x') (c2 y')) ->
  relk k (bind (gset x key v) c1) (bind (gset y key v) c2).
Proof.
  intros HA HC. destruct (gset x key v) as [x'|] eqn:E1; cbn [bind]; [|exact I].
  destruct (gset y key v) as [y'|] eqn:E2; cbn [bind].
  - apply HC. exact (gset_agree _ _ _ _ _ _ _ E1 E2 HA).
  - destruct (c1 x') as [[? ?]|]; exact I.
Qed.

Ltac rk_step :=
  match goal with
  | |- relk _ Panic _ => exact I
  | |- relk _ (Ok (_, _)) Panic => exact I
  | HA : gfield ?x ?k = gfield ?y ?k |- relk ?k (Ok (?x, _)) (Ok (?y, _)) => exact HA
  | HA : gfield ?x ?k = gfield ?y ?k |- relk ?k (bind (gset ?x _ _) _) (bind (gset ?y _ _) _) =>
      let x' := fresh "x" in let y' := fresh "y" in
      apply (gset_relk _ _ _ _ _ _ _ HA); clear HA; intros x' y' HA; cbn beta
  | |- relk _ (bind ?x _) _ => inner x; cbn [bind]
  | |- relk _ (match ?x with _ => _ end) _ => inner x; cbn [bind]
  end.

(* one field reached directly, the two objects hold the same value (or both nothing) under its
   attribute name: agreement under any key is kept *)
Lemma from_field_relk hook i om l1 l2 x y d k :
  fi_via i = [] -> fi_parent i = None -> fi_kind i <> CustomKind ->
  lookup (fi_snake i) l1 = lookup (fi_snake i) l2 ->
  gfield x k = gfield y k ->
  relk k (from_field hook (Field i om) (Some l1) (x, d)) (from_field hook (Field i om) (Some l2) (y, d)).
Proof.
  intros V P NC EL HA. cbn [from_field]. fold (from_fields hook). rewrite V, P. unfold alloc_parent. rewrite P.
  cbn [gset_via bind]. rewrite EL. unfold as_prim.
  destruct (lookup (fi_snake i) l2) as [a|].
  2:{ destruct (fi_kind i); try congruence; exact HA. }
  destruct (fi_kind i); try congruence; repeat rk_step.
Qed.

(* a custom type: the hook receives the attribute and the field's current content *)
Lemma from_field_relk_custom hook i om l1 l2 x y d k :
  fi_via i = [] -> fi_parent i = None -> fi_kind i = CustomKind ->
  lookup (fi_snake i) l1 = lookup (fi_snake i) l2 ->
  gfield x k = gfield y k ->
  relk k (from_field hook (Field i om) (Some l1) (x, d)) (from_field hook (Field i om) (Some l2) (y, d)).
Proof.
  intros V P KC EL HA. cbn [from_field]. rewrite V, P, KC. unfold alloc_parent. rewrite P.
  cbn [gset_via gget_via bind]. rewrite EL.
  destruct (gfield x (fi_name i)) as [cx|] eqn:E1; cbn [bind]; [|exact I].
  destruct (gset x (fi_name i) (hook (fi_suffix i) (lookup (fi_snake i) l2) cx)) as [x'|] eqn:G1; cbn [bind]; [|exact I].
  destruct (gfield y (fi_name i)) as [cy|] eqn:E2; cbn [bind]; [|exact I].
  destruct (gset y (fi_name i) (hook (fi_suffix i) (lookup (fi_snake i) l2) cy)) as [y'|] eqn:G2; cbn [bind]; [|exact I].
  cbn [relk]. destruct (string_dec k (fi_name i)) as [->|N].
  - rewrite HA, E2 in E1. injection E1 as <-. now rewrite (gset_same _ _ _ _ G1), (gset_same _ _ _ _ G2).
  - now rewrite (gset_other _ _ _ _ k G1 N), (gset_other _ _ _ _ k G2 N).
Qed.

(* the same from any two lists of diagnostics *)
Lemma from_field_same_attr hook i om l1 l2 x y d1 d2 x' e1 y' e2 k :
  fi_via i = [] -> fi_parent i = None ->
  lookup (fi_snake i) l1 = lookup (fi_snake i) l2 ->
  gfield x k = gfield y k ->
  from_field hook (Field i om) (Some l1) (x, d1) = Ok (x', e1) ->
  from_field hook (Field i om) (Some l2) (y, d2) = Ok (y', e2) ->
  gfield x' k = gfield y' k.
Proof.
  intros V P EL HA H1 H2. destruct (from_field_diags_irrelevant hook _ _ _ _ _ _ H2 d1) as [e H2'].
  assert (S : relk k (from_field hook (Field i om) (Some l1) (x, d1)) (from_field hook (Field i om) (Some l2) (y, d1))).
  { destruct (kind_eqb (fi_kind i) CustomKind) eqn:EK.
    - apply from_field_relk_custom; auto. destruct (fi_kind i); try discriminate EK; reflexivity.
    - apply from_field_relk; auto. intros E. rewrite E in EK. discriminate EK. }
  rewrite H1, H2' in S. exact S.
Qed.

(* the fields reached directly (the class of PriorProofs.pi_field_ok, custom types included) *)
Definition direct_field (f : field) : bool :=
  fi_placeholder (f_info f)
  || (match fi_via (f_info f) with [] => true | _ => false end
      && match fi_parent (f_info f) with None => true | Some _ => false end).

Lemma direct_field_inv f :
  direct_field f = true -> fi_placeholder (f_info f) = false ->
  fi_via (f_info f) = [] /\ fi_parent (f_info f) = None.
Proof.
  unfold direct_field. intros H PH. rewrite PH in H. cbn [orb] in H. apply andb_prop in H. destruct H as [H1 H2].
  split; [destruct (fi_via (f_info f)); [reflexivity|discriminate]|destruct (fi_parent (f_info f)); [discriminate|reflexivity]].
Qed.

Lemma from_field_list_key hook k l1 l2 fs : forall x y d1 d2 x' e1 y' e2,
  forallb direct_field fs = true ->
  (forall f, In f fs -> fi_placeholder (f_info f) = false -> write_key (f_info f) = k ->
             lookup (fi_snake (f_info f)) l1 = lookup (fi_snake (f_info f)) l2) ->
  gfield x k = gfield y k ->
  from_field_list hook fs (Some l1) (x, d1) = Ok (x', e1) ->
  from_field_list hook fs (Some l2) (y, d2) = Ok (y', e2) ->
  gfield x' k = gfield y' k.
Proof.
  induction fs as [|f r IH]; intros x y d1 d2 x' e1 y' e2 HF HL HA H1 H2; cbn [from_field_list] in H1, H2.
  - injection H1 as <- _. injection H2 as <- _. exact HA.
  - cbn [forallb] in HF. apply andb_prop in HF. destruct HF as [Hf Hr].
    assert (HL' : forall g, In g r -> fi_placeholder (f_info g) = false -> write_key (f_info g) = k ->
                            lookup (fi_snake (f_info g)) l1 = lookup (fi_snake (f_info g)) l2).
    { intros g Hg. apply HL. now right. }
    destruct (fi_placeholder (f_info f)) eqn:PH; [exact (IH _ _ _ _ _ _ _ _ Hr HL' HA H1 H2)|].
    destruct (from_field hook f (Some l1) (x, d1)) as [[x1 c1]|] eqn:E1; cbn [bind] in H1; [|discriminate H1].
    destruct (from_field hook f (Some l2) (y, d2)) as [[y1 c2]|] eqn:E2; cbn [bind] in H2; [|discriminate H2].
    refine (IH x1 y1 c1 c2 x' e1 y' e2 Hr HL' _ H1 H2); clear H1 H2.
    destruct (direct_field_inv f Hf PH) as [V P].
    destruct (string_dec (write_key (f_info f)) k) as [EK|NK].
    + destruct f as [i om]. cbn [f_info] in *.
      exact (from_field_same_attr hook i om l1 l2 x y d1 d2 x1 c1 y1 c2 k V P (HL _ (or_introl eq_refl) PH EK) HA E1 E2).
    + assert (N : ~ In k (top_keys (f_info f))).
      { unfold top_keys. rewrite V, P. cbn [hd]. intros [X|[]]. now apply NK. }
      rewrite (from_field_untouched _ _ _ _ _ _ _ E1 k N), (from_field_untouched _ _ _ _ _ _ _ E2 k N). exact HA.
Qed.

Lemma fold_res_agree {A} (g : goval -> A -> res goval) k :
  (forall a x y x' y', g x a = Ok x' -> g y a = Ok y' -> gfield x k = gfield y k -> gfield x' k = gfield y' k) ->
  forall l x y x' y', fold_res g l x = Ok x' -> fold_res g l y = Ok y' ->
                      gfield x k = gfield y k -> gfield x' k = gfield y' k.
Proof.
  intros Hg. induction l as [|a r IH]; intros x y x' y' H1 H2 HA; cbn [fold_res] in H1, H2.
  - injection H1 as <-. injection H2 as <-. exact HA.
  - destruct (g x a) as [x1|] eqn:E1; cbn [bind] in H1; [|discriminate H1].
    destruct (g y a) as [y1|] eqn:E2; cbn [bind] in H2; [|discriminate H2].
    exact (IH _ _ _ _ H1 H2 (Hg _ _ _ _ _ E1 E2 HA)).
Qed.

Lemma reset_oneof_agree k h x y x' y' :
  reset_oneof x h = Ok x' -> reset_oneof y h = Ok y' -> gfield x k = gfield y k -> gfield x' k = gfield y' k.
Proof. unfold reset_oneof. apply gset_agree. Qed.

Lemma reset_promoted_agree k f x y x' y' :
  reset_promoted x f = Ok x' -> reset_promoted y f = Ok y' -> gfield x k = gfield y k -> gfield x' k = gfield y' k.
Proof.
  unfold reset_promoted. destruct (fi_oneof (f_info f)) as [h|]; [|now intros [= <-] [= <-]].
  destruct (fi_parent (f_info f)); [now intros [= <-] [= <-]|]. apply gset_agree.
Qed.

Lemma reset_parent_agree k f x y x' y' :
  reset_parent x f = Ok x' -> reset_parent y f = Ok y' -> gfield x k = gfield y k -> gfield x' k = gfield y' k.
Proof.
  unfold reset_parent. destruct (fi_parent (f_info f)) as [[pn pz]|]; [|now intros [= <-] [= <-]]. apply gset_agree.
Qed.

(* THE KEY STATEMENT.  Two runs of CopyFrom for the same message, on two attribute lists, from two
   targets, with any incoming diagnostics: if the targets agree under the Go key k and the
   attribute lists agree on the attribute of every field which writes k, the results agree under k.
   Class: the fields are reached directly; custom types are allowed; nothing is asked of the nested
   messages, of the names, of the object (missing attributes, wrong kinds: all allowed). *)
Theorem from_fields_key_local hook m l1 l2 p1 p2 d1 d2 g1 e1 g2 e2 k :
  forallb direct_field (m_fields m) = true ->
  (forall f, In f (m_fields m) -> fi_placeholder (f_info f) = false -> write_key (f_info f) = k ->
             lookup (fi_snake (f_info f)) l1 = lookup (fi_snake (f_info f)) l2) ->
  gfield p1 k = gfield p2 k ->
  from_fields hook m (Some l1) (p1, d1) = Ok (g1, e1) ->
  from_fields hook m (Some l2) (p2, d2) = Ok (g2, e2) ->
  gfield g1 k = gfield g2 k.
Proof.
  destruct m as [n fs os inj e z]. cbn [m_fields]. rewrite !from_fields_unfold. cbn [fst snd].
  intros HF HL HA H1 H2.
  destruct (fold_res reset_oneof os p1) as [a1|] eqn:A1; cbn [bind] in H1; [|discriminate H1].
  destruct (fold_res reset_promoted fs a1) as [a2|] eqn:A2; cbn [bind] in H1; [|discriminate H1].
  destruct (fold_res reset_parent fs a2) as [a3|] eqn:A3; cbn [bind] in H1; [|discriminate H1].
  destruct (fold_res reset_oneof os p2) as [b1|] eqn:B1; cbn [bind] in H2; [|discriminate H2].
  destruct (fold_res reset_promoted fs b1) as [b2|] eqn:B2; cbn [bind] in H2; [|discriminate H2].
  destruct (fold_res reset_parent fs b2) as [b3|] eqn:B3; cbn [bind] in H2; [|discriminate H2].
  apply (from_field_list_key hook k l1 l2 fs a3 b3 d1 d2 g1 e1 g2 e2 HF HL); [|exact H1|exact H2].
  apply (fold_res_agree reset_parent k (reset_parent_agree k) fs _ _ _ _ A3 B3).
  apply (fold_res_agree reset_promoted k (reset_promoted_agree k) fs _ _ _ _ A2 B2).
  exact (fold_res_agree reset_oneof k (reset_oneof_agree k) os _ _ _ _ A1 B1 HA).
Qed.

(* ------------------------------------------------------------------------------------- *)
(* 8. the statement on a class: damage is local *)

(* a oneof branch is a scalar or a message and its holder is listed by the message *)
Definition branch_ok (os : list string) (f : field) : bool :=
  fi_placeholder (f_info f)
  || match fi_oneof (f_info f) with
     | None => true
     | Some h => mem_str h os
                 && match fi_kind (f_info f) with PrimitiveKind | ObjectKind => true | _ => false end
     end.

(* the class: fields reached directly (custom types allowed), oneofs as above, the Go field names
   and the oneof holders pairwise distinct.  PriorProofs.reset_ok, hence MsgRoundTrip.rt_ok with
   distinct holders, are in it; so is pi_ok with [branch_ok]. *)
Definition dl_ok (m : message) : bool :=
  forallb direct_field (m_fields m) && forallb (branch_ok (m_oneofs m)) (m_fields m)
  && nodup_b (go_keys (m_fields m) (m_oneofs m)).

Lemma branch_ok_inv os f h :
  branch_ok os f = true -> fi_placeholder (f_info f) = false -> fi_oneof (f_info f) = Some h ->
  In h os /\ write_key (f_info f) = h.
Proof.
  unfold branch_ok, write_key. intros H PH O. rewrite PH, O in H. cbn [orb] in H. apply andb_prop in H.
  destruct H as [H1 H2]. split; [now apply mem_str_In|]. rewrite O. destruct (fi_kind (f_info f)); try discriminate H2; reflexivity.
Qed.

Lemma write_key_plain i : fi_oneof i = None -> write_key i = fi_name i.
Proof. unfold write_key. now intros ->. Qed.

Lemma own_names_unique fs : NoDup (own_names fs) -> forall f g,
  In f fs -> In g fs ->
  fi_placeholder (f_info f) = false -> fi_oneof (f_info f) = None ->
  fi_placeholder (f_info g) = false -> fi_oneof (f_info g) = None ->
  fi_name (f_info f) = fi_name (f_info g) -> f = g.
Proof.
  induction fs as [|a r IH]; intros HN f g Hf Hg P1 O1 P2 O2 E; [destruct Hf|].
  rewrite own_names_cons in HN. destruct Hf as [<-|Hf], Hg as [<-|Hg].
  - reflexivity.
  - exfalso. rewrite P1, O1 in HN. cbn [app] in HN. inversion HN as [|x l Hnot Hnd]; subst. apply Hnot.
    rewrite E. now apply own_names_in'.
  - exfalso. rewrite P2, O2 in HN. cbn [app] in HN. inversion HN as [|x l Hnot Hnd]; subst. apply Hnot.
    rewrite <- E. now apply own_names_in'.
  - apply IH; auto. destruct (NoDup_app_inv _ _ HN) as [_ H2].
    clear -HN. induction (if fi_placeholder (f_info a) then [] else match fi_oneof (f_info a) with None => [fi_name (f_info a)] | Some _ => [] end) as [|x l IHl];
      [exact HN|]. cbn [app] in HN. inversion HN; subst. auto.
Qed.

(* the fields which write the Go key of a field which is not a oneof branch: the field itself *)
Lemma dl_ok_plain_writer m f g :
  dl_ok m = true -> In f (m_fields m) -> In g (m_fields m) ->
  fi_placeholder (f_info f) = false -> fi_oneof (f_info f) = None ->
  fi_placeholder (f_info g) = false -> write_key (f_info g) = fi_name (f_info f) -> g = f.
Proof.
  unfold dl_ok. intros H Hf Hg P1 O1 P2 W. apply andb_prop in H. destruct H as [H HN]. apply andb_prop in H. destruct H as [_ HB].
  apply nodup_b_NoDup in HN. unfold go_keys in HN. destruct (NoDup_app_inv _ _ HN) as [HN1 HN2].
  rewrite forallb_forall in HB. destruct (fi_oneof (f_info g)) as [h|] eqn:O2.
  - exfalso. destruct (branch_ok_inv _ _ _ (HB g Hg) P2 O2) as [Hh Wh]. rewrite Wh in W. subst h.
    exact (HN2 _ (own_names_in' _ _ Hf P1 O1) Hh).
  - rewrite (write_key_plain _ O2) in W. exact (own_names_unique _ HN1 g f Hg Hf P2 O2 P1 O1 W).
Qed.

(* the fields which write a holder: the branches of its oneof *)
Lemma dl_ok_holder_writer m h g :
  dl_ok m = true -> In h (m_oneofs m) -> In g (m_fields m) ->
  fi_placeholder (f_info g) = false -> write_key (f_info g) = h -> fi_oneof (f_info g) = Some h.
Proof.
  unfold dl_ok. intros H Hh Hg P2 W. apply andb_prop in H. destruct H as [H HN]. apply andb_prop in H. destruct H as [_ HB].
  apply nodup_b_NoDup in HN. unfold go_keys in HN. destruct (NoDup_app_inv _ _ HN) as [HN1 HN2].
  rewrite forallb_forall in HB. destruct (fi_oneof (f_info g)) as [h'|] eqn:O2.
  - destruct (branch_ok_inv _ _ _ (HB g Hg) P2 O2) as [_ Wh]. congruence.
  - exfalso. rewrite (write_key_plain _ O2) in W. subst h. exact (HN2 _ (own_names_in' _ _ Hg P2 O2) Hh).
Qed.

Lemma dl_ok_direct m : dl_ok m = true -> forallb direct_field (m_fields m) = true.
Proof. unfold dl_ok. intros H. apply andb_prop in H. destruct H as [H _]. apply andb_prop in H. now destruct H. Qed.

(* 5. THE MAIN STATEMENT: two objects which agree outside the attribute names K, read into two
   targets which hold the same values: every field whose attribute name is outside K, and every
   oneof none of whose branches has its attribute name in K, is read the same.  Nothing is asked
   of the attributes in K (missing, of the wrong kind, ill-typed inside, other values), of the
   nested values, of the flags and type lists of the two objects. *)
Theorem copy_from_damage_is_local_partial hook m a1 n1 u1 a2 n2 u2 l1 l2 K p1 p2 g1 ds1 g2 ds2 :
  dl_ok m = true ->
  (forall k, ~ In k K -> lookup k l1 = lookup k l2) ->
  (forall k, gfield p1 k = gfield p2 k) ->
  copy_from hook m (VObj a1 n1 u1 (Some l1)) p1 = Ok (g1, ds1) ->
  copy_from hook m (VObj a2 n2 u2 (Some l2)) p2 = Ok (g2, ds2) ->
  (forall f, In f (m_fields m) -> fi_placeholder (f_info f) = false -> fi_oneof (f_info f) = None ->
             ~ In (fi_snake (f_info f)) K ->
             gfield g1 (fi_name (f_info f)) = gfield g2 (fi_name (f_info f)))
  /\ (forall h, In h (m_oneofs m) ->
                (forall f, In f (m_fields m) -> fi_placeholder (f_info f) = false -> fi_oneof (f_info f) = Some h ->
                           ~ In (fi_snake (f_info f)) K) ->
                gfield g1 h = gfield g2 h).
Proof.
  cbn [copy_from]. intros HM HL HP H1 H2. pose proof (dl_ok_direct m HM) as HD. split.
  - intros f Hf PH O NK.
    apply (from_fields_key_local hook m l1 l2 p1 p2 [] [] g1 ds1 g2 ds2 _ HD); [|apply HP|exact H1|exact H2].
    intros g Hg PG W. rewrite (dl_ok_plain_writer m f g HM Hf Hg PH O PG W). now apply HL.
  - intros h Hh HB.
    apply (from_fields_key_local hook m l1 l2 p1 p2 [] [] g1 ds1 g2 ds2 _ HD); [|apply HP|exact H1|exact H2].
    intros g Hg PG W. apply HL. apply (HB g Hg PG). exact (dl_ok_holder_writer m h g HM Hh Hg PG W).
Qed.

(* deletion of the attributes K *)
Definition remove_keys (K : list string) (l : list (string * tfval)) : list (string * tfval) :=
  filter (fun kv => negb (mem_str (fst kv) K)) l.

Lemma lookup_remove_keys_out K l k : ~ In k K -> lookup k (remove_keys K l) = lookup k l.
Proof.
  intros N. induction l as [|[k' v] r IH]; [reflexivity|]. cbn [remove_keys filter fst lookup].
  destruct (mem_str k' K) eqn:E; cbn [negb].
  - fold (remove_keys K r). rewrite IH. destruct (String.eqb k k') eqn:E2; [|reflexivity].
    apply String.eqb_eq in E2. subst k'. apply mem_str_In in E. contradiction.
  - cbn [lookup]. fold (remove_keys K r). now rewrite IH.
Qed.

Lemma lookup_remove_keys_in K l k : In k K -> lookup k (remove_keys K l) = None.
Proof.
  intros HI. induction l as [|[k' v] r IH]; [reflexivity|]. cbn [remove_keys filter fst].
  destruct (mem_str k' K) eqn:E; cbn [negb]; [exact IH|].
  cbn [lookup]. fold (remove_keys K r). rewrite IH. destruct (String.eqb k k') eqn:E2; [|reflexivity].
  apply String.eqb_eq in E2. subst k'. apply mem_str_In in HI. rewrite HI in E. discriminate E.
Qed.

Lemma remove_keys_typed K l : attrs_typed (Some l) = true -> attrs_typed (Some (remove_keys K l)) = true.
Proof.
  cbn [attrs_typed]. rewrite !forallb_forall. intros H x Hx. apply H. unfold remove_keys in Hx.
  apply filter_In in Hx. now destruct Hx.
Qed.

(* the object with the attributes K deleted: what is outside K is read exactly as from the intact
   object, and every deleted attribute is reported, once *)
Corollary copy_from_deletions_local_partial hook m a n u l K p g1 ds1 g2 ds2 :
  dl_ok m = true ->
  copy_from hook m (VObj a n u (Some l)) p = Ok (g1, ds1) ->
  copy_from hook m (VObj a n u (Some (remove_keys K l))) p = Ok (g2, ds2) ->
  (forall f, In f (m_fields m) -> fi_placeholder (f_info f) = false -> fi_oneof (f_info f) = None ->
             ~ In (fi_snake (f_info f)) K ->
             gfield g2 (fi_name (f_info f)) = gfield g1 (fi_name (f_info f)))
  /\ (forall h, In h (m_oneofs m) ->
                (forall f, In f (m_fields m) -> fi_placeholder (f_info f) = false -> fi_oneof (f_info f) = Some h ->
                           ~ In (fi_snake (f_info f)) K) ->
                gfield g2 h = gfield g1 h)
  /\ (forall f, In f (m_fields m) -> fi_placeholder (f_info f) = false -> In (fi_snake (f_info f)) K ->
                In (ReadMissing, fi_path (f_info f)) ds2)
  /\ NoDup ds2.
Proof.
  intros HM H1 H2.
  destruct (copy_from_damage_is_local_partial hook m a n u a n u (remove_keys K l) l K p p g2 ds2 g1 ds1 HM) as [A B];
    [intros k Hk; now apply lookup_remove_keys_out|reflexivity|exact H2|exact H1|].
  split; [exact A|]. split; [exact B|]. split.
  - intros f Hf PH HK. apply (copy_from_missing_reported _ _ _ _ _ _ _ _ _ _ H2 Hf PH). now apply lookup_remove_keys_in.
  - exact (copy_from_diags_nodup _ _ _ _ _ _ H2).
Qed.

(* the damaged run returns: the class of the totality theorem is closed under deletion *)
Corollary copy_from_deletions_total_partial hook m a n u l K p :
  flat_ok m = true -> zeros_ok m -> attrs_typed (Some l) = true -> has_keys m p ->
  exists g ds, copy_from hook m (VObj a n u (Some (remove_keys K l))) p = Ok (g, ds) /\ has_keys m g.
Proof. intros F Z T HK. apply copy_from_total_partial; auto. now apply remove_keys_typed. Qed.

(* 6 (one level down, message fields): the struct a message field is assigned is decoded from the
   nested object into the zero value of the nested message ... *)
Lemma from_field_object_read hook i m' l x d x' e ats n u at0 :
  fi_via i = [] -> fi_parent i = None -> fi_kind i = ObjectKind -> fi_oneof i = None ->
  lookup (fi_snake i) l = Some (VObj ats n u at0) -> known n u = true ->
  from_field hook (Field i (Some m')) (Some l) (x, d) = Ok (x', e) ->
  exists v, (if m_empty m' then Ok (m_zero m', d) else from_fields hook m' at0 (m_zero m', d)) = Ok (v, e)
            /\ gfield x' (fi_name i) = Ok (if fi_nullable i then GPtr (Some v) else v).
Proof.
  intros V P KO O L KN. cbn [from_field]. fold (from_fields hook). rewrite V, P, KO, O, L, KN.
  unfold alloc_parent. rewrite P. cbn [gset_via bind]. repeat stepg.
  eexists. split; [reflexivity|]. eapply gset_same; eassumption.
Qed.

(* ... so that damage inside the nested object is local in the nested struct: the keys of the
   nested struct whose writers have the same attributes in the two nested objects are equal *)
Theorem from_field_nested_damage_local hook i m' l1 l2 x y d1 d2 x' e1 y' e2 ats1 n1 u1 at1 ats2 n2 u2 at2 k :
  fi_via i = [] -> fi_parent i = None -> fi_kind i = ObjectKind -> fi_oneof i = None ->
  forallb direct_field (m_fields m') = true ->
  lookup (fi_snake i) l1 = Some (VObj ats1 n1 u1 (Some at1)) -> known n1 u1 = true ->
  lookup (fi_snake i) l2 = Some (VObj ats2 n2 u2 (Some at2)) -> known n2 u2 = true ->
  (forall g, In g (m_fields m') -> fi_placeholder (f_info g) = false -> write_key (f_info g) = k ->
             lookup (fi_snake (f_info g)) at1 = lookup (fi_snake (f_info g)) at2) ->
  from_field hook (Field i (Some m')) (Some l1) (x, d1) = Ok (x', e1) ->
  from_field hook (Field i (Some m')) (Some l2) (y, d2) = Ok (y', e2) ->
  exists v1 v2, gfield x' (fi_name i) = Ok (if fi_nullable i then GPtr (Some v1) else v1)
                /\ gfield y' (fi_name i) = Ok (if fi_nullable i then GPtr (Some v2) else v2)
                /\ gfield v1 k = gfield v2 k.
Proof.
  intros V P KO O HD L1 K1 L2 K2 HL H1 H2.
  destruct (from_field_object_read _ _ _ _ _ _ _ _ _ _ _ _ V P KO O L1 K1 H1) as (v1 & D1 & G1).
  destruct (from_field_object_read _ _ _ _ _ _ _ _ _ _ _ _ V P KO O L2 K2 H2) as (v2 & D2 & G2).
  exists v1, v2. split; [exact G1|]. split; [exact G2|].
  destruct (m_empty m').
  - injection D1 as <- _. injection D2 as <- _. reflexivity.
  - exact (from_fields_key_local hook m' at1 at2 _ _ d1 d2 v1 e1 v2 e2 k HD HL eq_refl D1 D2).
Qed.

(* the classes of PriorProofs.v and MsgRoundTrip.v *)
Lemma reset_ok_dl_ok m : reset_ok m = true -> dl_ok m = true.
Proof.
  unfold reset_ok, dl_ok. intros H. apply andb_prop in H. destruct H as [H ->]. rewrite andb_true_r.
  rewrite forallb_forall in H. apply andb_true_intro. split; apply forallb_forall; intros f Hf;
    destruct (reset_field_ok_inv _ _ (H f Hf)) as (V & P & _ & HO & _).
  - unfold direct_field. rewrite V, P. apply orb_true_r.
  - unfold branch_ok. destruct (fi_oneof (f_info f)) as [h|]; [|apply orb_true_r].
    destruct (HO h eq_refl) as [Hh HK]. apply mem_str_In in Hh. rewrite Hh.
    destruct HK as [-> | ->]; apply orb_true_r.
Qed.

Lemma rt_ok_dl_ok m : rt_ok m = true -> nodup_b (m_oneofs m) = true -> dl_ok m = true.
Proof. intros H1 H2. apply reset_ok_dl_ok. now apply rt_ok_reset_ok. Qed.

Lemma pi_ok_dl_ok m : pi_ok m = true -> forallb (branch_ok (m_oneofs m)) (m_fields m) = true -> dl_ok m = true.
Proof.
  unfold pi_ok, dl_ok. intros H HB. apply andb_prop in H. destruct H as [H ->]. rewrite HB, andb_true_r, andb_true_r.
  rewrite forallb_forall in *. intros f Hf. specialize (H f Hf). unfold pi_field_ok in H. unfold direct_field.
  destruct (fi_placeholder (f_info f)); [reflexivity|]. cbn [orb] in *. apply andb_prop in H. now destruct H.
Qed.

Corollary copy_from_damage_is_local_rt_partial hook m a1 n1 u1 a2 n2 u2 l1 l2 K p1 p2 g1 ds1 g2 ds2 :
  rt_ok m = true -> nodup_b (m_oneofs m) = true ->
  (forall k, ~ In k K -> lookup k l1 = lookup k l2) ->
  (forall k, gfield p1 k = gfield p2 k) ->
  copy_from hook m (VObj a1 n1 u1 (Some l1)) p1 = Ok (g1, ds1) ->
  copy_from hook m (VObj a2 n2 u2 (Some l2)) p2 = Ok (g2, ds2) ->
  (forall f, In f (m_fields m) -> fi_placeholder (f_info f) = false -> fi_oneof (f_info f) = None ->
             ~ In (fi_snake (f_info f)) K ->
             gfield g1 (fi_name (f_info f)) = gfield g2 (fi_name (f_info f)))
  /\ (forall h, In h (m_oneofs m) ->
                (forall f, In f (m_fields m) -> fi_placeholder (f_info f) = false -> fi_oneof (f_info f) = Some h ->
                           ~ In (fi_snake (f_info f)) K) ->
                gfield g1 h = gfield g2 h).
Proof. intros H1 H2. apply copy_from_damage_is_local_partial. now apply rt_ok_dl_ok. Qed.

(* ------------------------------------------------------------------------------------- *)
(* 9. computed: RTExample.outer *)

Module FromMalformedExample.
  Import RTExample.
  Local Open Scope string_scope.
  Local Open Scope Z_scope.

  Definition ty := msg_ty outer.
  (* the object CopyTo writes for RTExample.value *)
  Definition intact : list (string * tfval) :=
    match copy_to std_hook_to outer value (VObj ty false false None) with
    | Ok (VObj _ _ _ (Some l), _) => l
    | _ => []
    end.
  Definition run (l : list (string * tfval)) := copy_from std_hook_from outer (VObj ty false false (Some l)) (m_zero outer).

  Definition bad : tfval := VPrim KStr false false (PStr "").
  Definition K := ["labels"; "sub"; "items"].
  (* two deletions, one attribute of the wrong constructor *)
  Definition damaged := update "items" bad (remove_keys ["labels"; "sub"] intact).

  Example class_ok : dl_ok outer = true /\ flat_ok outer = true.
  Proof. split; vm_compute; reflexivity. Qed.

  Example intact_read : run intact = Ok (back, []).
  Proof. vm_compute. reflexivity. Qed.

  (* one diagnostic per damaged attribute, in the order of the fields; "Items", "Labels", "Sub" keep
     what the target held; everything else is as in [back] *)
  Example damaged_read :
    run damaged =
    Ok (GStruct [("Items", GSlice None); ("Labels", GMap None);
                 ("Tags", GSlice (Some [GBytes None; GBytes (Some "z"); GBytes None]));
                 ("Sub", inn "" 0);
                 ("P", GPtr (Some (GPrim (PBool false))));
                 ("N", GPrim (PF32 (SpecFloat.S754_zero false)));
                 ("E", GPtr (Some (GStruct [])));
                 ("T", GPrim (PTime 5 6 7));
                 ("M", GMap (Some []));
                 ("Kind", GOneof (Some ("Y", GPtr (Some (inn "hi" 18446744073709551615)))));
                 ("Other", GOneof None)],
        [(ReadConv, "items"); (ReadMissing, "labels"); (ReadMissing, "sub")]).
  Proof. vm_compute. reflexivity. Qed.

  Lemma agree_outside : forall k, ~ In k K -> lookup k damaged = lookup k intact.
  Proof.
    intros k N. unfold damaged. rewrite lookup_update_neq by (intros ->; apply N; cbn; tauto).
    apply lookup_remove_keys_out. intros HI. apply N. cbn in HI |- *. tauto.
  Qed.

  (* the theorem on this input: the untouched fields and both oneofs are read as from the intact
     object, for any hook and any target, as soon as the two runs return *)
  Example untouched_by_theorem hook p g1 d1 g2 d2 :
    copy_from hook outer (VObj ty false false (Some intact)) p = Ok (g1, d1) ->
    copy_from hook outer (VObj ty false false (Some damaged)) p = Ok (g2, d2) ->
    Forall (fun k => gfield g2 k = gfield g1 k) ["Tags"; "P"; "N"; "E"; "T"; "M"; "Kind"; "Other"]
    /\ In (ReadConv, "items") d2 /\ In (ReadMissing, "labels") d2 /\ In (ReadMissing, "sub") d2 /\ NoDup d2.
  Proof.
    intros H1 H2. destruct class_ok as [HC _].
    destruct (copy_from_damage_is_local_partial hook outer _ _ _ _ _ _ damaged intact K p p g2 d2 g1 d1 HC agree_outside
                (fun k => eq_refl) H2 H1) as [A B].
    split; [|split; [|split; [|split]]].
    - repeat constructor.
      + apply (A (Field (mk "Tags" "tags" PrimitiveListKind KStr GsBytes false true None) None)); try reflexivity; cbn; intuition discriminate.
      + apply (A (Field (mk "P" "p" PrimitiveKind KBool GsBool true false None) None)); try reflexivity; cbn; intuition discriminate.
      + apply (A (Field (mk "N" "n" PrimitiveKind KF64 GsFloat32 false true None) None)); try reflexivity; cbn; intuition discriminate.
      + apply (A (Field (mk "E" "e" ObjectKind KI64 GsInt64 true false None) (Some empty))); try reflexivity; cbn; intuition discriminate.
      + apply (A (Field (mk "T" "t" PrimitiveKind KTime GsTime false false None) None)); try reflexivity; cbn; intuition discriminate.
      + apply (A (Field (mk "M" "m" ObjectMapKind KI64 GsInt64 false false None) (Some inner))); try reflexivity; cbn; intuition discriminate.
      + apply (B "Kind"); [cbn; tauto|]. intros f Hf _ O. cbn in Hf.
        repeat (destruct Hf as [<-|Hf]; [try discriminate O; cbn; intuition discriminate|]). destruct Hf.
      + apply (B "Other"); [cbn; tauto|]. intros f Hf _ O. cbn in Hf.
        repeat (destruct Hf as [<-|Hf]; [try discriminate O; cbn; intuition discriminate|]). destruct Hf.
    - apply (copy_from_wrong_kind_reported _ _ _ _ _ _ _ _ _ (Field (mk "Items" "items" ObjectListKind KI64 GsInt64 true false None) (Some inner)) bad H2);
        try reflexivity; [cbn; tauto|discriminate].
    - apply (copy_from_missing_reported _ _ _ _ _ _ _ _ _ (Field (mk "Labels" "labels" PrimitiveMapKind KStr GsString false false None) None) H2);
        try reflexivity. cbn; tauto.
    - apply (copy_from_missing_reported _ _ _ _ _ _ _ _ _ (Field (mk "Sub" "sub" ObjectKind KI64 GsInt64 false false None) (Some inner)) H2);
        try reflexivity. cbn; tauto.
    - exact (copy_from_diags_nodup _ _ _ _ _ _ H2).
  Qed.

  (* the branches of a oneof: a missing branch attribute and a branch attribute of the wrong
     constructor are reported like any other; VNil is a wrong constructor *)
  Example oneof_branches :
    option_map snd (match run (update "p" VNil (update "y" bad (remove_keys ["x"; "z"] intact))) with Ok r => Some r | Panic => None end)
    = Some [(ReadMissing, "x"); (ReadConv, "y"); (ReadConv, "p"); (ReadMissing, "z")].
  Proof. vm_compute. reflexivity. Qed.

  (* an object without attribute list: every field is reported, the target keeps its content but
     for the oneof holders, which are reset *)
  Example nil_attrs :
    copy_from std_hook_from outer (VObj ty true false None) value
    = Ok (GStruct [("Kind", GOneof None); ("Other", GOneof None);
                   ("Items", GSlice (Some [GPtr (Some (inn "" 7)); GPtr None]));
                   ("Labels", GMap (Some [("a", GPrim (PStr "x")); ("b", GPrim (PStr ""))]));
                   ("Tags", GSlice (Some [GBytes None; GBytes (Some "z"); GBytes (Some "")]));
                   ("Sub", inn "s" 0); ("P", GPtr (Some (GPrim (PBool false))));
                   ("N", GPrim (PF32 (SpecFloat.S754_zero true))); ("E", GPtr (Some (GStruct [])));
                   ("T", GPrim (PTime 5 6 7)); ("M", GMap None)],
          [(ReadMissing, "x"); (ReadMissing, "y"); (ReadMissing, "items"); (ReadMissing, "labels");
           (ReadMissing, "tags"); (ReadMissing, "sub"); (ReadMissing, "p"); (ReadMissing, "n");
           (ReadMissing, "e"); (ReadMissing, "t"); (ReadMissing, "m"); (ReadMissing, "z")]).
  Proof. vm_compute. reflexivity. Qed.

  (* elements of the wrong constructor: ONE conversion error under the path of the field (the
     diagnostics are de-duplicated), the list element reads as the zero value, the map entry is
     dropped; the missing attribute of a nested object is reported under the nested field's path *)
  Example elements :
    run (update "tags" (VList (TyPrim KStr) false false (Some [VNil; VPrim KI64 false false (PInt 1); VPrim KStr false false (PStr "ok")]))
        (update "labels" (VMap (TyPrim KStr) false false (Some [("a", VNil); ("b", VPrim KStr false false (PStr "v"))]))
        (update "sub" (VObj (msg_ty inner) false false (Some [("a", VPrim KStr false false (PStr "s"))])) intact)))
    = Ok (GStruct [("Items", GSlice (Some [GPtr (Some (inn "" 7)); GPtr None]));
                   ("Labels", GMap (Some [("b", GPrim (PStr "v"))]));
                   ("Tags", GSlice (Some [GBytes None; GBytes None; GBytes (Some "ok")]));
                   ("Sub", inn "s" 0); ("P", GPtr (Some (GPrim (PBool false))));
                   ("N", GPrim (PF32 (SpecFloat.S754_zero false))); ("E", GPtr (Some (GStruct [])));
                   ("T", GPrim (PTime 5 6 7)); ("M", GMap (Some []));
                   ("Kind", GOneof (Some ("Y", GPtr (Some (inn "hi" 18446744073709551615)))));
                   ("Other", GOneof None)],
          [(ReadConv, "labels"); (ReadConv, "tags"); (ReadMissing, "u")]).
  Proof. vm_compute. reflexivity. Qed.

  (* the hypothesis on the targets of the main statement is needed: a field whose attribute is
     missing on both sides keeps what its target held *)
  Example priors_matter :
    (do r <- copy_from std_hook_from outer (VObj ty false false (Some damaged)) value; gfield (fst r) "Sub") = Ok (inn "s" 0)
    /\ (do r <- run damaged; gfield (fst r) "Sub") = Ok (inn "" 0).
  Proof. split; vm_compute; reflexivity. Qed.
End FromMalformedExample.

Print Assumptions from_fields_diag_mono.
Print Assumptions copy_from_missing_reported.
Print Assumptions copy_from_nil_attrs_all_reported.
Print Assumptions copy_from_wrong_kind_reported.
Print Assumptions copy_from_only_read_diags.
Print Assumptions copy_from_diags_nodup.
Print Assumptions from_fields_diags_irrelevant.
Print Assumptions from_fields_key_local.
Print Assumptions copy_from_damage_is_local_partial.
Print Assumptions copy_from_damage_is_local_rt_partial.
Print Assumptions copy_from_deletions_local_partial.
Print Assumptions copy_from_deletions_total_partial.
Print Assumptions from_field_nested_damage_local.
Print Assumptions FromMalformedExample.untouched_by_theorem.
