(* C09 (refresh) for the fields promoted from a NULLABLE EMBEDDED message which is nil in the source.

   "Copying any struct value into an object that already holds a fully-known earlier state makes
   the object follow the new source: ... a nullable message that is nil in the source becomes null."
   The attributes of an embedded message are those of the enclosing object, so each of them has to
   become null (scalars, nullable messages) or to hold no element (lists, maps), WHATEVER the
   target held before.  Everything here is for every finfo, every Go value, every earlier target
   (no bound, no well-formedness class): the only hypotheses are the ones written.

   What the model (Model/CopyTo.v) gives when [parent_is_nil i obj = Ok (Some true)]:

   - scalar (PrimitiveKind), not a oneof branch, not the placeholder: the attribute becomes
     VPrim (fi_tk i) TRUE false p.  Never a panic, and the expression read ([rd], which is a nil
     pointer dereference in that case: Panic) is NOT forced: to_prim_value_chain_nil_eq holds for
     every rd, Panic included.  The payload p under the Null flag is the EARLIER payload when the
     earlier value is a scalar of the same kind (to_prim_value_chain_nil_keeps_payload), the
     payload of the null value of the attribute type otherwise.
     NOT nulled (counter-examples in Module Counter):
       * the placeholder of an empty embedded message (fi_placeholder = true): an earlier non-null
         value stays non-null;
       * a value-typed oneof branch of the embedded message (fi_oneof = Some _): the test of the
         chain is not emitted for it, the holder is read as nil, the branch is the zero value and
         the Null flag is the earlier one: an earlier non-null value becomes the NON-null zero value.
   - list: VList e n false (Some []) where (e, n) are the element type and the Null flag of the
     earlier list when there was one (so an earlier non-null list becomes the EMPTY NON-NULL
     list, not null), (ety, true) otherwise; the earlier elements are dropped, whatever they were
     (also when they were unknown: None).  Holds for oneof-free and oneof fields alike.
   - map: the same with VMap.
   - nullable message: VObj a TRUE false (Some attrs0) where a, attrs0 are the attribute types and
     the EARLIER ATTRIBUTES of the earlier object (they stay under the Null flag), (ats, []) when
     there was none.
   - by-value message: NOT null: the zero value of the message's struct (the enclosing struct
     when the message is empty) is copied into the earlier object; the Null flag is the earlier one
     (false when there was no earlier object). *)
From Coq Require Import List String Bool ZArith.
From PGT Require Import Base.Strs Base.AList Model.Vals Model.IR Model.CopyTo.
From PGT Require Import Proofs.CopyToProofs.
Import ListNotations.

(* ------------------------------------------------------------------------------------- *)
(* association lists *)

Lemma re_update_update {A} k (v w : A) l : update k v (update k w l) = update k v l.
Proof.
  induction l as [|[k' v'] r IH]; cbn [update].
  - now rewrite String.eqb_refl.
  - destruct (String.eqb k k') eqn:E; cbn [update].
    + now rewrite String.eqb_refl.
    + rewrite E. now rewrite IH.
Qed.

(* ------------------------------------------------------------------------------------- *)
(* the reads under a nil chain *)

(* the local variable of genEmbeddedSource holds the zero value: for every field, oneof branch or not *)
Lemma read_source_chain_nil i z obj :
  parent_is_nil i obj = Ok (Some true) -> read_source i z obj = Ok z.
Proof.
  intros PN. unfold read_source, read_field, read_holder.
  destruct (fi_oneof i) as [h|]; rewrite PN; reflexivity.
Qed.

(* a chain which is nil is a chain: the field has a parent *)
Lemma parent_is_nil_true_parent i obj :
  parent_is_nil i obj = Ok (Some true) -> exists p z, fi_parent i = Some (p, z).
Proof.
  unfold parent_is_nil. destruct (fi_parent i) as [[p z]|]; [eauto|discriminate].
Qed.

(* ------------------------------------------------------------------------------------- *)
(* 1. scalars: genPrimitiveBody *)

(* payload and diagnostics when the target holds no scalar of the kind of the field:
   genZeroValue (the null value of the attribute type) *)
Definition fresh_st (i : finfo) (t : tfty) (ds : list diag) : prim * list diag :=
  match null_value t with
  | VPrim k' _ _ p =>
      if tfkind_eqb (fi_tk i) k' then (p, ds)
      else (zero_prim_of_kind (fi_tk i), diag_append ds (WriteConv, fi_path i))
  | _ => (zero_prim_of_kind (fi_tk i), diag_append ds (WriteConv, fi_path i))
  end.

(* payload left under the Null flag and diagnostics, as a function of the earlier attribute *)
Definition nil_st (i : finfo) (t : tfty) (cur : option tfval) (ds : list diag) : prim * list diag :=
  match cur with
  | Some (VPrim k' _ _ p) => if tfkind_eqb (fi_tk i) k' then (p, ds) else fresh_st i t ds
  | _ => fresh_st i t ds
  end.

(* the whole of genPrimitiveBody under a nil chain, as an equation: no panic, rd is not forced *)
Lemma to_prim_value_chain_nil_eq i rd obj t cur ds :
  fi_oneof i = None -> fi_placeholder i = false -> parent_is_nil i obj = Ok (Some true) ->
  to_prim_value i rd obj t cur ds
  = Ok (VPrim (fi_tk i) true false (fst (nil_st i t cur ds)), snd (nil_st i t cur ds)).
Proof.
  intros O PH PN. unfold to_prim_value, nil_st, fresh_st. rewrite O, PH, PN.
  destruct cur as [[k' n u p|e n u el|e n u el|a n u at0| |s f n u g ty c]|];
    try (destruct (tfkind_eqb (fi_tk i) k') eqn:K; [reflexivity|]);
    (destruct (null_value t) as [k2 n2 u2 p2|e2 n2 u2 el2|e2 n2 u2 el2|a2 n2 u2 at2| |s2 f2 n2 u2 g2 ty2 c2];
     try destruct (tfkind_eqb (fi_tk i) k2) eqn:K2; destruct (fi_zero i); reflexivity).
Qed.

Lemma to_prim_value_chain_nil i rd obj t cur ds v ds' :
  fi_oneof i = None -> fi_placeholder i = false -> parent_is_nil i obj = Ok (Some true) ->
  to_prim_value i rd obj t cur ds = Ok (v, ds') ->
  exists p, v = VPrim (fi_tk i) true false p.
Proof.
  intros O PH PN H. rewrite (to_prim_value_chain_nil_eq i rd obj t cur ds O PH PN) in H.
  inversion H; subst. eexists. reflexivity.
Qed.

(* rd is not forced: no extra hypothesis is needed *)
Lemma to_prim_value_chain_nil_no_panic i rd obj t cur ds :
  fi_oneof i = None -> fi_placeholder i = false -> parent_is_nil i obj = Ok (Some true) ->
  to_prim_value i rd obj t cur ds <> Panic.
Proof.
  intros O PH PN. rewrite (to_prim_value_chain_nil_eq i rd obj t cur ds O PH PN). discriminate.
Qed.

Lemma to_prim_value_chain_nil_rd_irrelevant i rd rd' obj t cur ds :
  fi_oneof i = None -> fi_placeholder i = false -> parent_is_nil i obj = Ok (Some true) ->
  to_prim_value i rd obj t cur ds = to_prim_value i rd' obj t cur ds.
Proof.
  intros O PH PN. now rewrite !(to_prim_value_chain_nil_eq i _ obj t cur ds O PH PN).
Qed.

(* the earlier payload stays under the Null flag *)
Lemma to_prim_value_chain_nil_keeps_payload i rd obj t n u p ds :
  fi_oneof i = None -> fi_placeholder i = false -> parent_is_nil i obj = Ok (Some true) ->
  to_prim_value i rd obj t (Some (VPrim (fi_tk i) n u p)) ds = Ok (VPrim (fi_tk i) true false p, ds).
Proof.
  intros O PH PN. rewrite (to_prim_value_chain_nil_eq i rd obj t _ ds O PH PN).
  unfold nil_st. now rewrite tfkind_eqb_refl.
Qed.

(* with the attribute type of the schema there is no diagnostic *)
Lemma nil_st_well_typed i cur ds : snd (nil_st i (TyPrim (fi_tk i)) cur ds) = ds.
Proof.
  unfold nil_st, fresh_st. cbn [null_value]. rewrite tfkind_eqb_refl.
  destruct cur as [[k' n u p| | | | |]|]; try reflexivity.
  destruct (tfkind_eqb (fi_tk i) k'); reflexivity.
Qed.

(* ------------------------------------------------------------------------------------- *)
(* 2. scalars, at the level of the field *)

Lemma to_field_prim_chain_nil_eq hook i om obj atys attrs ds t :
  fi_kind i = PrimitiveKind -> fi_oneof i = None -> fi_placeholder i = false ->
  parent_is_nil i obj = Ok (Some true) -> lookup (fi_snake i) atys = Some t ->
  to_field hook (Field i om) obj atys (attrs, ds)
  = Ok (update (fi_snake i)
               (VPrim (fi_tk i) true false (fst (nil_st i t (lookup (fi_snake i) attrs) ds))) attrs,
        snd (nil_st i t (lookup (fi_snake i) attrs) ds)).
Proof.
  intros K O PH PN T. rewrite to_field_eq. cbv zeta. rewrite T, K, O. cbn [bind].
  rewrite (to_prim_value_chain_nil_eq i _ obj t _ ds O PH PN). reflexivity.
Qed.

Lemma to_field_prim_chain_nil hook i om obj atys attrs ds t attrs' ds' :
  fi_kind i = PrimitiveKind -> fi_oneof i = None -> fi_placeholder i = false ->
  parent_is_nil i obj = Ok (Some true) -> lookup (fi_snake i) atys = Some t ->
  to_field hook (Field i om) obj atys (attrs, ds) = Ok (attrs', ds') ->
  (exists p, lookup (fi_snake i) attrs' = Some (VPrim (fi_tk i) true false p))
  /\ (forall k, k <> fi_snake i -> lookup k attrs' = lookup k attrs).
Proof.
  intros K O PH PN T H.
  rewrite (to_field_prim_chain_nil_eq hook i om obj atys attrs ds t K O PH PN T) in H.
  inversion H; subst attrs' ds'. split.
  - eexists. apply lookup_update_eq.
  - intros k N. now apply lookup_update_neq.
Qed.

Lemma to_field_prim_chain_nil_no_panic hook i om obj atys attrs ds t :
  fi_kind i = PrimitiveKind -> fi_oneof i = None -> fi_placeholder i = false ->
  parent_is_nil i obj = Ok (Some true) -> lookup (fi_snake i) atys = Some t ->
  to_field hook (Field i om) obj atys (attrs, ds) <> Panic.
Proof.
  intros K O PH PN T. rewrite (to_field_prim_chain_nil_eq hook i om obj atys attrs ds t K O PH PN T).
  discriminate.
Qed.

(* ------------------------------------------------------------------------------------- *)
(* 3. lists and maps *)

(* element type and Null flag of the list (map) which is written: those of the earlier one *)
Definition list_hdr (ety : tfty) (cur : option tfval) : tfty * bool :=
  match cur with Some (VList e n0 _ _) => (e, n0) | _ => (ety, true) end.
Definition map_hdr (ety : tfty) (cur : option tfval) : tfty * bool :=
  match cur with Some (VMap e n0 _ _) => (e, n0) | _ => (ety, true) end.

Lemma length_0_nil {A} (x : list A) : Nat.eqb (List.length x) 0 = true -> x = [].
Proof. destruct x; [reflexivity|discriminate]. Qed.

Lemma to_field_list_chain_nil_eq hook i om obj atys attrs ds ety :
  fi_kind i = PrimitiveListKind \/ fi_kind i = ObjectListKind ->
  parent_is_nil i obj = Ok (Some true) -> lookup (fi_snake i) atys = Some (TyList ety) ->
  to_field hook (Field i om) obj atys (attrs, ds)
  = Ok (update (fi_snake i)
               (VList (fst (list_hdr ety (lookup (fi_snake i) attrs)))
                      (snd (list_hdr ety (lookup (fi_snake i) attrs))) false (Some [])) attrs, ds).
Proof.
  intros K PN T. rewrite to_field_eq. cbv zeta. rewrite T.
  rewrite (read_source_chain_nil i (GSlice None) obj PN). unfold list_hdr.
  destruct K as [K|K]; rewrite K; cbn [bind];
    (destruct (lookup (fi_snake i) attrs) as [[k' n u p|e n u el|e n u el|a n u at0| |s f n u g ty c]|];
     try reflexivity;
     destruct el as [x|]; [|reflexivity];
     destruct (Nat.eqb (List.length x) 0) eqn:L; [|reflexivity];
     apply length_0_nil in L; subst x; reflexivity).
Qed.

Lemma to_field_map_chain_nil_eq hook i om obj atys attrs ds ety :
  fi_kind i = PrimitiveMapKind \/ fi_kind i = ObjectMapKind ->
  parent_is_nil i obj = Ok (Some true) -> lookup (fi_snake i) atys = Some (TyMap ety) ->
  to_field hook (Field i om) obj atys (attrs, ds)
  = Ok (update (fi_snake i)
               (VMap (fst (map_hdr ety (lookup (fi_snake i) attrs)))
                     (snd (map_hdr ety (lookup (fi_snake i) attrs))) false (Some [])) attrs, ds).
Proof.
  intros K PN T. rewrite to_field_eq. cbv zeta. rewrite T.
  rewrite (read_source_chain_nil i (GMap None) obj PN). unfold map_hdr.
  destruct K as [K|K]; rewrite K; cbn [bind];
    (destruct (lookup (fi_snake i) attrs) as [[k' n u p|e n u el|e n u el|a n u at0| |s f n u g ty c]|];
     reflexivity).
Qed.

(* ------------------------------------------------------------------------------------- *)
(* 4. messages *)

(* attribute types, Null flag and attributes of the object which is written into: the earlier ones *)
Definition obj_hdr (ats : list (string * tfty)) (cur : option tfval)
  : list (string * tfty) * bool * attrs_t :=
  match cur with
  | Some (VObj a n _ at0) => (a, n, match at0 with Some x => x | None => [] end)
  | _ => (ats, false, [])
  end.

Lemma to_field_msg_nullable_chain_nil_eq hook i m' obj atys attrs ds ats :
  fi_kind i = ObjectKind -> fi_nullable i = true ->
  parent_is_nil i obj = Ok (Some true) -> lookup (fi_snake i) atys = Some (TyObj ats) ->
  to_field hook (Field i (Some m')) obj atys (attrs, ds)
  = Ok (update (fi_snake i)
               (VObj (fst (fst (obj_hdr ats (lookup (fi_snake i) attrs)))) true false
                     (Some (snd (obj_hdr ats (lookup (fi_snake i) attrs))))) attrs, ds).
Proof.
  intros K NU PN T. rewrite to_field_eq. cbv zeta. rewrite T, K, NU.
  rewrite (read_source_chain_nil i (GPtr None) obj PN). cbn [bind].
  unfold obj_value, obj_hdr. rewrite NU.
  destruct (lookup (fi_snake i) attrs) as [[k' n u p|e n u el|e n u el|a n u at0| |s f n u g ty c]|];
    reflexivity.
Qed.

Lemma to_field_msg_value_chain_nil_eq hook i m' obj atys attrs ds ats :
  fi_kind i = ObjectKind -> fi_nullable i = false ->
  parent_is_nil i obj = Ok (Some true) -> lookup (fi_snake i) atys = Some (TyObj ats) ->
  to_field hook (Field i (Some m')) obj atys (attrs, ds)
  = (do st' <- to_fields hook m' (if m_empty m' then obj else m_zero m')
                         (fst (fst (obj_hdr ats (lookup (fi_snake i) attrs))))
                         (snd (obj_hdr ats (lookup (fi_snake i) attrs)), ds);
     Ok (update (fi_snake i)
                (VObj (fst (fst (obj_hdr ats (lookup (fi_snake i) attrs))))
                      (snd (fst (obj_hdr ats (lookup (fi_snake i) attrs)))) false (Some (fst st'))) attrs,
         snd st')).
Proof.
  intros K NU PN T. rewrite to_field_eq. cbv zeta. rewrite T, K, NU.
  rewrite (read_source_chain_nil i (m_zero m') obj PN). cbn [bind].
  unfold obj_value, obj_hdr. rewrite NU.
  destruct (lookup (fi_snake i) attrs) as [[k' n u p|e n u el|e n u el|a n u at0| |s f n u g ty c]|];
    cbn [fst snd]; unfold attrs_t;
    (destruct (m_empty m'); cbn [bind];
     match goal with
     | |- context [to_fields ?h ?m ?g ?a ?s] => destruct (to_fields h m g a s) as [[a1 d1]|]
     end; reflexivity).
Qed.

(* ------------------------------------------------------------------------------------- *)
(* 5. a second copy changes nothing *)

Lemma nil_st_same i t n u p d : nil_st i t (Some (VPrim (fi_tk i) n u p)) d = (p, d).
Proof. unfold nil_st. now rewrite tfkind_eqb_refl. Qed.

Lemma to_field_prim_chain_nil_idem hook i om obj atys attrs ds t attrs' ds' :
  fi_kind i = PrimitiveKind -> fi_oneof i = None -> fi_placeholder i = false ->
  parent_is_nil i obj = Ok (Some true) -> lookup (fi_snake i) atys = Some t ->
  to_field hook (Field i om) obj atys (attrs, ds) = Ok (attrs', ds') ->
  to_field hook (Field i om) obj atys (attrs', ds') = Ok (attrs', ds').
Proof.
  intros K O PH PN T H.
  rewrite (to_field_prim_chain_nil_eq hook i om obj atys attrs ds t K O PH PN T) in H.
  set (P := fst (nil_st i t (lookup (fi_snake i) attrs) ds)) in H.
  set (D := snd (nil_st i t (lookup (fi_snake i) attrs) ds)) in H.
  injection H as HA HD. subst attrs' ds'.
  rewrite (to_field_prim_chain_nil_eq hook i om obj atys _ D t K O PH PN T).
  rewrite lookup_update_eq, nil_st_same. cbn [fst snd]. now rewrite re_update_update.
Qed.

Lemma to_field_list_chain_nil_idem hook i om obj atys attrs ds ety attrs' ds' :
  fi_kind i = PrimitiveListKind \/ fi_kind i = ObjectListKind ->
  parent_is_nil i obj = Ok (Some true) -> lookup (fi_snake i) atys = Some (TyList ety) ->
  to_field hook (Field i om) obj atys (attrs, ds) = Ok (attrs', ds') ->
  to_field hook (Field i om) obj atys (attrs', ds') = Ok (attrs', ds').
Proof.
  intros K PN T H.
  rewrite (to_field_list_chain_nil_eq hook i om obj atys attrs ds ety K PN T) in H.
  injection H as HA HD. subst attrs' ds'.
  rewrite (to_field_list_chain_nil_eq hook i om obj atys _ ds ety K PN T).
  rewrite lookup_update_eq. cbn [list_hdr fst snd]. now rewrite re_update_update.
Qed.

Lemma to_field_map_chain_nil_idem hook i om obj atys attrs ds ety attrs' ds' :
  fi_kind i = PrimitiveMapKind \/ fi_kind i = ObjectMapKind ->
  parent_is_nil i obj = Ok (Some true) -> lookup (fi_snake i) atys = Some (TyMap ety) ->
  to_field hook (Field i om) obj atys (attrs, ds) = Ok (attrs', ds') ->
  to_field hook (Field i om) obj atys (attrs', ds') = Ok (attrs', ds').
Proof.
  intros K PN T H.
  rewrite (to_field_map_chain_nil_eq hook i om obj atys attrs ds ety K PN T) in H.
  injection H as HA HD. subst attrs' ds'.
  rewrite (to_field_map_chain_nil_eq hook i om obj atys _ ds ety K PN T).
  rewrite lookup_update_eq. cbn [map_hdr fst snd]. now rewrite re_update_update.
Qed.

Lemma to_field_msg_nullable_chain_nil_idem hook i m' obj atys attrs ds ats attrs' ds' :
  fi_kind i = ObjectKind -> fi_nullable i = true ->
  parent_is_nil i obj = Ok (Some true) -> lookup (fi_snake i) atys = Some (TyObj ats) ->
  to_field hook (Field i (Some m')) obj atys (attrs, ds) = Ok (attrs', ds') ->
  to_field hook (Field i (Some m')) obj atys (attrs', ds') = Ok (attrs', ds').
Proof.
  intros K NU PN T H.
  rewrite (to_field_msg_nullable_chain_nil_eq hook i m' obj atys attrs ds ats K NU PN T) in H.
  injection H as HA HD. subst attrs' ds'.
  rewrite (to_field_msg_nullable_chain_nil_eq hook i m' obj atys _ ds ats K NU PN T).
  rewrite lookup_update_eq. cbn [obj_hdr fst snd]. now rewrite re_update_update.
Qed.

(* ------------------------------------------------------------------------------------- *)
(* the statements of C09 for the embedded nullable message *)

(* scalars: the copy succeeds (no panic although the Go expression of the field would dereference
   the nil pointer: it is not evaluated), the attribute is null and known whatever it was, the
   other attributes are those of before, no diagnostic with the attribute type of the schema *)
Theorem C09_refresh_embedded_scalar hook i om obj atys attrs ds t :
  fi_kind i = PrimitiveKind -> fi_oneof i = None -> fi_placeholder i = false ->
  parent_is_nil i obj = Ok (Some true) -> lookup (fi_snake i) atys = Some t ->
  exists attrs' ds' p,
    to_field hook (Field i om) obj atys (attrs, ds) = Ok (attrs', ds')
    /\ lookup (fi_snake i) attrs' = Some (VPrim (fi_tk i) true false p)
    /\ (forall n u p0, lookup (fi_snake i) attrs = Some (VPrim (fi_tk i) n u p0) -> p = p0 /\ ds' = ds)
    /\ (forall k, k <> fi_snake i -> lookup k attrs' = lookup k attrs)
    /\ (t = TyPrim (fi_tk i) -> ds' = ds).
Proof.
  intros K O PH PN T. eexists. eexists. eexists.
  split; [apply (to_field_prim_chain_nil_eq hook i om obj atys attrs ds t K O PH PN T)|].
  split; [apply lookup_update_eq|].
  split; [intros n u p0 L; rewrite L, nil_st_same; split; reflexivity|].
  split; [intros k N; now apply lookup_update_neq|].
  intros ->. apply nil_st_well_typed.
Qed.
Print Assumptions C09_refresh_embedded_scalar.

(* lists: the copy succeeds without a diagnostic and the attribute is a known list of ZERO
   elements, whatever the earlier elements were; its element type and its Null flag are those of
   the earlier list when there was one (an earlier non-null list becomes the empty non-null
   list), (ety, null) otherwise *)
Theorem C09_refresh_embedded_list hook i om obj atys attrs ds ety :
  fi_kind i = PrimitiveListKind \/ fi_kind i = ObjectListKind ->
  parent_is_nil i obj = Ok (Some true) -> lookup (fi_snake i) atys = Some (TyList ety) ->
  exists attrs' e n,
    to_field hook (Field i om) obj atys (attrs, ds) = Ok (attrs', ds)
    /\ lookup (fi_snake i) attrs' = Some (VList e n false (Some []))
    /\ (forall e0 n0 u0 el0, lookup (fi_snake i) attrs = Some (VList e0 n0 u0 el0) -> e = e0 /\ n = n0)
    /\ ((forall e0 n0 u0 el0, lookup (fi_snake i) attrs <> Some (VList e0 n0 u0 el0)) -> e = ety /\ n = true)
    /\ (forall k, k <> fi_snake i -> lookup k attrs' = lookup k attrs).
Proof.
  intros K PN T. eexists. eexists. eexists.
  split; [apply (to_field_list_chain_nil_eq hook i om obj atys attrs ds ety K PN T)|].
  split; [apply lookup_update_eq|].
  split; [intros e0 n0 u0 el0 L; rewrite L; split; reflexivity|].
  split; [|intros k N; now apply lookup_update_neq].
  intros NL.
  destruct (lookup (fi_snake i) attrs) as [[k' n u p|e n u el|e n u el|a n u at0| |s f n u g ty c]|];
    try (split; reflexivity).
  exfalso. exact (NL e n u el eq_refl).
Qed.
Print Assumptions C09_refresh_embedded_list.

(* maps: the same *)
Theorem C09_refresh_embedded_map hook i om obj atys attrs ds ety :
  fi_kind i = PrimitiveMapKind \/ fi_kind i = ObjectMapKind ->
  parent_is_nil i obj = Ok (Some true) -> lookup (fi_snake i) atys = Some (TyMap ety) ->
  exists attrs' e n,
    to_field hook (Field i om) obj atys (attrs, ds) = Ok (attrs', ds)
    /\ lookup (fi_snake i) attrs' = Some (VMap e n false (Some []))
    /\ (forall e0 n0 u0 el0, lookup (fi_snake i) attrs = Some (VMap e0 n0 u0 el0) -> e = e0 /\ n = n0)
    /\ ((forall e0 n0 u0 el0, lookup (fi_snake i) attrs <> Some (VMap e0 n0 u0 el0)) -> e = ety /\ n = true)
    /\ (forall k, k <> fi_snake i -> lookup k attrs' = lookup k attrs).
Proof.
  intros K PN T. eexists. eexists. eexists.
  split; [apply (to_field_map_chain_nil_eq hook i om obj atys attrs ds ety K PN T)|].
  split; [apply lookup_update_eq|].
  split; [intros e0 n0 u0 el0 L; rewrite L; split; reflexivity|].
  split; [|intros k N; now apply lookup_update_neq].
  intros NL.
  destruct (lookup (fi_snake i) attrs) as [[k' n u p|e n u el|e n u el|a n u at0| |s f n u g ty c]|];
    try (split; reflexivity).
  exfalso. exact (NL e n u el eq_refl).
Qed.
Print Assumptions C09_refresh_embedded_map.

(* messages.  (a, n0, attrs0): attribute types, Null flag and attributes of the earlier object when
   there was one, (ats, false, []) otherwise.
   - nullable: the copy succeeds without a diagnostic, the attribute is the NULL known object; it
     keeps the earlier attributes attrs0 under the Null flag;
   - by value: the attribute is NOT made null: it is the object into which the zero value of the
     message's struct (the enclosing struct for an empty message) has been copied, with the
     earlier Null flag n0; the copy is the one of to_fields on that zero value. *)
Theorem C09_refresh_embedded_message hook i m' obj atys (attrs : attrs_t) ds ats :
  fi_kind i = ObjectKind ->
  parent_is_nil i obj = Ok (Some true) -> lookup (fi_snake i) atys = Some (TyObj ats) ->
  forall a n0 attrs0, obj_hdr ats (lookup (fi_snake i) attrs) = (a, n0, attrs0) ->
  (fi_nullable i = true ->
   exists attrs',
     to_field hook (Field i (Some m')) obj atys (attrs, ds) = Ok (attrs', ds)
     /\ lookup (fi_snake i) attrs' = Some (VObj a true false (Some attrs0))
     /\ (forall k, k <> fi_snake i -> lookup k attrs' = lookup k attrs))
  /\ (fi_nullable i = false ->
      forall attrs' ds',
        to_field hook (Field i (Some m')) obj atys (attrs, ds) = Ok (attrs', ds') ->
        exists attrs1,
          to_fields hook m' (if m_empty m' then obj else m_zero m') a (attrs0, ds) = Ok (attrs1, ds')
          /\ lookup (fi_snake i) attrs' = Some (VObj a n0 false (Some attrs1))
          /\ (forall k, k <> fi_snake i -> lookup k attrs' = lookup k attrs)).
Proof.
  intros K PN T a n0 attrs0 HD. split.
  - intros NU. eexists.
    split; [apply (to_field_msg_nullable_chain_nil_eq hook i m' obj atys attrs ds ats K NU PN T)|].
    rewrite HD. cbn [fst snd].
    split; [apply lookup_update_eq|intros k N; now apply lookup_update_neq].
  - intros NU attrs' ds' H.
    rewrite (to_field_msg_value_chain_nil_eq hook i m' obj atys attrs ds ats K NU PN T) in H.
    rewrite HD in H. cbn [fst snd] in H.
    destruct (to_fields hook m' (if m_empty m' then obj else m_zero m') a (attrs0, ds)) as [[a1 d1]|] eqn:E;
      cbn [bind fst snd] in H; [|discriminate H].
    inversion H as [[HA HDs]]. exists a1.
    split; [reflexivity|].
    split; [apply lookup_update_eq|intros k N; now apply lookup_update_neq].
Qed.
Print Assumptions C09_refresh_embedded_message.

(* a second copy of the same source changes nothing: attributes and diagnostics *)
Theorem C09_refresh_embedded_idempotent hook i om obj atys attrs ds t attrs' ds' :
  fi_kind i = PrimitiveKind -> fi_oneof i = None -> fi_placeholder i = false ->
  parent_is_nil i obj = Ok (Some true) -> lookup (fi_snake i) atys = Some t ->
  to_field hook (Field i om) obj atys (attrs, ds) = Ok (attrs', ds') ->
  to_field hook (Field i om) obj atys (attrs', ds') = Ok (attrs', ds')
  /\ exists p, lookup (fi_snake i) attrs' = Some (VPrim (fi_tk i) true false p).
Proof.
  intros K O PH PN T H. split.
  - exact (to_field_prim_chain_nil_idem hook i om obj atys attrs ds t attrs' ds' K O PH PN T H).
  - exact (proj1 (to_field_prim_chain_nil hook i om obj atys attrs ds t attrs' ds' K O PH PN T H)).
Qed.
Print Assumptions C09_refresh_embedded_idempotent.

(* ------------------------------------------------------------------------------------- *)
(* 6. the statements are not vacuous: concrete fields promoted from the nullable embedded message
   Meta of  type T struct { *Meta; Name string },  type Meta struct { Label string; Tags []string;
   Notes map[string]string; Spec *Spec; Conf Conf; *Inner }  with Meta nil in the source *)

Module Witness.
  Local Open Scope string_scope.

  Definition mk (name snake : string) (k : kind) (nullable zero ph : bool) (oneof : option string)
             (via : list string) (inner : list (string * goval)) : finfo :=
    {| fi_name := name; fi_snake := snake; fi_path := "T." ++ name; fi_kind := k; fi_tk := KStr;
       fi_cast := GsString; fi_nullable := nullable; fi_zero := zero; fi_placeholder := ph;
       fi_oneof := oneof; fi_via := via;
       fi_parent := Some ("Meta", GStruct [("Label", GPrim (PStr ""))]); fi_inner := inner;
       fi_required := false; fi_computed := false; fi_sensitive := false; fi_validators := [];
       fi_planmods := []; fi_comment := ""; fi_suffix := "" |}.

  Definition str (s : string) : tfval := VPrim KStr false false (PStr s).

  (* the source: Meta is nil *)
  Definition obj : goval := GStruct [("Meta", GPtr None); ("Name", GPrim (PStr "n"))].
  (* the source of the two-level chain: Meta is set, its embedded Inner is nil *)
  Definition obj2 : goval :=
    GStruct [("Meta", GPtr (Some (GStruct [("Label", GPrim (PStr "l")); ("Inner", GPtr None)])));
             ("Name", GPrim (PStr "n"))].

  (* --- scalar --- *)
  Definition label : finfo := mk "Label" "label" PrimitiveKind false false false None ["Meta"] [].
  Definition label_z : finfo := mk "Label" "label" PrimitiveKind false true false None ["Meta"] [].
  Definition atys : list (string * tfty) := [("name", TyPrim KStr); ("label", TyPrim KStr)].
  (* the earlier state: both attributes known and NOT null *)
  Definition prior : attrs_t := [("name", str "n"); ("label", str "old")].

  Example hyps_label :
    fi_kind label = PrimitiveKind /\ fi_oneof label = None /\ fi_placeholder label = false
    /\ parent_is_nil label obj = Ok (Some true) /\ lookup (fi_snake label) atys = Some (TyPrim KStr).
  Proof. vm_compute. repeat split. Qed.

  (* the Go expression obj.Label is a nil pointer dereference: it is not evaluated *)
  Example label_read_panics : read_field label (zero_of_prim label) obj = Panic.
  Proof. vm_compute. reflexivity. Qed.

  (* the attribute held "old", not null: it becomes null (the payload stays under the flag) *)
  Example label_becomes_null :
    to_field std_hook_to (Field label None) obj atys (prior, [])
    = Ok ([("name", str "n"); ("label", VPrim KStr true false (PStr "old"))], []).
  Proof. vm_compute. reflexivity. Qed.

  Example label_z_becomes_null :
    to_field std_hook_to (Field label_z None) obj atys (prior, [])
    = Ok ([("name", str "n"); ("label", VPrim KStr true false (PStr "old"))], []).
  Proof. vm_compute. reflexivity. Qed.

  (* the earlier value may be unknown, or of another kind: null, known, of the kind of the field *)
  Example label_from_unknown :
    to_field std_hook_to (Field label None) obj atys
             ([("name", str "n"); ("label", VPrim KStr false true (PStr ""))], [])
    = Ok ([("name", str "n"); ("label", VPrim KStr true false (PStr ""))], []).
  Proof. vm_compute. reflexivity. Qed.

  Example label_from_other_kind :
    to_field std_hook_to (Field label None) obj atys
             ([("name", str "n"); ("label", VPrim KBool false false (PBool true))], [])
    = Ok ([("name", str "n"); ("label", VPrim KStr true false (PStr ""))], []).
  Proof. vm_compute. reflexivity. Qed.

  (* the theorem, on the witness *)
  Example label_by_theorem :
    exists attrs' ds' p,
      to_field std_hook_to (Field label None) obj atys (prior, []) = Ok (attrs', ds')
      /\ lookup "label" attrs' = Some (VPrim KStr true false p)
      /\ lookup "name" attrs' = Some (str "n").
  Proof.
    destruct hyps_label as (K & O & PH & PN & T).
    destruct (C09_refresh_embedded_scalar std_hook_to label None obj atys prior [] _ K O PH PN T)
      as (attrs' & ds' & p & H & L & _ & LOC & _).
    exists attrs', ds', p. split; [exact H|]. split; [exact L|].
    rewrite (LOC "name"); [reflexivity|discriminate].
  Qed.

  (* a chain of two nullable embedded messages, the outer one set and the inner one nil *)
  Definition deep : finfo :=
    mk "Depth" "depth" PrimitiveKind false false false None ["Meta"; "Inner"]
       [("Inner", GStruct [("Depth", GPrim (PStr ""))])].

  Example deep_chain_nil : parent_is_nil deep obj2 = Ok (Some true).
  Proof. vm_compute. reflexivity. Qed.

  Example deep_becomes_null :
    to_field std_hook_to (Field deep None) obj2 [("depth", TyPrim KStr)] ([("depth", str "old")], [])
    = Ok ([("depth", VPrim KStr true false (PStr "old"))], []).
  Proof. vm_compute. reflexivity. Qed.

  (* --- list --- *)
  Definition tags : finfo := mk "Tags" "tags" PrimitiveListKind false false false None ["Meta"] [].

  (* an earlier non-null list of two elements: no element is left; the list is the EMPTY NON-NULL
     list (the Null flag is the earlier one) *)
  Example tags_emptied :
    to_field std_hook_to (Field tags None) obj [("tags", TyList (TyPrim KStr))]
             ([("tags", VList (TyPrim KStr) false false (Some [str "a"; str "b"]))], [])
    = Ok ([("tags", VList (TyPrim KStr) false false (Some []))], []).
  Proof. vm_compute. reflexivity. Qed.

  (* earlier elements unknown: known and empty afterwards *)
  Example tags_from_unknown :
    to_field std_hook_to (Field tags None) obj [("tags", TyList (TyPrim KStr))]
             ([("tags", VList (TyPrim KStr) false true None)], [])
    = Ok ([("tags", VList (TyPrim KStr) false false (Some []))], []).
  Proof. vm_compute. reflexivity. Qed.

  (* no earlier list: the null list with zero elements *)
  Example tags_fresh :
    to_field std_hook_to (Field tags None) obj [("tags", TyList (TyPrim KStr))] ([], [])
    = Ok ([("tags", VList (TyPrim KStr) true false (Some []))], []).
  Proof. vm_compute. reflexivity. Qed.

  (* --- map --- *)
  Definition notes : finfo := mk "Notes" "notes" PrimitiveMapKind false false false None ["Meta"] [].

  Example notes_emptied :
    to_field std_hook_to (Field notes None) obj [("notes", TyMap (TyPrim KStr))]
             ([("notes", VMap (TyPrim KStr) false false (Some [("k", str "a")]))], [])
    = Ok ([("notes", VMap (TyPrim KStr) false false (Some []))], []).
  Proof. vm_compute. reflexivity. Qed.

  (* --- messages --- *)
  Definition x_info : finfo :=
    {| fi_name := "X"; fi_snake := "x"; fi_path := "Spec.X"; fi_kind := PrimitiveKind; fi_tk := KStr;
       fi_cast := GsString; fi_nullable := false; fi_zero := false; fi_placeholder := false;
       fi_oneof := None; fi_via := []; fi_parent := None; fi_inner := [];
       fi_required := false; fi_computed := false; fi_sensitive := false; fi_validators := [];
       fi_planmods := []; fi_comment := ""; fi_suffix := "" |}.
  Definition spec_msg : message :=
    Msg "Spec" [Field x_info None] [] [] false (GStruct [("X", GPrim (PStr ""))]).
  Definition spec : finfo := mk "Spec" "spec" ObjectKind true false false None ["Meta"] [].
  Definition conf : finfo := mk "Conf" "conf" ObjectKind false false false None ["Meta"] [].
  Definition xats : list (string * tfty) := [("x", TyPrim KStr)].

  (* nullable message: the earlier non-null object becomes NULL (its attributes stay under the flag) *)
  Example spec_becomes_null :
    to_field std_hook_to (Field spec (Some spec_msg)) obj [("spec", TyObj xats)]
             ([("spec", VObj xats false false (Some [("x", str "old")]))], [])
    = Ok ([("spec", VObj xats true false (Some [("x", str "old")]))], []).
  Proof. vm_compute. reflexivity. Qed.

  (* by-value message: NOT null: the zero struct is copied into the earlier object *)
  Example conf_not_null :
    to_field std_hook_to (Field conf (Some spec_msg)) obj [("conf", TyObj xats)]
             ([("conf", VObj xats false false (Some [("x", str "old")]))], [])
    = Ok ([("conf", VObj xats false false (Some [("x", str "")]))], []).
  Proof. vm_compute. reflexivity. Qed.
End Witness.

(* ------------------------------------------------------------------------------------- *)
(* the hypotheses fi_oneof = None and fi_placeholder = false of the scalar statements are needed:
   without them the attribute is NOT made null *)

Module Counter.
  Import Witness.
  Local Open Scope string_scope.

  (* the placeholder "active" of an EMPTY nullable embedded message: genPrimitiveBody neither reads
     the source nor tests the chain for it; the earlier value stays as it is *)
  Definition active : finfo := mk "active" "active" PrimitiveKind false true true None ["Meta"] [].

  Example placeholder_chain_nil : parent_is_nil active obj = Ok (Some true).
  Proof. vm_compute. reflexivity. Qed.

  Lemma to_field_prim_chain_nil_placeholder_refuted :
    ~ (forall hook i om obj atys attrs ds t attrs' ds',
          fi_kind i = PrimitiveKind -> fi_oneof i = None ->
          parent_is_nil i obj = Ok (Some true) -> lookup (fi_snake i) atys = Some t ->
          to_field hook (Field i om) obj atys (attrs, ds) = Ok (attrs', ds') ->
          exists p, lookup (fi_snake i) attrs' = Some (VPrim (fi_tk i) true false p)).
  Proof.
    intros H.
    destruct (H std_hook_to active None obj [("active", TyPrim KStr)] [("active", str "yes")] []
                (TyPrim KStr) [("active", str "yes")] []
                eq_refl eq_refl eq_refl eq_refl eq_refl) as [p E].
    vm_compute in E. discriminate E.
  Qed.

  (* a value-typed branch of a oneof of the embedded message: the holder is read as nil when the
     chain is nil (read_holder), the branch is then the zero value of its Go type, and the chain is
     not tested in genPrimitiveBody: the earlier Null flag stays, with the zero payload *)
  Definition branch : finfo := mk "Branch" "branch" PrimitiveKind false false false (Some "Kind") ["Meta"] [].

  Example branch_chain_nil : parent_is_nil branch obj = Ok (Some true).
  Proof. vm_compute. reflexivity. Qed.

  Example branch_not_null :
    to_field std_hook_to (Field branch None) obj [("branch", TyPrim KStr)] ([("branch", str "old")], [])
    = Ok ([("branch", str "")], []).
  Proof. vm_compute. reflexivity. Qed.

  Lemma to_field_prim_chain_nil_oneof_refuted :
    ~ (forall hook i om obj atys attrs ds t attrs' ds',
          fi_kind i = PrimitiveKind -> fi_placeholder i = false ->
          parent_is_nil i obj = Ok (Some true) -> lookup (fi_snake i) atys = Some t ->
          to_field hook (Field i om) obj atys (attrs, ds) = Ok (attrs', ds') ->
          exists p, lookup (fi_snake i) attrs' = Some (VPrim (fi_tk i) true false p)).
  Proof.
    intros H.
    destruct (H std_hook_to branch None obj [("branch", TyPrim KStr)] [("branch", str "old")] []
                (TyPrim KStr) [("branch", str "")] []
                eq_refl eq_refl eq_refl eq_refl eq_refl) as [p E].
    vm_compute in E. discriminate E.
  Qed.

  (* a NULLABLE branch of such a oneof is made null (the zero value of the branch is the nil pointer) *)
  Definition pbranch : finfo := mk "PBranch" "pbranch" PrimitiveKind true false false (Some "Kind") ["Meta"] [].

  Example pbranch_becomes_null :
    to_field std_hook_to (Field pbranch None) obj [("pbranch", TyPrim KStr)] ([("pbranch", str "old")], [])
    = Ok ([("pbranch", VPrim KStr true false (PStr "old"))], []).
  Proof. vm_compute. reflexivity. Qed.

  (* a by-value message promoted from the nil embedded message is not made null either
     (Witness.conf_not_null): "becomes null" of C09 is about NULLABLE messages *)
  Lemma to_field_msg_value_chain_nil_refuted :
    ~ (forall hook i m' obj atys attrs ds ats attrs' ds',
          fi_kind i = ObjectKind ->
          parent_is_nil i obj = Ok (Some true) -> lookup (fi_snake i) atys = Some (TyObj ats) ->
          to_field hook (Field i (Some m')) obj atys (attrs, ds) = Ok (attrs', ds') ->
          exists a at0, lookup (fi_snake i) attrs' = Some (VObj a true false at0)).
  Proof.
    intros H.
    destruct (H std_hook_to conf spec_msg obj [("conf", TyObj xats)]
                [("conf", VObj xats false false (Some [("x", str "old")]))] [] xats
                [("conf", VObj xats false false (Some [("x", str "")]))] []
                eq_refl eq_refl eq_refl eq_refl) as (a & at0 & E).
    vm_compute in E. discriminate E.
  Qed.
End Counter.
