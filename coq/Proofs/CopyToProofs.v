(* Properties of the emitted Copy<T>ToTerraform (Model/CopyTo.v): locality of the writes (C02,
   C10), absence of unknown values (C03, C08, C09), null-ness of primitive attributes on an empty
   target (C20, C07), diagnostics as a set (C06). *)
From Coq Require Import List String Bool ZArith.
From PGT Require Import Base.Strs Base.AList Model.Vals Model.IR Model.CopyTo.
Import ListNotations.

(* ------------------------------------------------------------------------------------- *)
(* unfolding *)

Fixpoint to_field_list (hook : hook_to_t) (fs : list field) (obj : goval) (atys : list (string * tfty))
         (st : tstate) : res tstate :=
  match fs with
  | [] => Ok st
  | f :: r => do st' <- to_field hook f obj atys st; to_field_list hook r obj atys st'
  end.

Lemma to_fields_list hook n fs os inj e z obj atys st :
  to_fields hook (Msg n fs os inj e z) obj atys st = to_field_list hook fs obj atys st.
Proof.
  revert st. induction fs as [|f r IH]; intros st; [reflexivity|].
  change (to_fields hook (Msg n (f :: r) os inj e z) obj atys st)
    with (do st' <- to_field hook f obj atys st; to_fields hook (Msg n r os inj e z) obj atys st').
  cbn [to_field_list]. destruct (to_field hook f obj atys st); [|reflexivity]. cbn [bind]. apply IH.
Qed.

Lemma to_fields_m_fields hook m obj atys st :
  to_fields hook m obj atys st = to_field_list hook (m_fields m) obj atys st.
Proof. destruct m. apply to_fields_list. Qed.

(* genObjectBody, as a function of its own: the local definition [obj_value] of [to_field] *)
Definition obj_value (hook : hook_to_t) (i : finfo) (obj : goval) (cur : option tfval)
           (m' : message) (rd : res goval) (ats : list (string * tfty)) (ds : list diag)
  : res (tfval * list diag) :=
  let '(oatys, n0, attrs0) :=
    match cur with
    | Some (VObj a n u at0) => (a, n, match at0 with Some x => x | None => [] end)
    | _ => (ats, false, [])
    end in
  let copy (g : goval) : res (tfval * list diag) :=
    do st' <- to_fields hook m' g oatys (attrs0, ds);
    let '(attrs', ds') := st' in
    Ok (VObj oatys n0 false (Some attrs'), ds') in
  if fi_nullable i then
    do g <- rd;
    match g with
    | GPtr None => Ok (VObj oatys true false (Some attrs0), ds)
    | GPtr (Some inner) => copy (if m_empty m' then obj else inner)
    | _ => Panic
    end
  else if m_empty m' then copy obj
  else do g <- rd; copy g.

Lemma to_field_eq hook i om obj atys attrs ds :
  to_field hook (Field i om) obj atys (attrs, ds) =
    let s := fi_snake i in
    let path := fi_path i in
    match lookup s atys with
    | None => Ok (attrs, diag_append ds (WriteMissing, path))
    | Some t =>
        let cur := lookup s attrs in
        match fi_kind i, om with
        | PrimitiveKind, _ =>
            let bz := zero_of_prim i in
            do _u <- (match fi_oneof i with Some h => do _u <- read_holder i h obj; Ok tt | None => Ok tt end);
            do vd <- to_prim_value i (read_field i bz obj) obj t cur ds;
            let '(v, ds') := vd in
            Ok (update s v attrs, ds')
        | ObjectKind, Some m' =>
            let rd := read_source i (if fi_nullable i then GPtr None else m_zero m') obj in
            do _u <- rd;
            match t with
            | TyObj ats =>
                do vd <- obj_value hook i obj cur m' rd ats ds;
                let '(v, ds') := vd in
                Ok (update s v attrs, ds')
            | _ => Ok (attrs, diag_append ds (WriteConv, path))
            end
        | PrimitiveListKind, _ | ObjectListKind, _ =>
            match t with
            | TyList ety =>
                do g <- read_source i (GSlice None) obj;
                match g with
                | GSlice src =>
                    let n := match src with Some l => List.length l | None => O end in
                    let '(cety, cn, celems) :=
                      match cur with
                      | Some (VList e n0 u0 el) =>
                          (e, n0, match el with
                                  | Some x => if Nat.eqb (List.length x) n then x else make_nils n
                                  | None => make_nils n
                                  end)
                      | _ => (ety, true, make_nils n)
                      end in
                    match src with
                    | None => Ok (update s (VList cety cn false (Some celems)) attrs, ds)
                    | Some l =>
                        do r <-
                          (match fi_kind i, om with
                           | ObjectListKind, Some m' =>
                               match ety with
                               | TyObj ats =>
                                   fold_left (fun acc a =>
                                                do '(vs, ds1) <- acc;
                                                do '(v, ds2) <- obj_value hook i obj cur m' (Ok a) ats ds1;
                                                Ok (vs ++ [v], ds2)) l (Ok ([], ds))
                               | _ => Panic
                               end
                           | _, _ =>
                               fold_left (fun acc a =>
                                            do '(vs, ds1) <- acc;
                                            do '(v, ds2) <- to_prim_value i (Ok a) obj ety cur ds1;
                                            Ok (vs ++ [v], ds2)) l (Ok ([], ds))
                           end);
                        let '(vs, ds') := r in
                        Ok (update s (VList cety (if Nat.ltb 0 n then false else cn) false (Some vs)) attrs, ds')
                    end
                | _ => Panic
                end
            | _ => Ok (attrs, diag_append ds (WriteConv, path))
            end
        | PrimitiveMapKind, _ | ObjectMapKind, _ =>
            match t with
            | TyMap ety =>
                do g <- read_source i (GMap None) obj;
                match g with
                | GMap src =>
                    let '(cety, cn, celems) :=
                      match cur with
                      | Some (VMap e n0 u0 el) => (e, n0, [])
                      | _ => (ety, true, [])
                      end in
                    match src with
                    | None => Ok (update s (VMap cety cn false (Some celems)) attrs, ds)
                    | Some l =>
                        do r <-
                          (match fi_kind i, om with
                           | ObjectMapKind, Some m' =>
                               match ety with
                               | TyObj ats =>
                                   fold_left (fun acc ka =>
                                                do '(es, ds1) <- acc;
                                                do '(v, ds2) <- obj_value hook i obj cur m' (Ok (snd ka)) ats ds1;
                                                Ok (update (fst ka) v es, ds2)) l (Ok (celems, ds))
                               | _ => Panic
                               end
                           | _, _ =>
                               fold_left (fun acc ka =>
                                            do '(es, ds1) <- acc;
                                            do '(v, ds2) <- to_prim_value i (Ok (snd ka)) obj ety cur ds1;
                                            Ok (update (fst ka) v es, ds2)) l (Ok (celems, ds))
                           end);
                        let '(es, ds') := r in
                        Ok (update s (VMap cety (match l with [] => cn | _ => false end) false (Some es)) attrs, ds')
                    end
                | _ => Panic
                end
            | _ => Ok (attrs, diag_append ds (WriteConv, path))
            end
        | CustomKind, _ =>
            do g <- (match fi_parent i with
                     | Some (_, pzero) => do z <- gfield pzero (fi_name i); read_source i z obj
                     | None => gget_via obj (fi_via i) (fi_name i)
                     end);
            Ok (update s (hook (fi_suffix i) g t cur) attrs, ds)
        | _, None => Panic
        end
    end.
Proof. reflexivity. Qed.

(* ------------------------------------------------------------------------------------- *)
(* 1. locality *)

Ltac step H :=
  match type of H with
  | Ok _ = Ok _ => inversion H; subst; clear H
  | Panic = Ok _ => discriminate H
  | bind ?x _ = Ok _ => destruct x eqn:?; cbn [bind] in H
  | match ?x with _ => _ end = Ok _ => destruct x eqn:?
  end.

(* a field leaves the attributes alone or updates its own attribute *)
Lemma to_field_shape hook f obj atys attrs ds attrs' ds' :
  to_field hook f obj atys (attrs, ds) = Ok (attrs', ds') ->
  attrs' = attrs \/ exists v, attrs' = update (fi_snake (f_info f)) v attrs.
Proof.
  destruct f as [i om]. rewrite to_field_eq. cbn [f_info]. cbv zeta. intros H.
  repeat step H; first [left; reflexivity | right; eexists; reflexivity].
Qed.

Lemma to_field_local hook f obj atys attrs ds attrs' ds' :
  to_field hook f obj atys (attrs, ds) = Ok (attrs', ds') ->
  forall k, k <> fi_snake (f_info f) -> lookup k attrs' = lookup k attrs.
Proof.
  intros H k N. destruct (to_field_shape _ _ _ _ _ _ _ _ H) as [->|[v ->]]; [reflexivity|].
  now apply lookup_update_neq.
Qed.

Lemma to_field_list_local hook fs obj atys : forall attrs ds attrs' ds',
  to_field_list hook fs obj atys (attrs, ds) = Ok (attrs', ds') ->
  forall k, ~ In k (map (fun f => fi_snake (f_info f)) fs) -> lookup k attrs' = lookup k attrs.
Proof.
  induction fs as [|f r IH]; intros attrs ds attrs' ds' H k N; cbn [to_field_list] in H.
  - now inversion H.
  - destruct (to_field hook f obj atys (attrs, ds)) as [[a1 d1]|] eqn:E; cbn [bind] in H; [|discriminate].
    cbn [map In] in N. rewrite (IH _ _ _ _ H k) by tauto.
    apply (to_field_local _ _ _ _ _ _ _ _ E). intros ->. tauto.
Qed.

Theorem to_fields_local hook m obj atys attrs ds attrs' ds' :
  to_fields hook m obj atys (attrs, ds) = Ok (attrs', ds') ->
  forall k, ~ In k (map (fun f => fi_snake (f_info f)) (m_fields m)) -> lookup k attrs' = lookup k attrs.
Proof. rewrite to_fields_m_fields. apply to_field_list_local. Qed.

(* C10: attributes which are not fields of the message (injected ones) are never touched *)
Corollary copy_to_untouched hook m obj atys n u at0 t ds k :
  copy_to hook m obj (VObj atys n u at0) = Ok (t, ds) ->
  ~ In k (map (fun f => fi_snake (f_info f)) (m_fields m)) ->
  match t with
  | VObj _ _ _ (Some attrs') => lookup k attrs' = lookup k (match at0 with Some x => x | None => [] end)
  | _ => False
  end.
Proof.
  unfold copy_to. intros H N.
  destruct (to_fields hook m obj atys (match at0 with Some x => x | None => [] end, [])) as [[a d]|] eqn:E;
    cbn [bind] in H; [|discriminate].
  inversion H; subst. eapply to_fields_local; eassumption.
Qed.

(* ------------------------------------------------------------------------------------- *)
(* 2. nothing unknown survives *)

Fixpoint clean (v : tfval) : bool :=   (* no unknown value at any depth *)
  match v with
  | VPrim _ _ u _ => negb u
  | VList _ _ u el => negb u && match el with Some l => forallb clean l | None => true end
  | VMap _ _ u el => negb u && match el with Some l => forallb (fun kv => clean (snd kv)) l | None => true end
  | VObj _ _ u at0 => negb u && match at0 with Some l => forallb (fun kv => clean (snd kv)) l | None => true end
  | VNil => true
  | VHook _ _ _ u _ _ _ => negb u
  end.

Definition clean_attrs (l : list (string * tfval)) := forallb (fun kv => clean (snd kv)) l.

Lemma clean_attrs_update k v l :
  clean v = true -> clean_attrs l = true -> clean_attrs (update k v l) = true.
Proof.
  intros Hv. unfold clean_attrs. induction l as [|[k' v'] r IH]; cbn [update forallb snd].
  - intros _. now rewrite Hv.
  - intros H. apply andb_prop in H. destruct H as [H1 H2].
    destruct (String.eqb k k'); cbn [forallb snd].
    + now rewrite Hv, H2.
    + now rewrite H1, IH.
Qed.

Lemma lookup_clean k l v : lookup k l = Some v -> clean_attrs l = true -> clean v = true.
Proof.
  unfold clean_attrs. induction l as [|[k' v'] r IH]; cbn [lookup forallb snd]; [discriminate|].
  intros H C. apply andb_prop in C. destruct C as [C1 C2].
  destruct (String.eqb k k'); [now inversion H; subst|auto].
Qed.

Lemma forallb_clean_app l1 l2 :
  forallb clean l1 = true -> forallb clean l2 = true -> forallb clean (l1 ++ l2) = true.
Proof. intros H1 H2. rewrite forallb_app. now rewrite H1, H2. Qed.

Lemma make_nils_clean n : forallb clean (make_nils n) = true.
Proof. unfold make_nils. induction n; cbn; auto. Qed.

Lemma to_prim_value_shape i rd obj t cur ds v ds' :
  to_prim_value i rd obj t cur ds = Ok (v, ds') -> exists n p, v = VPrim (fi_tk i) n false p.
Proof.
  unfold to_prim_value. intros H. repeat step H. eauto.
Qed.

Lemma to_prim_value_clean i rd obj t cur ds v ds' :
  to_prim_value i rd obj t cur ds = Ok (v, ds') -> clean v = true.
Proof. intros H. apply to_prim_value_shape in H. destruct H as (n & p & ->). reflexivity. Qed.

Lemma fold_left_panic {A B} (f : res B -> A -> res B) l :
  (forall a, f Panic a = Panic) -> fold_left f l Panic = Panic.
Proof. intros Hf. induction l as [|a r IH]; cbn [fold_left]; [reflexivity|]. now rewrite Hf. Qed.

(* the element loops: an invariant of the accumulator *)
Lemma fold_left_res_inv {A B} (I : B -> Prop) (f : res B -> A -> res B) :
  (forall a, f Panic a = Panic) ->
  (forall b a b', I b -> f (Ok b) a = Ok b' -> I b') ->
  forall l b b', I b -> fold_left f l (Ok b) = Ok b' -> I b'.
Proof.
  intros HP HI. induction l as [|a r IH]; intros b b' Hb H; cbn [fold_left] in H.
  - now inversion H; subst.
  - destruct (f (Ok b) a) as [b1|] eqn:E.
    + eapply IH; [|exact H]. eapply HI; eassumption.
    + rewrite fold_left_panic in H; [discriminate|assumption].
Qed.

Definition fields_clean (hook : hook_to_t) (m : message) : Prop :=
  forall obj atys attrs ds attrs' ds', clean_attrs attrs = true ->
    to_fields hook m obj atys (attrs, ds) = Ok (attrs', ds') -> clean_attrs attrs' = true.

Definition field_clean (hook : hook_to_t) (f : field) : Prop :=
  forall obj atys attrs ds attrs' ds', clean_attrs attrs = true ->
    to_field hook f obj atys (attrs, ds) = Ok (attrs', ds') -> clean_attrs attrs' = true.

Lemma obj_value_clean hook i obj cur m' rd ats ds v ds' :
  fields_clean hook m' ->
  (forall c, cur = Some c -> clean c = true) ->
  obj_value hook i obj cur m' rd ats ds = Ok (v, ds') -> clean v = true.
Proof.
  intros Q HC H. unfold obj_value in H.
  assert (T : exists oatys n0 attrs0,
             match cur with
             | Some (VObj a n u at0) => (a, n, match at0 with Some x => x | None => [] end)
             | _ => (ats, false, [])
             end = (oatys, n0, attrs0) /\ clean_attrs attrs0 = true).
  { destruct cur as [c|]; [|now eauto]. specialize (HC c eq_refl).
    destruct c; try (now eauto). cbn [clean] in HC. apply andb_prop in HC. destruct HC as [_ HC].
    destruct attrs; eauto. }
  destruct T as (oatys & n0 & attrs0 & E & C0). rewrite E in H. clear E. cbv beta iota zeta in H.
  repeat step H; cbn [clean negb andb]; try assumption;
    match goal with E : to_fields _ _ _ _ _ = Ok _ |- _ => exact (Q _ _ _ _ _ _ C0 E) end.
Qed.

Lemma list_cur_clean (cur : option tfval) ety n cety cn celems :
  (forall c, cur = Some c -> clean c = true) ->
  match cur with
  | Some (VList e n0 u0 el) =>
      (e, n0, match el with
              | Some x => if Nat.eqb (List.length x) n then x else make_nils n
              | None => make_nils n
              end)
  | _ => (ety, true, make_nils n)
  end = (cety, cn, celems) -> forallb clean celems = true.
Proof.
  intros HC H. destruct cur as [c|]; [|inversion H; apply make_nils_clean].
  specialize (HC c eq_refl).
  destruct c; try (inversion H; apply make_nils_clean).
  cbn [clean] in HC. apply andb_prop in HC. destruct HC as [_ HC].
  destruct elems as [x|]; [|inversion H; apply make_nils_clean].
  destruct (Nat.eqb (List.length x) n); inversion H; subst; [assumption|apply make_nils_clean].
Qed.

Lemma map_cur_clean (cur : option tfval) ety (cety : tfty) (cn : bool) (celems : list (string * tfval)) :
  match cur with
  | Some (VMap e n0 u0 el) => (e, n0, [])
  | _ => (ety, true, [])
  end = (cety, cn, celems) -> celems = [].
Proof. destruct cur as [[]|]; intros H; now inversion H. Qed.

Section Clean.
  Variable hook : hook_to_t.
  Hypothesis Hhook : forall s g t c, clean (hook s g t c) = true.

  Lemma field_clean_step i om :
    (forall m, om = Some m -> fields_clean hook m) -> field_clean hook (Field i om).
  Proof.
    intros Q obj atys attrs ds attrs' ds' C H. rewrite to_field_eq in H. cbv zeta in H.
    assert (HC : forall c, lookup (fi_snake i) attrs = Some c -> clean c = true)
      by (intros c E; exact (lookup_clean _ _ _ E C)).
    destruct (lookup (fi_snake i) atys) as [t|]; [|inversion H; subst; assumption].
    destruct (fi_kind i) eqn:K.
    all: repeat step H; try assumption; (apply clean_attrs_update; [|assumption]); cbn [clean negb andb].
    all: try (eapply to_prim_value_clean; eassumption).
    all: try (eapply list_cur_clean; [exact HC|eassumption]).
    all: try (eapply obj_value_clean; [apply Q; reflexivity|exact HC|eassumption]).
    all: try apply Hhook.
    all: try (match goal with E : _ = (_, _, ?l) |- forallb _ ?l = true =>
                                apply map_cur_clean in E; subst l; reflexivity end).
    all: try match goal with Hf : match _ with _ => _ end = Ok _ |- _ => repeat step Hf end.
    all: try match goal with E : _ = (_, _, ?l), Hf : fold_left _ _ (Ok (?l, _)) = _ |- _ =>
                           apply map_cur_clean in E; subst l end.
    all: match goal with Hf : fold_left _ _ _ = Ok _ |- _ => revert Hf end.
    all: match goal with
         | |- _ -> forallb clean _ = true =>
             apply (fold_left_res_inv (fun p => forallb clean (fst p) = true)); [reflexivity| |reflexivity]
         | |- _ -> forallb (fun kv => clean (snd kv)) _ = true =>
             apply (fold_left_res_inv (fun p => forallb (fun kv => clean (snd kv)) (fst p) = true));
             [reflexivity| |reflexivity]
         end.
    all: intros [vs d1] a [vs' d2] Hvs Hs; cbn [fst] in *; cbn [bind] in Hs; repeat step Hs.
    all: assert (Ht : clean t = true)
      by (first [eapply to_prim_value_clean; eassumption
                |eapply obj_value_clean; [apply Q; reflexivity|exact HC|eassumption]]).
    all: first [apply forallb_clean_app; [assumption|cbn [forallb]; now rewrite Ht]
               |apply clean_attrs_update; assumption].
  Qed.

  Lemma fields_clean_all : forall m, fields_clean hook m.
  Proof.
    apply (message_ind' (field_clean hook) (fields_clean hook)).
    - intros i. apply field_clean_step. intros m E. discriminate E.
    - intros i m Q. apply field_clean_step. intros m' E. inversion E; subst. exact Q.
    - intros n fs os inj e z HF obj atys attrs ds attrs' ds' C H. rewrite to_fields_list in H.
      revert attrs ds C H. induction HF as [|f r Pf _ IH]; intros attrs ds C H; cbn [to_field_list] in H.
      + inversion H; subst. assumption.
      + destruct (to_field hook f obj atys (attrs, ds)) as [[a1 d1]|] eqn:E; cbn [bind] in H; [|discriminate].
        eapply IH; [|exact H]. eapply Pf; eassumption.
  Qed.
End Clean.

Theorem to_fields_clean hook : (forall s g t c, clean (hook s g t c) = true) ->
  forall m obj atys attrs ds attrs' ds', clean_attrs attrs = true ->
  to_fields hook m obj atys (attrs, ds) = Ok (attrs', ds') -> clean_attrs attrs' = true.
Proof. intros Hh m. exact (fields_clean_all hook Hh m). Qed.

Theorem copy_to_clean hook : (forall s g t c, clean (hook s g t c) = true) ->
  forall m obj atys n u at0 t ds, clean_attrs (match at0 with Some x => x | None => [] end) = true ->
  copy_to hook m obj (VObj atys n u at0) = Ok (t, ds) -> clean t = true.
Proof.
  intros Hh m obj atys n u at0 t ds C H. unfold copy_to in H.
  destruct (to_fields hook m obj atys (match at0 with Some x => x | None => [] end, [])) as [[a d]|] eqn:E;
    cbn [bind] in H; [|discriminate].
  inversion H; subst. cbn [clean negb andb]. exact (to_fields_clean hook Hh _ _ _ _ _ _ _ C E).
Qed.

(* the harness hook never returns an unknown value *)
Lemma std_hook_to_clean s g t c : clean (std_hook_to s g t c) = true.
Proof. reflexivity. Qed.

(* ------------------------------------------------------------------------------------- *)
(* 3. null-ness of primitive attributes on an empty target *)

Lemma tfkind_eqb_refl k : tfkind_eqb k k = true.
Proof. now destruct k. Qed.

(* a value field with a zero literal is null iff it holds the zero value; without, never *)
Lemma to_prim_value_absent i g p obj t ds :
  fi_placeholder i = false -> fi_nullable i = false -> fi_oneof i = None -> fi_parent i = None ->
  t = TyPrim (fi_tk i) -> cast_to (fi_tk i) g = Ok p ->
  to_prim_value i (Ok g) obj t None ds
  = Ok (VPrim (fi_tk i) (if fi_zero i then prim_is_zero p else false) false p, ds).
Proof.
  intros Hp Hn Ho Hpa -> Hc. unfold to_prim_value, parent_is_nil.
  rewrite Hp, Hn, Ho, Hpa. cbn [null_value]. rewrite tfkind_eqb_refl.
  destruct (fi_zero i); cbn [bind]; rewrite Hc; reflexivity.
Qed.

(* pointer-backed scalar: null iff nil *)
Lemma to_prim_value_absent_ptr i o obj t ds :
  fi_placeholder i = false -> fi_nullable i = true -> fi_zero i = false -> fi_oneof i = None ->
  fi_parent i = None ->
  t = TyPrim (fi_tk i) -> (forall x, o = Some x -> exists p, cast_to (fi_tk i) x = Ok p) ->
  exists n p, to_prim_value i (Ok (GPtr o)) obj t None ds = Ok (VPrim (fi_tk i) n false p, ds)
              /\ (n = true <-> o = None).
Proof.
  intros Hp Hn Hz Ho Hpa -> Hc. unfold to_prim_value, parent_is_nil.
  rewrite Hp, Hn, Hz, Ho, Hpa. cbn [null_value]. rewrite tfkind_eqb_refl. cbn [bind].
  destruct o as [x|].
  - destruct (Hc x eq_refl) as [p E]. rewrite E. cbn [bind]. exists false, p. split; [reflexivity|].
    split; discriminate.
  - exists true, (zero_prim_of_kind (fi_tk i)). split; [reflexivity|]. split; reflexivity.
Qed.

(* the placeholder attribute of a message without fields is always null *)
Lemma to_prim_value_placeholder i rd obj ds :
  fi_placeholder i = true -> fi_tk i = KBool ->
  exists p, to_prim_value i rd obj (TyPrim KBool) None ds = Ok (VPrim KBool true false p, ds).
Proof.
  intros Hp Hk. unfold to_prim_value. rewrite Hp, Hk. cbn. eexists. reflexivity.
Qed.

(* ------------------------------------------------------------------------------------- *)
(* 4. diagnostics are a set *)

Lemma dkind_eqb_refl k : dkind_eqb k k = true.
Proof. now destruct k. Qed.

Lemma diag_eqb_refl d : diag_eqb d d = true.
Proof. unfold diag_eqb. now rewrite dkind_eqb_refl, String.eqb_refl. Qed.

Lemma diag_mem_app d l1 l2 : diag_mem d (l1 ++ l2) = diag_mem d l1 || diag_mem d l2.
Proof.
  induction l1 as [|x r IH]; cbn [app diag_mem]; [reflexivity|]. now rewrite IH, orb_assoc.
Qed.

Lemma diag_append_mem l d : diag_mem d (diag_append l d) = true.
Proof.
  unfold diag_append. destruct (diag_mem d l) eqn:E; [exact E|].
  rewrite diag_mem_app. cbn [diag_mem]. now rewrite diag_eqb_refl, orb_true_r.
Qed.

Lemma diag_append_idem l d : diag_append (diag_append l d) d = diag_append l d.
Proof.
  unfold diag_append at 1. now rewrite diag_append_mem.
Qed.

Print Assumptions to_fields_local.
Print Assumptions copy_to_untouched.
Print Assumptions copy_to_clean.
Print Assumptions to_prim_value_absent.
