(* C11 / C05 / C06: the converters ignore what belongs to the schema only; every diagnostic of CopyTo is
   reported once.

   Two regressions seen in mutation testing motivate the statements:

   (R1) a converter generator started to consult a schema flag: the up-front reset of a repeated field
        in Copy<T>FromTerraform was skipped for the fields listed in required_fields.  Property C11 says
        that the schema-only options (required, computed, sensitive, validators, plan modifiers,
        descriptions, injected fields) leave BOTH converters unchanged.
   (R2) Copy<T>ToTerraform reported the same missing attribute type once per list element (a plain
        append instead of Diagnostics.Append).  Property C06 says each problem is ONE diagnostic.

   Part A.  [strip_info] erases the six schema-only components of a finfo (fi_required, fi_computed,
   fi_sensitive, fi_validators, fi_planmods, fi_comment), [strip_msg] does so on every field at every
   depth and empties m_inj.  The converters of the stripped message ARE the converters of the message:

     C11_converters_ignore_schema_options_to    to_fields hook (strip_msg m)   = to_fields hook m
     C11_converters_ignore_schema_options_from  from_fields hook (strip_msg m) = from_fields hook m

   for every message (no bound on the depth), every Go value, every target / attribute list, every state,
   and EVERY hook: the equalities are unconditional.  The user hooks have the types
     hook_to_t   = string -> goval -> tfty -> option tfval -> tfval
     hook_from_t = string -> option tfval -> goval -> goval
   and the converters pass fi_suffix (kept by strip_info) and values only: a hook never sees the finfo,
   so no side condition on the hook is needed.  The relational form (two messages with the same
   stripped form have the same converters) follows: C11_same_converters_to / _from and the copy_to /
   copy_from corollaries.

   Part B.  C06_to_fields_diags_once / C06_to_diags_once: the list of diagnostics of CopyTo stays free of
   duplicates, any message, any Go value, any target (instance of the relational lifting
   PrunedTargets.R_mutual with the invariant NoDup, every diagnostic going through diag_append). *)
From Coq Require Import List String Bool ZArith.
From PGT Require Import Base.Strs Base.AList Model.Vals Model.IR Model.CopyTo Model.CopyFrom.
From PGT Require Import Proofs.CopyToProofs Proofs.CopyFromProofs.
From PGT Require Proofs.PlaceholderOnly Proofs.PrunedTargets Proofs.FromMalformed.
Import ListNotations.

(* ------------------------------------------------------------------------------------- *)
(* 1. erasing the schema-only components *)

Definition strip_info (i : finfo) : finfo :=
  {| fi_name := fi_name i; fi_snake := fi_snake i; fi_path := fi_path i; fi_kind := fi_kind i;
     fi_tk := fi_tk i; fi_cast := fi_cast i; fi_nullable := fi_nullable i; fi_zero := fi_zero i;
     fi_placeholder := fi_placeholder i; fi_oneof := fi_oneof i; fi_via := fi_via i;
     fi_parent := fi_parent i; fi_inner := fi_inner i;
     fi_required := false; fi_computed := false; fi_sensitive := false; fi_validators := [];
     fi_planmods := []; fi_comment := EmptyString;
     fi_suffix := fi_suffix i |}.

Fixpoint strip_msg (m : message) : message :=
  match m with
  | Msg n fs os inj e z =>
      Msg n (map (fun f => match f with
                           | Field i (Some m') => Field (strip_info i) (Some (strip_msg m'))
                           | Field i None => Field (strip_info i) None
                           end) fs) os [] e z
  end.

Definition strip_field (f : field) : field :=
  match f with
  | Field i (Some m') => Field (strip_info i) (Some (strip_msg m'))
  | Field i None => Field (strip_info i) None
  end.

Lemma strip_msg_eq n fs os inj e z :
  strip_msg (Msg n fs os inj e z) = Msg n (map strip_field fs) os [] e z.
Proof. reflexivity. Qed.

Lemma strip_msg_zero m : m_zero (strip_msg m) = m_zero m.
Proof. now destruct m. Qed.
Lemma strip_msg_empty m : m_empty (strip_msg m) = m_empty m.
Proof. now destruct m. Qed.
Lemma strip_msg_name m : m_name (strip_msg m) = m_name m.
Proof. now destruct m. Qed.
Lemma strip_msg_oneofs m : m_oneofs (strip_msg m) = m_oneofs m.
Proof. now destruct m. Qed.
Lemma strip_msg_inj m : m_inj (strip_msg m) = [].
Proof. now destruct m. Qed.
Lemma strip_msg_fields m : m_fields (strip_msg m) = map strip_field (m_fields m).
Proof. now destruct m. Qed.
Lemma strip_field_info f : f_info (strip_field f) = strip_info (f_info f).
Proof. now destruct f as [i [m'|]]. Qed.

(* what is erased, and nothing else *)
Lemma strip_info_schema_only i :
  fi_required (strip_info i) = false /\ fi_computed (strip_info i) = false /\ fi_sensitive (strip_info i) = false
  /\ fi_validators (strip_info i) = [] /\ fi_planmods (strip_info i) = [] /\ fi_comment (strip_info i) = EmptyString.
Proof. repeat split. Qed.

Lemma strip_info_idem i : strip_info (strip_info i) = strip_info i.
Proof. reflexivity. Qed.

Lemma strip_msg_idem : forall m, strip_msg (strip_msg m) = strip_msg m.
Proof.
  apply (message_ind' (fun f => strip_field (strip_field f) = strip_field f)
                      (fun m => strip_msg (strip_msg m) = strip_msg m)).
  - reflexivity.
  - intros i m Q. cbn [strip_field]. now rewrite Q.
  - intros n fs os inj e z HF. rewrite !strip_msg_eq. f_equal. rewrite map_map.
    induction HF as [|f r Pf _ IH]; [reflexivity|]. cbn [map]. now rewrite Pf, IH.
Qed.

(* the components a finfo is made of besides the schema-only ones: two finfos have the same stripped form
   exactly when they agree on all of them *)
Lemma strip_info_eq_iff i1 i2 :
  strip_info i1 = strip_info i2 <->
  fi_name i1 = fi_name i2 /\ fi_snake i1 = fi_snake i2 /\ fi_path i1 = fi_path i2 /\ fi_kind i1 = fi_kind i2
  /\ fi_tk i1 = fi_tk i2 /\ fi_cast i1 = fi_cast i2 /\ fi_nullable i1 = fi_nullable i2 /\ fi_zero i1 = fi_zero i2
  /\ fi_placeholder i1 = fi_placeholder i2 /\ fi_oneof i1 = fi_oneof i2 /\ fi_via i1 = fi_via i2
  /\ fi_parent i1 = fi_parent i2 /\ fi_inner i1 = fi_inner i2 /\ fi_suffix i1 = fi_suffix i2.
Proof.
  split.
  - intros E. unfold strip_info in E. injection E as E1 E2 E3 E4 E5 E6 E7 E8 E9 E10 E11 E12 E13 E14.
    repeat split; assumption.
  - intros (E1 & E2 & E3 & E4 & E5 & E6 & E7 & E8 & E9 & E10 & E11 & E12 & E13 & E14).
    unfold strip_info. now rewrite E1, E2, E3, E4, E5, E6, E7, E8, E9, E10, E11, E12, E13, E14.
Qed.

(* ------------------------------------------------------------------------------------- *)
(* 2. one field: the templates read the converter components only *)

(* every projection the templates use commutes with strip_info by computation *)
Lemma to_field_strip_info hook i om obj atys st :
  to_field hook (Field (strip_info i) om) obj atys st = to_field hook (Field i om) obj atys st.
Proof. destruct st as [attrs ds]. reflexivity. Qed.

Lemma from_field_strip_info hook i om attrs st :
  from_field hook (Field (strip_info i) om) attrs st = from_field hook (Field i om) attrs st.
Proof. destruct st as [obj ds]. reflexivity. Qed.

Lemma reset_promoted_strip o f : reset_promoted o (strip_field f) = reset_promoted o f.
Proof. unfold reset_promoted. now rewrite strip_field_info. Qed.

Lemma reset_parent_strip o f : reset_parent o (strip_field f) = reset_parent o f.
Proof. unfold reset_parent. now rewrite strip_field_info. Qed.

(* ------------------------------------------------------------------------------------- *)
(* 3. C11, CopyTo *)

Theorem C11_converters_ignore_schema_options_to hook : forall m obj atys st,
  to_fields hook (strip_msg m) obj atys st = to_fields hook m obj atys st.
Proof.
  apply (message_ind'
           (fun f => forall obj atys st, to_field hook (strip_field f) obj atys st = to_field hook f obj atys st)
           (fun m => forall obj atys st, to_fields hook (strip_msg m) obj atys st = to_fields hook m obj atys st)).
  - intros i obj atys st. cbn [strip_field]. apply to_field_strip_info.
  - intros i m Q obj atys st. cbn [strip_field].
    rewrite (PlaceholderOnly.to_field_alike hook (strip_info i) (strip_msg m) m).
    + apply to_field_strip_info.
    + split; [apply strip_msg_zero|]. split; [exact Q|]. left. apply strip_msg_empty.
  - intros n fs os inj e z HF obj atys st. rewrite strip_msg_eq, !to_fields_list.
    revert st. induction HF as [|f r Pf _ IH]; intros st; [reflexivity|].
    cbn [map to_field_list]. rewrite Pf. destruct (to_field hook f obj atys st); [|reflexivity].
    cbn [bind]. apply IH.
Qed.
Print Assumptions C11_converters_ignore_schema_options_to.

Theorem C11_converters_ignore_schema_options_to_field hook f obj atys st :
  to_field hook (strip_field f) obj atys st = to_field hook f obj atys st.
Proof.
  destruct f as [i [m|]]; cbn [strip_field]; [|apply to_field_strip_info].
  rewrite (PlaceholderOnly.to_field_alike hook (strip_info i) (strip_msg m) m).
  - apply to_field_strip_info.
  - split; [apply strip_msg_zero|]. split; [apply C11_converters_ignore_schema_options_to|].
    left. apply strip_msg_empty.
Qed.
Print Assumptions C11_converters_ignore_schema_options_to_field.

Theorem C11_converters_ignore_schema_options_copy_to hook m obj tf :
  copy_to hook (strip_msg m) obj tf = copy_to hook m obj tf.
Proof.
  unfold copy_to. destruct tf; try reflexivity. now rewrite C11_converters_ignore_schema_options_to.
Qed.
Print Assumptions C11_converters_ignore_schema_options_copy_to.

(* ------------------------------------------------------------------------------------- *)
(* 4. C11, CopyFrom *)

Theorem C11_converters_ignore_schema_options_from hook : forall m attrs st,
  from_fields hook (strip_msg m) attrs st = from_fields hook m attrs st.
Proof.
  apply (message_ind'
           (fun f => forall attrs st, from_field hook (strip_field f) attrs st = from_field hook f attrs st)
           (fun m => forall attrs st, from_fields hook (strip_msg m) attrs st = from_fields hook m attrs st)).
  - intros i attrs st. cbn [strip_field]. apply from_field_strip_info.
  - intros i m Q attrs st. cbn [strip_field].
    rewrite (PlaceholderOnly.from_field_alike hook (strip_info i) (strip_msg m) m).
    + apply from_field_strip_info.
    + split; [apply strip_msg_zero|]. intros at0 ds. now rewrite strip_msg_zero, strip_msg_empty, Q.
  - intros n fs os inj e z HF attrs st. rewrite strip_msg_eq, !from_fields_unfold.
    destruct (fold_res reset_oneof os (fst st)) as [o1|]; [|reflexivity]. cbn [bind].
    rewrite (PlaceholderOnly.fold_res_map_info reset_promoted strip_field fs) by apply reset_promoted_strip.
    destruct (fold_res reset_promoted fs o1) as [o2|]; [|reflexivity]. cbn [bind].
    rewrite (PlaceholderOnly.fold_res_map_info reset_parent strip_field fs) by apply reset_parent_strip.
    destruct (fold_res reset_parent fs o2) as [o3|]; [|reflexivity]. cbn [bind].
    generalize (o3, snd st). clear o1 o2 o3 st.
    induction HF as [|f r Pf _ IH]; intros st; [reflexivity|].
    cbn [map from_field_list]. rewrite strip_field_info, Pf.
    change (fi_placeholder (strip_info (f_info f))) with (fi_placeholder (f_info f)).
    destruct (fi_placeholder (f_info f)); [now apply IH|].
    destruct (from_field hook f attrs st); [|reflexivity]. cbn [bind]. now apply IH.
Qed.
Print Assumptions C11_converters_ignore_schema_options_from.

Theorem C11_converters_ignore_schema_options_from_field hook f attrs st :
  from_field hook (strip_field f) attrs st = from_field hook f attrs st.
Proof.
  destruct f as [i [m|]]; cbn [strip_field]; [|apply from_field_strip_info].
  rewrite (PlaceholderOnly.from_field_alike hook (strip_info i) (strip_msg m) m).
  - apply from_field_strip_info.
  - split; [apply strip_msg_zero|]. intros at0 ds.
    now rewrite strip_msg_zero, strip_msg_empty, C11_converters_ignore_schema_options_from.
Qed.
Print Assumptions C11_converters_ignore_schema_options_from_field.

Theorem C11_converters_ignore_schema_options_copy_from hook m tf obj :
  copy_from hook (strip_msg m) tf obj = copy_from hook m tf obj.
Proof.
  unfold copy_from. destruct tf; try reflexivity. apply C11_converters_ignore_schema_options_from.
Qed.
Print Assumptions C11_converters_ignore_schema_options_copy_from.

(* ------------------------------------------------------------------------------------- *)
(* 5. the relational form: messages that differ in schema-only components only *)

Definition same_converter_ir (m1 m2 : message) : Prop := strip_msg m1 = strip_msg m2.

Theorem C11_same_converters_to hook m1 m2 :
  strip_msg m1 = strip_msg m2 ->
  forall obj atys st, to_fields hook m1 obj atys st = to_fields hook m2 obj atys st.
Proof.
  intros E obj atys st.
  rewrite <- (C11_converters_ignore_schema_options_to hook m1), <- (C11_converters_ignore_schema_options_to hook m2).
  now rewrite E.
Qed.
Print Assumptions C11_same_converters_to.

Theorem C11_same_converters_from hook m1 m2 :
  strip_msg m1 = strip_msg m2 ->
  forall attrs st, from_fields hook m1 attrs st = from_fields hook m2 attrs st.
Proof.
  intros E attrs st.
  rewrite <- (C11_converters_ignore_schema_options_from hook m1), <- (C11_converters_ignore_schema_options_from hook m2).
  now rewrite E.
Qed.
Print Assumptions C11_same_converters_from.

Theorem C11_same_converters_copy_to hook m1 m2 :
  strip_msg m1 = strip_msg m2 -> forall obj tf, copy_to hook m1 obj tf = copy_to hook m2 obj tf.
Proof.
  intros E obj tf.
  rewrite <- (C11_converters_ignore_schema_options_copy_to hook m1),
          <- (C11_converters_ignore_schema_options_copy_to hook m2).
  now rewrite E.
Qed.
Print Assumptions C11_same_converters_copy_to.

Theorem C11_same_converters_copy_from hook m1 m2 :
  strip_msg m1 = strip_msg m2 -> forall tf obj, copy_from hook m1 tf obj = copy_from hook m2 tf obj.
Proof.
  intros E tf obj.
  rewrite <- (C11_converters_ignore_schema_options_copy_from hook m1),
          <- (C11_converters_ignore_schema_options_copy_from hook m2).
  now rewrite E.
Qed.
Print Assumptions C11_same_converters_copy_from.

(* the relation is the intended one at the top level: same name, oneofs, flag and zero struct, and fields
   whose infos agree on every converter component (strip_info_eq_iff); the injected attributes are free *)
Theorem same_converter_ir_inj_free n fs os inj1 inj2 e z :
  strip_msg (Msg n fs os inj1 e z) = strip_msg (Msg n fs os inj2 e z).
Proof. reflexivity. Qed.
Print Assumptions same_converter_ir_inj_free.

Theorem C11_injected_fields_leave_converters hook_to hook_from n fs os inj1 inj2 e z :
  (forall obj tf, copy_to hook_to (Msg n fs os inj1 e z) obj tf = copy_to hook_to (Msg n fs os inj2 e z) obj tf)
  /\ (forall tf obj, copy_from hook_from (Msg n fs os inj1 e z) tf obj
                     = copy_from hook_from (Msg n fs os inj2 e z) tf obj).
Proof. split; intros; reflexivity. Qed.
Print Assumptions C11_injected_fields_leave_converters.

(* ------------------------------------------------------------------------------------- *)
(* 6. non-vacuity: a required repeated field, a computed sensitive string with validators (R1) *)

Module FlagsExample.
  Local Open Scope string_scope.
  Definition tags (req : bool) : finfo :=
    {| fi_name := "Tags"; fi_snake := "tags"; fi_path := "Role.tags"; fi_kind := PrimitiveListKind;
       fi_tk := KStr; fi_cast := GsString; fi_nullable := false; fi_zero := false; fi_placeholder := false;
       fi_oneof := None; fi_via := []; fi_parent := None; fi_inner := [];
       fi_required := req; fi_computed := false; fi_sensitive := false; fi_validators := [];
       fi_planmods := []; fi_comment := if req then "the tags of the role" else ""; fi_suffix := "" |}.
  Definition token (flags : bool) : finfo :=
    {| fi_name := "Token"; fi_snake := "token"; fi_path := "Role.token"; fi_kind := PrimitiveKind;
       fi_tk := KStr; fi_cast := GsString; fi_nullable := false; fi_zero := false; fi_placeholder := false;
       fi_oneof := None; fi_via := []; fi_parent := None; fi_inner := [];
       fi_required := false; fi_computed := flags; fi_sensitive := flags;
       fi_validators := if flags then ["UseLengthBetween(1, 64)"] else [];
       fi_planmods := if flags then ["stringplanmodifier.UseStateForUnknown()"] else [];
       fi_comment := if flags then "join token" else ""; fi_suffix := "" |}.
  Definition zero : goval := GStruct [("Tags", GSlice None); ("Token", GPrim (PStr ""))].
  Definition flagged : message :=
    Msg "Role" [Field (tags true) None; Field (token true) None] []
        [Injected "id" (TyPrim KStr) false true false ["UseStateForUnknown"] []] false zero.
  Definition bare : message := Msg "Role" [Field (tags false) None; Field (token false) None] [] [] false zero.
  (* tags = null, token = "t" *)
  Definition tf : tfval :=
    VObj [("tags", TyList (TyPrim KStr)); ("token", TyPrim KStr)] false false
         (Some [("tags", VList (TyPrim KStr) true false None); ("token", VPrim KStr false false (PStr "t"))]).
  (* the target holds two elements *)
  Definition obj : goval :=
    GStruct [("Tags", GSlice (Some [GPrim (PStr "a"); GPrim (PStr "b")])); ("Token", GPrim (PStr "old"))].
  Definition decoded : goval := GStruct [("Tags", GSlice (Some [])); ("Token", GPrim (PStr "t"))].
  (* a Go value and a target for CopyTo *)
  Definition src : goval := GStruct [("Tags", GSlice (Some [GPrim (PStr "x")])); ("Token", GPrim (PStr "s"))].
  Definition target : tfval :=
    VObj [("tags", TyList (TyPrim KStr)); ("token", TyPrim KStr)] true false None.
End FlagsExample.

Example C11_flags_example_same_ir :
  strip_msg FlagsExample.flagged = strip_msg FlagsExample.bare
  /\ FlagsExample.flagged <> FlagsExample.bare.
Proof. split; [vm_compute; reflexivity|discriminate]. Qed.
Print Assumptions C11_flags_example_same_ir.

(* R1: the elements of the target are dropped, the field being required or not *)
Example C05_required_repeated_field_is_reset :
  copy_from std_hook_from FlagsExample.flagged FlagsExample.tf FlagsExample.obj = Ok (FlagsExample.decoded, [])
  /\ copy_from std_hook_from FlagsExample.bare FlagsExample.tf FlagsExample.obj = Ok (FlagsExample.decoded, [])
  /\ copy_from std_hook_from (strip_msg FlagsExample.flagged) FlagsExample.tf FlagsExample.obj
     = Ok (FlagsExample.decoded, []).
Proof. repeat split; vm_compute; reflexivity. Qed.
Print Assumptions C05_required_repeated_field_is_reset.

Example C11_flags_example_copy_to :
  copy_to std_hook_to FlagsExample.flagged FlagsExample.src FlagsExample.target
  = copy_to std_hook_to FlagsExample.bare FlagsExample.src FlagsExample.target
  /\ exists v, copy_to std_hook_to FlagsExample.flagged FlagsExample.src FlagsExample.target = Ok (v, []).
Proof. split; [vm_compute; reflexivity|eexists; vm_compute; reflexivity]. Qed.
Print Assumptions C11_flags_example_copy_to.

(* ------------------------------------------------------------------------------------- *)
(* 7. C06, CopyTo: each problem is one diagnostic (R2) *)

Theorem C06_to_fields_diags_once hook m obj atys attrs ds attrs' ds' :
  to_fields hook m obj atys (attrs, ds) = Ok (attrs', ds') -> NoDup ds -> NoDup ds'.
Proof.
  intros H.
  assert (X : PrunedTargets.msg_R hook (fun a b => NoDup a -> NoDup b) True m).
  { apply PrunedTargets.R_mutual.
    - intros a N. exact N.
    - intros a b c H1 H2 N. exact (H2 (H1 N)).
    - intros a p N. now apply FromMalformed.NoDup_diag_append.
    - intros _ a p N. now apply FromMalformed.NoDup_diag_append. }
  apply (X _ _ _ _ _ _ H). left. exact I.
Qed.
Print Assumptions C06_to_fields_diags_once.

Theorem C06_to_field_diags_once hook f obj atys attrs ds attrs' ds' :
  to_field hook f obj atys (attrs, ds) = Ok (attrs', ds') -> NoDup ds -> NoDup ds'.
Proof.
  intros H. apply (C06_to_fields_diags_once hook (Msg EmptyString [f] [] [] false (GStruct [])) obj atys attrs ds attrs').
  rewrite to_fields_list. cbn [to_field_list]. rewrite H. reflexivity.
Qed.
Print Assumptions C06_to_field_diags_once.

Theorem C06_to_diags_once hook m obj atys n u at0 v ds :
  copy_to hook m obj (VObj atys n u at0) = Ok (v, ds) -> NoDup ds.
Proof.
  unfold copy_to. intros H.
  destruct (to_fields hook m obj atys (match at0 with Some x => x | None => [] end, [])) as [[attrs' ds']|] eqn:E;
    cbn [bind] in H; [|discriminate H].
  inversion H; subst. apply (C06_to_fields_diags_once _ _ _ _ _ _ _ _ E). constructor.
Qed.
Print Assumptions C06_to_diags_once.

(* R2 made concrete: a list of two elements written to an attribute whose element type is not the one of the
   field: ONE WriteConv diagnostic *)
Module OnceExample.
  Local Open Scope string_scope.
  Definition src : goval :=
    GStruct [("Tags", GSlice (Some [GPrim (PStr "x"); GPrim (PStr "y")])); ("Token", GPrim (PStr "s"))].
  Definition target : tfval := VObj [("tags", TyList (TyPrim KBool))] true false None.
End OnceExample.

Example C06_once_example :
  exists v, copy_to std_hook_to FlagsExample.flagged OnceExample.src OnceExample.target
            = Ok (v, [(WriteConv, "Role.tags"%string); (WriteMissing, "Role.token"%string)]).
Proof. eexists. vm_compute. reflexivity. Qed.
Print Assumptions C06_once_example.
