(* C02, C10 end to end: from the descriptor and the configuration to the entries of the schema. *)
From Coq Require Import List String Ascii Bool Arith ZArith Lia.
From Coq Require Import Sorting.Permutation Sorting.Sorted.
From PGT Require Import Base.Strs Base.AList Model.Vals Model.IR Model.Names Model.Desc Model.Build Model.Schema.
From PGT Require Import Proofs.FrontEndProofs Proofs.BuildProofs Proofs.NamesProofs Proofs.Basics.
Import ListNotations.
Local Open Scope string_scope.

(* ------------------------------------------------------------------------------------- *)
(* 1. jen.Dict: a fold of dict_put *)

Definition dput_all (puts acc : list sattr) : list sattr := fold_left (fun acc a => dict_put a acc) puts acc.

Definition names (l : list sattr) : list string := map s_name l.

Definition find_attr (nm : string) (l : list sattr) : option sattr :=
  find (fun x => String.eqb (s_name x) nm) l.

Lemma dput_all_app p q acc : dput_all (p ++ q) acc = dput_all q (dput_all p acc).
Proof. apply fold_left_app. Qed.

Lemma dict_put_names_in a acc x : In x (names (dict_put a acc)) <-> x = s_name a \/ In x (names acc).
Proof.
  induction acc as [|b r IH]; cbn [dict_put names map In].
  - intuition.
  - destruct (String.eqb (s_name a) (s_name b)) eqn:E; cbn [map In].
    + apply String.eqb_eq in E. rewrite <- E. intuition.
    + fold (names (dict_put a r)). fold (names r). rewrite IH. intuition.
Qed.

Lemma dict_put_names_nodup a acc : NoDup (names acc) -> NoDup (names (dict_put a acc)).
Proof.
  induction acc as [|b r IH]; intros ND; cbn [dict_put names map].
  - constructor; [intros []|constructor].
  - cbn [names map] in ND. inversion ND as [|? ? N1 N2]; subst.
    destruct (String.eqb (s_name a) (s_name b)) eqn:E; cbn [map].
    + apply String.eqb_eq in E. rewrite E. constructor; assumption.
    + apply String.eqb_neq in E. constructor; [|exact (IH N2)].
      fold (names (dict_put a r)). rewrite dict_put_names_in. intros [X|X]; [congruence|exact (N1 X)].
Qed.

Lemma dict_put_in a acc x : In x (dict_put a acc) -> x = a \/ In x acc.
Proof.
  induction acc as [|b r IH]; cbn [dict_put In]; [intuition|].
  destruct (String.eqb (s_name a) (s_name b)); cbn [In]; intuition.
Qed.

Lemma dict_put_find a acc nm :
  find_attr nm (dict_put a acc) = if String.eqb (s_name a) nm then Some a else find_attr nm acc.
Proof.
  unfold find_attr. induction acc as [|b r IH]; cbn [dict_put find].
  - destruct (String.eqb (s_name a) nm); reflexivity.
  - destruct (String.eqb (s_name a) (s_name b)) eqn:E; cbn [find].
    + apply String.eqb_eq in E. rewrite <- E. destruct (String.eqb (s_name a) nm); reflexivity.
    + rewrite IH. destruct (String.eqb (s_name b) nm) eqn:Eb; [|reflexivity].
      destruct (String.eqb (s_name a) nm) eqn:Ea; [|reflexivity].
      apply String.eqb_eq in Ea, Eb. apply String.eqb_neq in E. congruence.
Qed.

Lemma dput_all_names_in puts : forall acc x,
  In x (names (dput_all puts acc)) <-> In x (names puts) \/ In x (names acc).
Proof.
  induction puts as [|a r IH]; intros acc x; cbn [dput_all fold_left names map In]; [intuition|].
  fold (dput_all r (dict_put a acc)). rewrite IH, dict_put_names_in. fold (names r). intuition.
Qed.

Lemma dput_all_names_nodup puts : forall acc, NoDup (names acc) -> NoDup (names (dput_all puts acc)).
Proof.
  induction puts as [|a r IH]; intros acc ND; cbn [dput_all fold_left]; [exact ND|].
  apply IH. now apply dict_put_names_nodup.
Qed.

Lemma dput_all_in puts : forall acc x, In x (dput_all puts acc) -> In x puts \/ In x acc.
Proof.
  induction puts as [|a r IH]; intros acc x H; cbn [dput_all fold_left] in H; [now right|].
  apply IH in H. destruct H as [H|H]; [left; now right|].
  apply dict_put_in in H. destruct H as [->|H]; [left; now left|now right].
Qed.

Lemma dput_all_find_absent puts nm : ~ In nm (names puts) ->
  forall acc, find_attr nm (dput_all puts acc) = find_attr nm acc.
Proof.
  induction puts as [|a r IH]; intros N acc; cbn [dput_all fold_left]; [reflexivity|].
  cbn [names map In] in N. fold (dput_all r (dict_put a acc)). rewrite IH by tauto.
  rewrite dict_put_find. destruct (String.eqb (s_name a) nm) eqn:E; [|reflexivity].
  apply String.eqb_eq in E. tauto.
Qed.

(* the entry under a name is the last one put under it *)
Lemma dput_all_find_last p1 a p2 acc :
  ~ In (s_name a) (names p2) -> find_attr (s_name a) (dput_all (p1 ++ a :: p2) acc) = Some a.
Proof.
  intros N. rewrite dput_all_app. cbn [dput_all fold_left]. fold (dput_all p2 (dict_put a (dput_all p1 acc))).
  rewrite (dput_all_find_absent _ _ N), dict_put_find, String.eqb_refl. reflexivity.
Qed.

(* without repeated names, a dictionary is the list of its entries *)
Lemma dict_put_fresh a l : ~ In (s_name a) (names l) -> dict_put a l = (l ++ [a])%list.
Proof.
  induction l as [|b r IH]; intros N; cbn [dict_put app]; [reflexivity|].
  cbn [names map In] in N. destruct (String.eqb (s_name a) (s_name b)) eqn:E.
  - apply String.eqb_eq in E. exfalso. apply N. now left.
  - rewrite IH; [reflexivity|tauto].
Qed.

Lemma dput_all_fresh puts : forall acc,
  NoDup (names acc ++ names puts) -> dput_all puts acc = (acc ++ puts)%list.
Proof.
  induction puts as [|a r IH]; intros acc ND; cbn [dput_all fold_left]; [now rewrite app_nil_r|].
  fold (dput_all r (dict_put a acc)).
  assert (Na : ~ In (s_name a) (names acc)).
  { cbn [names map] in ND. apply NoDup_remove_2 in ND. rewrite in_app_iff in ND. tauto. }
  rewrite (dict_put_fresh a acc Na), IH; [now rewrite <- app_assoc|].
  unfold names in *. rewrite map_app. cbn [map]. rewrite <- app_assoc. exact ND.
Qed.

Lemma nodup_map_inj {A B} (g : A -> B) l x y : NoDup (map g l) -> In x l -> In y l -> g x = g y -> x = y.
Proof.
  induction l as [|z r IH]; intros ND Hx Hy E; [destruct Hx|].
  cbn [map] in ND. inversion ND as [|? ? N1 N2]; subst.
  destruct Hx as [->|Hx], Hy as [->|Hy]; auto.
  - exfalso. apply N1. rewrite E. now apply in_map.
  - exfalso. apply N1. rewrite <- E. now apply in_map.
Qed.

(* the schema of a message is the dictionary of its fields' entries, then of the injected ones *)
Lemma schema_attrs_puts hs m :
  schema_attrs hs m = dput_all (map (schema_field hs) (m_fields m) ++ map inj_attr (m_inj m)) [].
Proof.
  destruct m as [n fs os inj e z]. cbn [m_fields m_inj].
  change (schema_attrs hs (Msg n fs os inj e z)) with
    (fold_left (fun acc j => dict_put (inj_attr j) acc) inj
       ((fix go (l : list field) (acc : list sattr) {struct l} : list sattr :=
           match l with
           | [] => acc
           | f :: r => go r (dict_put (schema_field hs f) acc)
           end) fs [])).
  rewrite dput_all_app. unfold dput_all. generalize (@nil sattr) as acc.
  assert (G : forall A (g : A -> sattr) l acc,
            fold_left (fun acc a => dict_put a acc) (map g l) acc = fold_left (fun acc x => dict_put (g x) acc) l acc).
  { intros A g l. induction l as [|x r IH]; intros acc; cbn [map fold_left]; [reflexivity|apply IH]. }
  intros acc. rewrite !G. reflexivity.
Qed.

(* whatever the names: no name twice *)
Theorem schema_names_nodup hs m : NoDup (names (schema_attrs hs m)).
Proof. rewrite schema_attrs_puts. apply dput_all_names_nodup. constructor. Qed.

(* ------------------------------------------------------------------------------------- *)
(* 2. what the documentation says about one declared field *)

Definition use_state_pm : string :=
  "github.com/hashicorp/terraform-plugin-framework/tfsdk.UseStateForUnknown()".

Definition snake (c : field) : string := fi_snake (f_info c).

Definition placeholder_attr : sattr :=
  SAttr "active" false true true false "Automatically generated field preventing empty message errors"
        [] [] (SLeaf (TyPrim KBool)).

Section Spec.
  Variable cfg : cfg_obs.
  Variable table : list mdesc.
  Variable hs : hook_schema_t.

  (* the two keys under which the configuration addresses a field *)
  Definition type_name (d : mdesc) (f : fdesc) : string := md_name d ++ "." ++ fd_name f.
  Definition field_path (path : string) (f : fdesc) : string :=
    if fd_embed f then path else path ++ "." ++ fd_name f.

  (* the documented attribute name: override, else the name in the JSON tag, else snake case *)
  Definition attr_name (tn fp : string) (f : fdesc) : string :=
    match o_name_override cfg tn fp with
    | Some s => s
    | None => let j := json_name (fd_jsontag f) in
              if String.eqb j "" then snake_case (fd_name f) else j
    end.

  Definition attr_validators (tn fp : string) : list string :=
    match o_validators cfg tn fp with Some l => l | None => [] end.

  Definition attr_planmods (tn fp : string) : list string :=
    match o_planmods cfg tn fp with
    | Some l => l
    | None => if o_use_state cfg && o_computed cfg tn fp then [use_state_pm] else []
    end.

  Definition custom_type_of (fp : string) (f : fdesc) : option string :=
    match o_custom_type cfg fp with
    | Some t => Some t
    | None => if String.eqb (fd_custom f) "" then None else Some (fd_custom f)
    end.

  Definition suffix_of (t : string) : string :=
    match o_suffix cfg t with Some s => s | None => default_suffix t end.

  (* the entry but for its type part *)
  Definition base_attr (tn fp : string) (f : fdesc) (body : sbody) : sattr :=
    SAttr (attr_name tn fp f) (o_required cfg tn fp) (negb (o_required cfg tn fp)) (o_computed cfg tn fp)
          (o_sensitive cfg tn fp) (field_comment (fd_comment f)) (attr_validators tn fp) (attr_planmods tn fp) body.

  (* the documented Terraform type of a value that is not a message *)
  Definition prim_kind (v : fview) : option tfkind :=
    if v_is_time v then Some KTime
    else if v_is_duration cfg v then Some KDur
    else match v_type v with
         | PScalar s => Some (fst (scalar_info s))
         | PEnum _ => Some KI64
         | _ => None
         end.

  (* a nested block: the entries of the message built for the value / element type *)
  Definition nested_spec (rec : mdesc -> string -> bres message) (mn fp : string) (mode : nest) (body : sbody) : Prop :=
    exists d' m', find_msg table mn = Some d' /\ rec d' fp = BOk m' /\ body = SNested mode (schema_attrs hs m').

  Definition body_spec (rec : mdesc -> string -> bres message) (f : fdesc) (fp : string) (body : sbody) : Prop :=
    match fd_type f with
    | PMap kt vt =>
        kt = PScalar SString /\
        match prim_kind (view_of_map_value f vt) with
        | Some k => body = SLeaf (TyMap (TyPrim k))
        | None => match vt with
                  | PMsg mn => nested_spec rec mn fp NMap body
                  | _ => body = SNoType
                  end
        end
    | t =>
        match prim_kind (view_of_field f) with
        | Some k => body = SLeaf (if fd_repeated f then TyList (TyPrim k) else TyPrim k)
        | None => match t with
                  | PMsg mn => nested_spec rec mn fp (if fd_repeated f then NList else NSingle) body
                  | _ => False
                  end
        end
    end.

  (* the entry of a declared field that stands for itself *)
  Definition entry_spec (rec : mdesc -> string -> bres message) (f : fdesc) (tn fp : string) (a : sattr) : Prop :=
    match custom_type_of fp f with
    | Some t => a = hs (suffix_of t) (base_attr tn fp f SNoType)
    | None => exists body, body_spec rec f fp body /\ a = base_attr tn fp f body
    end.

  Lemma terraform_type_prim v fp im tk gs z :
    terraform_type cfg v fp = BOk (im, tk, gs, z) ->
    match prim_kind v with
    | Some k => im = false /\ tk = k
    | None => im = true /\ ((exists mn, v_type v = PMsg mn) \/ (exists kt vt, v_type v = PMap kt vt))
    end.
  Proof.
    unfold terraform_type, prim_kind.
    destruct (v_is_time v) eqn:Et; [destruct (o_time_type cfg); [intros [= <- <- _ _]; auto|discriminate]|].
    destruct (v_is_duration cfg v) eqn:Ed; [destruct (o_duration_type cfg); [intros [= <- <- _ _]; auto|discriminate]|].
    unfold v_is_time in Et. unfold v_is_duration in Ed.
    destruct (v_type v) as [s| |mn| | | |kt vt]; try discriminate.
    - destruct (scalar_info s). intros [= <- <- _ _]. auto.
    - intros [= <- <- _ _]. auto.
    - intros [= <- _ _ _]. eauto.
    - rewrite orb_true_r in Et. discriminate.
    - rewrite !orb_true_r in Ed. cbn in Ed. discriminate.
    - intros [= <- _ _ _]. eauto 6.
  Qed.

  Local Ltac open_entry Ety :=
    eexists; split; [reflexivity|]; split; [reflexivity|];
    unfold entry_spec, custom_type_of, body_spec;
    cbn [schema_field fi_kind fi_snake fi_required fi_computed fi_sensitive fi_comment fi_validators
         fi_planmods fi_suffix fi_tk prim_ty];
    rewrite ?Ety;
    try match goal with E : fd_repeated _ = _ |- _ => rewrite ?E end;
    (destruct (o_custom_type cfg _) as [ct|]; [reflexivity|]);
    (destruct (String.eqb (fd_custom _) ""); [|reflexivity]);
    eexists; (split; [|reflexivity]).

  Lemma build_view_entry rec d f tn fp x :
    build_view cfg table rec d (view_of_field f) false tn fp (Some f) = BOk x ->
    o_excluded cfg tn fp = false ->
    embedded_view cfg (view_of_field f) = false ->
    exists c, x = [c] /\ snake c = attr_name tn fp f /\ entry_spec rec f tn fp (schema_field hs c).
  Proof.
    intros H Hx He.
    assert (Etv : v_type (view_of_field f) = fd_type f) by reflexivity.
    assert (Erp : v_repeated (view_of_field f) =
                  (fd_repeated f || match fd_type f with PMap _ _ => true | _ => false end)%bool) by reflexivity.
    assert (Ecu : v_custom (view_of_field f) = fd_custom f) by reflexivity.
    assert (Eco : v_comment (view_of_field f) = fd_comment f) by reflexivity.
    assert (Ena : v_name (view_of_field f) = fd_name f) by reflexivity.
    assert (Ejs : v_jsontag (view_of_field f) = fd_jsontag f) by reflexivity.

    set (v := view_of_field f) in *.
    unfold build_view in H. rewrite Hx in H.
    destruct (terraform_type cfg v fp) as [[[[im tk] gs] z]|e|] eqn:Et; cbn [bbind] in H; try discriminate.
    pose proof (terraform_type_is_msg _ _ _ _ _ _ _ Et) as Him.
    pose proof (terraform_type_prim _ _ _ _ _ _ Et) as Hp.
    assert (Hc : (im && negb (v_is_map v) && v_embed v)%bool = false) by (rewrite Him; exact He).
    rewrite Hc in H. clear Hc Him He Et.
    unfold v_is_repeated, v_is_map in H. rewrite Erp, Etv, Ecu, Eco, Ena, Ejs in H.
    destruct (fd_type f) as [s|en|mn| | | |kt vt] eqn:Ety.
    7: {
      (* a map *)
      rewrite andb_false_r in H. cbn [bbind negb andb] in H.
      destruct kt as [[]| | | | | |]; cbn [bbind] in H; try discriminate.
      destruct (terraform_type cfg (view_of_map_value f vt) fp) as [[[[vmsg vtk] vgs] vz]|e|] eqn:Et2;
        cbn [bbind] in H; try discriminate.
      apply terraform_type_prim in Et2.
      destruct (prim_kind (view_of_map_value f vt)) as [k|] eqn:Epk.
      - destruct Et2 as [-> ->]. cbn [bbind] in H. injection H as <-.
        open_entry Ety. rewrite Epk. split; reflexivity.
      - destruct Et2 as [-> _].
        destruct vt as [s|en|mn| | | |kt' vt']; cbn [bbind] in H.
        3: { destruct (find_msg table mn) as [d'|] eqn:Ef; cbn [bbind] in H; try discriminate.
             destruct (rec d' fp) as [m'|e|] eqn:Er; cbn [bbind] in H; try discriminate.
             injection H as <-. open_entry Ety. rewrite Epk. split; [reflexivity|].
             exists d', m'. auto. }
        all: injection H as <-; open_entry Ety; rewrite Epk; split; reflexivity. }
    all: rewrite orb_false_r in H; cbn [negb andb] in H; rewrite andb_true_r in H.
    all: destruct (fd_repeated f) eqn:Erep.
    all: destruct (prim_kind v) as [k|] eqn:Epk;
      [destruct Hp as [-> ->]; cbn [bbind] in H; injection H as <-; open_entry Ety; unfold v in Epk; rewrite Epk;
       reflexivity|].
    all: destruct Hp as [-> [(mn' & Em)|(kt' & vt' & Em)]]; rewrite Etv in Em; try discriminate.
    all: destruct (find_msg table mn) as [d'|] eqn:Ef; cbn [bbind] in H; try discriminate.
    all: destruct (rec d' fp) as [m'|e|] eqn:Er; cbn [bbind] in H; try discriminate.
    all: injection H as <-; open_entry Ety; unfold v in Epk; rewrite Epk; exists d', m'.
    all: split; [exact Ef|]; split; [exact Er|]; reflexivity.
  Qed.
End Spec.

(* ------------------------------------------------------------------------------------- *)
(* 3. from the fields of the descriptor to the fields of the IR *)

Section E2E.
  Variable cfg : cfg_obs.
  Variable table : list mdesc.
  Variable hs : hook_schema_t.

  (* the dictionary key is the name of the attribute the hook returns: a hook that renames an
     attribute is outside the statements about names *)
  Definition hook_keeps_name : Prop := forall s a, s_name (hs s a) = s_name a.

  Definition injected_of (path : string) : list injected :=
    match o_injected cfg path with Some l => l | None => [] end.

  Definition inj_name (j : injected) : string := s_name (inj_attr j).

  Lemma embedded_field_path f path : embedded_view cfg (view_of_field f) = true -> field_path path f = path.
  Proof.
    unfold embedded_view, field_path. cbn [view_of_field v_embed]. intros H.
    apply andb_true_iff in H. destruct H as [_ ->]. reflexivity.
  Qed.

  (* a field promoted from an embedded message keeps its entry *)
  Lemma build_view_promoted rec d v b tn fp o x :
    build_view cfg table rec d v b tn fp o = BOk x -> o_excluded cfg tn fp = false ->
    embedded_view cfg v = true ->
    exists mn d' m', v_type v = PMsg mn /\ find_msg table mn = Some d' /\ rec d' fp = BOk m' /\
      map (schema_field hs) x = map (schema_field hs) (m_fields m') /\
      map snake x = map snake (m_fields m').
  Proof.
    intros H Hx He. apply embedded_view_iff in He. destruct He as (mn & Ety & Ee & Et & Ed).
    unfold build_view, terraform_type, v_is_map in H. rewrite Hx, Et, Ed, Ety, Ee in H.
    cbn [bbind andb negb] in H.
    destruct (find_msg table mn) as [d'|] eqn:Ef; cbn [bbind] in H; [|discriminate].
    destruct (rec d' fp) as [m'|e|] eqn:Er; cbn [bbind] in H; try discriminate.
    exists mn, d', m'. split; [exact Ety|]. split; [exact Ef|]. split; [exact Er|].
    destruct (negb (v_star v)); injection H as <-; [split; reflexivity|].
    rewrite !map_map. split; apply map_ext; intros [ci cm]; reflexivity.
  Qed.

  Lemma build_field_list_in rec d path l res c :
    build_field_list cfg table rec d path l = BOk res -> In c res ->
    exists f x, In f l /\
      build_view cfg table rec d (view_of_field f) false (type_name d f) (field_path path f) (Some f) = BOk x /\
      In c x.
  Proof.
    revert res. induction l as [|g r IH]; intros res H Hin.
    - injection H as <-. destruct Hin.
    - rewrite build_field_list_cons in H.
      destruct (build_view cfg table rec d (view_of_field g) false _ _ (Some g)) as [y|e|] eqn:Eg;
        cbn [bbind] in H; try discriminate.
      destruct (build_field_list cfg table rec d path r) as [z|e|] eqn:Er; cbn [bbind] in H; try discriminate.
      injection H as <-. apply in_app_or in Hin. destruct Hin as [Hin|Hin].
      + exists g, y. split; [now left|]. split; [exact Eg|exact Hin].
      + destruct (IH z eq_refl Hin) as (f & x & Hf & Hv & Hc). exists f, x. split; [now right|]. auto.
  Qed.

  Lemma build_message_inj fuel d path m :
    build_message cfg table fuel d path = BOk m -> m_inj m = injected_of path.
  Proof.
    destruct fuel as [|fuel]; [discriminate|]. rewrite build_message_S. intros H.
    match type of H with bbind ?X _ = _ => destruct X as [fs|e|] end; cbn [bbind] in H; try discriminate.
    injection H as <-. reflexivity.
  Qed.

  (* ---- the documented attribute names of a message, in declaration order; "active" when no
     field is left (no field declared, or every field excluded) ---- *)
  Fixpoint attr_names (fuel : nat) (d : mdesc) (path : string) {struct fuel} : list string :=
    match fuel with
    | O => []
    | S fuel' =>
        match
          flat_map (fun f =>
            let tn := type_name d f in
            let fp := field_path path f in
            if o_excluded cfg tn fp then []
            else if embedded_view cfg (view_of_field f) then
              match fd_type f with
              | PMsg mn => match find_msg table mn with Some d' => attr_names fuel' d' fp | None => [] end
              | _ => []
              end
            else [attr_name cfg tn fp f]) (md_fields d)
        with
        | [] => ["active"]
        | n :: r => n :: r
        end
    end.

  Definition one_names (fuel' : nat) (d : mdesc) (path : string) (f : fdesc) : list string :=
    let tn := type_name d f in
    let fp := field_path path f in
    if o_excluded cfg tn fp then []
    else if embedded_view cfg (view_of_field f) then
      match fd_type f with
      | PMsg mn => match find_msg table mn with Some d' => attr_names fuel' d' fp | None => [] end
      | _ => []
      end
    else [attr_name cfg tn fp f].

  Lemma attr_names_S fuel d path :
    attr_names (S fuel) d path =
    match flat_map (one_names fuel d path) (md_fields d) with [] => ["active"] | n :: r => n :: r end.
  Proof. reflexivity. Qed.

  (* all the names of the message: declared (+ promoted), then injected *)
  Definition all_names (fuel : nat) (d : mdesc) (path : string) : list string :=
    (attr_names fuel d path ++ map inj_name (injected_of path))%list.

  Section Rel.
    Variable R : list string -> list string -> Prop.
    Hypothesis R_refl : forall l, R l l.
    Hypothesis R_trans : forall a b c, R a b -> R b c -> R a c.
    Hypothesis R_app : forall a b c e, R a b -> R c e -> R (a ++ c)%list (b ++ e)%list.
    Hypothesis R_nil_l : forall l, R [] l -> l = [].
    Hypothesis R_nil_r : forall l, R l [] -> l = [].
    Hypothesis R_sort : o_sort cfg = true ->
      forall l : list field, R (map snake (sort_by (fun f => fi_name (f_info f)) l)) (map snake l).

    Lemma names_step rec fuel d path :
      (forall d' p m', rec d' p = BOk m' -> R (map snake (m_fields m')) (attr_names fuel d' p)) ->
      forall l res, build_field_list cfg table rec d path l = BOk res ->
      R (map snake res) (flat_map (one_names fuel d path) l).
    Proof.
      intros Hrec. induction l as [|g r IH]; intros res H.
      - injection H as <-. apply R_refl.
      - rewrite build_field_list_cons in H.
        destruct (build_view cfg table rec d (view_of_field g) false _ _ (Some g)) as [y|e|] eqn:Eg;
          cbn [bbind] in H; try discriminate.
        destruct (build_field_list cfg table rec d path r) as [z|e|] eqn:Er; cbn [bbind] in H; try discriminate.
        injection H as <-. rewrite map_app. cbn [flat_map]. apply R_app; [|now apply IH].
        unfold one_names. fold (type_name d g) in Eg. fold (field_path path g) in Eg.
        destruct (o_excluded cfg (type_name d g) (field_path path g)) eqn:Hx.
        + rewrite (build_view_excluded _ _ _ _ _ _ _ _ _ Hx) in Eg. injection Eg as <-. apply R_refl.
        + destruct (embedded_view cfg (view_of_field g)) eqn:He.
          * destruct (build_view_promoted _ _ _ _ _ _ _ _ Eg Hx He) as (mn & d' & m' & Ety & Ef & Em & _ & En).
            cbn [view_of_field v_type] in Ety. rewrite Ety, Ef, En. now apply Hrec.
          * destruct (build_view_entry cfg table hs _ _ _ _ _ _ Eg Hx He) as (c & -> & Hn & _).
            cbn [map]. rewrite Hn. apply R_refl.
    Qed.

    Lemma names_R : forall fuel d path m,
      build_message cfg table fuel d path = BOk m -> R (map snake (m_fields m)) (attr_names fuel d path).
    Proof.
      induction fuel as [|fuel IH]; intros d path m H; [discriminate|].
      apply build_message_ok_inv in H. rewrite attr_names_S.
      destruct H as (l & Hl & Hc).
      pose proof (names_step _ fuel d path (IH) _ _ Hl) as N.
      destruct Hc as [(E & Em & _)|(NE & Em & _)].
      - subst l. cbn [map] in N. apply R_nil_l in N. rewrite N, Em. apply R_refl.
      - destruct (flat_map (one_names fuel d path) (md_fields d)) as [|n0 r0] eqn:Ed.
        { apply R_nil_r in N. destruct l; [now contradiction NE|discriminate]. }
        rewrite Em. destruct (o_sort cfg) eqn:Es; [|exact N].
        eapply R_trans; [apply (R_sort eq_refl)|exact N].
    Qed.
  End Rel.

  Lemma names_perm fuel d path m :
    build_message cfg table fuel d path = BOk m -> Permutation (map snake (m_fields m)) (attr_names fuel d path).
  Proof.
    apply names_R.
    - intros l. reflexivity.
    - intros a b c. apply Permutation_trans.
    - intros a b c e. apply Permutation_app.
    - intros l. apply Permutation_nil.
    - intros l P. symmetry in P. now apply Permutation_nil in P.
    - intros _ l. apply Permutation_map. apply sort_by_perm.
  Qed.

  Lemma names_eq fuel d path m :
    o_sort cfg = false ->
    build_message cfg table fuel d path = BOk m -> map snake (m_fields m) = attr_names fuel d path.
  Proof.
    intros Hs. apply names_R.
    - reflexivity.
    - intros a b c. apply eq_trans.
    - intros a b c e -> ->. reflexivity.
    - intros l E. now symmetry.
    - intros l E. exact E.
    - congruence.
  Qed.

  (* ---- the entries the fields and the configuration put into the dictionary ---- *)
  Definition puts_of (m : message) : list sattr :=
    (map (schema_field hs) (m_fields m) ++ map inj_attr (m_inj m))%list.

  Lemma schema_field_name c : hook_keeps_name -> s_name (schema_field hs c) = snake c.
  Proof.
    intros Hk. destruct c as [i om]. unfold snake. cbn [schema_field f_info].
    destruct (fi_kind i); try reflexivity. rewrite Hk. reflexivity.
  Qed.

  Lemma puts_names fuel d path m :
    hook_keeps_name -> build_message cfg table fuel d path = BOk m ->
    names (puts_of m) = (map snake (m_fields m) ++ map inj_name (injected_of path))%list.
  Proof.
    intros Hk H. unfold puts_of, names. rewrite map_app, !map_map, (build_message_inj _ _ _ _ H).
    f_equal. apply map_ext. intros c. now apply schema_field_name.
  Qed.

  Lemma puts_names_perm fuel d path m :
    hook_keeps_name -> build_message cfg table fuel d path = BOk m ->
    Permutation (names (puts_of m)) (all_names fuel d path).
  Proof.
    intros Hk H. rewrite (puts_names _ _ _ _ Hk H). unfold all_names.
    apply Permutation_app_tail. now apply names_perm.
  Qed.

  (* ---- where an entry comes from ---- *)
  Inductive origin : nat -> mdesc -> string -> sattr -> Prop :=
  | OPlaceholder fuel d path :
      (* no field left: none declared, or every declared field excluded *)
      (forall f, In f (md_fields d) -> o_excluded cfg (type_name d f) (field_path path f) = true) ->
      origin (S fuel) d path placeholder_attr
  | ODeclared fuel d path f a :
      In f (md_fields d) ->
      o_excluded cfg (type_name d f) (field_path path f) = false ->
      embedded_view cfg (view_of_field f) = false ->
      entry_spec cfg table hs (build_message cfg table fuel) f (type_name d f) (field_path path f) a ->
      origin (S fuel) d path a
  | OPromoted fuel d path f mn d' a :
      In f (md_fields d) ->
      o_excluded cfg (type_name d f) path = false ->
      embedded_view cfg (view_of_field f) = true ->
      fd_type f = PMsg mn -> find_msg table mn = Some d' ->
      origin fuel d' path a ->
      origin (S fuel) d path a.

  Lemma origin_fields : forall fuel d path m,
    build_message cfg table fuel d path = BOk m ->
    forall c, In c (m_fields m) -> origin fuel d path (schema_field hs c).
  Proof.
    induction fuel as [|fuel IH]; intros d path m H c Hc; [discriminate|].
    pose proof (build_message_empty_iff _ _ _ _ _ _ H) as (Hall & _).
    apply build_message_ok_inv in H. destruct H as (l & Hl & [(E & Em & Ee)|(NE & Em & _)]).
    - rewrite Em in Hc. destruct Hc as [<-|[]]. apply OPlaceholder. now apply Hall.
    - assert (Hcl : In c l).
      { rewrite Em in Hc. destruct (o_sort cfg); [now apply sort_by_perm_in in Hc|exact Hc]. }
      destruct (build_field_list_in _ _ _ _ _ _ Hl Hcl) as (f & x & Hf & Hv & Hx).
      destruct (o_excluded cfg (type_name d f) (field_path path f)) eqn:Ex.
      { rewrite (build_view_excluded _ _ _ _ _ _ _ _ _ Ex) in Hv. injection Hv as <-. destruct Hx. }
      destruct (embedded_view cfg (view_of_field f)) eqn:He.
      + destruct (build_view_promoted _ _ _ _ _ _ _ _ Hv Ex He) as (mn & d' & m' & Ety & Ef & Em' & Es & _).
        rewrite (embedded_field_path _ _ He) in *.
        assert (Hi : In (schema_field hs c) (map (schema_field hs) (m_fields m'))).
        { rewrite <- Es. now apply in_map. }
        apply in_map_iff in Hi. destruct Hi as (c' & <- & Hc').
        eapply OPromoted; eauto.
      + destruct (build_view_entry cfg table hs _ _ _ _ _ _ Hv Ex He) as (c0 & -> & _ & Hspec).
        destruct Hx as [<-|[]]. eapply ODeclared; eauto.
  Qed.

  (* ------------------------------------------------------------------------------------- *)
  (* 4. the theorems *)

  Lemma count_one_split (puts : list sattr) a :
    In a puts -> count_occ string_dec (names puts) (s_name a) = 1 ->
    exists p1 p2, puts = (p1 ++ a :: p2)%list /\ ~ In (s_name a) (names p2).
  Proof.
    intros Hin Hc. destruct (in_split _ _ Hin) as (p1 & p2 & ->). exists p1, p2. split; [reflexivity|].
    unfold names in *. rewrite map_app, count_occ_app in Hc. cbn [map] in Hc.
    rewrite count_occ_cons_eq in Hc by reflexivity.
    apply (count_occ_not_In string_dec). lia.
  Qed.

  (* THEOREM 1 *)
  Theorem schema_entry_of_declared_field fuel d path m f :
    hook_keeps_name ->
    build_message cfg table (S fuel) d path = BOk m ->
    In f (md_fields d) ->
    let tn := type_name d f in
    let fp := field_path path f in
    let nm := attr_name cfg tn fp f in
    o_excluded cfg tn fp = false ->
    embedded_view cfg (view_of_field f) = false ->
    count_occ string_dec (all_names (S fuel) d path) nm = 1 ->
    exists a, In a (schema_attrs hs m) /\ s_name a = nm /\
      (forall a', In a' (schema_attrs hs m) -> s_name a' = nm -> a' = a) /\
      entry_spec cfg table hs (build_message cfg table fuel) f tn fp a.
  Proof.
    intros Hk H Hin tn fp nm Hx He Hcount.
    pose proof (build_message_ok_fields _ _ _ _ _ _ H) as F. rewrite Forall_forall in F.
    destruct (F f Hin) as (x & Hv). fold (type_name d f) in Hv. fold (field_path path f) in Hv.
    destruct (build_view_entry cfg table hs _ _ _ _ _ _ Hv Hx He) as (c & -> & Hn & Hspec).
    assert (Hc : In c (m_fields m)).
    { pose proof H as H'. apply build_message_ok_inv in H'.
      destruct H' as (l & Hl & Hcase).
      pose proof (build_field_list_incl _ _ _ _ _ _ _ _ _ Hl Hin Hv) as I.
      assert (Hil : In c l) by (apply I; now left).
      destruct Hcase as [(E & _)|(_ & Em & _)]; [subst l; destruct Hil|].
      rewrite Em. destruct (o_sort cfg); [now apply sort_by_perm_in|assumption]. }
    set (a := schema_field hs c) in *.
    assert (Ha : s_name a = nm) by (unfold a; rewrite (schema_field_name _ Hk); exact Hn).
    assert (Hp : In a (puts_of m)) by (unfold puts_of; apply in_or_app; left; now apply in_map).
    assert (Hc1 : count_occ string_dec (names (puts_of m)) (s_name a) = 1).
    { rewrite Ha, <- Hcount. apply Permutation_count_occ. now apply puts_names_perm. }
    destruct (count_one_split _ _ Hp Hc1) as (p1 & p2 & Ep & Np).
    assert (Hf : find_attr nm (schema_attrs hs m) = Some a).
    { rewrite schema_attrs_puts. fold (puts_of m). rewrite Ep, <- Ha. now apply dput_all_find_last. }
    exists a. apply find_some in Hf. destruct Hf as [Hia _].
    split; [exact Hia|]. split; [exact Ha|]. split; [|exact Hspec].
    intros a' Hia' Ha'. apply (nodup_map_inj s_name (schema_attrs hs m)); auto.
    - apply schema_names_nodup.
    - congruence.
  Qed.

  (* the same for a field without gogoproto.embed, under the two keys of the documentation *)
  Corollary schema_entry_of_plain_field fuel d path m f :
    hook_keeps_name ->
    build_message cfg table (S fuel) d path = BOk m ->
    In f (md_fields d) -> fd_embed f = false ->
    let tn := md_name d ++ "." ++ fd_name f in
    let fp := path ++ "." ++ fd_name f in
    let nm := attr_name cfg tn fp f in
    o_excluded cfg tn fp = false ->
    count_occ string_dec (all_names (S fuel) d path) nm = 1 ->
    exists a, In a (schema_attrs hs m) /\ s_name a = nm /\
      (forall a', In a' (schema_attrs hs m) -> s_name a' = nm -> a' = a) /\
      entry_spec cfg table hs (build_message cfg table fuel) f tn fp a.
  Proof.
    intros Hk H Hin Hem tn fp nm Hx Hc.
    assert (Efp : field_path path f = fp) by (unfold field_path; now rewrite Hem).
    assert (He : embedded_view cfg (view_of_field f) = false).
    { unfold embedded_view. cbn [view_of_field v_embed]. rewrite Hem. apply andb_false_r. }
    pose proof (schema_entry_of_declared_field fuel d path m f Hk H Hin) as T.
    cbv zeta in T. rewrite Efp in T. exact (T Hx He Hc).
  Qed.

  (* THEOREM 2: no stray attribute *)
  Theorem schema_entry_origin fuel d path m a :
    build_message cfg table fuel d path = BOk m ->
    In a (schema_attrs hs m) ->
    origin fuel d path a \/ (exists j, In j (injected_of path) /\ a = inj_attr j).
  Proof.
    intros H Hin. rewrite schema_attrs_puts in Hin. apply dput_all_in in Hin.
    destruct Hin as [Hin|[]]. apply in_app_or in Hin. destruct Hin as [Hin|Hin].
    - left. apply in_map_iff in Hin. destruct Hin as (c & <- & Hc). now apply (origin_fields _ _ _ _ H).
    - right. rewrite (build_message_inj _ _ _ _ H) in Hin. apply in_map_iff in Hin.
      destruct Hin as (j & <- & Hj). eauto.
  Qed.

  (* without repeated names the schema is the list of the fields' entries, then the injected ones *)
  Lemma schema_attrs_flat fuel d path m :
    hook_keeps_name -> build_message cfg table fuel d path = BOk m ->
    NoDup (all_names fuel d path) ->
    schema_attrs hs m = (map (schema_field hs) (m_fields m) ++ map inj_attr (injected_of path))%list.
  Proof.
    intros Hk H ND. rewrite schema_attrs_puts. fold (puts_of m).
    rewrite dput_all_fresh; [unfold puts_of; now rewrite (build_message_inj _ _ _ _ H)|].
    cbn [names map app]. eapply Permutation_NoDup; [|exact ND].
    symmetry. now apply puts_names_perm.
  Qed.

  (* THEOREM 3 *)
  Theorem schema_names_distinct fuel d path m :
    hook_keeps_name -> build_message cfg table fuel d path = BOk m ->
    NoDup (names (schema_attrs hs m)) /\
    (forall nm, In nm (names (schema_attrs hs m)) <-> In nm (all_names fuel d path)) /\
    (NoDup (all_names fuel d path) -> Permutation (names (schema_attrs hs m)) (all_names fuel d path)).
  Proof.
    intros Hk H. split; [apply schema_names_nodup|]. split.
    - intros nm. rewrite schema_attrs_puts. fold (puts_of m). rewrite dput_all_names_in.
      cbn [names map In]. pose proof (puts_names_perm _ _ _ _ Hk H) as P. split.
      + intros [X|[]]. eapply Permutation_in; eassumption.
      + intros X. left. eapply Permutation_in; [symmetry; exact P|exact X].
    - intros ND. rewrite (schema_attrs_flat _ _ _ _ Hk H ND).
      rewrite <- (build_message_inj _ _ _ _ H). fold (puts_of m). now apply puts_names_perm.
  Qed.

  (* THEOREM 4a: without sort, declaration order (promoted fields in the place of the embedded
     field), the injected attributes last *)
  Theorem schema_order_unsorted fuel d path m :
    hook_keeps_name -> build_message cfg table fuel d path = BOk m ->
    o_sort cfg = false -> NoDup (all_names fuel d path) ->
    names (schema_attrs hs m) = all_names fuel d path.
  Proof.
    intros Hk H Hs ND. rewrite (schema_attrs_flat _ _ _ _ Hk H ND).
    rewrite <- (build_message_inj _ _ _ _ H). fold (puts_of m).
    rewrite (puts_names _ _ _ _ Hk H). unfold all_names. now rewrite (names_eq _ _ _ _ Hs H).
  Qed.

  (* THEOREM 4b: with sort, the entries follow the byte order of the Go field names (not of the
     attribute names), the injected attributes still last, in the order of the configuration *)
  Theorem schema_order_sorted fuel d path m :
    hook_keeps_name -> build_message cfg table fuel d path = BOk m ->
    o_sort cfg = true -> NoDup (all_names fuel d path) ->
    exists fs, schema_attrs hs m = (map (schema_field hs) fs ++ map inj_attr (injected_of path))%list /\
      Permutation (map snake fs) (attr_names fuel d path) /\
      StronglySorted (fun x y => str_ltb (fi_name (f_info y)) (fi_name (f_info x)) = false) fs.
  Proof.
    intros Hk H Hs ND. exists (m_fields m). split; [now apply (schema_attrs_flat _ _ _ _ Hk H ND)|].
    split; [now apply names_perm|].
    destruct fuel as [|fuel]; [discriminate|].
    apply build_message_ok_inv in H. destruct H as (l & Hl & [(E & Em & _)|(NE & Em & _)]).
    - rewrite Em. repeat constructor.
    - rewrite Em, Hs. apply sort_by_sorted.
  Qed.
End E2E.

(* ------------------------------------------------------------------------------------- *)
(* 5. through the plugin run: the root messages of the response, path = root name *)

(* what the questions mean for a configuration as read (C11: path key first, then Message.Field) *)
Lemma obs_of_lookups c tn fp :
  o_excluded (obs_of c) tn fp = (mem_str tn (c_exclude c) || mem_str fp (c_exclude c))%bool /\
  o_required (obs_of c) tn fp = (mem_str tn (c_required c) || mem_str fp (c_required c))%bool /\
  o_computed (obs_of c) tn fp = (mem_str tn (c_computed c) || mem_str fp (c_computed c))%bool /\
  o_sensitive (obs_of c) tn fp = (mem_str tn (c_sensitive c) || mem_str fp (c_sensitive c))%bool /\
  o_name_override (obs_of c) tn fp =
    match lookup fp (c_name_overrides c) with Some s => Some s | None => lookup tn (c_name_overrides c) end /\
  o_validators (obs_of c) tn fp =
    match lookup fp (c_validators c) with Some l => Some l | None => lookup tn (c_validators c) end /\
  o_planmods (obs_of c) tn fp =
    match lookup fp (c_planmods c) with Some l => Some l | None => lookup tn (c_planmods c) end /\
  o_use_state (obs_of c) = c_use_state c /\ o_sort (obs_of c) = c_sort c /\
  (forall p, o_injected (obs_of c) p = lookup p (c_injected c)).
Proof. repeat split. Qed.

Theorem schema_entry_through_run hs ps y file r root m :
  hook_keeps_name hs ->
  run ps y file = Response r -> In (root, m) (r_roots r) ->
  exists c d, read_config ps y = CfgOk c /\ mem_str root (c_types c) = true /\
    In d (all_msgs file) /\ md_name d = root /\
    let cfg := obs_of c in
    let table := all_msgs file in
    let fuel := List.length table in
    build_message cfg table (S fuel) d root = BOk m /\
    forall f, In f (md_fields d) ->
      let tn := type_name d f in
      let fp := field_path root f in
      let nm := attr_name cfg tn fp f in
      o_excluded cfg tn fp = false ->
      embedded_view cfg (view_of_field f) = false ->
      count_occ string_dec (all_names cfg table (S fuel) d root) nm = 1 ->
      exists a, In a (schema_attrs hs m) /\ s_name a = nm /\
        (forall a', In a' (schema_attrs hs m) -> s_name a' = nm -> a' = a) /\
        entry_spec cfg table hs (build_message cfg table fuel) f tn fp a.
Proof.
  intros Hk Hr Hin. unfold run in Hr. destruct (read_config ps y) as [c|] eqn:Ec; [|discriminate].
  injection Hr as <-. cbn [r_roots] in Hin. apply C12_selected in Hin.
  destruct Hin as (Hs & d & Hd & Hn & Hb). exists c, d.
  split; [reflexivity|]. split; [exact Hs|]. split; [exact Hd|]. split; [exact Hn|].
  cbv zeta. split; [exact Hb|]. intros f Hf Hx He Hc.
  exact (schema_entry_of_declared_field _ _ hs _ _ _ _ f Hk Hb Hf Hx He Hc).
Qed.

(* and the converse, the names and the order for the roots *)
Theorem schema_roots_through_run hs ps y file r root m :
  hook_keeps_name hs ->
  run ps y file = Response r -> In (root, m) (r_roots r) ->
  exists c d, read_config ps y = CfgOk c /\ In d (all_msgs file) /\ md_name d = root /\
    let cfg := obs_of c in
    let table := all_msgs file in
    let fuel := S (List.length table) in
    (forall a, In a (schema_attrs hs m) ->
       origin cfg table hs fuel d root a \/ (exists j, In j (injected_of cfg root) /\ a = inj_attr j)) /\
    NoDup (names (schema_attrs hs m)) /\
    (forall nm, In nm (names (schema_attrs hs m)) <-> In nm (all_names cfg table fuel d root)) /\
    (NoDup (all_names cfg table fuel d root) ->
       if c_sort c then Permutation (names (schema_attrs hs m)) (all_names cfg table fuel d root)
       else names (schema_attrs hs m) = all_names cfg table fuel d root).
Proof.
  intros Hk Hr Hin. unfold run in Hr. destruct (read_config ps y) as [c|] eqn:Ec; [|discriminate].
  injection Hr as <-. cbn [r_roots] in Hin. apply C12_selected in Hin.
  destruct Hin as (Hs & d & Hd & Hn & Hb). exists c, d.
  split; [reflexivity|]. split; [exact Hd|]. split; [exact Hn|]. cbv zeta.
  split; [intros a Ha; now apply (schema_entry_origin _ _ _ _ _ _ _ _ Hb)|].
  destruct (schema_names_distinct _ _ hs _ _ _ _ Hk Hb) as (N1 & N2 & N3).
  split; [exact N1|]. split; [exact N2|]. intros ND.
  destruct (c_sort c) eqn:Eso; [now apply N3|].
  now apply (schema_order_unsorted _ _ hs _ _ _ _ Hk Hb).
Qed.

Lemma std_hook_keeps_name : hook_keeps_name std_hook_schema.
Proof. intros s [n req opt comp sens desc vals pms b]. reflexivity. Qed.

Print Assumptions schema_names_nodup.
Print Assumptions schema_entry_of_declared_field.
Print Assumptions schema_entry_of_plain_field.
Print Assumptions schema_entry_origin.
Print Assumptions schema_names_distinct.
Print Assumptions schema_order_unsorted.
Print Assumptions schema_order_sorted.
Print Assumptions schema_entry_through_run.
Print Assumptions schema_roots_through_run.

(* ------------------------------------------------------------------------------------- *)
(* 6. a small file: every flavour of field, the theorems instantiated and compared with what the
      model computes *)

Module Small.
  Local Open Scope Z_scope.
  Definition fd (n : string) (num : Z) (t : ptype) (rep : bool) (embed : bool) (tag : option string)
             (custom : string) (comment : string) : fdesc :=
    {| fd_name := n; fd_num := num; fd_type := t; fd_repeated := rep; fd_nullable := None;
       fd_embed := embed; fd_cast := ""; fd_custom := custom; fd_stdtime := false; fd_stddur := false;
       fd_jsontag := tag; fd_oneof := None; fd_comment := comment |}.

  Definition d_inner : mdesc :=
    {| md_name := "Inner"; md_comment := ""; md_oneofs := [];
       md_fields := [fd "a" 1 (PScalar SString) false false None "" " inner a ";
                     fd "u" 2 (PScalar SUint64) false false None "" "";
                     fd "w" 3 (PScalar SString) false true None "" ""] |}.
  Definition d_empty : mdesc := {| md_name := "Empty"; md_comment := ""; md_oneofs := []; md_fields := [] |}.
  Definition d_emb : mdesc :=
    {| md_name := "Emb"; md_comment := ""; md_oneofs := [];
       md_fields := [fd "flag" 1 (PScalar SBool) false false None "" "promoted flag";
                     fd "noteText" 2 (PScalar SString) false false None "" ""] |}.
  Definition d_outer : mdesc :=
    {| md_name := "Outer"; md_comment := ""; md_oneofs := [];
       md_fields :=
         [fd "userName" 1 (PScalar SString) false false None "" (" The user name." ++ nl ++ "  Unique. " ++ nl);
          fd "ident" 2 (PScalar SString) false false (Some "x,omitempty") "" "";
          fd "secretKey" 3 (PScalar SBytes) false false (Some "-") "" "";
          fd "blank" 4 (PScalar SInt32) false false (Some "") "" "";
          fd "count" 5 (PScalar SInt64) false false None "" "";
          fd "tags" 6 (PScalar SString) true false None "" "";
          fd "labels" 7 (PMap (PScalar SString) (PScalar SDouble)) false false None "" "";
          fd "hidden" 8 (PScalar SString) false false None "" "";
          fd "emb" 9 (PMsg "Emb") false true None "" "";
          fd "inner" 10 (PMsg "Inner") false false None "" "nested";
          fd "items" 11 (PMsg "Inner") true false None "" "";
          fd "byName" 12 (PMap (PScalar SString) (PMsg "Inner")) false false None "" "";
          fd "e" 13 (PMsg "Empty") false false None "" "";
          fd "cust" 14 (PScalar SBytes) false false None "my/pkg.Type" "custom";
          fd "ts" 15 PTimestamp false false None "" "";
          fd "en" 16 (PEnum "Color") false false None "" ""] |}.

  Definition table := [d_inner; d_empty; d_emb; d_outer].

  (* "Inner.a", "Inner.u": Message.Field keys; "Outer.inner.u", "Outer.inner.w": path keys *)
  Definition cfg_sort (sorted : bool) : config :=
    {| c_types := ["Outer"]; c_duration_custom_type := ""; c_exclude := ["Outer.hidden"];
       c_computed := ["Outer.count"; "Outer.inner.u"];
       c_required := ["Outer.blank"; "Inner.a"]; c_sensitive := ["Outer.secretKey"; "Outer.inner.w"];
       c_target_pkg := ""; c_default_pkg := ""; c_sort := sorted;
       c_use_state := true; c_suffixes := []; c_name_overrides := [("Outer.userName", "login")];
       c_validators := [("Outer.tags", ["v1()"; "v2()"]); ("Inner.a", ["va()"])];
       c_planmods := [("Outer.labels", ["pm()"])]; c_time_type := true; c_duration_type := true;
       c_injected := [("Outer", [Injected "id" (TyPrim KStr) false true false ["ipm()"] ["iv()"]])];
       c_import_overrides := []; c_custom_types := [] |}.
  Definition cfg := cfg_sort false.

  Definition dummy : message := Msg "" [] [] [] true (GStruct []).
  Definition m_outer : message :=
    match build_message (obs_of cfg) table 5 d_outer "Outer" with BOk m => m | _ => dummy end.
  Definition m_sorted : message :=
    match build_message (obs_of (cfg_sort true)) table 5 d_outer "Outer" with BOk m => m | _ => dummy end.

  Lemma built : build_message (obs_of cfg) table 5 d_outer "Outer" = BOk m_outer.
  Proof. vm_compute. reflexivity. Qed.
  Lemma built_sorted : build_message (obs_of (cfg_sort true)) table 5 d_outer "Outer" = BOk m_sorted.
  Proof. vm_compute. reflexivity. Qed.

  Definition inner_attrs (u_computed : bool) : list sattr :=
    [SAttr "a" true false false false "inner a" ["va()"] [] (SLeaf (TyPrim KStr));
     SAttr "u" false true u_computed false "" [] (if u_computed then [use_state_pm] else []) (SLeaf (TyPrim KI64));
     (* gogoproto.embed on a scalar: the path key of the field is the path of the message, so the
        key "Outer.inner.w" does not reach it *)
     SAttr "w" false true false false "" [] [] (SLeaf (TyPrim KStr))].

  (* the schema the model computes *)
  Example small_schema :
    schema_attrs std_hook_schema m_outer =
    [SAttr "login" false true false false "The user name. Unique." [] [] (SLeaf (TyPrim KStr));
     SAttr "x" false true false false "" [] [] (SLeaf (TyPrim KStr));
     SAttr "secret_key" false true false true "" [] [] (SLeaf (TyPrim KStr));
     SAttr "blank" true false false false "" [] [] (SLeaf (TyPrim KI64));
     SAttr "count" false true true false "" [] [use_state_pm] (SLeaf (TyPrim KI64));
     SAttr "tags" false true false false "" ["v1()"; "v2()"] [] (SLeaf (TyList (TyPrim KStr)));
     SAttr "labels" false true false false "" [] ["pm()"] (SLeaf (TyMap (TyPrim KF64)));
     SAttr "flag" false true false false "promoted flag" [] [] (SLeaf (TyPrim KBool));
     SAttr "note_text" false true false false "" [] [] (SLeaf (TyPrim KStr));
     SAttr "inner" false true false false "nested" [] [] (SNested NSingle (inner_attrs true));
     SAttr "items" false true false false "" [] [] (SNested NList (inner_attrs false));
     SAttr "by_name" false true false false "" [] [] (SNested NMap (inner_attrs false));
     SAttr "e" false true false false "" [] [] (SNested NSingle [placeholder_attr]);
     SAttr "cust" false true false false "hook:mypkgType:custom" [] [] (SLeaf (TyHook "mypkgType"));
     SAttr "ts" false true false false "" [] [] (SLeaf (TyPrim KTime));
     SAttr "en" false true false false "" [] [] (SLeaf (TyPrim KI64));
     SAttr "id" false false true false "" ["iv()"] ["ipm()"] (SLeaf (TyPrim KStr))].
  Proof. vm_compute. reflexivity. Qed.

  (* theorem 3 / 4a: the names, in declaration order, the promoted ones in place, "id" last *)
  Example small_names :
    all_names (obs_of cfg) table 5 d_outer "Outer" =
    ["login"; "x"; "secret_key"; "blank"; "count"; "tags"; "labels"; "flag"; "note_text"; "inner"; "items";
     "by_name"; "e"; "cust"; "ts"; "en"; "id"]
    /\ names (schema_attrs std_hook_schema m_outer) = all_names (obs_of cfg) table 5 d_outer "Outer".
  Proof. split; vm_compute; reflexivity. Qed.

  Lemma small_names_nodup : NoDup (all_names (obs_of cfg) table 5 d_outer "Outer").
  Proof.
    apply (NoDup_count_occ' string_dec). intros x Hx. destruct small_names as [E _]. rewrite E in *.
    repeat (destruct Hx as [<-|Hx]; [vm_compute; reflexivity|]). destruct Hx.
  Qed.

  Example small_order : names (schema_attrs std_hook_schema m_outer) = all_names (obs_of cfg) table 5 d_outer "Outer".
  Proof.
    exact (schema_order_unsorted _ _ _ _ _ _ _ std_hook_keeps_name built eq_refl small_names_nodup).
  Qed.

  (* theorem 4b: with sort the entries follow the Go field names (Blank, ByName, Count, Cust, E, En,
     Flag, Ident, Inner, Items, Labels, NoteText, SecretKey, Tags, Ts, UserName), not the attribute
     names: "login" comes last, "x" between "flag" and "inner" *)
  Example sorted_names :
    names (schema_attrs std_hook_schema m_sorted) =
    ["blank"; "by_name"; "count"; "cust"; "e"; "en"; "flag"; "x"; "inner"; "items"; "labels"; "note_text";
     "secret_key"; "tags"; "ts"; "login"; "id"].
  Proof. vm_compute. reflexivity. Qed.

  (* theorem 1 on the k-th declared field *)
  Definition nth_field (k : nat) : fdesc := nth k (md_fields d_outer) (fd "" 0 PGroup false false None "" "").

  Ltac small_entry k :=
    let T := fresh "T" in
    pose proof (schema_entry_of_declared_field (obs_of cfg) table std_hook_schema 4 d_outer "Outer" m_outer
                  (nth_field k) std_hook_keeps_name built) as T;
    cbv zeta in T;
    specialize (T ltac:(vm_compute; tauto) ltac:(vm_compute; reflexivity) ltac:(vm_compute; reflexivity)
                  ltac:(vm_compute; reflexivity));
    let a := fresh "a" in let Hin := fresh "Hin" in let Hn := fresh "Hn" in let Hs := fresh "Hs" in
    destruct T as (a & Hin & Hn & _ & Hs);
    exists a; split; [exact Hin|];
    (* the builder of the nested messages is kept abstract while the statement is evaluated *)
    let bm := fresh "bm" in let Hbm := fresh "Hbm" in
    set (bm := build_message (obs_of cfg) table 4) in Hs;
    assert (Hbm : forall d' p, bm d' p = build_message (obs_of cfg) table 4 d' p) by reflexivity;
    clearbody bm;
    timeout 60 (vm_compute in Hs).

  Ltac leaf_entry k :=
    small_entry k;
    let body := fresh "body" in
    let Hb := fresh "Hb" in
    match goal with Hs0 : exists b, _ |- _ => destruct Hs0 as (body & Hb & ->) end;
    repeat (match type of Hb with _ /\ _ => destruct Hb as [_ Hb] end);
    rewrite Hb; reflexivity.

  Ltac nested_entry k :=
    small_entry k;
    let body := fresh "body" in
    let Hb := fresh "Hb" in
    let Hm := fresh "Hm" in
    let Hd := fresh "Hd" in
    let d' := fresh "d'" in
    let m' := fresh "m'" in
    match goal with Hs0 : exists b, _ |- _ => destruct Hs0 as (body & Hb & ->) end;
    repeat (match type of Hb with _ /\ _ => destruct Hb as [_ Hb] end);
    destruct Hb as (d' & m' & Hd & Hm & ->); injection Hd as <-;
    match goal with Hr : forall d0 p, _ d0 p = build_message _ _ _ d0 p |- _ => rewrite Hr in Hm end;
    timeout 60 (vm_compute in Hm); injection Hm as <-; timeout 60 vm_compute; reflexivity.

  Notation attrs := (schema_attrs std_hook_schema m_outer).

  (* name override *)
  Example entry_override : exists a, In a attrs /\
    a = SAttr "login" false true false false "The user name. Unique." [] [] (SLeaf (TyPrim KStr)).
  Proof. leaf_entry 0%nat. Qed.
  (* JSON tag "x,omitempty" *)
  Example entry_json_tag : exists a, In a attrs /\
    a = SAttr "x" false true false false "" [] [] (SLeaf (TyPrim KStr)).
  Proof. leaf_entry 1%nat. Qed.
  (* JSON tag "-": snake case; sensitive; bytes are strings *)
  Example entry_json_dash : exists a, In a attrs /\
    a = SAttr "secret_key" false true false true "" [] [] (SLeaf (TyPrim KStr)).
  Proof. leaf_entry 2%nat. Qed.
  (* empty JSON tag; required (hence not optional) *)
  Example entry_required : exists a, In a attrs /\
    a = SAttr "blank" true false false false "" [] [] (SLeaf (TyPrim KI64)).
  Proof. leaf_entry 3%nat. Qed.
  (* computed, UseStateForUnknown by default *)
  Example entry_computed : exists a, In a attrs /\
    a = SAttr "count" false true true false "" [] [use_state_pm] (SLeaf (TyPrim KI64)).
  Proof. leaf_entry 4%nat. Qed.
  (* list of scalars, validators *)
  Example entry_list : exists a, In a attrs /\
    a = SAttr "tags" false true false false "" ["v1()"; "v2()"] [] (SLeaf (TyList (TyPrim KStr))).
  Proof. leaf_entry 5%nat. Qed.
  (* map of scalars, plan modifiers *)
  Example entry_map : exists a, In a attrs /\
    a = SAttr "labels" false true false false "" [] ["pm()"] (SLeaf (TyMap (TyPrim KF64))).
  Proof. leaf_entry 6%nat. Qed.
  (* nested message; inside, "a" required and validated by Message.Field key, "u" computed by path key *)
  Example entry_nested : exists a, In a attrs /\
    a = SAttr "inner" false true false false "nested" [] [] (SNested NSingle (inner_attrs true)).
  Proof. nested_entry 9%nat. Qed.
  Example entry_nested_list : exists a, In a attrs /\
    a = SAttr "items" false true false false "" [] [] (SNested NList (inner_attrs false)).
  Proof. nested_entry 10%nat. Qed.
  Example entry_nested_map : exists a, In a attrs /\
    a = SAttr "by_name" false true false false "" [] [] (SNested NMap (inner_attrs false)).
  Proof. nested_entry 11%nat. Qed.
  (* a message without fields: the placeholder *)
  Example entry_empty_message : exists a, In a attrs /\
    a = SAttr "e" false true false false "" [] [] (SNested NSingle [placeholder_attr]).
  Proof. nested_entry 12%nat. Qed.
  (* custom type: the hook applied to the attribute without type *)
  Example entry_custom : exists a, In a attrs /\
    a = std_hook_schema "mypkgType" (SAttr "cust" false true false false "custom" [] [] SNoType).
  Proof. small_entry 13%nat. exact Hs. Qed.
  Example entry_time : exists a, In a attrs /\
    a = SAttr "ts" false true false false "" [] [] (SLeaf (TyPrim KTime)).
  Proof. leaf_entry 14%nat. Qed.
  Example entry_enum : exists a, In a attrs /\
    a = SAttr "en" false true false false "" [] [] (SLeaf (TyPrim KI64)).
  Proof. leaf_entry 15%nat. Qed.

  (* theorem 2 on the small file: the promoted "flag", the injected "id" *)
  Example origin_flag :
    origin (obs_of cfg) table std_hook_schema 5 d_outer "Outer"
           (SAttr "flag" false true false false "promoted flag" [] [] (SLeaf (TyPrim KBool))) \/
    (exists j, In j (injected_of (obs_of cfg) "Outer") /\
               SAttr "flag" false true false false "promoted flag" [] [] (SLeaf (TyPrim KBool)) = inj_attr j).
  Proof. apply (schema_entry_origin _ _ _ _ _ _ _ _ built). rewrite small_schema. cbn [In]. tauto. Qed.

  (* the hypothesis on the name is needed: two fields under one attribute name, the later one wins
     (at the place of the earlier one) *)
  Definition d_clash : mdesc :=
    {| md_name := "Clash"; md_comment := ""; md_oneofs := [];
       md_fields := [fd "userName" 1 (PScalar SString) false false None "" "first";
                     fd "other" 2 (PScalar SBool) false false None "" "mid";
                     fd "user_name" 3 (PScalar SInt64) false false None "" "second"] |}.
  Example clash :
    match build_message (obs_of cfg) [d_clash] 2 d_clash "Clash" with
    | BOk m => Some (schema_attrs std_hook_schema m)
    | _ => None
    end = Some [SAttr "user_name" false true false false "second" [] [] (SLeaf (TyPrim KI64));
                SAttr "other" false true false false "mid" [] [] (SLeaf (TyPrim KBool))].
  Proof. vm_compute. reflexivity. Qed.
End Small.
