(* C08 "apply echo" at the level of the message, for the models of Copy<T>FromTerraform
   (Model/CopyFrom.v) and Copy<T>ToTerraform (Model/CopyTo.v): Terraform hands the provider a plan
   object p (attributes known, null or unknown); the provider reads it into the zero struct
   (copy_from m p (m_zero m) = g), the API echoes g, and the provider writes g INTO the plan object
   (copy_to m g p).  Theorem copy_echo_partial: neither step panics or adds a diagnostic, and the
   result r echoes the plan, [echo_rel m p r]: field by field and at every depth, r is known; an
   attribute the plan knows comes back with the same payload (a null one comes back null); inside
   known lists and maps, whose elements CopyTo re-makes without looking at the plan's element, an
   element equal to the Go zero value may come back null (and a null element as the zero value),
   and a known empty list or map inside such an element may come back null.

   The class, [echo_class]: rt_ok of MsgRoundTrip.v (all six kinds, nullable or not, nested at any
   depth) without oneof branches and without messages without fields ([simple]).
   The plans, [plan_ok]: the object of the schema's type holding, for every field, an attribute of
   the field's type; the payload of a known scalar is in the range of the field's Go type
   (payload_in_range of EchoProofs.v); the keys of a known map are distinct; a known object holds
   its attributes, recursively; a message held BY VALUE (attribute or element) is known (CopyTo
   renders the struct m_zero, on which rt_ok says nothing but the keys, when the plan's object is
   null or unknown); at most one branch of every oneof is known and not null (stated, vacuous on
   the class).

   Not covered by the theorem (the definitions and the tests of section 9 cover them): oneofs,
   messages without fields, null or unknown messages held by value.
   copy_echo_nofloat32 is the same theorem for messages without float32 scalars and is closed under
   the global context. *)
From Coq Require Import List String Bool ZArith Lia.
From Coq Require Import Floats.SpecFloat.
From PGT Require Import Base.Strs Base.AList Model.Vals Model.IR Model.CopyTo Model.CopyFrom.
From PGT Require Import Proofs.Ints Proofs.Floats Proofs.CopyToProofs Proofs.CopyFromProofs.
From PGT Require Import Proofs.RoundTripProofs Proofs.CopyToTotal Proofs.EchoProofs Proofs.MsgRoundTrip.
Import ListNotations.

(* ------------------------------------------------------------------------------------- *)
(* 1. structural equality of payloads *)

Definition sf_eqb (a b : spec_float) : bool :=
  match a, b with
  | S754_zero s, S754_zero s' => Bool.eqb s s'
  | S754_infinity s, S754_infinity s' => Bool.eqb s s'
  | S754_nan, S754_nan => true
  | S754_finite s m e, S754_finite s' m' e' => Bool.eqb s s' && Pos.eqb m m' && Z.eqb e e'
  | _, _ => false
  end.

Definition prim_eqb (a b : prim) : bool :=
  match a, b with
  | PInt x, PInt y => Z.eqb x y
  | PF32 x, PF32 y | PF64 x, PF64 y => sf_eqb x y
  | PBool x, PBool y => Bool.eqb x y
  | PStr x, PStr y => String.eqb x y
  | PTime a1 b1 c1, PTime a2 b2 c2 => Z.eqb a1 a2 && Z.eqb b1 b2 && Z.eqb c1 c2
  | _, _ => false
  end.

Lemma sf_eqb_refl a : sf_eqb a a = true.
Proof.
  destruct a as [s|s| |s m e]; cbn [sf_eqb]; rewrite ?Bool.eqb_reflx, ?Pos.eqb_refl, ?Z.eqb_refl; reflexivity.
Qed.

Lemma prim_eqb_refl p : prim_eqb p p = true.
Proof.
  destruct p; cbn [prim_eqb]; rewrite ?Z.eqb_refl, ?sf_eqb_refl, ?Bool.eqb_reflx, ?String.eqb_refl; reflexivity.
Qed.

Lemma sf_eqb_eq a b : sf_eqb a b = true -> a = b.
Proof.
  destruct a as [s|s| |s m e], b as [s'|s'| |s' m' e']; cbn [sf_eqb]; try discriminate; intros H.
  - apply Bool.eqb_prop in H. now subst.
  - apply Bool.eqb_prop in H. now subst.
  - reflexivity.
  - apply andb_prop in H. destruct H as [H H3]. apply andb_prop in H. destruct H as [H1 H2].
    apply Bool.eqb_prop in H1. apply Pos.eqb_eq in H2. apply Z.eqb_eq in H3. now subst.
Qed.

Lemma prim_eqb_eq p q : prim_eqb p q = true -> p = q.
Proof.
  destruct p, q; cbn [prim_eqb]; try discriminate; intros H.
  - apply Z.eqb_eq in H. now subst.
  - apply sf_eqb_eq in H. now subst.
  - apply sf_eqb_eq in H. now subst.
  - apply Bool.eqb_prop in H. now subst.
  - apply String.eqb_eq in H. now subst.
  - apply andb_prop in H. destruct H as [H H3]. apply andb_prop in H. destruct H as [H1 H2].
    apply Z.eqb_eq in H1. apply Z.eqb_eq in H2. apply Z.eqb_eq in H3. now subst.
Qed.

(* ------------------------------------------------------------------------------------- *)
(* 2. the echo relation, computable.

   x = true ("in place"): the attribute is written over the plan's attribute (the attributes of the
   plan object and of the known objects nested in it as attributes);
   x = false ("re-made"): the value is an element of a known list or map (CopyTo re-makes the
   elements: the plan's element is not consulted), or an attribute inside such an element. *)

Fixpoint forall2b {A B} (R : A -> B -> bool) (l : list A) (l' : list B) : bool :=
  match l, l' with
  | [], [] => true
  | a :: r, b :: r' => R a b && forall2b R r r'
  | _, _ => false
  end.

(* a scalar attribute or element *)
Definition echo_prim (x : bool) (a r : tfval) : bool :=
  match a, r with
  | VPrim k n u p, VPrim k' n' u' p' =>
      tfkind_eqb k k' && negb u'
      && (if u then true                                  (* unknown: anything known *)
          else if n then n' || negb x                     (* null: null (in place) *)
          else prim_eqb p p' && (negb n' || (negb x && prim_is_zero p)))
                                                          (* known: the same payload, not null; an
                                                             element equal to the zero value may be null *)
  | _, _ => false
  end.

(* a message attribute or element; E: the relation on the attributes of the message *)
Definition echo_obj (x : bool) (E : bool -> list (string * tfval) -> list (string * tfval) -> bool)
           (a r : tfval) : bool :=
  match a, r with
  | VObj ats n u at0, VObj ats' n' u' (Some l') =>
      tfty_eqb (TyObj ats) (TyObj ats') && negb u'
      && (if u then true
          else if n then n' || negb x
          else negb n' && E x (olist at0) l')
  | _, _ => false
  end.

Definition echo_list (x : bool) (R : tfval -> tfval -> bool) (a r : tfval) : bool :=
  match a, r with
  | VList e n u el, VList e' n' u' (Some l') =>
      tfty_eqb e e' && negb u'
      && (if u then true
          else if n then n'
          else match olist el with
               | [] => (negb n' || negb x) && match l' with [] => true | _ => false end
               | l => negb n' && forall2b R l l'
               end)
  | _, _ => false
  end.

Definition echo_map (x : bool) (R : tfval -> tfval -> bool) (a r : tfval) : bool :=
  match a, r with
  | VMap e n u el, VMap e' n' u' (Some l') =>
      tfty_eqb e e' && negb u'
      && (if u then true
          else if n then n'
          else match olist el with
               | [] => (negb n' || negb x) && match l' with [] => true | _ => false end
               | l => negb n' && forall2b (fun ka kb => String.eqb (fst ka) (fst kb) && R (snd ka) (snd kb)) l l'
               end)
  | _, _ => false
  end.

Definition echo_val (x : bool) (i : finfo)
           (E : option (bool -> list (string * tfval) -> list (string * tfval) -> bool)) (a r : tfval) : bool :=
  match fi_kind i, E with
  | PrimitiveKind, _ => echo_prim x a r
  | PrimitiveListKind, _ => echo_list x (echo_prim false) a r
  | PrimitiveMapKind, _ => echo_map x (echo_prim false) a r
  | ObjectKind, Some E => echo_obj x E a r
  | ObjectListKind, Some E => echo_list x (echo_obj false E) a r
  | ObjectMapKind, Some E => echo_map x (echo_obj false E) a r
  | _, _ => false
  end.

Fixpoint echo_attrs (m : message) (x : bool) (pa ra : list (string * tfval)) {struct m} : bool :=
  match m with
  | Msg _ fs _ _ _ _ =>
      (fix go (l : list field) : bool :=
         match l with
         | [] => true
         | f :: r => echo_field f x pa ra && go r
         end) fs
  end
with echo_field (f : field) (x : bool) (pa ra : list (string * tfval)) {struct f} : bool :=
  match f with
  | Field i om =>
      match lookup (fi_snake i) pa, lookup (fi_snake i) ra with
      | Some a, Some r => echo_val x i (match om with Some m' => Some (echo_attrs m') | None => None end) a r
      | _, _ => false
      end
  end.

(* r echoes the plan p *)
Definition echo_rel (m : message) (p r : tfval) : bool :=
  match p, r with
  | VObj ats _ _ at0, VObj ats' n' u' (Some ra) =>
      tfty_eqb (TyObj ats) (TyObj ats') && negb n' && negb u' && echo_attrs m true (olist at0) ra
  | _, _ => false
  end.

(* ------------------------------------------------------------------------------------- *)
(* 3. plans *)

(* a scalar attribute or element of the plan: of the field's kind; when known, its payload is in
   the range of the field's Go type *)
Definition plan_prim (i : finfo) (a : tfval) : Prop :=
  exists n u p, a = VPrim (fi_tk i) n u p /\ (known n u = true -> payload_in_range (fi_cast i) p).

(* a message attribute or element: of the schema's type; when known it holds a plan of the message;
   a message held by value is known (see the report: CopyTo renders the zero struct otherwise) *)
Definition plan_obj (i : finfo) (ty : list (string * tfty)) (T : list (string * tfval) -> Prop) (a : tfval) : Prop :=
  exists n u at0, a = VObj ty n u at0
    /\ (known n u = true -> exists l, at0 = Some l /\ T l)
    /\ (fi_nullable i = false -> known n u = true).

Definition plan_val (i : finfo) (T : option (list (string * tfty) * (list (string * tfval) -> Prop)))
           (a : tfval) : Prop :=
  match fi_kind i, T with
  | PrimitiveKind, _ => plan_prim i a
  | PrimitiveListKind, _ =>
      exists n u el, a = VList (TyPrim (fi_tk i)) n u el
        /\ (known n u = true -> Forall (plan_prim i) (olist el))
  | PrimitiveMapKind, _ =>
      exists n u el, a = VMap (TyPrim (fi_tk i)) n u el
        /\ (known n u = true -> NoDup (map fst (olist el)) /\ Forall (fun kv => plan_prim i (snd kv)) (olist el))
  | ObjectKind, Some (ty, T) => plan_obj i ty T a
  | ObjectListKind, Some (ty, T) =>
      exists n u el, a = VList (TyObj ty) n u el
        /\ (known n u = true -> Forall (plan_obj i ty T) (olist el))
  | ObjectMapKind, Some (ty, T) =>
      exists n u el, a = VMap (TyObj ty) n u el
        /\ (known n u = true -> NoDup (map fst (olist el)) /\ Forall (fun kv => plan_obj i ty T (snd kv)) (olist el))
  | _, _ => False
  end.

(* known and not null *)
Definition is_active (a : tfval) : bool :=
  match a with
  | VPrim _ n u _ | VObj _ n u _ | VList _ n u _ | VMap _ n u _ => known n u
  | _ => false
  end.

(* the attributes of a plan of message m: every field has its attribute; at most one branch of
   every oneof is known and not null *)
Fixpoint plan_attrs (m : message) (pa : list (string * tfval)) {struct m} : Prop :=
  match m with
  | Msg _ fs os _ _ _ =>
      (fix go (l : list field) : Prop :=
         match l with
         | [] => True
         | f :: r => plan_field f pa /\ go r
         end) fs
      /\ (forall f1 f2 h a1 a2, In f1 fs -> In f2 fs ->
            fi_oneof (f_info f1) = Some h -> fi_oneof (f_info f2) = Some h ->
            lookup (fi_snake (f_info f1)) pa = Some a1 -> lookup (fi_snake (f_info f2)) pa = Some a2 ->
            is_active a1 = true -> is_active a2 = true -> f1 = f2)
  end
with plan_field (f : field) (pa : list (string * tfval)) {struct f} : Prop :=
  match f with
  | Field i om =>
      exists a, lookup (fi_snake i) pa = Some a /\
        if fi_placeholder i then exists n u p, a = VPrim (fi_tk i) n u p
        else plan_val i (match om with Some m' => Some (msg_ty m', plan_attrs m') | None => None end) a
  end.

Definition plan_ok (m : message) (p : tfval) : Prop :=
  exists pa, p = VObj (msg_ty m) false false (Some pa) /\ plan_attrs m pa.

Lemma plan_attrs_fields n fs os inj e z pa :
  plan_attrs (Msg n fs os inj e z) pa -> Forall (fun f => plan_field f pa) fs.
Proof.
  cbn [plan_attrs]. intros [H _]. induction fs as [|f r IH]; constructor; tauto.
Qed.

Lemma echo_attrs_eq n fs os inj e z x pa ra :
  echo_attrs (Msg n fs os inj e z) x pa ra = forallb (fun f => echo_field f x pa ra) fs.
Proof.
  cbn [echo_attrs]. induction fs as [|f r IH]; [reflexivity|]. cbn [forallb]. now rewrite IH.
Qed.

(* ------------------------------------------------------------------------------------- *)
(* 4. the class of the theorem: rt_ok, no oneof branch, no message without fields *)

Fixpoint simple (m : message) {struct m} : bool :=
  match m with
  | Msg _ fs _ _ e _ =>
      negb e && (fix go (l : list field) : bool :=
                   match l with
                   | [] => true
                   | f :: r => fsimple f && go r
                   end) fs
  end
with fsimple (f : field) {struct f} : bool :=
  match f with
  | Field i om =>
      match fi_oneof i with None => true | Some _ => false end
      && match om with Some m' => simple m' | None => true end
  end.

Lemma simple_eq n fs os inj e z : simple (Msg n fs os inj e z) = negb e && forallb fsimple fs.
Proof.
  cbn [simple]. apply (f_equal (andb _)). induction fs as [|f r IH]; [reflexivity|]. cbn [forallb]. now rewrite IH.
Qed.

Definition echo_class (m : message) : bool := rt_ok m && simple m.

(* ------------------------------------------------------------------------------------- *)
(* 5. the element loops *)

Lemma forall2b_nil_l {A B} (R : A -> B -> bool) l' : forall2b R [] l' = true -> l' = [].
Proof. destruct l'; [reflexivity|discriminate]. Qed.

Lemma e_to_list_fold {A} (F : A -> list diag -> res (tfval * list diag)) (Q : tfval -> tfval -> bool) ds
      (vl : list A) (pl : list tfval) :
  Forall2 (fun v a => exists r, F v ds = Ok (r, ds) /\ Q a r = true) vl pl ->
  forall vs0, exists rs,
    fold_left (fun acc a => do '(vs, ds1) <- acc; do '(v, ds2) <- F a ds1; Ok (vs ++ [v], ds2)) vl (Ok (vs0, ds))
    = Ok (vs0 ++ rs, ds) /\ forall2b Q pl rs = true.
Proof.
  induction 1 as [|v a vl' pl' (r & E & Qa) _ IH]; intros vs0; cbn [fold_left].
  - exists []. now rewrite app_nil_r.
  - cbn [bind]. rewrite E. cbn [bind]. destruct (IH (vs0 ++ [r])) as (rs & E2 & Qs).
    exists (r :: rs). rewrite E2, <- app_assoc. split; [reflexivity|]. cbn [forall2b]. now rewrite Qa, Qs.
Qed.

Lemma e_from_list_fold (G : tfval -> list diag -> res (option goval * list diag)) z ds
      (vl : list goval) (pl : list tfval) :
  Forall2 (fun v a => G a ds = Ok (Some v, ds)) vl pl ->
  forall gs0,
    fold_left (fun acc a => do '(vs, ds1) <- acc; do '(ov, ds2) <- G a ds1;
                            Ok (vs ++ [match ov with Some v => v | None => z end], ds2)) pl (Ok (gs0, ds))
    = Ok (gs0 ++ vl, ds).
Proof.
  induction 1 as [|v a vl' pl' E _ IH]; intros gs0; cbn [fold_left].
  - now rewrite app_nil_r.
  - cbn [bind]. rewrite E. cbn [bind]. rewrite (IH (gs0 ++ [v])), <- app_assoc. reflexivity.
Qed.

Definition kv_rel (Q : tfval -> tfval -> bool) (ka kb : string * tfval) : bool :=
  String.eqb (fst ka) (fst kb) && Q (snd ka) (snd kb).

Lemma e_to_map_fold {A} (F : string * A -> list diag -> res (tfval * list diag)) (Q : tfval -> tfval -> bool) ds
      (vl : list (string * A)) (pl : list (string * tfval)) :
  Forall2 (fun kv ka => fst kv = fst ka /\ exists r, F kv ds = Ok (r, ds) /\ Q (snd ka) r = true) vl pl ->
  forall es0, NoDup (keys es0 ++ map fst vl) -> exists rs,
    fold_left (fun acc ka => do '(es, ds1) <- acc; do '(v, ds2) <- F ka ds1; Ok (update (fst ka) v es, ds2))
              vl (Ok (es0, ds))
    = Ok (es0 ++ rs, ds) /\ forall2b (kv_rel Q) pl rs = true.
Proof.
  induction 1 as [|[k v] [k' a] vl' pl' (Ek & r & E & Qa) _ IH]; intros es0 ND; cbn [fold_left].
  - exists []. now rewrite app_nil_r.
  - cbn [fst snd] in *. subst k'. cbn [bind]. rewrite E. cbn [bind fst]. cbn [map fst] in ND.
    apply NoDup_app_cons_l in ND. destruct ND as [NI ND]. rewrite (update_notin _ _ _ NI).
    destruct (IH (es0 ++ [(k, r)])) as (rs & E2 & Qs).
    { rewrite keys_app. exact ND. }
    exists ((k, r) :: rs). rewrite E2, <- app_assoc. split; [reflexivity|]. cbn [forall2b].
    unfold kv_rel at 1. cbn [fst snd]. now rewrite String.eqb_refl, Qa, Qs.
Qed.

Lemma e_from_map_fold (G : string * tfval -> list diag -> res (option goval * list diag)) ds
      (vl : list (string * goval)) (pl : list (string * tfval)) :
  Forall2 (fun kv ka => fst kv = fst ka /\ G ka ds = Ok (Some (snd kv), ds)) vl pl ->
  forall gl0, NoDup (keys gl0 ++ map fst pl) ->
    fold_left (fun acc ka => do '(es, ds1) <- acc; do '(ov, ds2) <- G ka ds1;
                             Ok (match ov with Some v => update (fst ka) v es | None => es end, ds2))
              pl (Ok (gl0, ds))
    = Ok (gl0 ++ vl, ds).
Proof.
  induction 1 as [|[k v] [k' a] vl' pl' (Ek & E) _ IH]; intros gl0 ND; cbn [fold_left].
  - now rewrite app_nil_r.
  - cbn [fst snd] in *. subst k'. cbn [bind]. rewrite E. cbn [bind fst]. cbn [map fst] in ND.
    apply NoDup_app_cons_l in ND. destruct ND as [NI ND]. rewrite (update_notin _ _ _ NI).
    rewrite (IH (gl0 ++ [(k, v)])), <- app_assoc; [reflexivity|]. rewrite keys_app. exact ND.
Qed.

Lemma Forall2_map_fst {A B} (l : list (string * A)) (l' : list (string * B)) (P : string * A -> string * B -> Prop) :
  Forall2 (fun x y => fst x = fst y /\ P x y) l l' -> map fst l = map fst l'.
Proof. induction 1 as [|x y r r' [E _] _ IH]; cbn [map]; congruence. Qed.

(* choice over a list *)
Lemma Forall_ex_Forall2 {A B} (P : A -> B -> Prop) (l : list A) :
  Forall (fun a => exists b, P a b) l -> exists l', Forall2 (fun b a => P a b) l' l.
Proof.
  induction 1 as [|a r (b & Pb) _ (l' & IH)]; [exists []; constructor|]. exists (b :: l'). now constructor.
Qed.

(* ------------------------------------------------------------------------------------- *)
(* 6. one field *)

Definition not_prim (c : option tfval) : Prop := match c with Some (VPrim _ _ _ _) => False | _ => True end.
Definition not_obj (c : option tfval) : Prop := match c with Some (VObj _ _ _ _) => False | _ => True end.

(* the attribute CopyTo finds: the plan's (in place) or none (re-made) *)
Definition cur_ok (x : bool) (a : tfval) (N : option tfval -> Prop) (cur : option tfval) : Prop :=
  if x then cur = Some a else N cur.

Section Echo.
  Variable hook_to : hook_to_t.
  Variable hook_from : hook_from_t.
  Variable SOK : goscalar -> bool.
  Hypothesis PRT : forall s p, SOK s = true -> payload_in_range s p ->
    exists g, cast_from s p = Ok g /\ cast_to (kind_of s) g = Ok p.

  Definition Eo (om : option message) := match om with Some m' => Some (echo_attrs m') | None => None end.
  Definition To (om : option message) :=
    match om with Some m' => Some (msg_ty m', plan_attrs m') | None => None end.

  (* a scalar: attribute or element *)
  Lemma prim_echo i a :
    prim_cond SOK i -> fi_oneof i = None -> plan_prim i a ->
    exists n u p v, a = VPrim (fi_tk i) n u p /\ from_prim_value i n u p = Ok v /\
      forall x obj cur ds, cur_ok x a not_prim cur ->
        exists r, to_prim_value i (Ok v) obj (TyPrim (fi_tk i)) cur ds = Ok (r, ds) /\ echo_prim x a r = true.
  Proof.
    intros (Hk & P & PH & Hz & OK) O (n & u & p & -> & R). exists n, u, p.
    destruct (cast_to_zero_scalar (fi_cast i)) as [pz Cz]. rewrite <- Hk in Cz.
    destruct (known n u) eqn:Kn.
    - destruct n, u; try discriminate Kn. destruct (PRT _ _ OK (R eq_refl)) as (g' & C & D). rewrite <- Hk in D.
      exists (if fi_nullable i then GPtr (Some g') else g'). split; [reflexivity|]. split.
      { unfold from_prim_value. cbn [known negb andb]. rewrite C. reflexivity. }
      intros x obj cur ds Hc. unfold cur_ok in Hc. destruct x.
      + subst cur. rewrite to_prim_value_kinded. unfold prim_finish, parent_is_nil. rewrite PH, O, P. cbn [bind].
        destruct (fi_nullable i); cbn [bind]; rewrite D; cbn [bind]; eexists; (split; [reflexivity|]);
          cbn [echo_prim]; rewrite CopyToProofs.tfkind_eqb_refl, prim_eqb_refl; reflexivity.
      + unfold to_prim_value, parent_is_nil. rewrite PH, O, P. cbn [null_value].
        rewrite CopyToProofs.tfkind_eqb_refl.
        destruct cur as [[]|]; try contradiction;
          destruct (fi_zero i) eqn:Z; [rewrite (Hz eq_refl)| |rewrite (Hz eq_refl)| |rewrite (Hz eq_refl)|
                                       |rewrite (Hz eq_refl)| |rewrite (Hz eq_refl)| |rewrite (Hz eq_refl)|];
          try destruct (fi_nullable i); cbn [bind]; rewrite ?D; cbn [bind]; eexists; (split; [reflexivity|]);
          cbn [echo_prim]; rewrite CopyToProofs.tfkind_eqb_refl, prim_eqb_refl; cbn [negb andb orb];
          destruct (prim_is_zero p); reflexivity.
    - exists (zero_of_prim i). split; [reflexivity|]. split; [now apply from_prim_value_null|].
      intros x obj cur ds Hc. unfold cur_ok in Hc. unfold zero_of_prim. destruct x.
      + subst cur. rewrite to_prim_value_kinded. unfold prim_finish, parent_is_nil. rewrite PH, O, P. cbn [bind].
        destruct (fi_nullable i); cbn [bind]; rewrite ?Cz; cbn [bind]; eexists; (split; [reflexivity|]);
          cbn [echo_prim]; rewrite CopyToProofs.tfkind_eqb_refl; destruct n, u; try discriminate Kn; reflexivity.
      + unfold to_prim_value, parent_is_nil. rewrite PH, O, P. cbn [null_value].
        rewrite CopyToProofs.tfkind_eqb_refl.
        destruct cur as [[]|]; try contradiction;
          destruct (fi_zero i) eqn:Z; [rewrite (Hz eq_refl)| |rewrite (Hz eq_refl)| |rewrite (Hz eq_refl)|
                                       |rewrite (Hz eq_refl)| |rewrite (Hz eq_refl)| |rewrite (Hz eq_refl)|];
          try destruct (fi_nullable i); cbn [bind]; rewrite ?Cz; cbn [bind]; eexists; (split; [reflexivity|]);
          cbn [echo_prim]; rewrite CopyToProofs.tfkind_eqb_refl; cbn [negb andb orb];
          destruct n, u; try discriminate Kn; rewrite ?orb_true_r; reflexivity.
  Qed.

  Lemma prim_elem_echo i a :
    prim_cond SOK i -> fi_oneof i = None -> plan_prim i a ->
    exists v, (forall ds, prim_elem i a ds = Ok (Some v, ds)) /\
      forall obj cur ds, not_prim cur ->
        exists r, to_prim_value i (Ok v) obj (TyPrim (fi_tk i)) cur ds = Ok (r, ds) /\ echo_prim false a r = true.
  Proof.
    intros PC O Pl. destruct (prim_echo i a PC O Pl) as (n & u & p & v & -> & Fv & Tv). exists v. split.
    - intros ds. unfold prim_elem. cbn [as_prim]. rewrite CopyToProofs.tfkind_eqb_refl, Fv. reflexivity.
    - intros obj cur ds N. exact (Tv false obj cur ds N).
  Qed.

  Definition field_from (f : field) (a : tfval) (v : goval) : Prop :=
    forall pa tgt ds, lookup (snake f) pa = Some a -> In (fi_name (f_info f)) (keys tgt) ->
      from_field hook_from f (Some pa) (GStruct tgt, ds) = Ok (GStruct (update (fi_name (f_info f)) v tgt), ds).

  Definition field_to (f : field) (a : tfval) (v : goval) : Prop :=
    forall (x : bool) gs atys attrs ds t, lookup (fi_name (f_info f)) gs = Some v -> field_ty f = Some t ->
      lookup (snake f) atys = Some t -> lookup (snake f) attrs = (if x then Some a else None) ->
      exists r, to_field hook_to f (GStruct gs) atys (attrs, ds) = Ok (update (snake f) r attrs, ds)
                /\ echo_val x (f_info f) (Eo (f_msg f)) a r = true.

  Definition field_echo (f : field) : Prop :=
    forall a, plan_val (f_info f) (To (f_msg f)) a -> exists v, field_from f a v /\ field_to f a v.

  Lemma cur_ok_of (x : bool) (a : tfval) (N : option tfval -> Prop) (attrs : list (string * tfval)) s :
    lookup s attrs = (if x then Some a else None) -> N None -> cur_ok x a N (lookup s attrs).
  Proof. intros -> H. unfold cur_ok. destruct x; [reflexivity|exact H]. Qed.

  Lemma read_plain i gs v z :
    fi_via i = [] -> fi_parent i = None -> fi_oneof i = None -> lookup (fi_name i) gs = Some v ->
    read_field i z (GStruct gs) = Ok v /\ read_source i z (GStruct gs) = Ok v.
  Proof.
    intros V P O L. unfold read_field. rewrite (read_source_plain i z _ V P O), O, V. cbn [gget_via gfield].
    rewrite L. split; reflexivity.
  Qed.

  Lemma e_field_prim os i om :
    fcond SOK os i om -> fi_oneof i = None -> fi_kind i = PrimitiveKind -> field_echo (Field i om).
  Proof.
    intros (V & P & PH & NC & PC & _ & _) O K a Pl. cbn [f_info f_msg] in *. unfold plan_val in Pl.
    rewrite K in Pl. cbv beta iota in Pl. specialize (PC ltac:(now rewrite K)).
    destruct (prim_echo i a PC O Pl) as (n & u & p & v & -> & Fv & Tv). exists v. split.
    - intros pa tgt ds L I. unfold snake in L. cbn [f_info] in *.
      rewrite (from_field_prim_eq hook_from i om pa (GStruct tgt) ds V P n u p K L), Fv, O. cbn [bind].
      rewrite (gset_in _ _ _ I). reflexivity.
    - intros x gs atys attrs ds t Lg FT La Lc. unfold snake in *. cbn [f_info f_msg] in *.
      cbn [field_ty] in FT. rewrite K in FT. injection FT as <-.
      rewrite to_field_eq. cbv zeta. rewrite La, K, O. cbn [bind].
      destruct (read_plain i gs v (zero_of_prim i) V P O Lg) as [RF _]. rewrite RF.
      destruct (Tv x (GStruct gs) (lookup (fi_snake i) attrs) ds (cur_ok_of _ _ _ _ _ Lc I)) as (r & E & Q).
      rewrite E. cbn [bind]. exists r. split; [reflexivity|]. unfold echo_val. rewrite K. exact Q.
  Qed.

  Lemma echo_list_final (x : bool) R e n u el cn len rs pl :
    pl = (if known n u then olist el else []) -> forall2b R pl rs = true -> List.length pl = len ->
    cn = (if x then n else true) ->
    echo_list x R (VList e n u el) (VList e (if Nat.ltb 0 len then false else cn) false (Some rs)) = true.
  Proof.
    intros -> F <- ->. cbn [echo_list]. rewrite tfty_eqb_refl. cbn [negb andb]. destruct u; [reflexivity|].
    destruct n; cbn [known negb andb] in *.
    - cbn [List.length Nat.ltb Nat.leb]. destruct x; reflexivity.
    - destruct (olist el) as [|a l]; cbn [List.length Nat.ltb Nat.leb].
      + apply forall2b_nil_l in F. subst rs. destruct x; reflexivity.
      + exact F.
  Qed.

  Lemma echo_map_final {B} (x : bool) R e n u el cn (vl : list B) rs pl :
    pl = (if known n u then olist el else []) -> forall2b (kv_rel R) pl rs = true ->
    List.length pl = List.length vl -> cn = (if x then n else true) ->
    echo_map x R (VMap e n u el) (VMap e (match vl with [] => cn | _ => false end) false (Some rs)) = true.
  Proof.
    intros -> F Len ->. cbn [echo_map]. rewrite tfty_eqb_refl. cbn [negb andb]. destruct u.
    { reflexivity. }
    destruct n; cbn [known negb andb] in *.
    - destruct vl; [|discriminate Len]. destruct x; reflexivity.
    - destruct (olist el) as [|a l]; cbn [List.length] in Len.
      + destruct vl; [|discriminate Len]. apply forall2b_nil_l in F. subst rs. destruct x; reflexivity.
      + destruct vl; [discriminate Len|]. exact F.
  Qed.

  Lemma Forall2_sym_impl {A B} (P : A -> B -> Prop) (Q : A -> B -> Prop) l l' :
    (forall a b, P a b -> Q a b) -> Forall2 P l l' -> Forall2 Q l l'.
  Proof. intros H. induction 1; constructor; auto. Qed.

  Lemma e_field_plist os i om :
    fcond SOK os i om -> fi_oneof i = None -> fi_kind i = PrimitiveListKind -> field_echo (Field i om).
  Proof.
    intros (V & P & PH & NC & PC & _ & _) O K a Pl. cbn [f_info f_msg] in *. unfold plan_val in Pl.
    rewrite K in Pl. cbv beta iota in Pl. specialize (PC ltac:(now rewrite K)).
    destruct Pl as (n & u & el & -> & Hel).
    set (pl := if known n u then olist el else []).
    assert (Fpl : Forall (plan_prim i) pl) by (unfold pl; destruct (known n u); [now apply Hel|constructor]).
    assert (HV : exists vl, Forall2 (fun v a =>
                   (forall ds, prim_elem i a ds = Ok (Some v, ds)) /\
                   forall obj cur ds, not_prim cur ->
                     exists r, to_prim_value i (Ok v) obj (TyPrim (fi_tk i)) cur ds = Ok (r, ds)
                               /\ echo_prim false a r = true) vl pl).
    { apply (Forall_ex_Forall2 (fun a v => (forall ds, prim_elem i a ds = Ok (Some v, ds)) /\
                   forall obj cur ds, not_prim cur ->
                     exists r, to_prim_value i (Ok v) obj (TyPrim (fi_tk i)) cur ds = Ok (r, ds)
                               /\ echo_prim false a r = true)).
      eapply Forall_impl; [|exact Fpl]. intros a Pa. now apply prim_elem_echo. }
    destruct HV as (vl & HV). exists (GSlice (Some vl)). split.
    - intros pa tgt ds L I. unfold snake in L. cbn [f_info] in *.
      rewrite (from_field_list_eq hook_from i om pa (GStruct tgt) ds V P _ _ _ _ (or_introl K) L), K.
      cbv beta iota.
      assert (HG : Forall2 (fun v a => prim_elem i a ds = Ok (Some v, ds)) vl pl).
      { eapply Forall2_sym_impl; [|exact HV]. intros v a [H _]. apply H. }
      pose proof (e_from_list_fold (prim_elem i) (zero_of_prim i) ds vl pl HG []) as Eg. cbv beta in Eg.
      unfold pl in *. destruct (known n u).
      + rewrite Eg. cbn [bind app]. rewrite (gset_in _ _ _ I). reflexivity.
      + inversion HV; subst. cbn [bind]. rewrite (gset_in _ _ _ I). reflexivity.
    - intros x gs atys attrs ds t Lg FT La Lc. unfold snake in *. cbn [f_info f_msg] in *.
      cbn [field_ty] in FT. rewrite K in FT. injection FT as <-.
      rewrite to_field_eq. cbv zeta. rewrite La, K.
      destruct (read_plain i gs _ (GSlice None) V P O Lg) as [_ RS]. rewrite RS. cbn [bind].
      assert (NP : not_prim (lookup (fi_snake i) attrs)) by (rewrite Lc; destruct x; exact I).
      assert (HF : Forall2 (fun v a => exists r,
                     (fun a d => to_prim_value i (Ok a) (GStruct gs) (TyPrim (fi_tk i)) (lookup (fi_snake i) attrs) d) v ds
                     = Ok (r, ds) /\ echo_prim false a r = true) vl pl).
      { eapply Forall2_sym_impl; [|exact HV]. intros v a [_ H]. now apply H. }
      destruct (e_to_list_fold _ _ ds vl pl HF []) as (rs & Ef & Qs). cbv beta in Ef. cbn [app] in Ef.
      cbv beta iota zeta. rewrite Ef. cbn [bind].
      rewrite Lc. destruct x; cbv beta iota zeta; (eexists; split; [reflexivity|]); unfold echo_val; rewrite K;
        cbv beta iota; rewrite (Forall2_length _ _ _ HV);
        [apply (echo_list_final true) with (pl := pl)|apply (echo_list_final false) with (pl := pl)];
        try reflexivity; exact Qs.
  Qed.

  Lemma e_field_pmap os i om :
    fcond SOK os i om -> fi_oneof i = None -> fi_kind i = PrimitiveMapKind -> field_echo (Field i om).
  Proof.
    intros (V & P & PH & NC & PC & _ & _) O K a Pl. cbn [f_info f_msg] in *. unfold plan_val in Pl.
    rewrite K in Pl. cbv beta iota in Pl. specialize (PC ltac:(now rewrite K)).
    destruct Pl as (n & u & el & -> & Hel).
    set (pl := if known n u then olist el else []).
    assert (Fpl : NoDup (map fst pl) /\ Forall (fun kv => plan_prim i (snd kv)) pl).
    { unfold pl. destruct (known n u); [now apply Hel|]. split; constructor. }
    destruct Fpl as [ND Fpl].
    assert (HV : exists vl, Forall2 (fun (kv : string * goval) (ka : string * tfval) => fst kv = fst ka /\
                   (forall ds, prim_elem i (snd ka) ds = Ok (Some (snd kv), ds)) /\
                   forall obj cur ds, not_prim cur ->
                     exists r, to_prim_value i (Ok (snd kv)) obj (TyPrim (fi_tk i)) cur ds = Ok (r, ds)
                               /\ echo_prim false (snd ka) r = true) vl pl).
    { apply (Forall_ex_Forall2 (fun (ka : string * tfval) (kv : string * goval) => fst kv = fst ka /\
                   (forall ds, prim_elem i (snd ka) ds = Ok (Some (snd kv), ds)) /\
                   forall obj cur ds, not_prim cur ->
                     exists r, to_prim_value i (Ok (snd kv)) obj (TyPrim (fi_tk i)) cur ds = Ok (r, ds)
                               /\ echo_prim false (snd ka) r = true)).
      eapply Forall_impl; [|exact Fpl]. intros [k a] Pa. cbn [snd] in Pa.
      destruct (prim_elem_echo i a PC O Pa) as (v & H1 & H2). exists (k, v). cbn [fst snd]. auto. }
    destruct HV as (vl & HV).
    assert (Ekeys : map fst vl = map fst pl) by (apply (Forall2_map_fst _ _ _ HV)).
    exists (GMap (Some vl)). split.
    - intros pa tgt ds L I. unfold snake in L. cbn [f_info] in *.
      rewrite (from_field_map_eq hook_from i om pa (GStruct tgt) ds V P _ _ _ _ (or_introl K) L), K.
      cbv beta iota.
      assert (HG : Forall2 (fun (kv : string * goval) (ka : string * tfval) =>
                     fst kv = fst ka /\ (fun ka d => prim_elem i (snd ka) d) ka ds = Ok (Some (snd kv), ds)) vl pl).
      { eapply Forall2_sym_impl; [|exact HV]. intros v a (H0 & H & _). split; [exact H0|apply H]. }
      pose proof (e_from_map_fold _ ds vl pl HG [] ND) as Eg. cbv beta in Eg.
      unfold pl in *. destruct (known n u).
      + rewrite Eg. cbn [bind app]. rewrite (gset_in _ _ _ I). reflexivity.
      + inversion HV; subst. cbn [bind]. rewrite (gset_in _ _ _ I). reflexivity.
    - intros x gs atys attrs ds t Lg FT La Lc. unfold snake in *. cbn [f_info f_msg] in *.
      cbn [field_ty] in FT. rewrite K in FT. injection FT as <-.
      rewrite to_field_eq. cbv zeta. rewrite La, K.
      destruct (read_plain i gs _ (GMap None) V P O Lg) as [_ RS]. rewrite RS. cbn [bind].
      assert (NP : not_prim (lookup (fi_snake i) attrs)) by (rewrite Lc; destruct x; exact I).
      assert (HF : Forall2 (fun (kv : string * goval) (ka : string * tfval) => fst kv = fst ka /\ exists r,
                     (fun (ka : string * goval) d =>
                        to_prim_value i (Ok (snd ka)) (GStruct gs) (TyPrim (fi_tk i)) (lookup (fi_snake i) attrs) d) kv ds
                     = Ok (r, ds) /\ echo_prim false (snd ka) r = true) vl pl).
      { eapply Forall2_sym_impl; [|exact HV]. intros v a (H0 & _ & H). split; [exact H0|now apply H]. }
      assert (ND' : NoDup (keys (@nil (string * tfval)) ++ map fst vl)) by (cbn [keys map app]; now rewrite Ekeys).
      destruct (e_to_map_fold _ _ ds vl pl HF [] ND') as (rs & Ef & Qs). cbv beta in Ef. cbn [app] in Ef.
      destruct x; cbv beta iota in Lc; rewrite Lc in Ef |- *; cbv beta iota zeta; rewrite Ef; cbn [bind];
        (eexists; split; [reflexivity|]); unfold echo_val; rewrite K; cbv beta iota;
        [apply (echo_map_final true) with (pl := pl)|apply (echo_map_final false) with (pl := pl)];
        try reflexivity; try exact Qs; symmetry; exact (Forall2_length _ _ _ HV).
  Qed.

  (* --------------------------------------------------------------------------------- *)
  (* messages *)

  Definition msg_echo (m : message) : Prop :=
    forall pa, plan_attrs m pa ->
      exists g, (forall ds, from_fields hook_from m (Some pa) (m_zero m, ds) = Ok (g, ds)) /\
        forall (x : bool) ds, exists ra,
          to_fields hook_to m g (msg_ty m) (if x then pa else [], ds) = Ok (ra, ds)
          /\ echo_attrs m x pa ra = true.

  (* a message value: attribute or element *)
  Lemma obj_echo i m' a :
    m_empty m' = false -> msg_echo m' -> plan_obj i (msg_ty m') (plan_attrs m') a ->
    exists n u at0 v, a = VObj (msg_ty m') n u at0 /\
      (if known n u
       then exists g, (forall ds, decode hook_from m' at0 ds = Ok (g, ds))
                      /\ v = (if fi_nullable i then GPtr (Some g) else g)
       else v = GPtr None /\ fi_nullable i = true) /\
      forall x obj cur ds, cur_ok x a not_obj cur ->
        exists r, obj_value hook_to i obj cur m' (Ok v) (msg_ty m') ds = Ok (r, ds)
                  /\ echo_obj x (echo_attrs m') a r = true.
  Proof.
    intros EM ME (n & u & at0 & -> & HT & HN). exists n, u, at0.
    destruct (known n u) eqn:Kn.
    - destruct n, u; try discriminate Kn. destruct (HT eq_refl) as (l & -> & Tl).
      destruct (ME _ Tl) as (g & Fg & Tg).
      exists (if fi_nullable i then GPtr (Some g) else g). split; [reflexivity|]. split.
      { exists g. split; [|reflexivity]. intros ds. unfold decode. rewrite EM. apply Fg. }
      intros x obj cur ds Hc. unfold cur_ok in Hc. unfold obj_value. rewrite EM. destruct x.
      + subst cur. cbv beta iota zeta. destruct (Tg true ds) as (ra & E & Q). cbv beta iota in E.
        destruct (fi_nullable i); cbn [bind]; rewrite E; cbn [bind]; (eexists; split; [reflexivity|]);
          cbn [echo_obj olist]; rewrite tfty_eqb_refl; cbn [negb andb]; exact Q.
      + destruct (Tg false ds) as (ra & E & Q). cbv beta iota in E.
        destruct cur as [[]|]; try contradiction; cbv beta iota zeta;
          destruct (fi_nullable i); cbn [bind]; rewrite E; cbn [bind]; (eexists; split; [reflexivity|]);
          cbn [echo_obj olist]; rewrite tfty_eqb_refl; cbn [negb andb]; exact Q.
    - destruct (fi_nullable i) eqn:N; [|specialize (HN eq_refl); congruence].
      exists (GPtr None). split; [reflexivity|]. split; [split; reflexivity|].
      intros x obj cur ds Hc. unfold cur_ok in Hc. unfold obj_value. rewrite N. destruct x.
      + subst cur. cbv beta iota zeta. cbn [bind]. eexists. split; [reflexivity|].
        cbn [echo_obj]. rewrite tfty_eqb_refl. destruct n, u; try discriminate Kn; reflexivity.
      + destruct cur as [[]|]; try contradiction; cbv beta iota zeta; cbn [bind]; (eexists; split; [reflexivity|]);
          cbn [echo_obj]; rewrite tfty_eqb_refl; destruct n, u; try discriminate Kn; reflexivity.
  Qed.

  Lemma e_field_obj os i m' :
    fcond SOK os i (Some m') -> fi_oneof i = None -> fi_kind i = ObjectKind ->
    m_empty m' = false -> msg_echo m' -> field_echo (Field i (Some m')).
  Proof.
    intros (V & P & PH & NC & _ & _ & _) O K EM ME a Pl. cbn [f_info f_msg] in *. unfold plan_val, To in Pl.
    rewrite K in Pl. cbv beta iota in Pl.
    destruct (obj_echo i m' a EM ME Pl) as (n & u & at0 & v & -> & Fv & Tv). exists v. split.
    - intros pa tgt ds L I. unfold snake in L. cbn [f_info] in *.
      rewrite (from_field_obj_eq hook_from i (Some m') pa (GStruct tgt) ds V P m' _ _ _ _ K eq_refl L), O.
      rewrite (gset_in _ _ _ I). cbn [bind]. destruct (known n u).
      + destruct Fv as (g & Dg & ->). rewrite Dg. cbn [bind].
        rewrite gset_in by (rewrite keys_update_same; exact I). cbn [bind]. rewrite update_update. reflexivity.
      + destruct Fv as [-> N]. rewrite N. reflexivity.
    - intros x gs atys attrs ds t Lg FT La Lc. unfold snake in *. cbn [f_info f_msg] in *.
      cbn [field_ty] in FT. rewrite K in FT. injection FT as <-.
      rewrite to_field_eq. cbv zeta. rewrite La, K.
      destruct (read_plain i gs v (if fi_nullable i then GPtr None else m_zero m') V P O Lg) as [_ RS].
      rewrite RS. cbn [bind].
      destruct (Tv x (GStruct gs) (lookup (fi_snake i) attrs) ds (cur_ok_of _ _ _ _ _ Lc I)) as (r & E & Q).
      rewrite E. cbn [bind]. exists r. split; [reflexivity|]. unfold echo_val, Eo. rewrite K. exact Q.
  Qed.

  (* --------------------------------------------------------------------------------- *)
  (* the field loops *)

  Definition gname (f : field) : string := fi_name (f_info f).

  Lemma e_from_loop pa (l : list field) :
    NoDup (map gname l) ->
    (forall f, In f l -> fi_placeholder (f_info f) = false
                         /\ exists a v, lookup (snake f) pa = Some a /\ field_from f a v /\ field_to f a v) ->
    forall tgt, (forall f, In f l -> In (gname f) (keys tgt)) ->
    exists tgt', (forall ds, from_field_list hook_from l (Some pa) (GStruct tgt, ds) = Ok (GStruct tgt', ds))
      /\ keys tgt' = keys tgt
      /\ (forall k, ~ In k (map gname l) -> lookup k tgt' = lookup k tgt)
      /\ (forall f, In f l -> exists a v, lookup (snake f) pa = Some a /\ lookup (gname f) tgt' = Some v
                                          /\ field_to f a v).
  Proof.
    induction l as [|f r IH]; intros ND H tgt HK.
    - exists tgt. cbn [from_field_list]. split; [reflexivity|]. split; [reflexivity|]. split; [reflexivity|].
      intros f [].
    - cbn [map] in ND. inversion ND as [|? ? N1 N2]; subst.
      destruct (H f (or_introl eq_refl)) as (PH & a & v & L & Ff & Tf).
      destruct (IH N2 (fun f' I => H f' (or_intror I)) (update (gname f) v tgt)) as (tgt' & E & K & Oth & Fs).
      { intros f' I. rewrite keys_update_same by (apply HK; now left). apply HK. now right. }
      exists tgt'. split; [|split; [|split]].
      + intros ds. cbn [from_field_list]. rewrite PH.
        rewrite (Ff pa tgt ds L (HK f (or_introl eq_refl))). cbn [bind]. apply E.
      + rewrite K. apply keys_update_same. apply HK. now left.
      + intros k Nk. cbn [map In] in Nk. rewrite Oth by tauto. apply lookup_update_neq. intros ->. tauto.
      + intros f' [<-|I].
        * exists a, v. split; [exact L|]. split; [|exact Tf]. rewrite Oth by exact N1. apply lookup_update_eq.
        * now apply Fs.
  Qed.

  Lemma e_to_loop (x : bool) pa obj atys (l : list field) :
    NoDup (snakes l) ->
    (forall f, In f l -> exists a, lookup (snake f) pa = Some a /\
       forall attrs ds, lookup (snake f) attrs = (if x then Some a else None) ->
         exists r, to_field hook_to f obj atys (attrs, ds) = Ok (update (snake f) r attrs, ds)
                   /\ echo_val x (f_info f) (Eo (f_msg f)) a r = true) ->
    forall attrs ds, (forall f, In f l -> lookup (snake f) attrs = (if x then lookup (snake f) pa else None)) ->
    exists ra, to_field_list hook_to l obj atys (attrs, ds) = Ok (ra, ds)
      /\ (forall k, ~ In k (snakes l) -> lookup k ra = lookup k attrs)
      /\ (forall f, In f l -> echo_field f x pa ra = true).
  Proof.
    induction l as [|f r IH]; intros ND H attrs ds HA; cbn [to_field_list].
    - exists attrs. split; [reflexivity|]. split; [reflexivity|]. intros f [].
    - cbn [snakes map] in ND. inversion ND as [|? ? N1 N2]; subst.
      destruct (H f (or_introl eq_refl)) as (a & L & Tf).
      destruct (Tf attrs ds) as (rv & E & Q).
      { rewrite (HA f (or_introl eq_refl)), L. now destruct x. }
      rewrite E. cbn [bind].
      destruct (IH N2 (fun f' I => H f' (or_intror I)) (update (snake f) rv attrs) ds) as (ra & E' & Oth & Fs).
      { intros f' I. rewrite lookup_update_neq; [apply HA; now right|].
        intros Eq. apply N1. rewrite <- Eq. now apply in_map. }
      exists ra. split; [exact E'|]. split.
      + intros k Nk. cbn [snakes map In] in Nk. rewrite Oth by tauto. apply lookup_update_neq. intros ->. tauto.
      + intros f' [<-|I]; [|now apply Fs].
        destruct f as [i om]. cbn [echo_field]. unfold snake in *. cbn [f_info f_msg] in *.
        rewrite L, (Oth _ N1), lookup_update_eq. exact Q.
  Qed.

  Lemma obj_elem_echo i m' a :
    m_empty m' = false -> msg_echo m' -> plan_obj i (msg_ty m') (plan_attrs m') a ->
    exists v, (forall ds, obj_elem hook_from i m' a ds = Ok (Some v, ds)) /\
      forall obj cur ds, not_obj cur ->
        exists r, obj_value hook_to i obj cur m' (Ok v) (msg_ty m') ds = Ok (r, ds)
                  /\ echo_obj false (echo_attrs m') a r = true.
  Proof.
    intros EM ME Pl. destruct (obj_echo i m' a EM ME Pl) as (n & u & at0 & v & -> & Fv & Tv). exists v. split.
    - intros ds. unfold obj_elem. destruct (known n u).
      + destruct Fv as (g & Dg & ->). rewrite Dg. reflexivity.
      + destruct Fv as [-> N]. rewrite N. reflexivity.
    - intros obj cur ds N. exact (Tv false obj cur ds N).
  Qed.

  Lemma e_field_olist os i m' :
    fcond SOK os i (Some m') -> fi_oneof i = None -> fi_kind i = ObjectListKind ->
    m_empty m' = false -> msg_echo m' -> field_echo (Field i (Some m')).
  Proof.
    intros (V & P & PH & NC & _ & _ & _) O K EM ME a Pl. cbn [f_info f_msg] in *. unfold plan_val, To in Pl.
    rewrite K in Pl. cbv beta iota in Pl.
    destruct Pl as (n & u & el & -> & Hel).
    set (pl := if known n u then olist el else []).
    assert (Fpl : Forall (plan_obj i (msg_ty m') (plan_attrs m')) pl)
      by (unfold pl; destruct (known n u); [now apply Hel|constructor]).
    assert (HV : exists vl, Forall2 (fun v a =>
                   (forall ds, obj_elem hook_from i m' a ds = Ok (Some v, ds)) /\
                   forall obj cur ds, not_obj cur ->
                     exists r, obj_value hook_to i obj cur m' (Ok v) (msg_ty m') ds = Ok (r, ds)
                               /\ echo_obj false (echo_attrs m') a r = true) vl pl).
    { apply (Forall_ex_Forall2 (fun a v => (forall ds, obj_elem hook_from i m' a ds = Ok (Some v, ds)) /\
                   forall obj cur ds, not_obj cur ->
                     exists r, obj_value hook_to i obj cur m' (Ok v) (msg_ty m') ds = Ok (r, ds)
                               /\ echo_obj false (echo_attrs m') a r = true)).
      eapply Forall_impl; [|exact Fpl]. intros a Pa. now apply obj_elem_echo. }
    destruct HV as (vl & HV). exists (GSlice (Some vl)). split.
    - intros pa tgt ds L I. unfold snake in L. cbn [f_info] in *.
      rewrite (from_field_list_eq hook_from i (Some m') pa (GStruct tgt) ds V P _ _ _ _ (or_intror K) L), K.
      cbv beta iota.
      assert (HG : Forall2 (fun v a => obj_elem hook_from i m' a ds = Ok (Some v, ds)) vl pl).
      { eapply Forall2_sym_impl; [|exact HV]. intros v a [H _]. apply H. }
      pose proof (e_from_list_fold (obj_elem hook_from i m') (if fi_nullable i then GPtr None else m_zero m')
                                   ds vl pl HG []) as Eg. cbv beta in Eg.
      unfold pl in *. destruct (known n u).
      + rewrite Eg. cbn [bind app]. rewrite (gset_in _ _ _ I). reflexivity.
      + inversion HV; subst. cbn [bind]. rewrite (gset_in _ _ _ I). reflexivity.
    - intros x gs atys attrs ds t Lg FT La Lc. unfold snake in *. cbn [f_info f_msg] in *.
      cbn [field_ty] in FT. rewrite K in FT. injection FT as <-.
      rewrite to_field_eq. cbv zeta. rewrite La, K.
      destruct (read_plain i gs _ (GSlice None) V P O Lg) as [_ RS]. rewrite RS. cbn [bind].
      assert (NP : not_obj (lookup (fi_snake i) attrs)) by (rewrite Lc; destruct x; exact I).
      assert (HF : Forall2 (fun v a => exists r,
                     (fun a d => obj_value hook_to i (GStruct gs) (lookup (fi_snake i) attrs) m' (Ok a) (msg_ty m') d) v ds
                     = Ok (r, ds) /\ echo_obj false (echo_attrs m') a r = true) vl pl).
      { eapply Forall2_sym_impl; [|exact HV]. intros v a [_ H]. now apply H. }
      destruct (e_to_list_fold _ _ ds vl pl HF []) as (rs & Ef & Qs). cbv beta in Ef. cbn [app] in Ef.
      cbv beta iota zeta. rewrite Ef. cbn [bind].
      rewrite Lc. destruct x; cbv beta iota zeta; (eexists; split; [reflexivity|]); unfold echo_val, Eo; rewrite K;
        cbv beta iota; rewrite (Forall2_length _ _ _ HV);
        [apply (echo_list_final true) with (pl := pl)|apply (echo_list_final false) with (pl := pl)];
        try reflexivity; exact Qs.
  Qed.

  Lemma e_field_omap os i m' :
    fcond SOK os i (Some m') -> fi_oneof i = None -> fi_kind i = ObjectMapKind ->
    m_empty m' = false -> msg_echo m' -> field_echo (Field i (Some m')).
  Proof.
    intros (V & P & PH & NC & _ & _ & _) O K EM ME a Pl. cbn [f_info f_msg] in *. unfold plan_val, To in Pl.
    rewrite K in Pl. cbv beta iota in Pl.
    destruct Pl as (n & u & el & -> & Hel).
    set (pl := if known n u then olist el else []).
    assert (Fpl : NoDup (map fst pl) /\ Forall (fun kv => plan_obj i (msg_ty m') (plan_attrs m') (snd kv)) pl).
    { unfold pl. destruct (known n u); [now apply Hel|]. split; constructor. }
    destruct Fpl as [ND Fpl].
    assert (HV : exists vl, Forall2 (fun (kv : string * goval) (ka : string * tfval) => fst kv = fst ka /\
                   (forall ds, obj_elem hook_from i m' (snd ka) ds = Ok (Some (snd kv), ds)) /\
                   forall obj cur ds, not_obj cur ->
                     exists r, obj_value hook_to i obj cur m' (Ok (snd kv)) (msg_ty m') ds = Ok (r, ds)
                               /\ echo_obj false (echo_attrs m') (snd ka) r = true) vl pl).
    { apply (Forall_ex_Forall2 (fun (ka : string * tfval) (kv : string * goval) => fst kv = fst ka /\
                   (forall ds, obj_elem hook_from i m' (snd ka) ds = Ok (Some (snd kv), ds)) /\
                   forall obj cur ds, not_obj cur ->
                     exists r, obj_value hook_to i obj cur m' (Ok (snd kv)) (msg_ty m') ds = Ok (r, ds)
                               /\ echo_obj false (echo_attrs m') (snd ka) r = true)).
      eapply Forall_impl; [|exact Fpl]. intros [k a] Pa. cbn [snd] in Pa.
      destruct (obj_elem_echo i m' a EM ME Pa) as (v & H1 & H2). exists (k, v). cbn [fst snd]. auto. }
    destruct HV as (vl & HV).
    assert (Ekeys : map fst vl = map fst pl) by (apply (Forall2_map_fst _ _ _ HV)).
    exists (GMap (Some vl)). split.
    - intros pa tgt ds L I. unfold snake in L. cbn [f_info] in *.
      rewrite (from_field_map_eq hook_from i (Some m') pa (GStruct tgt) ds V P _ _ _ _ (or_intror K) L), K.
      cbv beta iota.
      assert (HG : Forall2 (fun (kv : string * goval) (ka : string * tfval) =>
                     fst kv = fst ka /\ (fun ka d => obj_elem hook_from i m' (snd ka) d) ka ds = Ok (Some (snd kv), ds)) vl pl).
      { eapply Forall2_sym_impl; [|exact HV]. intros v a (H0 & H & _). split; [exact H0|apply H]. }
      pose proof (e_from_map_fold _ ds vl pl HG [] ND) as Eg. cbv beta in Eg.
      unfold pl in *. destruct (known n u).
      + rewrite Eg. cbn [bind app]. rewrite (gset_in _ _ _ I). reflexivity.
      + inversion HV; subst. cbn [bind]. rewrite (gset_in _ _ _ I). reflexivity.
    - intros x gs atys attrs ds t Lg FT La Lc. unfold snake in *. cbn [f_info f_msg] in *.
      cbn [field_ty] in FT. rewrite K in FT. injection FT as <-.
      rewrite to_field_eq. cbv zeta. rewrite La, K.
      destruct (read_plain i gs _ (GMap None) V P O Lg) as [_ RS]. rewrite RS. cbn [bind].
      assert (NP : not_obj (lookup (fi_snake i) attrs)) by (rewrite Lc; destruct x; exact I).
      assert (HF : Forall2 (fun (kv : string * goval) (ka : string * tfval) => fst kv = fst ka /\ exists r,
                     (fun (ka : string * goval) d =>
                        obj_value hook_to i (GStruct gs) (lookup (fi_snake i) attrs) m' (Ok (snd ka)) (msg_ty m') d) kv ds
                     = Ok (r, ds) /\ echo_obj false (echo_attrs m') (snd ka) r = true) vl pl).
      { eapply Forall2_sym_impl; [|exact HV]. intros v a (H0 & _ & H). split; [exact H0|now apply H]. }
      assert (ND' : NoDup (keys (@nil (string * tfval)) ++ map fst vl)) by (cbn [keys map app]; now rewrite Ekeys).
      destruct (e_to_map_fold _ _ ds vl pl HF [] ND') as (rs & Ef & Qs). cbv beta in Ef. cbn [app] in Ef.
      destruct x; cbv beta iota in Lc; rewrite Lc in Ef |- *; cbv beta iota zeta; rewrite Ef; cbn [bind];
        (eexists; split; [reflexivity|]); unfold echo_val, Eo; rewrite K; cbv beta iota;
        [apply (echo_map_final true) with (pl := pl)|apply (echo_map_final false) with (pl := pl)];
        try reflexivity; try exact Qs; symmetry; exact (Forall2_length _ _ _ HV).
  Qed.

  Lemma e_field_step os i om :
    fcond SOK os i om -> fi_oneof i = None ->
    (forall m', om = Some m' -> msg_echo m' /\ m_empty m' = false) -> field_echo (Field i om).
  Proof.
    intros FC O NO. pose proof FC as (_ & _ & _ & NC & _ & OM & _).
    destruct (fi_kind i) eqn:K.
    - now apply (e_field_prim os).
    - now apply (e_field_plist os).
    - destruct (OM eq_refl) as (m' & ->). destruct (NO m' eq_refl). apply (e_field_obj os); auto.
    - destruct (OM eq_refl) as (m' & ->). destruct (NO m' eq_refl). apply (e_field_olist os); auto.
    - now apply (e_field_pmap os).
    - destruct (OM eq_refl) as (m' & ->). destruct (NO m' eq_refl). apply (e_field_omap os); auto.
    - congruence.
  Qed.

  (* --------------------------------------------------------------------------------- *)
  (* the induction over the IR *)

  Definition field_P (f : field) : Prop :=
    forall os, ftf_ok f = true -> frt_more os f = true -> fcasts_in SOK f = true -> fsimple f = true ->
               fi_placeholder (f_info f) = false -> field_echo f.

  Definition msg_P (m : message) : Prop :=
    tf_ok m = true -> rt_more m = true -> casts_in SOK m = true -> simple m = true ->
    msg_echo m /\ m_empty m = false.

  Lemma e_msg_step n fs os inj e z : Forall field_P fs -> msg_P (Msg n fs os inj e z).
  Proof.
    intros IH T R C S.
    rewrite simple_eq in S. apply andb_prop in S. destruct S as [S1 S2]. destruct e; [discriminate S1|]. clear S1.
    split; [|reflexivity].
    rewrite tf_ok_eq in T. rewrite rt_more_eq in R. rewrite casts_in_eq in C.
    apply andb_prop in T. destruct T as [T T3]. apply andb_prop in T. destruct T as [T1 T2].
    apply andb_prop in R. destruct R as [R R4]. apply andb_prop in R. destruct R as [R R3].
    apply andb_prop in R. destruct R as [R1 R2].
    apply nodup_b_NoDup in T1. apply nodup_b_NoDup in R1.
    rewrite forallb_forall in T3, R4, C, S2. rewrite Forall_forall in IH.
    cbn [orb] in R2. rewrite forallb_forall in R2.
    unfold zero_keys_ok in R3. destruct z as [| | | | |zs|]; try discriminate R3.
    apply andb_prop in R3. destruct R3 as [Z1 Z2]. rewrite forallb_forall in Z1, Z2.
    assert (ZK : forall k, In k (keys zs) <-> In k (go_keys fs os)).
    { intros k. split; intros H; apply mem_str_In; auto. }
    assert (HOK : forall h, In h os -> In h (keys zs)).
    { intros h Hh. apply ZK. unfold go_keys. apply in_or_app. now right. }
    assert (PHs : forall f, In f fs -> fi_placeholder (f_info f) = false).
    { intros f If. specialize (R2 _ If). now destruct (fi_placeholder (f_info f)). }
    assert (Os : forall f, In f fs -> fi_oneof (f_info f) = None).
    { intros [i om] If. specialize (S2 _ If). cbn [fsimple] in S2. cbn [f_info].
      destruct (fi_oneof i); [discriminate S2|reflexivity]. }
    assert (HF : forall f, In f fs -> fi_parent (f_info f) = None
                                      /\ forall h, fi_oneof (f_info f) = Some h -> In h os).
    { intros [i om] If. pose proof (T3 _ If) as Tf. pose proof (Os _ If) as Of.
      cbn [ftf_ok f_info] in *. apply andb_prop in Tf. destruct Tf as [Tf _].
      destruct (finfo_ok_inv _ _ Tf) as (_ & P & _). split; [exact P|]. intros h Oh. congruence. }
    assert (G : forall f, In f fs -> field_echo f).
    { intros f If. apply (IH f If os); auto. }
    assert (A : forall f, In f fs -> exists t, field_ty f = Some t /\ lookup (snake f) (fields_ty fs) = Some t).
    { intros [i om] If. pose proof (T3 _ If) as Ff. cbn [ftf_ok] in Ff.
      apply andb_prop in Ff. destruct Ff as [Ff _].
      destruct (field_ty_some _ _ Ff) as (t & FT). exists t. split; [exact FT|]. now apply lookup_fields_ty. }
    intros pa Pl. apply plan_attrs_fields in Pl. rewrite Forall_forall in Pl.
    assert (HALL : forall f, In f fs -> fi_placeholder (f_info f) = false
                     /\ exists a v, lookup (snake f) pa = Some a /\ field_from f a v /\ field_to f a v).
    { intros f If. split; [now apply PHs|]. pose proof (Pl f If) as Pf. pose proof (PHs f If) as PH.
      pose proof (G f If) as Gf. destruct f as [i om]. cbn [plan_field] in Pf. cbn [f_info] in PH.
      rewrite PH in Pf. destruct Pf as (a & L & Pv). destruct (Gf a Pv) as (v & Ff & Tf). exists a, v. auto. }
    cbn [m_zero].
    destruct (resets_ok fs os zs HOK HF) as (zs' & Er & KR & NR).
    assert (HK : forall f, In f fs -> In (gname f) (keys zs')).
    { intros f If. rewrite KR. apply ZK. unfold go_keys, gname. apply in_or_app. left.
      apply own_names_in; auto. }
    destruct (e_from_loop pa fs R1 HALL zs' HK) as (tgt & Ef & Kt & _ & Fs).
    exists (GStruct tgt). split.
    - intros ds. rewrite from_fields_unfold. cbn [fst snd].
      destruct (fold_res reset_oneof os (GStruct zs)) as [o1|]; cbn [bind] in Er |- *; [|discriminate].
      destruct (fold_res reset_promoted fs o1) as [o2|]; cbn [bind] in Er |- *; [|discriminate].
      rewrite Er. cbn [bind]. apply Ef.
    - intros x ds. rewrite to_fields_list, msg_ty_eq.
      destruct (e_to_loop x pa (GStruct tgt) (fields_ty fs) fs T1) with (attrs := if x then pa else []) (ds := ds)
        as (ra & E & _ & Q).
      + intros f If. destruct (Fs f If) as (a & v & L & Lv & Tf). exists a. split; [exact L|].
        intros attrs ds' Lc. destruct (A f If) as (t & FT & Lt).
        exact (Tf x tgt (fields_ty fs) attrs ds' t Lv FT Lt Lc).
      + intros f If. destruct x; reflexivity.
      + exists ra. split; [exact E|]. rewrite echo_attrs_eq. apply forallb_forall. exact Q.
  Qed.

  Lemma e_mutual : forall m, msg_P m.
  Proof.
    apply (message_ind' field_P msg_P).
    - intros i os F R C S PH. cbn [ftf_ok frt_more fcasts_in fsimple f_info] in *.
      rewrite andb_true_r in F, R, C, S.
      apply (e_field_step os); [now apply fcond_of|now destruct (fi_oneof i)|intros m' [=]].
    - intros i m IH os F R C S PH. cbn [ftf_ok frt_more fcasts_in fsimple f_info] in *.
      apply andb_prop in F. destruct F as [F1 F2]. apply andb_prop in R. destruct R as [R1 R2].
      apply andb_prop in C. destruct C as [C1 C2]. apply andb_prop in S. destruct S as [S1 S2].
      apply (e_field_step os); [now apply fcond_of|now destruct (fi_oneof i)|].
      intros m' [= <-]. now apply IH.
    - intros n fs os inj e z IH. now apply e_msg_step.
  Qed.

  Theorem copy_echo_in m p :
    echo_class m = true -> casts_in SOK m = true -> plan_ok m p ->
    exists g r,
      copy_from hook_from m p (m_zero m) = Ok (g, []) /\
      copy_to hook_to m g p = Ok (r, []) /\
      echo_rel m p r = true.
  Proof.
    intros EC C (pa & -> & Pl). unfold echo_class, rt_ok in EC.
    apply andb_prop in EC. destruct EC as [R S]. apply andb_prop in R. destruct R as [R R3].
    apply andb_prop in R. destruct R as [R1 _].
    destruct (e_mutual m R1 R3 C S) as [ME _]. destruct (ME pa Pl) as (g & Fg & Tg).
    destruct (Tg true []) as (ra & E & Q). cbv beta iota in E.
    exists g, (VObj (msg_ty m) false false (Some ra)). split; [|split].
    - cbn [copy_from]. apply Fg.
    - cbn [copy_to]. rewrite E. reflexivity.
    - cbn [echo_rel olist]. rewrite tfty_eqb_refl. cbn [negb andb]. exact Q.
  Qed.
End Echo.

(* ------------------------------------------------------------------------------------- *)
(* 7. C08 for the model *)

Theorem copy_echo_partial hook_to hook_from m p :
  echo_class m = true -> plan_ok m p ->
  exists g r,
    copy_from hook_from m p (m_zero m) = Ok (g, []) /\
    copy_to hook_to m g p = Ok (r, []) /\
    echo_rel m p r = true.
Proof.
  intros EC Pl. apply (copy_echo_in hook_to hook_from (fun _ => true)); auto.
  - intros s q _. apply payload_round_trip.
  - apply casts_in_all.
Qed.

(* no float32 field or element: closed under the global context *)
Theorem copy_echo_nofloat32 hook_to hook_from m p :
  echo_class m = true -> casts_in not_f32 m = true -> plan_ok m p ->
  exists g r,
    copy_from hook_from m p (m_zero m) = Ok (g, []) /\
    copy_to hook_to m g p = Ok (r, []) /\
    echo_rel m p r = true.
Proof.
  intros EC C Pl. apply (copy_echo_in hook_to hook_from not_f32); auto.
  intros s q N. apply payload_round_trip_nofloat. intros ->. discriminate N.
Qed.

(* (a) CopyFrom on a plan: no panic, no diagnostic *)
Corollary copy_from_plan_quiet hook_from m p :
  echo_class m = true -> plan_ok m p -> exists g, copy_from hook_from m p (m_zero m) = Ok (g, []).
Proof.
  intros EC Pl. destruct (copy_echo_partial std_hook_to hook_from m p EC Pl) as (g & r & E & _). eauto.
Qed.

(* (c) what the relation says about a scalar attribute written in place: known and not null in the
   plan, it is reproduced exactly; null in the plan, it is null; unknown, it is known *)
Lemma echo_prim_exact k p r : echo_prim true (VPrim k false false p) r = true -> r = VPrim k false false p.
Proof.
  destruct r as [k' n' u' p'| | | | |]; cbn [echo_prim]; try discriminate. intros H.
  apply andb_prop in H. destruct H as [H H3]. apply andb_prop in H. destruct H as [H1 H2].
  apply andb_prop in H3. destruct H3 as [H3 H4]. apply tfkind_eqb_eq in H1. apply prim_eqb_eq in H3.
  cbn [negb andb] in H4. rewrite orb_false_r in H4. destruct u'; [discriminate H2|]. destruct n'; [discriminate H4|].
  now subst.
Qed.

Lemma echo_prim_null k p r : echo_prim true (VPrim k true false p) r = true -> exists p', r = VPrim k true false p'.
Proof.
  destruct r as [k' n' u' p'| | | | |]; cbn [echo_prim]; try discriminate. intros H.
  apply andb_prop in H. destruct H as [H H3]. apply andb_prop in H. destruct H as [H1 H2].
  apply tfkind_eqb_eq in H1. cbn [negb] in H3. rewrite orb_false_r in H3.
  destruct u'; [discriminate H2|]. subst. eauto.
Qed.

Lemma echo_prim_unknown x k n p r : echo_prim x (VPrim k n true p) r = true -> exists n' p', r = VPrim k n' false p'.
Proof.
  destruct r as [k' n' u' p'| | | | |]; cbn [echo_prim]; try discriminate. intros H.
  apply andb_prop in H. destruct H as [H _]. apply andb_prop in H. destruct H as [H1 H2].
  apply tfkind_eqb_eq in H1. destruct u'; [discriminate H2|]. subst. eauto.
Qed.

(* (b), at the level of one attribute: whatever the plan held, the attribute written is known *)
Definition is_unknown (v : tfval) : bool :=
  match v with
  | VPrim _ _ u _ | VList _ _ u _ | VMap _ _ u _ | VObj _ _ u _ => u
  | VHook _ _ _ u _ _ _ => u
  | VNil => false
  end.

Lemma echo_val_known x i E a r : echo_val x i E a r = true -> is_unknown r = false.
Proof.
  unfold echo_val, echo_prim, echo_list, echo_map, echo_obj.
  destruct (fi_kind i), E; try discriminate; destruct a; try discriminate;
    destruct r as [k' n' u' p'|e' n' u' [l'|]|e' n' u' [l'|]|t' n' u' [l'|]| |]; try discriminate;
    intros H; apply andb_prop in H; destruct H as [H _]; apply andb_prop in H; destruct H as [_ H];
    cbn [is_unknown]; now destruct u'.
Qed.

Lemma echo_field_known i om x pa ra :
  echo_field (Field i om) x pa ra = true ->
  exists r, lookup (fi_snake i) ra = Some r /\ is_unknown r = false.
Proof.
  cbn [echo_field]. destruct (lookup (fi_snake i) pa) as [a|]; [|discriminate].
  destruct (lookup (fi_snake i) ra) as [r|]; [|discriminate]. intros H. exists r. split; [reflexivity|].
  eapply echo_val_known. exact H.
Qed.
(* ------------------------------------------------------------------------------------- *)
(* 9. the statement tested on the model: RTExample.outer (with its two oneofs and the message without
   fields), plans by plan; every line is (diagnostics of CopyFrom, of CopyTo, echo_rel, clean) *)
Module Tests.
  Import RTExample.
  Local Open Scope string_scope.
  Local Open Scope Z_scope.

  Definition ity := msg_ty inner.
  Definition ety := msg_ty empty.

  Definition kp (k : tfkind) (p : prim) := VPrim k false false p.
  Definition np (k : tfkind) := VPrim k true false (zero_prim_of_kind k).
  Definition up (k : tfkind) := VPrim k false true (zero_prim_of_kind k).
  Definition f64 (z : Z) := PF64 (sf64_of_bits z).

  Definition inn_p (a u : tfval) := VObj ity false false (Some [("a", a); ("u", u)]).

  (* run the echo *)
  Definition run (pa : list (string * tfval)) :=
    let p := VObj (msg_ty outer) false false (Some pa) in
    match copy_from std_hook_from outer p (m_zero outer) with
    | Ok (g, ds) =>
        match copy_to std_hook_to outer g p with
        | Ok (r, ds') => Some (ds, ds', echo_rel outer p r, clean r, r)
        | Panic => None
        end
    | Panic => None
    end.

  (* all known: branch y of Kind, branch z of Other *)
  Definition plan1 : list (string * tfval) :=
    [("x", np KI64);
     ("y", inn_p (kp KStr (PStr "hi")) (kp KI64 (PInt (-1))));
     ("items", VList (TyObj ity) false false (Some [inn_p (kp KStr (PStr "")) (kp KI64 (PInt 7)); VObj ity true false None]));
     ("labels", VMap (TyPrim KStr) false false (Some [("a", kp KStr (PStr "x")); ("b", kp KStr (PStr ""))]));
     ("tags", VList (TyPrim KStr) false false (Some [kp KStr (PStr "z"); kp KStr (PStr "")]));
     ("sub", inn_p (kp KStr (PStr "s")) (kp KI64 (PInt 0)));
     ("p", kp KBool (PBool false));
     ("n", kp KF64 (PF64 (S754_zero false)));
     ("e", VObj ety false false (Some [("active", VPrim KBool true false (PBool false))]));
     ("t", kp KTime (PTime 5 6 7));
     ("m", VMap (TyObj ity) false false (Some [("k", inn_p (kp KStr (PStr "v")) (np KI64))]));
     ("z", kp KI64 (PInt 5))].

  Definition brief (pa : list (string * tfval)) :=
    match run pa with Some (ds, ds', e, c, r) => Some (ds, ds', e, c) | None => None end.
  Definition set (k : string) (v : tfval) (pa : list (string * tfval)) := update k v pa.
  Definition lkp (k : string) (pa : list (string * tfval)) :=
    match run pa with Some (_, _, _, _, VObj _ _ _ (Some l)) => lookup k l | _ => None end.

  Eval vm_compute in (brief plan1).
  (* unknown scalars *)
  Definition plan2 := set "p" (up KBool) (set "n" (up KF64) (set "t" (up KTime)
                      (set "sub" (inn_p (up KStr) (kp KI64 (PInt 3))) (set "z" (up KI64) plan1)))).
  Eval vm_compute in (brief plan2, lkp "p" plan2, lkp "n" plan2, lkp "t" plan2, lkp "sub" plan2, lkp "z" plan2).
  (* unknown collections *)
  Definition plan3 := set "tags" (VList (TyPrim KStr) false true None) (set "items" (VList (TyObj ity) false true None)
                      (set "labels" (VMap (TyPrim KStr) false true None) (set "m" (VMap (TyObj ity) false true None) plan1))).
  Eval vm_compute in (brief plan3, lkp "tags" plan3, lkp "items" plan3, lkp "labels" plan3, lkp "m" plan3).
  (* unknown nested objects *)
  Definition plan4 := set "sub" (VObj ity false true None) (set "y" (VObj ity false true None) (set "e" (VObj ety false true None) plan1)).
  Eval vm_compute in (brief plan4, lkp "sub" plan4, lkp "y" plan4, lkp "e" plan4).
  (* null nested objects *)
  Definition plan5 := set "sub" (VObj ity true false None) (set "y" (VObj ity true false None) (set "e" (VObj ety true false None) plan1)).
  Eval vm_compute in (brief plan5, lkp "sub" plan5, lkp "y" plan5, lkp "e" plan5).
  (* oneof: all branches null *)
  Definition plan6 := set "y" (VObj ity true false None) (set "z" (np KI64) plan1).
  Eval vm_compute in (brief plan6, lkp "x" plan6, lkp "y" plan6, lkp "z" plan6).
  (* null and known empty collections *)
  Definition plan7 := set "tags" (VList (TyPrim KStr) true false None) (set "items" (VList (TyObj ity) false false (Some []))
                      (set "labels" (VMap (TyPrim KStr) true false None) (set "m" (VMap (TyObj ity) false false (Some [])) plan1))).
  Eval vm_compute in (brief plan7, lkp "tags" plan7, lkp "items" plan7, lkp "labels" plan7, lkp "m" plan7).
  (* unknown and null elements in known collections *)
  Definition plan8 := set "tags" (VList (TyPrim KStr) false false (Some [up KStr; np KStr; kp KStr (PStr "q")]))
                      (set "items" (VList (TyObj ity) false false (Some [VObj ity false true None; inn_p (up KStr) (np KI64)]))
                      (set "labels" (VMap (TyPrim KStr) false false (Some [("a", up KStr); ("b", np KStr)]))
                      (set "m" (VMap (TyObj ity) false false (Some [("k", VObj ity false true None); ("l", VObj ity true false None)])) plan1))).
  Eval vm_compute in (brief plan8, lkp "tags" plan8, lkp "items" plan8, lkp "labels" plan8, lkp "m" plan8).
  (* two known branches of one oneof: the first one is lost *)
  Definition plan9 := set "x" (kp KI64 (PInt 4)) plan1.
  Eval vm_compute in (brief plan9, lkp "x" plan9, lkp "y" plan9).
  (* a oneof scalar branch known with the zero value *)
  Definition plan10 := set "x" (kp KI64 (PInt 0)) (set "y" (VObj ity true false None) plan1).
  Eval vm_compute in (brief plan10, lkp "x" plan10, lkp "y" plan10).
  (* unknown branch next to a known one; unknown branch alone *)
  Definition plan11 := set "x" (up KI64) plan1.
  Definition plan12 := set "x" (up KI64) (set "y" (VObj ity true false None) plan1).
  Eval vm_compute in (brief plan11, lkp "x" plan11, brief plan12, lkp "x" plan12).
  (* payload out of range; duplicate map keys; known zero values *)
  Definition plan13 := set "sub" (inn_p (kp KStr (PStr "")) (kp KI64 (PInt 0))) (set "n" (kp KF64 (PF64 (S754_zero true))) (set "p" (np KBool) plan1)).
  Eval vm_compute in (brief plan13, lkp "sub" plan13, lkp "n" plan13, lkp "p" plan13).
  Definition plan14 := set "labels" (VMap (TyPrim KStr) false false (Some [("a", kp KStr (PStr "x")); ("a", kp KStr (PStr "y"))])) plan1.
  Eval vm_compute in (brief plan14, lkp "labels" plan14).
  Definition plan15 := set "n" (kp KF64 (f64 4591870180066957722)) plan1.  (* 0.1: not a float32 *)
  Eval vm_compute in (brief plan15, lkp "n" plan15).
End Tests.

(* ------------------------------------------------------------------------------------- *)
(* 8. the hypotheses are satisfiable: the message of RTExample without its oneofs and without the
   message without fields; a plan with unknown scalars (top level, nested, element), an unknown
   list, an unknown pointer message among the elements of a list, a null map *)
Module EchoExample.
  Import RTExample.
  Local Open Scope string_scope.
  Local Open Scope Z_scope.

  Definition outer2 : message :=
    Msg "Outer2"
        [Field (mk "Items" "items" ObjectListKind KI64 GsInt64 true false None) (Some inner);
         Field (mk "Labels" "labels" PrimitiveMapKind KStr GsString false false None) None;
         Field (mk "Tags" "tags" PrimitiveListKind KStr GsBytes false true None) None;
         Field (mk "Sub" "sub" ObjectKind KI64 GsInt64 false false None) (Some inner);
         Field (mk "Opt" "opt" ObjectKind KI64 GsInt64 true false None) (Some inner);
         Field (mk "P" "p" PrimitiveKind KBool GsBool true false None) None;
         Field (mk "N" "n" PrimitiveKind KF64 GsFloat32 false true None) None;
         Field (mk "T" "t" PrimitiveKind KTime GsTime false false None) None;
         Field (mk "M" "m" ObjectMapKind KI64 GsInt64 false false None) (Some inner)]
        [] [] false
        (GStruct [("Items", GSlice None); ("Labels", GMap None); ("Tags", GSlice None);
                  ("Sub", GStruct [("A", GPrim (PStr "")); ("U", GPrim (PInt 0))]); ("Opt", GPtr None);
                  ("P", GPtr None); ("N", GPrim (PF32 (S754_zero false)));
                  ("T", GPrim (PTime (-62135596800) 0 0)); ("M", GMap None)]).

  Lemma outer2_ok : echo_class outer2 = true.
  Proof. vm_compute. reflexivity. Qed.

  Definition ity := msg_ty inner.
  Definition kp (k : tfkind) (p : prim) := VPrim k false false p.
  Definition np (k : tfkind) := VPrim k true false (zero_prim_of_kind k).
  Definition up (k : tfkind) := VPrim k false true (zero_prim_of_kind k).
  Definition inn_p (a u : tfval) := VObj ity false false (Some [("a", a); ("u", u)]).

  Definition plan : tfval :=
    VObj (msg_ty outer2) false false
         (Some [("items", VList (TyObj ity) false false
                                (Some [inn_p (kp KStr (PStr "")) (kp KI64 (PInt (-1))); VObj ity false true None]));
                ("labels", VMap (TyPrim KStr) true false None);
                ("tags", VList (TyPrim KStr) false false (Some [kp KStr (PStr "z"); up KStr; kp KStr (PStr "")]));
                ("sub", inn_p (up KStr) (kp KI64 (PInt 0)));
                ("opt", VObj ity false true None);
                ("p", up KBool);
                ("n", up KF64);
                ("t", kp KTime (PTime 5 6 7));
                ("m", VMap (TyObj ity) false false (Some [("k", inn_p (kp KStr (PStr "v")) (np KI64))]))]).

  Ltac plan_step :=
    match goal with
    | |- True => exact I
    | H : False |- _ => destruct H
    | H : _ \/ _ |- _ => destruct H as [H|H]
    | H : _ = ?f |- _ => is_var f; subst f
    | |- plan_obj _ _ _ _ => unfold plan_obj, inn_p
    | |- plan_prim _ _ => unfold plan_prim, kp, np, up
    | |- _ /\ _ => split
    | |- exists _, _ => eexists
    | |- _ = _ => reflexivity
    | |- Forall _ [] => constructor
    | |- Forall _ (_ :: _) => constructor
    | |- NoDup [] => constructor
    | |- NoDup (_ :: _) => constructor; [cbn; intuition discriminate|]
    | |- (_ <= _)%Z => lia
    | |- (_ < _)%Z => lia
    | |- _ -> _ => let H := fresh in intros H; cbn in H; try discriminate H
    | |- forall _, _ => intro
    | _ => progress cbn
    end.

  Lemma plan_is_ok : plan_ok outer2 plan.
  Proof.
    eexists. split; [reflexivity|]. unfold outer2. cbn [plan_attrs]. split.
    - repeat plan_step.
    - intros f1 f2 h a1 a2 I1 _ O1. cbn [In] in I1.
      repeat (destruct I1 as [<-|I1]; [discriminate O1|]). destruct I1.
  Qed.

  Example plan_echo :
    exists g r,
      copy_from std_hook_from outer2 plan (m_zero outer2) = Ok (g, []) /\
      copy_to std_hook_to outer2 g plan = Ok (r, []) /\
      echo_rel outer2 plan r = true.
  Proof. exact (copy_echo_partial std_hook_to std_hook_from outer2 plan outer2_ok plan_is_ok). Qed.

  (* the echo computed: the unknown values are known (the unknown element of the list of byte
     strings and the known empty one are null, the unknown pointer message is null, the unknown
     float is 0 and not null, the unknown pointer scalar is null), the known ones are reproduced *)
  Example plan_echo_computed :
    match copy_from std_hook_from outer2 plan (m_zero outer2) with
    | Ok (g, []) => copy_to std_hook_to outer2 g plan
    | _ => Panic
    end
      = Ok (VObj (msg_ty outer2) false false
              (Some [("items", VList (TyObj ity) false false
                                     (Some [VObj ity false false
                                                 (Some [("a", VPrim KStr true false (PStr ""));
                                                        ("u", kp KI64 (PInt (-1)))]);
                                            VObj ity true false (Some [])]));
                     ("labels", VMap (TyPrim KStr) true false (Some []));
                     ("tags", VList (TyPrim KStr) false false
                                    (Some [kp KStr (PStr "z"); VPrim KStr true false (PStr "");
                                           VPrim KStr true false (PStr "")]));
                     ("sub", inn_p (kp KStr (PStr "")) (kp KI64 (PInt 0)));
                     ("opt", VObj ity true false (Some []));
                     ("p", VPrim KBool true false (PBool false));
                     ("n", kp KF64 (PF64 (S754_zero false)));
                     ("t", kp KTime (PTime 5 6 7));
                     ("m", VMap (TyObj ity) false false
                                (Some [("k", inn_p (kp KStr (PStr "v")) (VPrim KI64 true false (PInt 0)))]))]), []).
  Proof. vm_compute. reflexivity. Qed.

  (* the relation is not trivial: another payload, a null for a known value *)
  Example echo_not_trivial :
    echo_prim true (kp KStr (PStr "a")) (kp KStr (PStr "b")) = false
    /\ echo_prim true (kp KI64 (PInt 0)) (np KI64) = false
    /\ echo_prim false (kp KI64 (PInt 0)) (np KI64) = true.
  Proof. repeat split. Qed.

  (* two known branches of one oneof are not a plan (RTExample.outer) *)
  Example two_branches_no_plan pa :
    lookup "x" pa = Some (kp KI64 (PInt 4)) -> lookup "y" pa = Some (inn_p (kp KStr (PStr "")) (kp KI64 (PInt 0))) ->
    ~ plan_attrs outer pa.
  Proof.
    intros Lx Ly [_ H].
    assert (E : Field (mk "X" "x" PrimitiveKind KI64 GsInt32 false true (Some "Kind")) None
                = Field (mk "Y" "y" ObjectKind KI64 GsInt64 true false (Some "Kind")) (Some inner)).
    { eapply (H _ _ "Kind"); [cbn; tauto|cbn; tauto|reflexivity|reflexivity|exact Lx|exact Ly|reflexivity|reflexivity]. }
    discriminate E.
  Qed.
End EchoExample.

Print Assumptions copy_echo_nofloat32.
Print Assumptions copy_echo_partial.
Print Assumptions copy_from_plan_quiet.
