(* Agreement between the tables regenerated from the Go sources on every run (Generated/Src.v, written by
   `vh translate`) and the hand-written model. Every statement is closed by computation over a finite
   domain (the fifteen proto scalar types, the nine command-line options, the configuration keys), so a
   change of a row in the source breaks the proof at once. *)
From Coq Require Import List String Ascii Bool NArith.
From PGT Require Import Base.Strs Base.AList Model.Vals Model.Desc Model.Build Model.GoTypes.
From PGT Require Import Proofs.CopyToTotal.
From PGT Require Import Generated.Src.
Import ListNotations.
Open Scope string_scope.

(* ---- 1. GetTerraformType: the row of every proto scalar type -------------------------------- *)

Definition proto_name (s : scalar) : string :=
  match s with
  | SDouble => "DOUBLE" | SFloat => "FLOAT" | SInt32 => "INT32" | SInt64 => "INT64"
  | SUint32 => "UINT32" | SUint64 => "UINT64" | SSint32 => "SINT32" | SSint64 => "SINT64"
  | SFixed32 => "FIXED32" | SFixed64 => "FIXED64" | SSfixed32 => "SFIXED32" | SSfixed64 => "SFIXED64"
  | SBool => "BOOL" | SString => "STRING" | SBytes => "BYTES"
  end.

(* what the documentation (README type table) says about a Terraform kind *)
Definition kind_type_name (k : tfkind) : string :=
  match k with KI64 => "Int64Type" | KF64 => "Float64Type" | KStr => "StringType" | KBool => "BoolType"
             | KTime => "TimeType" | KDur => "DurationType" end.
Definition kind_value_name (k : tfkind) : string :=
  match k with KI64 => "Int64" | KF64 => "Float64" | KStr => "String" | KBool => "Bool"
             | KTime => "TimeValue" | KDur => "DurationValue" end.
Definition kind_cast_to (k : tfkind) : string :=
  match k with KI64 => "int64" | KF64 => "float64" | KStr => "string" | KBool => "bool" | _ => "" end.
Definition kind_zero_lit (k : tfkind) : string :=
  match k with KI64 | KF64 => "0" | KStr => """""" | KBool => "false" | _ => "" end.
Definition goscalar_go_name (g : goscalar) : string :=
  match g with
  | GsInt32 => "int32" | GsInt64 => "int64" | GsUint32 => "uint32" | GsUint64 => "uint64"
  | GsFloat32 => "float32" | GsFloat64 => "float64" | GsBool => "bool" | GsString => "string"
  | GsBytes => "[]byte" | GsEnum => "<elemType>" | GsTime => "" | GsDuration => ""
  end.

Definition find_row (n : string) : option (string * string) :=
  match find (fun r => String.eqb (fst (fst r)) n) src_type_rows with
  | Some (_, base, cast) => Some (base, cast)
  | None => None
  end.

Definition base_ok (base : string) (k : tfkind) : bool :=
  match lookup base src_base_types with
  | Some (ty, vty, ety, evty, castto, zero) =>
      String.eqb ty (kind_type_name k) && String.eqb vty (kind_value_name k)
      && String.eqb ety (kind_type_name k) && String.eqb evty (kind_value_name k)
      && String.eqb castto (kind_cast_to k) && String.eqb zero (kind_zero_lit k)
  | None => false
  end.

Definition row_ok (s : scalar) : bool :=
  match find_row (proto_name s) with
  | Some (base, cast) =>
      let '(k, g) := scalar_info s in base_ok base k && String.eqb cast (goscalar_go_name g)
  | None => false
  end.

(* for every proto scalar type, the row of GetTerraformType in the CURRENT source gives the attribute
   type, value type, element types, cast-to type, zero literal and cast-from type the model uses *)
Theorem src_type_table_agrees : forall s, row_ok s = true.
Proof. destruct s; vm_compute; reflexivity. Qed.

(* each proto type constant occurs in exactly one row (the switch takes the first match) *)
Theorem src_type_rows_unique : NoDup (map (fun r => fst (fst r)) src_type_rows).
Proof. apply nodup_b_NoDup. vm_compute. reflexivity. Qed.

(* enums, messages, time and duration, and the error for anything else *)
Theorem src_type_special_agrees :
  find_row "ENUM" = Some ("int64Type", goscalar_go_name GsEnum) /\ base_ok "int64Type" KI64 = true /\
  src_type_special = [("time", "<config>"); ("duration", "<config>"); ("message", "objectType+IsMessage"); ("default", "error")].
Proof. vm_compute. repeat split; reflexivity. Qed.

(* ---- 2. readFromCLI ----------------------------------------------------------------------------- *)

(* the command-line stage of the model's read_config, named *)
Definition read_from_cli (ps : params) (c : config) : config :=
  {| c_types := get_slice_param ps "types" (c_types c);
     c_duration_custom_type := get_string_param ps "custom_duration" (c_duration_custom_type c);
     c_exclude := get_slice_param ps "exclude_fields" (c_exclude c);
     c_computed := get_slice_param ps "computed_fields" (c_computed c);
     c_required := get_slice_param ps "required_fields" (c_required c);
     c_sensitive := get_slice_param ps "sensitive" (c_sensitive c);
     c_target_pkg := get_string_param ps "target_package_name" (c_target_pkg c);
     c_default_pkg := get_string_param ps "default_package_name" (c_default_pkg c);
     c_sort := get_bool_param ps "sort" (c_sort c);
     c_use_state := c_use_state c; c_suffixes := c_suffixes c;
     c_name_overrides := c_name_overrides c; c_validators := c_validators c;
     c_planmods := c_planmods c; c_time_type := c_time_type c;
     c_duration_type := c_duration_type c; c_injected := c_injected c;
     c_import_overrides := c_import_overrides c; c_custom_types := c_custom_types c |}.

(* read_config without a configuration file is exactly this stage on the empty configuration *)
Lemma read_config_is_cli_stage ps :
  get_string_param ps "config" "" = "" ->
  read_config ps YAbsent =
  match c_types (read_from_cli ps empty_config) with [] => CfgFail | _ => CfgOk (read_from_cli ps empty_config) end.
Proof. intros E. unfold read_config. rewrite E. reflexivity. Qed.

(* in every case the configuration read_config returns is this stage applied to what the file gave *)
Lemma read_config_cli_after_yaml ps y :
  read_config ps y = CfgFail \/ exists c0, read_config ps y = CfgOk (read_from_cli ps c0).
Proof.
  unfold read_config.
  destruct (String.eqb (get_string_param ps "config" "") "") eqn:Ec; [|destruct y as [| | |d]];
    try (left; reflexivity);
    lazymatch goal with
    | |- (match c_types ?X with _ => _ end) = CfgFail \/ _ =>
        lazymatch X with
        | context [c_types ?C0] =>
            change X with (read_from_cli ps C0);
            destruct (c_types (read_from_cli ps C0)); [left; reflexivity | right; exists C0; reflexivity]
        end
    end.
Qed.

(* the function regenerated from config.go's readFromCLI IS the model's command-line stage *)
Theorem src_read_from_cli_agrees : forall ps c, src_read_from_cli ps c = read_from_cli ps c.
Proof. reflexivity. Qed.

Theorem src_cli_params_documented :
  src_cli_params =
  [("Types", "getSliceParam", "types"); ("ExcludeFields", "getSliceParam", "exclude_fields");
   ("ComputedFields", "getSliceParam", "computed_fields"); ("RequiredFields", "getSliceParam", "required_fields");
   ("SensitiveFields", "getSliceParam", "sensitive"); ("DefaultPackageName", "getStringParam", "default_package_name");
   ("TargetPackageName", "getStringParam", "target_package_name"); ("DurationCustomType", "getStringParam", "custom_duration");
   ("Sort", "getBoolParam", "sort")].
Proof. reflexivity. Qed.

(* ---- 3. configuration keys of the YAML document ---------------------------------------------------- *)

Definition yaml_key (field : string) : option string :=
  match find (fun r => String.eqb (fst (fst r)) field) src_yaml_keys with
  | Some (_, k, _) => Some k
  | None => None
  end.

(* the keys the documentation (README, test/config.yaml) gives and the harness writes *)
Definition documented_yaml_keys : list (string * string) :=
  [("Config.Types", "types"); ("Config.DurationCustomType", "duration_custom_type"); ("Config.ExcludeFields", "exclude_fields");
   ("Config.TargetPackageName", "target_package_name"); ("Config.DefaultPackageName", "default_package_name"); ("Config.Sort", "sort");
   ("Config.UseStateForUnknownByDefault", "use_state_for_unknown_by_default"); ("Config.ComputedFields", "computed_fields");
   ("Config.RequiredFields", "required_fields"); ("Config.SensitiveFields", "sensitive_fields"); ("Config.Suffixes", "suffixes");
   ("Config.NameOverrides", "name_overrides"); ("Config.Validators", "validators"); ("Config.PlanModifiers", "plan_modifiers");
   ("Config.SchemaTypes", "schema_types"); ("Config.TimeType", "time_type"); ("Config.DurationType", "duration_type");
   ("Config.InjectedFields", "injected_fields"); ("Config.ImportPathOverrides", "import_path_overrides"); ("Config.CustomTypes", "custom_types");
   ("SchemaType.Type", "type"); ("SchemaType.ValueType", "value_type"); ("SchemaType.CastToType", "cast_to_type");
   ("SchemaType.CastFromType", "cast_from_type"); ("SchemaType.TypeConstructor", "type_constructor");
   ("InjectedField.Name", "name"); ("InjectedField.Type", "type"); ("InjectedField.Required", "required");
   ("InjectedField.Computed", "computed"); ("InjectedField.Optional", "optional");
   ("InjectedField.PlanModifiers", "plan_modifiers"); ("InjectedField.Validators", "validators")].

Theorem src_yaml_keys_documented :
  forallb (fun fk => match yaml_key (fst fk) with Some k => String.eqb k (snd fk) | None => false end) documented_yaml_keys = true
  /\ List.length src_yaml_keys = S (List.length documented_yaml_keys)      (* + the unexported params field, tag "-" *)
  /\ yaml_key "Config.params" = Some "-".
Proof. vm_compute. repeat split; reflexivity. Qed.

(* ---- 4. imports.go and main.go ------------------------------------------------------------------- *)

Theorem src_builtin_types_agree : src_builtin_types = builtin_types.
Proof. reflexivity. Qed.

Theorem src_constants_agree :
  lookup "paramDelimiter" src_consts = Some "+" /\
  lookup "packageReplacementRegexp" src_consts = Some (pkg_kw ++ "(.+)" ++ nl) /\
  lookup "Types" src_consts = Some "github.com/hashicorp/terraform-plugin-framework/types" /\
  lookup "SDK" src_consts = Some "github.com/hashicorp/terraform-plugin-framework/tfsdk" /\
  lookup "Diag" src_consts = Some "github.com/hashicorp/terraform-plugin-framework/diag" /\
  lookup "Attr" src_consts = Some "github.com/hashicorp/terraform-plugin-framework/attr" /\
  lookup "TFTypes" src_consts = Some "github.com/hashicorp/terraform-plugin-go/tftypes".
Proof. vm_compute. repeat split; reflexivity. Qed.
