(* C06, CopyTo direction, on the targets the property quantifies over: the object of the schema's
   type from which any subset of attribute types has been REMOVED, at any object level (the top
   level, nested objects, the element types of lists and maps of messages).

   [pruned ats ats']: ats' is obtained from ats by deleting entries and, recursively, pruning the
   entries which are kept (order preserved).  On such a target (no values held), for a message of
   the class tf_ok and a typed Go value:
   - the model never panics (pruned_target_ok, copy_to_pruned_never_panics_partial): removal never
     creates the one panicking shape of ToMalformed.v;
   - every top-level field whose attribute type was removed is reported with WriteMissing
     (copy_to_pruned_top_complete; copy_to_missing_reported holds for any target);
   - every top-level field whose attribute type is the schema's is written, with a value which
     [conforms] to it (copy_to_pruned_top_written);
   - every diagnostic is a WriteMissing (copy_to_pruned_only_missing): removal invents no
     conversion error.
   The two statements on the diagnostics are instances of one invariant of the fold of the fields
   (Section Diags, partial correctness: nothing is assumed on the Go value), for a preorder R on
   the lists of diagnostics: diagnostics only grow (to_fields_diag_mono, any target), and on the
   class [tgt_pr] (every attribute type which is present has the schema's shape, followed into the
   objects which are written into) they grow by WriteMissing only (to_fields_pr_only_missing).
   [tgt_pr] follows the objects HELD by the target, so that the statements also cover a populated
   target whose objects carry pruned type lists at every level ([retype], Section 9). *)
From Coq Require Import List String Bool ZArith Lia.
From PGT Require Import Base.Strs Base.AList Model.Vals Model.IR Model.CopyTo.
From PGT Require Import Proofs.CopyToProofs Proofs.CopyToTotal Proofs.ToMalformed.
From PGT Require Proofs.MsgRoundTrip.
Import ListNotations.

(* ------------------------------------------------------------------------------------- *)
(* 1. removal of attribute types *)

Inductive pruned_ty : tfty -> tfty -> Prop :=
| PT_prim k : pruned_ty (TyPrim k) (TyPrim k)
| PT_hook s : pruned_ty (TyHook s) (TyHook s)
| PT_list e e' : pruned_ty e e' -> pruned_ty (TyList e) (TyList e')
| PT_map e e' : pruned_ty e e' -> pruned_ty (TyMap e) (TyMap e')
| PT_obj ats ats' : pruned ats ats' -> pruned_ty (TyObj ats) (TyObj ats')
with pruned : list (string * tfty) -> list (string * tfty) -> Prop :=
| P_nil : pruned [] []
| P_drop k t ats ats' : pruned ats ats' -> pruned ((k, t) :: ats) ats'
| P_keep k t t' ats ats' : pruned_ty t t' -> pruned ats ats' -> pruned ((k, t) :: ats) ((k, t') :: ats').

Lemma pruned_ty_prim_inv k t' : pruned_ty (TyPrim k) t' -> t' = TyPrim k.
Proof. intros H. inversion H; subst. reflexivity. Qed.

Lemma pruned_ty_list_inv e t' : pruned_ty (TyList e) t' -> exists e', t' = TyList e' /\ pruned_ty e e'.
Proof. intros H. inversion H; subst. eauto. Qed.

Lemma pruned_ty_map_inv e t' : pruned_ty (TyMap e) t' -> exists e', t' = TyMap e' /\ pruned_ty e e'.
Proof. intros H. inversion H; subst. eauto. Qed.

Lemma pruned_ty_obj_inv ats t' : pruned_ty (TyObj ats) t' -> exists ats', t' = TyObj ats' /\ pruned ats ats'.
Proof. intros H. inversion H; subst. eauto. Qed.

Lemma lookup_some_key {A} k (l : list (string * A)) v : lookup k l = Some v -> In k (keys l).
Proof.
  intros H. destruct (in_dec string_dec k (keys l)) as [I|N]; [exact I|].
  apply lookup_None_keys in N. rewrite N in H. discriminate H.
Qed.

(* an entry which is kept comes from the entry of the same name *)
Lemma pruned_lookup ats ats' :
  pruned ats ats' -> NoDup (keys ats) ->
  forall k t', lookup k ats' = Some t' -> exists t, lookup k ats = Some t /\ pruned_ty t t'.
Proof.
  induction 1 as [|k0 t0 ats ats' HP IH|k0 t0 t0' ats ats' HT HP IH]; intros ND k t' L.
  - discriminate L.
  - cbn [keys map fst] in ND. inversion ND as [|? ? N1 N2]; subst.
    destruct (IH N2 k t' L) as (t & Lt & Pt). exists t. split; [|exact Pt]. cbn [lookup].
    destruct (String.eqb k k0) eqn:E; [|exact Lt].
    apply String.eqb_eq in E. subst k0. exfalso. apply N1. exact (lookup_some_key _ _ _ Lt).
  - cbn [keys map fst] in ND. inversion ND as [|? ? N1 N2]; subst. cbn [lookup] in L |- *.
    destruct (String.eqb k k0).
    + injection L as <-. exists t0. split; [reflexivity|exact HT].
    + exact (IH N2 k t' L).
Qed.

(* nothing removed; everything removed *)
Lemma pruned_refl_mutual t : pruned_ty t t.
Proof.
  induction t using tfty_ind'; try (constructor; assumption).
  constructor. induction H as [|[k t] r Ht _ IH]; constructor; assumption.
Qed.

Lemma pruned_refl ats : pruned ats ats.
Proof. induction ats as [|[k t] r IH]; constructor; [apply pruned_refl_mutual|exact IH]. Qed.

Lemma pruned_all ats : pruned ats [].
Proof. induction ats as [|[k t] r IH]; constructor; exact IH. Qed.

(* the attribute names of the schema's type are distinct *)
Lemma keys_fields_ty_in fs k : In k (keys (fields_ty fs)) -> In k (snakes fs).
Proof.
  induction fs as [|f r IH]; [intros []|]. unfold fields_ty. cbn [flat_map snakes map].
  unfold keys. rewrite map_app. intros I. apply in_app_or in I. destruct I as [I|I].
  - left. destruct (field_ty f); [|destruct I]. destruct I as [<-|[]]. reflexivity.
  - right. now apply IH.
Qed.

Lemma keys_fields_ty_nodup fs : NoDup (snakes fs) -> NoDup (keys (fields_ty fs)).
Proof.
  induction fs as [|f r IH]; intros ND; [constructor|].
  cbn [snakes map] in ND. inversion ND as [|? ? N1 N2]; subst. unfold fields_ty. cbn [flat_map].
  destruct (field_ty f); cbn [app keys map fst]; [|now apply IH].
  constructor; [|now apply IH]. intros I. apply N1. now apply keys_fields_ty_in.
Qed.

Lemma msg_ty_nodup m : tf_ok m = true -> NoDup (keys (msg_ty m)).
Proof.
  intros F. rewrite msg_ty_fields. apply keys_fields_ty_nodup. exact (proj1 (tf_ok_fields m F)).
Qed.

(* ------------------------------------------------------------------------------------- *)
(* 2. the class of targets: an attribute type which is present has the schema's shape *)

(* like [tgt_exact] of ToMalformed.v, but an attribute type may be missing; followed into the
   objects which are written into (the held object when there is one) *)
Fixpoint tgt_pr (m : message) (atys : list (string * tfty)) (attrs : attrs_t) {struct m} : bool :=
  match m with
  | Msg _ fs _ _ _ _ =>
      (fix go (l : list field) : bool :=
         match l with
         | [] => true
         | f :: r => ftgt_pr f atys (lookup (fi_snake (f_info f)) attrs) && go r
         end) fs
  end
with ftgt_pr (f : field) (atys : list (string * tfty)) (cur : option tfval) {struct f} : bool :=
  match f with
  | Field i om =>
      match lookup (fi_snake i) atys with
      | None => true
      | Some t =>
          let sub (m' : message) (ats : list (string * tfty)) :=
            match cur with
            | Some (VObj a _ _ at0) => tgt_pr m' a (match at0 with Some x => x | None => [] end)
            | _ => tgt_pr m' ats []
            end in
          match fi_kind i, om, t with
          | PrimitiveKind, _, TyPrim k => tfkind_eqb (fi_tk i) k
          | PrimitiveListKind, _, TyList (TyPrim k) => tfkind_eqb (fi_tk i) k
          | PrimitiveMapKind, _, TyMap (TyPrim k) => tfkind_eqb (fi_tk i) k
          | ObjectKind, Some m', TyObj ats => sub m' ats
          | ObjectListKind, Some m', TyList (TyObj ats) => sub m' ats
          | ObjectMapKind, Some m', TyMap (TyObj ats) => sub m' ats
          | _, _, _ => false
          end
      end
  end.

Definition sub_pr (m' : message) (cur : option tfval) (ats : list (string * tfty)) : bool :=
  match cur with
  | Some (VObj a _ _ at0) => tgt_pr m' a (unopt at0)
  | _ => tgt_pr m' ats []
  end.

Definition target_pr (m : message) (t : tfval) : bool :=
  match t with VObj atys _ _ at0 => tgt_pr m atys (unopt at0) | _ => false end.

Lemma tgt_pr_eq n fs os inj e z atys attrs :
  tgt_pr (Msg n fs os inj e z) atys attrs
  = forallb (fun f => ftgt_pr f atys (lookup (snake f) attrs)) fs.
Proof.
  cbn [tgt_pr]. unfold snake. induction fs as [|f r IH]; [reflexivity|]. cbn [forallb]. now rewrite IH.
Qed.

Lemma ftgt_pr_eq i om atys cur :
  ftgt_pr (Field i om) atys cur
  = match lookup (fi_snake i) atys with
    | None => true
    | Some t =>
        match fi_kind i, om, t with
        | PrimitiveKind, _, TyPrim k => tfkind_eqb (fi_tk i) k
        | PrimitiveListKind, _, TyList (TyPrim k) => tfkind_eqb (fi_tk i) k
        | PrimitiveMapKind, _, TyMap (TyPrim k) => tfkind_eqb (fi_tk i) k
        | ObjectKind, Some m', TyObj ats => sub_pr m' cur ats
        | ObjectListKind, Some m', TyList (TyObj ats) => sub_pr m' cur ats
        | ObjectMapKind, Some m', TyMap (TyObj ats) => sub_pr m' cur ats
        | _, _, _ => false
        end
    end.
Proof. reflexivity. Qed.

(* the class is inside the one on which the model does not panic *)
Lemma pr_ok_mutual : forall m atys attrs, tgt_pr m atys attrs = true -> tgt_ok m atys attrs = true.
Proof.
  apply (message_ind' (fun f => forall atys cur, ftgt_pr f atys cur = true -> ftgt_ok f atys cur = true)
                      (fun m => forall atys attrs, tgt_pr m atys attrs = true -> tgt_ok m atys attrs = true)).
  - intros i atys cur _. rewrite ftgt_ok_eq. reflexivity.
  - intros i m IH atys cur X. rewrite ftgt_ok_eq. rewrite ftgt_pr_eq in X.
    assert (S : forall ats, sub_pr m cur ats = true -> sub_ok m cur ats = true).
    { intros ats. unfold sub_pr, sub_ok. destruct cur as [[]|]; apply IH. }
    destruct (lookup (fi_snake i) atys) as [t|]; [|reflexivity].
    destruct (fi_kind i); try reflexivity; destruct t as [k|e|e|ats|s]; try reflexivity; try discriminate X.
    + now apply S.
    + destruct e; try discriminate X. now apply S.
    + destruct e; try discriminate X. now apply S.
  - intros n fs os inj e z IH atys attrs X. rewrite tgt_ok_eq, forallb_forall.
    rewrite tgt_pr_eq, forallb_forall in X. rewrite Forall_forall in IH.
    intros f I. exact (IH f I _ _ (X f I)).
Qed.

Lemma target_pr_ok m t : target_pr m t = true -> target_ok m t = true.
Proof. destruct t; try discriminate. apply pr_ok_mutual. Qed.

(* the schema's type itself is in the class; so is every target of [tgt_exact] *)
Lemma exact_pr_mutual : forall m atys attrs, tgt_exact m atys attrs = true -> tgt_pr m atys attrs = true.
Proof.
  apply (message_ind' (fun f => forall atys cur, ftgt_exact f atys cur = true -> ftgt_pr f atys cur = true)
                      (fun m => forall atys attrs, tgt_exact m atys attrs = true -> tgt_pr m atys attrs = true)).
  - intros i atys cur X. rewrite ftgt_pr_eq. rewrite ftgt_exact_eq in X.
    destruct (lookup (fi_snake i) atys) as [t|]; [|reflexivity].
    destruct (fi_kind i); try discriminate X; destruct t as [k|e|e|ats|s]; try discriminate X; try exact X;
      destruct e; try discriminate X; exact X.
  - intros i m IH atys cur X. rewrite ftgt_pr_eq. rewrite ftgt_exact_eq in X.
    assert (S : forall ats, sub_exact m cur ats = true -> sub_pr m cur ats = true).
    { intros ats. unfold sub_pr, sub_exact. destruct cur as [[]|]; apply IH. }
    destruct (lookup (fi_snake i) atys) as [t|]; [|reflexivity].
    destruct (fi_kind i); try discriminate X; destruct t as [k|e|e|ats|s]; try discriminate X; try exact X;
      try (now apply S); destruct e; try discriminate X; first [exact X|now apply S].
  - intros n fs os inj e z IH atys attrs X. rewrite tgt_pr_eq, forallb_forall.
    rewrite tgt_exact_eq, forallb_forall in X. rewrite Forall_forall in IH.
    intros f I. exact (IH f I _ _ (X f I)).
Qed.

(* ------------------------------------------------------------------------------------- *)
(* 3. a pruned schema type, without values, is in the class *)

Lemma pruned_tgt_pr : forall m, tf_ok m = true ->
  forall ats', pruned (msg_ty m) ats' -> tgt_pr m ats' [] = true.
Proof.
  apply (message_ind'
           (fun f => ftf_ok f = true -> forall atys' t, field_ty f = Some t ->
                     (forall t', lookup (snake f) atys' = Some t' -> pruned_ty t t') ->
                     ftgt_pr f atys' None = true)
           (fun m => tf_ok m = true -> forall ats', pruned (msg_ty m) ats' -> tgt_pr m ats' [] = true)).
  - intros i F atys' t FT HL. rewrite ftgt_pr_eq. unfold snake in HL. cbn [f_info] in HL.
    destruct (lookup (fi_snake i) atys') as [t'|]; [|reflexivity]. specialize (HL t' eq_refl).
    cbn [field_ty] in FT. destruct (fi_kind i); inversion FT; subst t; clear FT.
    + apply pruned_ty_prim_inv in HL. subst t'. apply tfkind_eqb_refl.
    + apply pruned_ty_list_inv in HL. destruct HL as (e' & -> & HL).
      apply pruned_ty_prim_inv in HL. subst e'. apply tfkind_eqb_refl.
    + apply pruned_ty_map_inv in HL. destruct HL as (e' & -> & HL).
      apply pruned_ty_prim_inv in HL. subst e'. apply tfkind_eqb_refl.
  - intros i m IH F atys' t FT HL. rewrite ftgt_pr_eq. unfold snake in HL. cbn [f_info] in HL.
    cbn [ftf_ok] in F. apply andb_prop in F. destruct F as [_ F2]. specialize (IH F2).
    destruct (lookup (fi_snake i) atys') as [t'|]; [|reflexivity]. specialize (HL t' eq_refl).
    cbn [field_ty] in FT. destruct (fi_kind i); inversion FT; subst t; clear FT.
    + apply pruned_ty_prim_inv in HL. subst t'. apply tfkind_eqb_refl.
    + apply pruned_ty_list_inv in HL. destruct HL as (e' & -> & HL).
      apply pruned_ty_prim_inv in HL. subst e'. apply tfkind_eqb_refl.
    + apply pruned_ty_obj_inv in HL. destruct HL as (a' & -> & HL). exact (IH a' HL).
    + apply pruned_ty_list_inv in HL. destruct HL as (e' & -> & HL).
      apply pruned_ty_obj_inv in HL. destruct HL as (a' & -> & HL). exact (IH a' HL).
    + apply pruned_ty_map_inv in HL. destruct HL as (e' & -> & HL).
      apply pruned_ty_prim_inv in HL. subst e'. apply tfkind_eqb_refl.
    + apply pruned_ty_map_inv in HL. destruct HL as (e' & -> & HL).
      apply pruned_ty_obj_inv in HL. destruct HL as (a' & -> & HL). exact (IH a' HL).
  - intros n fs os inj e z IH F ats' HP. pose proof (msg_ty_nodup _ F) as NDK.
    rewrite tf_ok_eq in F. apply andb_prop in F. destruct F as [F F3]. apply andb_prop in F.
    destruct F as [F1 _]. apply nodup_b_NoDup in F1. rewrite forallb_forall in F3.
    rewrite Forall_forall in IH. rewrite tgt_pr_eq, forallb_forall. intros f I. cbn [lookup].
    pose proof (F3 f I) as Ff.
    assert (FT : exists t, field_ty f = Some t).
    { destruct f as [i om]. cbn [ftf_ok] in Ff. apply andb_prop in Ff. destruct Ff as [Fi _].
      exact (field_ty_some _ _ Fi). }
    destruct FT as (t & FT). apply (IH f I Ff ats' t FT). intros t' L.
    destruct (pruned_lookup _ _ HP NDK _ _ L) as (t0 & L0 & P0).
    rewrite msg_ty_eq in L0. rewrite (lookup_fields_ty _ _ _ F1 I FT) in L0. injection L0 as <-. exact P0.
Qed.

(* ------------------------------------------------------------------------------------- *)
(* 4. diagnostics as lists *)

Lemma dkind_eqb_eq a b : dkind_eqb a b = true -> a = b.
Proof. destruct a, b; (reflexivity || discriminate). Qed.

Lemma diag_eqb_eq (a b : diag) : diag_eqb a b = true -> a = b.
Proof.
  destruct a as [ka sa], b as [kb sb]. unfold diag_eqb. cbn [fst snd]. intros H.
  apply andb_prop in H. destruct H as [H1 H2]. apply dkind_eqb_eq in H1. apply String.eqb_eq in H2.
  now subst.
Qed.

Lemma diag_mem_In d l : diag_mem d l = true -> In d l.
Proof.
  induction l as [|x r IH]; cbn [diag_mem]; [discriminate|]. intros H. apply orb_prop in H.
  destruct H as [H|H]; [left; symmetry; now apply diag_eqb_eq|right; now apply IH].
Qed.

Lemma In_diag_append_self l d : In d (diag_append l d).
Proof. apply diag_mem_In, diag_append_mem. Qed.

Lemma In_diag_append_old l d x : In x l -> In x (diag_append l d).
Proof.
  intros I. unfold diag_append. destruct (diag_mem d l); [exact I|]. apply in_or_app. now left.
Qed.

Lemma In_diag_append_inv l d x : In x (diag_append l d) -> In x l \/ x = d.
Proof.
  unfold diag_append. destruct (diag_mem d l); [now left|]. intros I. apply in_app_or in I.
  destruct I as [I|[<-|[]]]; [now left|now right].
Qed.

(* ------------------------------------------------------------------------------------- *)
(* 5. one invariant of the fold of the fields, for a preorder on the diagnostics *)

Ltac bindH H E :=
  match type of H with
  | bind ?x _ = Ok _ => destruct x as [bres|] eqn:E; cbn [bind] in H; [|discriminate H]
  end.

Ltac split_triple_in H :=
  match type of H with
  | context [match ?X with _ => _ end] =>
      match type of X with
      | (_ * _ * _)%type => destruct X as [[cety cn] celems]
      end
  end.

Section Diags.
  Variable hook : hook_to_t.
  Variable R : list diag -> list diag -> Prop.
  (* CA: conversion errors are accepted by R; otherwise the target is asked to be in [tgt_pr] *)
  Variable CA : Prop.
  Hypothesis R_refl : forall ds, R ds ds.
  Hypothesis R_trans : forall a b c, R a b -> R b c -> R a c.
  Hypothesis R_missing : forall ds p, R ds (diag_append ds (WriteMissing, p)).
  Hypothesis R_conv : CA -> forall ds p, R ds (diag_append ds (WriteConv, p)).

  Definition msg_R (m : message) : Prop :=
    forall obj atys attrs ds attrs' ds',
      to_fields hook m obj atys (attrs, ds) = Ok (attrs', ds') ->
      CA \/ (tf_ok m = true /\ tgt_pr m atys attrs = true) -> R ds ds'.

  Definition field_R (f : field) : Prop :=
    forall obj atys attrs ds attrs' ds',
      to_field hook f obj atys (attrs, ds) = Ok (attrs', ds') ->
      CA \/ (ftf_ok f = true /\ ftgt_pr f atys (lookup (snake f) attrs) = true) -> R ds ds'.

  Lemma pv_zero_ds i rd obj n0 u0 p0 ds0 n1 u1 p1 ds1 :
    pv_zero i rd obj (n0, u0, p0, ds0) = Ok (n1, u1, p1, ds1) -> ds1 = ds0.
  Proof. unfold pv_zero. intros H. repeat step H; reflexivity. Qed.

  Lemma to_prim_value_R i rd obj t cur ds v ds' :
    to_prim_value i rd obj t cur ds = Ok (v, ds') -> CA \/ t = TyPrim (fi_tk i) -> R ds ds'.
  Proof.
    rewrite to_prim_value_eq. intros H C.
    destruct (pv_cur (fi_tk i) cur) as [[[n u] p]|].
    - cbn [bind] in H. destruct (pv_assign i rd obj n p) as [[n2 p2]|]; cbn [bind] in H; [|discriminate H].
      inversion H; subst. apply R_refl.
    - destruct (pv_default i t ds) as [[[n0 u0] p0] ds0] eqn:D.
      destruct (pv_zero i rd obj (n0, u0, p0, ds0)) as [[[[n1 u1] p1] ds1]|] eqn:Z; cbn [bind] in H;
        [|discriminate H].
      apply pv_zero_ds in Z. subst ds1.
      destruct (pv_assign i rd obj n1 p1) as [[n2 p2]|]; cbn [bind] in H; [|discriminate H].
      inversion H; subst ds'. clear H. unfold pv_default in D. destruct C as [C| ->].
      + destruct (null_value t); try (inversion D; subst; apply R_conv; exact C).
        destruct (tfkind_eqb (fi_tk i) k); inversion D; subst; [apply R_refl|apply R_conv; exact C].
      + cbn [null_value] in D. rewrite tfkind_eqb_refl in D. inversion D; subst. apply R_refl.
  Qed.

  (* the element loops *)
  Lemma fold_R {A B} (F : A -> list diag -> res (tfval * list diag)) (G : B -> A -> tfval -> B) l :
    (forall a ds1 v ds2, In a l -> F a ds1 = Ok (v, ds2) -> R ds1 ds2) ->
    forall b0 ds b ds',
      fold_left (fun acc a => do '(b1, ds1) <- acc; do '(v, ds2) <- F a ds1; Ok (G b1 a v, ds2)) l (Ok (b0, ds))
      = Ok (b, ds') -> R ds ds'.
  Proof.
    induction l as [|a r IH]; intros HF b0 ds b ds' H; cbn [fold_left] in H.
    - inversion H; subst. apply R_refl.
    - cbn [bind] in H. destruct (F a ds) as [[v d1]|] eqn:E; cbn [bind] in H.
      + apply R_trans with d1; [exact (HF a ds v d1 (or_introl eq_refl) E)|].
        apply (IH (fun a' x y z I => HF a' x y z (or_intror I)) _ _ _ _ H).
      + rewrite fold_left_panic in H; [discriminate H|reflexivity].
  Qed.

  Lemma obj_value_R i obj cur m' rd ats ds v ds' :
    msg_R m' ->
    obj_value hook i obj cur m' rd ats ds = Ok (v, ds') ->
    CA \/ (tf_ok m' = true /\ sub_pr m' cur ats = true) -> R ds ds'.
  Proof.
    intros G H C. unfold obj_value in H.
    assert (E : exists oatys n0 attrs0,
               match cur with
               | Some (VObj a n u at0) => (a, n, match at0 with Some x => x | None => [] end)
               | _ => (ats, false, [])
               end = (oatys, n0, attrs0)
               /\ sub_pr m' cur ats = tgt_pr m' oatys attrs0).
    { destruct cur as [c|]; [|do 3 eexists; split; reflexivity].
      destruct c; do 3 eexists; split; reflexivity. }
    destruct E as (oatys & n0 & attrs0 & E & E1). rewrite E in H. rewrite E1 in C. clear E E1.
    cbv beta iota zeta in H.
    assert (K : forall x, (do st' <- to_fields hook m' x oatys (attrs0, ds);
                           let '(attrs', ds') := st' in
                           Ok (VObj oatys n0 false (Some attrs'), ds')) = Ok (v, ds') -> R ds ds').
    { intros x Hx. destruct (to_fields hook m' x oatys (attrs0, ds)) as [[a1 d1]|] eqn:Ef; cbn [bind] in Hx;
        [|discriminate Hx].
      inversion Hx; subst. exact (G _ _ _ _ _ _ Ef C). }
    destruct (fi_nullable i).
    - destruct rd as [g|]; cbn [bind] in H; [|discriminate H].
      destruct g as [p|o|o|o|o|fs|o]; try discriminate H. destruct o as [inner|].
      + exact (K _ H).
      + inversion H; subst. apply R_refl.
    - destruct (m_empty m'); [exact (K _ H)|].
      destruct rd as [g|]; cbn [bind] in H; [|discriminate H]. exact (K _ H).
  Qed.

  Lemma field_R_step i om :
    (forall m', om = Some m' -> msg_R m') -> field_R (Field i om).
  Proof.
    intros Q obj atys attrs ds attrs' ds' H C.
    rewrite to_field_eq in H. cbv zeta in H. unfold snake in C. cbn [f_info ftf_ok] in C.
    rewrite ftgt_pr_eq in C.
    destruct (lookup (fi_snake i) atys) as [t|] eqn:La.
    2:{ inversion H; subst. apply R_missing. }
    set (cur := lookup (fi_snake i) attrs) in *.
    destruct (fi_kind i) eqn:K.
    - (* PrimitiveKind *)
      bindH H E0. clear E0 bres. bindH H E. destruct bres as [v d1]. inversion H; subst.
      apply (to_prim_value_R _ _ _ _ _ _ _ _ E). destruct C as [C|[_ C]]; [now left|right].
      destruct t as [k| | | |]; try (destruct om; discriminate C). f_equal. symmetry.
      apply tfkind_eqb_eq. destruct om; exact C.
    - (* PrimitiveListKind *)
      destruct t as [k|ety|e|ats|s];
        try (inversion H; subst; apply R_conv; destruct C as [C|[_ C]]; [exact C|destruct om; discriminate C]).
      bindH H E0. clear E0. destruct bres as [p|o|o|src|o|fs|o]; try discriminate H.
      split_triple_in H. destruct src as [l|]; [|inversion H; subst; apply R_refl].
      bindH H E. destruct bres as [vs d1]. inversion H; subst.
      apply (fold_R (fun a d => to_prim_value i (Ok a) obj ety cur d) (fun vs _ v => vs ++ [v]) l) with (2 := E).
      intros a ds1 v ds2 _ Ea. apply (to_prim_value_R _ _ _ _ _ _ _ _ Ea).
      destruct C as [C|[_ C]]; [now left|right].
      destruct ety as [k| | | |]; try (destruct om; discriminate C). f_equal. symmetry.
      apply tfkind_eqb_eq. destruct om; exact C.
    - (* ObjectKind *)
      destruct om as [m'|]; [|discriminate H].
      bindH H E0. rename bres into g0.
      destruct t as [k|e|e|ats|s];
        try (inversion H; subst; apply R_conv; destruct C as [C|[_ C]]; [exact C|discriminate C]).
      bindH H E. destruct bres as [v d1]. inversion H; subst.
      apply (obj_value_R _ _ _ _ _ _ _ _ _ (Q m' eq_refl) E).
      destruct C as [C|[F C]]; [now left|right]. apply andb_prop in F. destruct F as [_ F]. now split.
    - (* ObjectListKind *)
      destruct t as [k|ety|e|ats|s];
        try (inversion H; subst; apply R_conv; destruct C as [C|[_ C]]; [exact C|destruct om; discriminate C]).
      bindH H E0. clear E0. destruct bres as [p|o|o|src|o|fs|o]; try discriminate H.
      split_triple_in H. destruct src as [l|]; [|inversion H; subst; apply R_refl].
      bindH H E. destruct bres as [vs d1]. inversion H; subst.
      destruct om as [m'|].
      + destruct ety as [k|e|e|ats|s]; try discriminate E.
        apply (fold_R (fun a d => obj_value hook i obj cur m' (Ok a) ats d) (fun vs _ v => vs ++ [v]) l) with (2 := E).
        intros a ds1 v ds2 _ Ea. apply (obj_value_R _ _ _ _ _ _ _ _ _ (Q m' eq_refl) Ea).
        destruct C as [C|[F C]]; [now left|right]. apply andb_prop in F. destruct F as [_ F]. now split.
      + apply (fold_R (fun a d => to_prim_value i (Ok a) obj ety cur d) (fun vs _ v => vs ++ [v]) l) with (2 := E).
        intros a ds1 v ds2 _ Ea. apply (to_prim_value_R _ _ _ _ _ _ _ _ Ea).
        destruct C as [C|[_ C]]; [now left|discriminate C].
    - (* PrimitiveMapKind *)
      destruct t as [k|e|ety|ats|s];
        try (inversion H; subst; apply R_conv; destruct C as [C|[_ C]]; [exact C|destruct om; discriminate C]).
      bindH H E0. clear E0. destruct bres as [p|o|o|o|src|fs|o]; try discriminate H.
      split_triple_in H. destruct src as [l|]; [|inversion H; subst; apply R_refl].
      bindH H E. destruct bres as [es d1]. inversion H; subst.
      apply (fold_R (fun (ka : string * goval) d => to_prim_value i (Ok (snd ka)) obj ety cur d)
                    (fun es ka v => update (fst ka) v es) l) with (2 := E).
      intros a ds1 v ds2 _ Ea. apply (to_prim_value_R _ _ _ _ _ _ _ _ Ea).
      destruct C as [C|[_ C]]; [now left|right].
      destruct ety as [k| | | |]; try (destruct om; discriminate C). f_equal. symmetry.
      apply tfkind_eqb_eq. destruct om; exact C.
    - (* ObjectMapKind *)
      destruct t as [k|e|ety|ats|s];
        try (inversion H; subst; apply R_conv; destruct C as [C|[_ C]]; [exact C|destruct om; discriminate C]).
      bindH H E0. clear E0. destruct bres as [p|o|o|o|src|fs|o]; try discriminate H.
      split_triple_in H. destruct src as [l|]; [|inversion H; subst; apply R_refl].
      bindH H E. destruct bres as [es d1]. inversion H; subst.
      destruct om as [m'|].
      + destruct ety as [k|e|e|ats|s]; try discriminate E.
        apply (fold_R (fun (ka : string * goval) d => obj_value hook i obj cur m' (Ok (snd ka)) ats d)
                      (fun es ka v => update (fst ka) v es) l) with (2 := E).
        intros a ds1 v ds2 _ Ea. apply (obj_value_R _ _ _ _ _ _ _ _ _ (Q m' eq_refl) Ea).
        destruct C as [C|[F C]]; [now left|right]. apply andb_prop in F. destruct F as [_ F]. now split.
      + apply (fold_R (fun (ka : string * goval) d => to_prim_value i (Ok (snd ka)) obj ety cur d)
                      (fun es ka v => update (fst ka) v es) l) with (2 := E).
        intros a ds1 v ds2 _ Ea. apply (to_prim_value_R _ _ _ _ _ _ _ _ Ea).
        destruct C as [C|[_ C]]; [now left|discriminate C].
    - (* CustomKind: no diagnostic *)
      bindH H E0. inversion H; subst. apply R_refl.
  Qed.

  Lemma field_list_R l obj atys :
    Forall field_R l ->
    forall attrs ds attrs' ds',
      to_field_list hook l obj atys (attrs, ds) = Ok (attrs', ds') ->
      CA \/ (NoDup (snakes l)
             /\ forall f, In f l -> ftf_ok f = true /\ ftgt_pr f atys (lookup (snake f) attrs) = true) ->
      R ds ds'.
  Proof.
    induction l as [|f r IH]; intros G attrs ds attrs' ds' H C; cbn [to_field_list] in H.
    - inversion H; subst. apply R_refl.
    - inversion G as [|? ? Gf Gr]; subst.
      destruct (to_field hook f obj atys (attrs, ds)) as [[a1 d1]|] eqn:E; cbn [bind] in H; [|discriminate H].
      apply R_trans with d1.
      + apply (Gf _ _ _ _ _ _ E). destruct C as [C|[ND C]]; [now left|right]. apply C. now left.
      + apply (IH Gr _ _ _ _ H). destruct C as [C|[ND C]]; [now left|right].
        cbn [snakes map] in ND. inversion ND as [|? ? N1 N2]; subst. split; [exact N2|].
        intros f' I. rewrite (to_field_local _ _ _ _ _ _ _ _ E (snake f')); [apply C; now right|].
        intros Eq. apply N1. change (fi_snake (f_info f)) with (snake f) in Eq. rewrite <- Eq.
        now apply in_map.
  Qed.

  Lemma R_mutual : forall m, msg_R m.
  Proof.
    apply (message_ind' field_R msg_R).
    - intros i. apply field_R_step. intros m' [=].
    - intros i m IH. apply field_R_step. intros m' [= <-]. exact IH.
    - intros n fs os inj e z IH obj atys attrs ds attrs' ds' H C. rewrite to_fields_list in H.
      apply (field_list_R fs obj atys IH _ _ _ _ H). destruct C as [C|[F C]]; [now left|right].
      rewrite tf_ok_eq in F. apply andb_prop in F. destruct F as [F F3]. apply andb_prop in F.
      destruct F as [F1 _]. apply nodup_b_NoDup in F1. rewrite forallb_forall in F3.
      rewrite tgt_pr_eq, forallb_forall in C. split; [exact F1|]. intros f I. split; [exact (F3 f I)|exact (C f I)].
  Qed.
End Diags.

(* ------------------------------------------------------------------------------------- *)
(* 6. the two instances *)

(* diagnostics only grow: any message, any Go value, any target *)
Theorem to_fields_diag_mono hook m obj atys attrs ds attrs' ds' :
  to_fields hook m obj atys (attrs, ds) = Ok (attrs', ds') -> forall d, In d ds -> In d ds'.
Proof.
  intros H.
  assert (X : msg_R hook (fun a b => forall d, In d a -> In d b) True m).
  { apply R_mutual.
    - intros a d I. exact I.
    - intros a b c H1 H2 d I. exact (H2 d (H1 d I)).
    - intros a p d I. now apply In_diag_append_old.
    - intros _ a p d I. now apply In_diag_append_old. }
  apply (X _ _ _ _ _ _ H). left. exact I.
Qed.

(* on the class tgt_pr they grow by WriteMissing only *)
Theorem to_fields_pr_only_missing hook m obj atys attrs ds attrs' ds' :
  tf_ok m = true -> tgt_pr m atys attrs = true ->
  to_fields hook m obj atys (attrs, ds) = Ok (attrs', ds') ->
  forall d, In d ds' -> In d ds \/ fst d = WriteMissing.
Proof.
  intros F T H.
  assert (X : msg_R hook (fun a b => forall d, In d b -> In d a \/ fst d = WriteMissing) False m).
  { apply R_mutual.
    - intros a d I. now left.
    - intros a b c H1 H2 d I. destruct (H2 d I) as [I'|W]; [exact (H1 d I')|now right].
    - intros a p d I. apply In_diag_append_inv in I. destruct I as [I| ->]; [now left|now right].
    - intros []. }
  apply (X _ _ _ _ _ _ H). right. split; [exact F|exact T].
Qed.

Lemma to_field_list_diag_mono hook l obj atys attrs ds attrs' ds' :
  to_field_list hook l obj atys (attrs, ds) = Ok (attrs', ds') -> forall d, In d ds -> In d ds'.
Proof.
  rewrite <- (to_fields_list hook EmptyString l [] [] false (GStruct [])). apply to_fields_diag_mono.
Qed.

(* ------------------------------------------------------------------------------------- *)
(* 7. CopyTo: any target *)

(* a top-level field whose attribute type is missing is reported, whatever the message, the Go
   value and the rest of the target, as soon as CopyTo returns *)
Theorem copy_to_missing_reported hook m obj atys n u at0 r ds f :
  copy_to hook m obj (VObj atys n u at0) = Ok (r, ds) ->
  In f (m_fields m) -> lookup (snake f) atys = None ->
  In (WriteMissing, fi_path (f_info f)) ds.
Proof.
  unfold copy_to. intros H I L.
  destruct (to_fields hook m obj atys (match at0 with Some x => x | None => [] end, [])) as [[a d]|] eqn:E;
    cbn [bind] in H; [|discriminate H].
  inversion H; subst; clear H. rewrite to_fields_m_fields in E.
  destruct (in_split _ _ I) as (l1 & l2 & EQ). rewrite EQ in E. rewrite to_field_list_app in E.
  destruct (to_field_list hook l1 obj atys (match at0 with Some x => x | None => [] end, [])) as [[a1 d1]|] eqn:E1;
    cbn [bind] in E; [|discriminate E].
  cbn [to_field_list] in E. rewrite (to_field_missing_type hook f obj atys a1 d1 L) in E. cbn [bind] in E.
  apply (to_field_list_diag_mono _ _ _ _ _ _ _ _ E). apply In_diag_append_self.
Qed.

(* the class tgt_pr (held values allowed): no panic; WriteMissing only *)
Theorem copy_to_pr_never_panics_partial hook m obj t :
  tf_ok m = true -> typed m obj -> target_pr m t = true -> exists r ds, copy_to hook m obj t = Ok (r, ds).
Proof.
  intros F T TP. apply copy_to_never_panics_partial; [exact F|exact T|now apply target_pr_ok].
Qed.

Theorem copy_to_pr_only_missing hook m obj t r ds :
  tf_ok m = true -> target_pr m t = true -> copy_to hook m obj t = Ok (r, ds) ->
  forall d, In d ds -> fst d = WriteMissing.
Proof.
  intros F TP H d I. destruct t as [| | |atys n u at0| |]; try discriminate TP.
  cbn [target_pr] in TP. unfold copy_to in H.
  destruct (to_fields hook m obj atys (match at0 with Some x => x | None => [] end, [])) as [[a d0]|] eqn:E;
    cbn [bind] in H; [|discriminate H].
  inversion H; subst; clear H.
  destruct (to_fields_pr_only_missing hook m obj atys _ _ _ _ F TP E d I) as [[]|W]. exact W.
Qed.

(* a top-level field whose attribute type is the schema's and which holds nothing is written:
   afterwards the attribute is there and conforms to the type; whatever the other types are *)
Theorem copy_to_exact_field_written hook m obj atys n u at0 r ds f t :
  tf_ok m = true -> typed m obj ->
  copy_to hook m obj (VObj atys n u at0) = Ok (r, ds) ->
  In f (m_fields m) -> lookup (snake f) (msg_ty m) = Some t -> lookup (snake f) atys = Some t ->
  lookup (snake f) (unopt at0) = None ->
  exists attrs v, r = VObj atys false false (Some attrs) /\ lookup (snake f) attrs = Some v /\ conforms t v = true.
Proof.
  intros F T H I Ls La Lc. destruct (tf_ok_fields m F) as [ND FF].
  unfold copy_to in H. fold (unopt at0) in H.
  destruct (to_fields hook m obj atys (unopt at0, [])) as [[a d]|] eqn:E; cbn [bind] in H; [|discriminate H].
  inversion H; subst; clear H. exists a. rewrite to_fields_m_fields in E.
  destruct m as [nm fs os inj e z]. cbn [m_fields] in *.
  rewrite typed_eq in T. destruct T as (gs & -> & T). rewrite Forall_forall in T.
  pose proof (FF f I) as Ff.
  assert (G : field_good hook f).
  { destruct f as [i om]. cbn [ftf_ok] in Ff. apply andb_prop in Ff. destruct Ff as [Fi Fm].
    apply field_step; [exact Fi|]. intros m' ->. split; [exact Fm|now apply total_mutual]. }
  assert (FT : field_ty f = Some t).
  { destruct f as [i om]. cbn [ftf_ok] in Ff. apply andb_prop in Ff. destruct Ff as [Fi _].
    destruct (field_ty_some _ _ Fi) as (t0 & FT). rewrite msg_ty_eq in Ls.
    rewrite (lookup_fields_ty _ _ _ ND I FT) in Ls. now injection Ls as <-. }
  destruct (in_split _ _ I) as (l1 & l2 & EQ). rewrite EQ in E, ND. rewrite to_field_list_app in E.
  destruct (to_field_list hook l1 (GStruct gs) atys (unopt at0, [])) as [[a1 d1]|] eqn:E1;
    cbn [bind] in E; [|discriminate E].
  cbn [to_field_list] in E.
  unfold snakes in ND. rewrite map_app in ND. cbn [map] in ND. apply NoDup_remove_2 in ND.
  assert (N1 : ~ In (snake f) (map (fun f => fi_snake (f_info f)) l1)) by (intros X; apply ND, in_or_app; now left).
  assert (N2 : ~ In (snake f) (map (fun f => fi_snake (f_info f)) l2)) by (intros X; apply ND, in_or_app; now right).
  pose proof (to_field_list_local _ _ _ _ _ _ _ _ E1 _ N1) as Lc1. rewrite Lc in Lc1.
  destruct (G gs atys a1 d1 t (T f I) FT La Lc1) as (v & Ev & Cv).
  unfold attrs_t, tstate in *. rewrite Ev in E. cbn [bind] in E.
  exists v. split; [reflexivity|]. split; [|exact Cv].
  rewrite (to_field_list_local _ _ _ _ _ _ _ _ E _ N2). apply lookup_update_eq.
Qed.

(* ------------------------------------------------------------------------------------- *)
(* 8. C06, CopyTo direction, on the pruned targets *)

Lemma pruned_target_pr m ats' n u :
  tf_ok m = true -> pruned (msg_ty m) ats' -> target_pr m (VObj ats' n u None) = true.
Proof. intros F HP. cbn [target_pr unopt]. now apply pruned_tgt_pr. Qed.

(* removal never creates the panicking shape *)
Theorem pruned_target_ok m ats' n u :
  tf_ok m = true -> pruned (msg_ty m) ats' -> target_ok m (VObj ats' n u None) = true.
Proof. intros F HP. apply target_pr_ok. now apply pruned_target_pr. Qed.

Theorem copy_to_pruned_never_panics_partial hook m obj ats' n u :
  tf_ok m = true -> typed m obj -> pruned (msg_ty m) ats' ->
  exists r ds, copy_to hook m obj (VObj ats' n u None) = Ok (r, ds).
Proof.
  intros F T HP. apply copy_to_never_panics_partial; [exact F|exact T|now apply pruned_target_ok].
Qed.

(* each removed top-level attribute is reported (placeholder fields included) *)
Theorem copy_to_pruned_top_complete hook m obj ats' n u r ds :
  tf_ok m = true -> typed m obj -> pruned (msg_ty m) ats' ->
  copy_to hook m obj (VObj ats' n u None) = Ok (r, ds) ->
  forall f, In f (m_fields m) -> lookup (fi_snake (f_info f)) ats' = None ->
            In (WriteMissing, fi_path (f_info f)) ds.
Proof. intros _ _ _ H f I L. exact (copy_to_missing_reported _ _ _ _ _ _ _ _ _ _ H I L). Qed.

(* each top-level attribute whose type was kept as it is in the schema is written *)
Theorem copy_to_pruned_top_written hook m obj ats' n u r ds :
  tf_ok m = true -> typed m obj -> pruned (msg_ty m) ats' ->
  copy_to hook m obj (VObj ats' n u None) = Ok (r, ds) ->
  forall f t, In f (m_fields m) ->
              lookup (fi_snake (f_info f)) (msg_ty m) = Some t -> lookup (fi_snake (f_info f)) ats' = Some t ->
              exists attrs v, r = VObj ats' false false (Some attrs)
                              /\ lookup (fi_snake (f_info f)) attrs = Some v /\ conforms t v = true.
Proof.
  intros F T _ H f t I Ls La.
  exact (copy_to_exact_field_written _ _ _ _ _ _ _ _ _ _ _ F T H I Ls La eq_refl).
Qed.

(* removal invents no conversion error: WriteMissing only *)
Theorem copy_to_pruned_only_missing hook m obj ats' n u r ds :
  tf_ok m = true -> pruned (msg_ty m) ats' ->
  copy_to hook m obj (VObj ats' n u None) = Ok (r, ds) ->
  forall d, In d ds -> fst d = WriteMissing.
Proof.
  intros F HP H. apply (copy_to_pr_only_missing _ _ _ _ _ _ F (pruned_target_pr m ats' n u F HP) H).
Qed.

(* the four together *)
Theorem copy_to_pruned_spec hook m obj ats' n u :
  tf_ok m = true -> typed m obj -> pruned (msg_ty m) ats' ->
  exists attrs ds,
    copy_to hook m obj (VObj ats' n u None) = Ok (VObj ats' false false (Some attrs), ds)
    /\ (forall d, In d ds -> fst d = WriteMissing)
    /\ (forall f, In f (m_fields m) -> lookup (fi_snake (f_info f)) ats' = None ->
                  In (WriteMissing, fi_path (f_info f)) ds)
    /\ (forall f t, In f (m_fields m) -> lookup (fi_snake (f_info f)) (msg_ty m) = Some t ->
                    lookup (fi_snake (f_info f)) ats' = Some t ->
                    exists v, lookup (fi_snake (f_info f)) attrs = Some v /\ conforms t v = true).
Proof.
  intros F T HP. destruct (copy_to_pruned_never_panics_partial hook m obj ats' n u F T HP) as (r & ds & H).
  assert (S : exists attrs, r = VObj ats' false false (Some attrs)).
  { unfold copy_to in H. destruct (to_fields hook m obj ats' ([], [])) as [[a d]|]; cbn [bind] in H; [|discriminate H].
    inversion H; subst. eauto. }
  destruct S as (attrs & ->). exists attrs, ds. split; [exact H|]. split; [|split].
  - exact (copy_to_pruned_only_missing _ _ _ _ _ _ _ _ F HP H).
  - exact (copy_to_pruned_top_complete _ _ _ _ _ _ _ _ F T HP H).
  - intros f t I Ls La.
    destruct (copy_to_pruned_top_written _ _ _ _ _ _ _ _ F T HP H f t I Ls La) as (a & v & Er & Lv & Cv).
    injection Er as <-. eauto.
Qed.

(* ------------------------------------------------------------------------------------- *)
(* 9. a populated target, retyped with the pruned lists at every level *)

(* the value carries the type t from now on: the type list of an object, the element type of a
   list or map, recursively in the values which are held (an attribute whose type was removed
   keeps its value as it is: it is not looked at any more) *)
Fixpoint retype (t : tfty) (v : tfval) {struct v} : tfval :=
  match v with
  | VObj a n u at0 =>
      match t with
      | TyObj ats =>
          VObj ats n u
               (match at0 with
                | Some l =>
                    Some ((fix go (l : list (string * tfval)) : list (string * tfval) :=
                             match l with
                             | [] => []
                             | (k, x) :: r =>
                                 (k, match lookup k ats with Some t1 => retype t1 x | None => x end) :: go r
                             end) l)
                | None => None
                end)
      | _ => v
      end
  | VList e n u els =>
      match t with
      | TyList e' =>
          VList e' n u
                (match els with
                 | Some l => Some ((fix go (l : list tfval) : list tfval :=
                                      match l with [] => [] | x :: r => retype e' x :: go r end) l)
                 | None => None
                 end)
      | _ => v
      end
  | VMap e n u els =>
      match t with
      | TyMap e' =>
          VMap e' n u
               (match els with
                | Some l => Some ((fix go (l : list (string * tfval)) : list (string * tfval) :=
                                     match l with [] => [] | (k, x) :: r => (k, retype e' x) :: go r end) l)
                | None => None
                end)
      | _ => v
      end
  | _ => v
  end.

Definition retype_attrs (ats : list (string * tfty)) (l : list (string * tfval)) : list (string * tfval) :=
  map (fun kv => (fst kv, match lookup (fst kv) ats with Some t1 => retype t1 (snd kv) | None => snd kv end)) l.

Lemma retype_obj ats a n u at0 :
  retype (TyObj ats) (VObj a n u at0)
  = VObj ats n u (match at0 with Some l => Some (retype_attrs ats l) | None => None end).
Proof.
  cbn [retype]. destruct at0 as [l|]; [|reflexivity]. do 2 f_equal. unfold retype_attrs.
  induction l as [|[k x] r IH]; [reflexivity|]. cbn [map fst snd]. now rewrite IH.
Qed.

Lemma lookup_retype_attrs ats l k :
  lookup k (retype_attrs ats l)
  = match lookup k l with
    | Some x => Some (match lookup k ats with Some t1 => retype t1 x | None => x end)
    | None => None
    end.
Proof.
  unfold retype_attrs. induction l as [|[k' x] r IH]; [reflexivity|]. cbn [map fst snd lookup].
  destruct (String.eqb k k') eqn:E; [|exact IH]. apply String.eqb_eq in E. now subst k'.
Qed.

Lemma ftgt_pr_missing f atys cur : lookup (snake f) atys = None -> ftgt_pr f atys cur = true.
Proof. destruct f as [i om]. unfold snake. cbn [f_info]. intros L. rewrite ftgt_pr_eq, L. reflexivity. Qed.

Lemma retyped_pr_mutual : forall m, tf_ok m = true ->
  forall a n u at0 ats', conforms (TyObj (msg_ty m)) (VObj a n u at0) = true ->
                         null_bare (VObj a n u at0) = true -> pruned (msg_ty m) ats' ->
                         tgt_pr m ats' (unopt (match at0 with Some l => Some (retype_attrs ats' l) | None => None end))
                         = true.
Proof.
  apply (message_ind'
           (fun f => ftf_ok f = true -> forall t t' atys' cur, field_ty f = Some t ->
                     lookup (snake f) atys' = Some t' -> pruned_ty t t' ->
                     (forall v, cur = Some v -> conforms t v = true /\ null_bare v = true) ->
                     ftgt_pr f atys' (option_map (retype t') cur) = true)
           (fun m => tf_ok m = true ->
                     forall a n u at0 ats', conforms (TyObj (msg_ty m)) (VObj a n u at0) = true ->
                       null_bare (VObj a n u at0) = true -> pruned (msg_ty m) ats' ->
                       tgt_pr m ats' (unopt (match at0 with Some l => Some (retype_attrs ats' l) | None => None end))
                       = true)).
  - intros i F t t' atys' cur FT La HL _. rewrite ftgt_pr_eq. unfold snake in La. cbn [f_info] in La.
    rewrite La. cbn [field_ty] in FT. destruct (fi_kind i); inversion FT; subst t; clear FT.
    + apply pruned_ty_prim_inv in HL. subst t'. apply tfkind_eqb_refl.
    + apply pruned_ty_list_inv in HL. destruct HL as (e' & -> & HL).
      apply pruned_ty_prim_inv in HL. subst e'. apply tfkind_eqb_refl.
    + apply pruned_ty_map_inv in HL. destruct HL as (e' & -> & HL).
      apply pruned_ty_prim_inv in HL. subst e'. apply tfkind_eqb_refl.
  - intros i m IH F t t' atys' cur FT La HL HC. rewrite ftgt_pr_eq. unfold snake in La. cbn [f_info] in La.
    rewrite La. cbn [ftf_ok] in F. apply andb_prop in F. destruct F as [_ F2]. specialize (IH F2).
    cbn [field_ty] in FT. destruct (fi_kind i); inversion FT; subst t; clear FT.
    + apply pruned_ty_prim_inv in HL. subst t'. apply tfkind_eqb_refl.
    + apply pruned_ty_list_inv in HL. destruct HL as (e' & -> & HL).
      apply pruned_ty_prim_inv in HL. subst e'. apply tfkind_eqb_refl.
    + (* ObjectKind *)
      apply pruned_ty_obj_inv in HL. destruct HL as (a' & -> & HL).
      destruct cur as [v|]; [|cbn [option_map sub_pr]; now apply pruned_tgt_pr].
      destruct (HC v eq_refl) as [C B]. destruct v; try (cbn [conforms] in C; discriminate C).
      cbn [option_map]. rewrite retype_obj. cbn [sub_pr]. now apply IH with (a := atys) (n := null) (u := unknown).
    + (* ObjectListKind *)
      apply pruned_ty_list_inv in HL. destruct HL as (e' & -> & HL).
      apply pruned_ty_obj_inv in HL. destruct HL as (a' & -> & HL).
      destruct cur as [v|]; [|cbn [option_map sub_pr]; now apply pruned_tgt_pr].
      destruct (HC v eq_refl) as [C _]. destruct v; try (cbn [conforms] in C; discriminate C).
      cbn [option_map retype sub_pr]. now apply pruned_tgt_pr.
    + apply pruned_ty_map_inv in HL. destruct HL as (e' & -> & HL).
      apply pruned_ty_prim_inv in HL. subst e'. apply tfkind_eqb_refl.
    + (* ObjectMapKind *)
      apply pruned_ty_map_inv in HL. destruct HL as (e' & -> & HL).
      apply pruned_ty_obj_inv in HL. destruct HL as (a' & -> & HL).
      destruct cur as [v|]; [|cbn [option_map sub_pr]; now apply pruned_tgt_pr].
      destruct (HC v eq_refl) as [C _]. destruct v; try (cbn [conforms] in C; discriminate C).
      cbn [option_map retype sub_pr]. now apply pruned_tgt_pr.
  - intros nm fs os inj e z IH F a n u at0 ats' C B HP.
    pose proof (pruned_tgt_pr _ F ats' HP) as X0. pose proof (msg_ty_nodup _ F) as NDK.
    pose proof F as F0. rewrite tf_ok_eq in F.
    apply andb_prop in F. destruct F as [F F3]. apply andb_prop in F. destruct F as [F1 _].
    apply nodup_b_NoDup in F1. rewrite forallb_forall in F3. rewrite Forall_forall in IH.
    destruct at0 as [l|]; [|exact X0].
    rewrite conforms_obj in C. apply andb_prop in C. destruct C as [C C3]. apply andb_prop in C.
    destruct C as [C1 _]. apply tfty_eqb_eq in C1. injection C1 as <-.
    cbn [null_bare] in B. apply andb_prop in B. destruct B as [B1 B2]. cbn [unopt].
    destruct n.
    { destruct l; [exact X0|discriminate B1]. }
    cbn [orb] in C3. unfold attrs_conform in C3. apply andb_prop in C3. destruct C3 as [C3 _].
    rewrite forallb_forall in C3.
    rewrite tgt_pr_eq, forallb_forall. intros f I.
    destruct (lookup (snake f) ats') as [t'|] eqn:L'; [|now apply ftgt_pr_missing].
    destruct (pruned_lookup _ _ HP NDK _ _ L') as (t & La & Pt).
    pose proof (F3 f I) as Ff.
    assert (FT : field_ty f = Some t).
    { destruct f as [i om]. cbn [ftf_ok] in Ff. apply andb_prop in Ff. destruct Ff as [Fi _].
      destruct (field_ty_some _ _ Fi) as (t0 & FT). rewrite msg_ty_eq in La.
      rewrite (lookup_fields_ty _ _ _ F1 I FT) in La. now injection La as <-. }
    rewrite lookup_retype_attrs, L'.
    change (match lookup (snake f) l with Some x => Some (retype t' x) | None => None end)
      with (option_map (retype t') (lookup (snake f) l)).
    apply (IH f I Ff t t' ats' _ FT L' Pt). intros v Lv.
    pose proof (C3 _ (lookup_In _ _ _ La)) as Cv. cbn [fst snd] in Cv. rewrite Lv in Cv.
    split; [exact Cv|exact (lookup_null_bare _ _ _ Lv B2)].
Qed.

(* a target of the schema's type at every depth ([conforms], any values held, null objects bare),
   for instance the result of an earlier CopyTo, retyped with a pruned type: in the class *)
Theorem retyped_target_pr m t0 ats' :
  tf_ok m = true -> conforms (TyObj (msg_ty m)) t0 = true -> null_bare t0 = true ->
  pruned (msg_ty m) ats' -> target_pr m (retype (TyObj ats') t0) = true.
Proof.
  intros F C B HP. destruct t0; try (cbn [conforms] in C; discriminate C).
  rewrite retype_obj. cbn [target_pr]. now apply retyped_pr_mutual with (a := atys) (n := null) (u := unknown).
Qed.

Theorem copy_to_retyped_never_panics_partial hook m obj t0 ats' :
  tf_ok m = true -> typed m obj ->
  conforms (TyObj (msg_ty m)) t0 = true -> null_bare t0 = true -> pruned (msg_ty m) ats' ->
  exists r ds, copy_to hook m obj (retype (TyObj ats') t0) = Ok (r, ds).
Proof.
  intros F T C B HP. apply copy_to_pr_never_panics_partial; [exact F|exact T|now apply retyped_target_pr].
Qed.

Theorem copy_to_retyped_only_missing hook m obj t0 ats' r ds :
  tf_ok m = true ->
  conforms (TyObj (msg_ty m)) t0 = true -> null_bare t0 = true -> pruned (msg_ty m) ats' ->
  copy_to hook m obj (retype (TyObj ats') t0) = Ok (r, ds) ->
  forall d, In d ds -> fst d = WriteMissing.
Proof.
  intros F C B HP H. exact (copy_to_pr_only_missing _ _ _ _ _ _ F (retyped_target_pr _ _ _ F C B HP) H).
Qed.

Theorem copy_to_retyped_top_complete hook m obj t0 ats' r ds :
  conforms (TyObj (msg_ty m)) t0 = true ->
  copy_to hook m obj (retype (TyObj ats') t0) = Ok (r, ds) ->
  forall f, In f (m_fields m) -> lookup (fi_snake (f_info f)) ats' = None ->
            In (WriteMissing, fi_path (f_info f)) ds.
Proof.
  intros C H f I L. destruct t0; try (cbn [conforms] in C; discriminate C).
  rewrite retype_obj in H. exact (copy_to_missing_reported _ _ _ _ _ _ _ _ _ _ H I L).
Qed.

(* ------------------------------------------------------------------------------------- *)
(* 10. the result of CopyTo into an object without values: its null objects hold nothing *)

Definition attrs_nb (l : list (string * tfval)) : bool := forallb (fun kv => null_bare (snd kv)) l.

Section NullBare.
  Variable hook : hook_to_t.

  Definition msg_nb (m : message) : Prop :=
    forall obj atys ds attrs' ds',
      to_fields hook m obj atys ([], ds) = Ok (attrs', ds') -> attrs_nb attrs' = true.

  Definition field_nb (f : field) : Prop :=
    forall obj atys attrs ds attrs' ds',
      to_field hook f obj atys (attrs, ds) = Ok (attrs', ds') ->
      lookup (snake f) attrs = None -> attrs_nb attrs = true -> attrs_nb attrs' = true.

  Lemma obj_value_nb i obj m' rd ats ds v ds' :
    msg_nb m' -> obj_value hook i obj None m' rd ats ds = Ok (v, ds') -> null_bare v = true.
  Proof.
    intros G H. unfold obj_value in H. cbv beta iota zeta in H.
    assert (K : forall x, (do st' <- to_fields hook m' x ats ([], ds);
                           let '(attrs', ds') := st' in
                           Ok (VObj ats false false (Some attrs'), ds')) = Ok (v, ds') -> null_bare v = true).
    { intros x Hx. destruct (to_fields hook m' x ats ([], ds)) as [[a1 d1]|] eqn:Ef; cbn [bind] in Hx;
        [|discriminate Hx].
      inversion Hx; subst. cbn [null_bare andb]. exact (G _ _ _ _ _ Ef). }
    destruct (fi_nullable i).
    - destruct rd as [g|]; cbn [bind] in H; [|discriminate H].
      destruct g as [p|o|o|o|o|fs|o]; try discriminate H. destruct o as [inner|].
      + exact (K _ H).
      + inversion H; subst. reflexivity.
    - destruct (m_empty m'); [exact (K _ H)|].
      destruct rd as [g|]; cbn [bind] in H; [|discriminate H]. exact (K _ H).
  Qed.

  Lemma field_nb_step i om :
    finfo_ok i om = true -> (forall m', om = Some m' -> msg_nb m') -> field_nb (Field i om).
  Proof.
    intros F Q obj atys attrs ds attrs' ds' H Lc B.
    destruct (finfo_ok_inv _ _ F) as (_ & _ & NC & _).
    rewrite to_field_eq in H. cbv zeta in H. unfold snake in Lc. cbn [f_info] in Lc. rewrite Lc in H.
    unfold attrs_nb in *.
    destruct (lookup (fi_snake i) atys) as [t|]; [|inversion H; subst; exact B].
    destruct (fi_kind i) eqn:K.
    - bindH H E0. clear E0 bres. bindH H E. destruct bres as [v d1]. inversion H; subst.
      apply forallb_update; [|exact B]. apply to_prim_value_shape in E. destruct E as (n & p & ->). reflexivity.
    - destruct t as [k|ety|e|ats|s]; try (inversion H; subst; exact B).
      cbv beta iota in H. repeat step H; (apply forallb_update; [reflexivity|exact B]).
    - destruct om as [m'|]; [|discriminate H]. bindH H E0. rename bres into g0.
      destruct t as [k|e|e|ats|s]; try (inversion H; subst; exact B).
      bindH H E. destruct bres as [v d1]. inversion H; subst.
      apply forallb_update; [|exact B]. exact (obj_value_nb _ _ _ _ _ _ _ _ (Q m' eq_refl) E).
    - destruct t as [k|ety|e|ats|s]; try (inversion H; subst; exact B).
      cbv beta iota in H. repeat step H; (apply forallb_update; [reflexivity|exact B]).
    - destruct t as [k|e|ety|ats|s]; try (inversion H; subst; exact B).
      cbv beta iota in H. repeat step H; (apply forallb_update; [reflexivity|exact B]).
    - destruct t as [k|e|ety|ats|s]; try (inversion H; subst; exact B).
      cbv beta iota in H. repeat step H; (apply forallb_update; [reflexivity|exact B]).
    - now contradiction NC.
  Qed.

  Lemma field_list_nb l obj atys :
    Forall field_nb l -> NoDup (snakes l) ->
    forall attrs ds attrs' ds',
      to_field_list hook l obj atys (attrs, ds) = Ok (attrs', ds') ->
      (forall f, In f l -> lookup (snake f) attrs = None) -> attrs_nb attrs = true -> attrs_nb attrs' = true.
  Proof.
    induction l as [|f r IH]; intros G ND attrs ds attrs' ds' H N B; cbn [to_field_list] in H.
    - inversion H; subst. exact B.
    - inversion G as [|? ? Gf Gr]; subst. cbn [snakes map] in ND. inversion ND as [|? ? N1 N2]; subst.
      destruct (to_field hook f obj atys (attrs, ds)) as [[a1 d1]|] eqn:E; cbn [bind] in H; [|discriminate H].
      apply (IH Gr N2 _ _ _ _ H).
      + intros f' I. rewrite (to_field_local _ _ _ _ _ _ _ _ E (snake f')); [apply N; now right|].
        intros Eq. apply N1. change (fi_snake (f_info f)) with (snake f) in Eq. rewrite <- Eq.
        now apply in_map.
      + exact (Gf _ _ _ _ _ _ E (N f (or_introl eq_refl)) B).
  Qed.

  Lemma nb_mutual : forall m, tf_ok m = true -> msg_nb m.
  Proof.
    apply (message_ind' (fun f => ftf_ok f = true -> field_nb f) (fun m => tf_ok m = true -> msg_nb m)).
    - intros i F. cbn [ftf_ok] in F. rewrite andb_true_r in F. apply field_nb_step; [exact F|]. intros m' [=].
    - intros i m IH F. cbn [ftf_ok] in F. apply andb_prop in F. destruct F as [F1 F2].
      apply field_nb_step; [exact F1|]. intros m' [= <-]. exact (IH F2).
    - intros n fs os inj e z IH F obj atys ds attrs' ds' H. rewrite tf_ok_eq in F.
      apply andb_prop in F. destruct F as [F F3]. apply andb_prop in F. destruct F as [F1 _].
      apply nodup_b_NoDup in F1. rewrite forallb_forall in F3. rewrite to_fields_list in H.
      assert (G : Forall field_nb fs).
      { rewrite Forall_forall in IH |- *. intros f I. exact (IH f I (F3 f I)). }
      apply (field_list_nb fs obj atys G F1 _ _ _ _ H); [intros f I|]; reflexivity.
  Qed.
End NullBare.

Theorem copy_to_empty_null_bare hook m obj atys n u r ds :
  tf_ok m = true -> copy_to hook m obj (VObj atys n u None) = Ok (r, ds) -> null_bare r = true.
Proof.
  intros F H. unfold copy_to in H.
  destruct (to_fields hook m obj atys ([], [])) as [[a d]|] eqn:E; cbn [bind] in H; [|discriminate H].
  inversion H; subst. cbn [null_bare andb]. exact (nb_mutual hook m F _ _ _ _ _ E).
Qed.

(* C06 on a populated target: the result of an earlier CopyTo into the object of the schema's
   type, retyped with a pruned type at every level, then written into again (another Go value) *)
Theorem copy_to_repopulated_pruned_partial hook m obj obj' t0 ds0 ats' :
  tf_ok m = true -> typed m obj -> typed m obj' ->
  copy_to hook m obj (VObj (msg_ty m) false false None) = Ok (t0, ds0) ->
  pruned (msg_ty m) ats' ->
  exists r ds,
    copy_to hook m obj' (retype (TyObj ats') t0) = Ok (r, ds)
    /\ (forall d, In d ds -> fst d = WriteMissing)
    /\ (forall f, In f (m_fields m) -> lookup (fi_snake (f_info f)) ats' = None ->
                  In (WriteMissing, fi_path (f_info f)) ds).
Proof.
  intros F T T' H0 HP.
  pose proof (copy_to_conforms_partial hook m obj t0 ds0 F T H0) as C.
  pose proof (copy_to_empty_null_bare _ _ _ _ _ _ _ _ F H0) as B.
  destruct (copy_to_retyped_never_panics_partial hook m obj' t0 ats' F T' C B HP) as (r & ds & H).
  exists r, ds. split; [exact H|]. split.
  - exact (copy_to_retyped_only_missing _ _ _ _ _ _ _ F C B HP H).
  - exact (copy_to_retyped_top_complete _ _ _ _ _ _ _ C H).
Qed.

(* ------------------------------------------------------------------------------------- *)
(* 11. computed on the message of MsgRoundTrip.RTExample *)

Ltac prune_tac :=
  lazymatch goal with
  | |- pruned [] [] => apply P_nil
  | |- pruned (_ :: _) [] => apply P_drop; prune_tac
  | |- pruned ((?k, _) :: _) ((?k, _) :: _) => apply P_keep; [prune_ty_tac|prune_tac]
  | |- pruned (_ :: _) (_ :: _) => apply P_drop; prune_tac
  end
with prune_ty_tac :=
  lazymatch goal with
  | |- pruned_ty (TyObj _) (TyObj _) => apply PT_obj; prune_tac
  | |- pruned_ty (TyList _) (TyList _) => apply PT_list; prune_ty_tac
  | |- pruned_ty (TyMap _) (TyMap _) => apply PT_map; prune_ty_tac
  | |- pruned_ty (TyPrim _) (TyPrim _) => apply PT_prim
  | |- pruned_ty (TyHook _) (TyHook _) => apply PT_hook
  end.

Module PrunedExamples.
  Import MsgRoundTrip.RTExample.
  Local Open Scope string_scope.
  Local Open Scope Z_scope.

  (* like [value], with a map of messages which is not nil *)
  Definition value_m : goval :=
    GStruct [("Kind", GOneof (Some ("Y", GPtr (Some (inn "hi" 18446744073709551615)))));
             ("Other", GOneof (Some ("Z", GPrim (PInt 0))));
             ("Items", GSlice (Some [GPtr (Some (inn "" 7)); GPtr None]));
             ("Labels", GMap (Some [("a", GPrim (PStr "x")); ("b", GPrim (PStr ""))]));
             ("Tags", GSlice (Some [GBytes None; GBytes (Some "z"); GBytes (Some "")]));
             ("Sub", inn "s" 0);
             ("P", GPtr (Some (GPrim (PBool false))));
             ("N", GPrim (PF32 (SpecFloat.S754_zero true)));
             ("E", GPtr (Some (GStruct [])));
             ("T", GPrim (PTime 5 6 7));
             ("M", GMap (Some [("k1", inn "q" 1); ("k2", inn "r" 2)]))].

  Lemma inn_typed a u : typed inner (inn a u).
  Proof.
    unfold inner. rewrite typed_eq. eexists. split; [reflexivity|]. repeat constructor.
    - cbn. eexists. split; [reflexivity|]. reflexivity.
    - cbn. eexists. split; [reflexivity|]. reflexivity.
  Qed.

  Lemma value_m_typed : typed outer value_m.
  Proof.
    pose proof inn_typed as T.
    unfold outer. rewrite typed_eq. eexists. split; [reflexivity|].
    repeat apply Forall_cons; try apply Forall_nil; cbn [ftyped mk fi_placeholder];
      unfold reads, val_shape, elem_shape; cbn [mk fi_oneof fi_kind fi_nullable fi_name fi_tk];
      (eexists; split; [reflexivity|]).
    - right. do 2 eexists. split; [reflexivity|]. discriminate.
    - right. do 2 eexists. split; [reflexivity|]. intros _. right. eauto.
    - eexists. split; [reflexivity|]. intros l [= <-].
      apply Forall_cons; [right; eauto|apply Forall_cons; [now left|apply Forall_nil]].
    - eexists. split; [reflexivity|]. intros l [= <-]. repeat constructor.
    - eexists. split; [reflexivity|]. intros l [= <-]. repeat constructor.
    - apply T.
    - right. eexists. split; [reflexivity|]. reflexivity.
    - reflexivity.
    - right. eexists. split; [reflexivity|]. apply empty_typed; reflexivity.
    - reflexivity.
    - eexists. split; [reflexivity|]. intros l [= <-]. repeat constructor; apply T.
    - right. do 2 eexists. split; [reflexivity|]. intros _. reflexivity.
  Qed.

  (* removed: at the top level "x" (a oneof branch) and "tags" (a list of scalars); in the nested
     object "sub": "a"; in the object "e": its only attribute type (the placeholder); in the
     element type of the list of messages "items": "u"; in the element type of the map of messages
     "m": "a" *)
  Definition ex_ats : list (string * tfty) :=
    [("y", TyObj [("a", TyPrim KStr); ("u", TyPrim KI64)]);
     ("items", TyList (TyObj [("a", TyPrim KStr)]));
     ("labels", TyMap (TyPrim KStr));
     ("sub", TyObj [("u", TyPrim KI64)]);
     ("p", TyPrim KBool); ("n", TyPrim KF64);
     ("e", TyObj []);
     ("t", TyPrim KTime);
     ("m", TyMap (TyObj [("u", TyPrim KI64)]));
     ("z", TyPrim KI64)].

  Lemma ex_pruned : pruned (msg_ty outer) ex_ats.
  Proof. vm_compute. prune_tac. Qed.

  Example ex_classes :
    target_pr outer (VObj ex_ats false false None) = true
    /\ target_ok outer (VObj ex_ats false false None) = true
    /\ target_exact outer (VObj ex_ats false false None) = false.
  Proof. repeat split; vm_compute; reflexivity. Qed.

  (* no panic, one WriteMissing for each removed type which is met (the paths of this example are
     the attribute names: "a" of "sub" and "a" of the elements of "m" are one diagnostic) *)
  Example ex_diagnostics :
    exists r, copy_to std_hook_to outer value_m (VObj ex_ats false false None)
              = Ok (r, [(WriteMissing, "x"); (WriteMissing, "u"); (WriteMissing, "tags"); (WriteMissing, "a");
                        (WriteMissing, "Outer.E.active")]).
  Proof. eexists. vm_compute. reflexivity. Qed.

  (* with the nil map of [value] nothing is said about the element type of "m" *)
  Example ex_diagnostics_nil_map :
    exists r, copy_to std_hook_to outer value (VObj ex_ats false false None)
              = Ok (r, [(WriteMissing, "x"); (WriteMissing, "u"); (WriteMissing, "tags"); (WriteMissing, "a");
                        (WriteMissing, "Outer.E.active")]).
  Proof. eexists. vm_compute. reflexivity. Qed.

  (* one removal at a time *)
  Example ex_scalar : exists r, copy_to std_hook_to outer value_m (VObj (remove "p" (msg_ty outer)) false false None)
                                = Ok (r, [(WriteMissing, "p")]).
  Proof. eexists. vm_compute. reflexivity. Qed.

  Example ex_object : exists r, copy_to std_hook_to outer value_m (VObj (remove "sub" (msg_ty outer)) false false None)
                                = Ok (r, [(WriteMissing, "sub")]).
  Proof. eexists. vm_compute. reflexivity. Qed.

  Example ex_in_map_elem :
    exists r, copy_to std_hook_to outer value_m
                      (VObj (update "m" (TyMap (TyObj [("a", TyPrim KStr)])) (msg_ty outer)) false false None)
              = Ok (r, [(WriteMissing, "u")]).
  Proof. eexists. vm_compute. reflexivity. Qed.

  (* the theorems on this target *)
  Example ex_spec hook :
    exists attrs ds,
      copy_to hook outer value_m (VObj ex_ats false false None) = Ok (VObj ex_ats false false (Some attrs), ds)
      /\ (forall d, In d ds -> fst d = WriteMissing)
      /\ In (WriteMissing, "x") ds /\ In (WriteMissing, "tags") ds
      /\ (exists v, lookup "y" attrs = Some v /\ conforms (TyObj (msg_ty inner)) v = true)
      /\ (exists v, lookup "labels" attrs = Some v /\ conforms (TyMap (TyPrim KStr)) v = true).
  Proof.
    destruct (copy_to_pruned_spec hook outer value_m ex_ats false false ToMalformed.Panics.outer_tf_ok
                                  value_m_typed ex_pruned) as (attrs & ds & H & OM & TC & TW).
    exists attrs, ds. split; [exact H|]. split; [exact OM|]. split; [|split; [|split]].
    - apply (TC (Field (mk "X" "x" PrimitiveKind KI64 GsInt32 false true (Some "Kind")) None)); [cbn; tauto|reflexivity].
    - apply (TC (Field (mk "Tags" "tags" PrimitiveListKind KStr GsBytes false true None) None)); [cbn; tauto|reflexivity].
    - apply (TW (Field (mk "Y" "y" ObjectKind KI64 GsInt64 true false (Some "Kind")) (Some inner))); [cbn; tauto|reflexivity..].
    - apply (TW (Field (mk "Labels" "labels" PrimitiveMapKind KStr GsString false false None) None)); [cbn; tauto|reflexivity..].
  Qed.

  (* ---- a populated target: the result of a CopyTo of [value_m], retyped ---- *)

  Definition first_m : tfval :=
    match copy_to std_hook_to outer value_m (VObj (msg_ty outer) false false None) with
    | Ok (r, _) => r
    | Panic => VNil
    end.

  Definition repopulated : tfval := retype (TyObj ex_ats) first_m.

  Example repopulated_classes :
    target_pr outer repopulated = true /\ target_exact outer repopulated = false
    /\ null_bare first_m = true /\ conforms (TyObj (msg_ty outer)) first_m = true.
  Proof. repeat split; vm_compute; reflexivity. Qed.

  (* the objects which are held carry the pruned lists: the same diagnostics *)
  Example repopulated_diagnostics :
    exists r, copy_to std_hook_to outer value_m repopulated
              = Ok (r, [(WriteMissing, "x"); (WriteMissing, "u"); (WriteMissing, "tags"); (WriteMissing, "a");
                        (WriteMissing, "Outer.E.active")]).
  Proof. eexists. vm_compute. reflexivity. Qed.

  Example repopulated_thm hook :
    exists t0 r ds,
      copy_to hook outer value_m (VObj (msg_ty outer) false false None) = Ok (t0, [])
      /\ copy_to hook outer value (retype (TyObj ex_ats) t0) = Ok (r, ds)
      /\ (forall d, In d ds -> fst d = WriteMissing).
  Proof.
    destruct (copy_to_total_partial hook outer value_m ToMalformed.Panics.outer_tf_ok value_m_typed) as (attrs & H0).
    destruct (copy_to_repopulated_pruned_partial hook outer value_m value _ _ ex_ats ToMalformed.Panics.outer_tf_ok
                value_m_typed ToMalformed.Panics.value_is_typed H0 ex_pruned) as (r & ds & H & OM & _).
    do 3 eexists. split; [exact H0|]. split; [exact H|exact OM].
  Qed.

  (* ---- outside the relation: a type which is CHANGED, not removed ---- *)

  (* "items" given a list type with a scalar element type is not a pruned type, and panics
     (ToMalformed.Panics.list_elem_not_object); "tags" given a string type yields WriteConv *)
  Example changed_not_pruned :
    target_pr outer (VObj (update "tags" (TyPrim KStr) (msg_ty outer)) false false None) = false
    /\ exists r, copy_to std_hook_to outer value_m (VObj (update "tags" (TyPrim KStr) (msg_ty outer)) false false None)
                 = Ok (r, [(WriteConv, "tags")]).
  Proof. split; [vm_compute; reflexivity|]. eexists. vm_compute. reflexivity. Qed.
End PrunedExamples.

Print Assumptions pruned_target_ok.
Print Assumptions copy_to_pruned_never_panics_partial.
Print Assumptions copy_to_pruned_top_complete.
Print Assumptions copy_to_pruned_top_written.
Print Assumptions copy_to_pruned_only_missing.
Print Assumptions copy_to_pruned_spec.
Print Assumptions copy_to_missing_reported.
Print Assumptions to_fields_diag_mono.
Print Assumptions to_fields_pr_only_missing.
Print Assumptions copy_to_pr_never_panics_partial.
Print Assumptions copy_to_pr_only_missing.
Print Assumptions copy_to_exact_field_written.
Print Assumptions retyped_target_pr.
Print Assumptions copy_to_empty_null_bare.
Print Assumptions copy_to_repopulated_pruned_partial.
