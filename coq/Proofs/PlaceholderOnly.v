(* C01, the flag "message without fields" of a NESTED message.

   The generator's Message.IsEmpty is true whenever the only field of the message is the placeholder
   [active], the placeholder PROMOTED from an embedded message without fields included.  The model's
   front end (Model/Build.v, build_message) sets m_empty only when the message's own field list came
   out empty, so for

     message WrapV { Nothing nothing = 1 [(gogoproto.embed) = true, (gogoproto.nullable) = false]; }
     message Nothing {}

   the IR of WrapV holds the single placeholder promoted from Nothing with m_empty = false, where Go
   has IsEmpty = true.  The converters consult the flag of a nested message to choose between two
   branches (CopyTo: stay on the enclosing Go value / descend into the nested one; CopyFrom: take the
   zero struct / decode into the zero struct).  This file proves that on a message whose only field
   is a placeholder the two branches are the same function, for every value, so the difference of the
   flags cannot be observed.

   1. [placeholder_only]: m_fields m = [Field i None] with fi_placeholder i = true,
      fi_kind i = PrimitiveKind, fi_oneof i = None.  Nothing is asked of fi_via / fi_parent /
      fi_inner: the shape covers the message's own placeholder (placeholder_field_placeholder_only),
      the placeholder handed over by a by-value embedded message (embedded_placeholder_only: same
      finfo) and the one promoted from a nullable embedded message (promoted_placeholder_only:
      fi_via, fi_parent set).
   2. CopyTo: to_fields on such a message does not read the Go value at all
      (to_fields_placeholder_only_obj_irrelevant); to_fields_placeholder_only says what is written
      (the current bool attribute, else the null value of the attribute type with null forced; a
      missing attribute TYPE is reported as WriteMissing).
   3. CopyFrom: from_fields on such a message reads NO attribute (a missing [active] is not
      reported, no diagnostic is ever added: from_fields_placeholder_only_attrs_irrelevant) and returns
      the Go value after the up-front resets [ph_resets] (the message's oneof holders, and the pointer
      of the nullable embedded message the placeholder is promoted from):
      from_fields_placeholder_only.  Without oneofs and with the own placeholder the resets are empty
      and the value is returned unchanged (from_fields_placeholder_only_own); with the promoted one,
      that pointer is set to nil (from_fields_placeholder_only_promoted).
   4. [flip_empty]: the message with m_empty negated.
      C01_placeholder_only_flag_irrelevant_to: UNCONDITIONAL, every field kind (ObjectKind nullable
      or by value, ObjectListKind, ObjectMapKind; the other kinds ignore the message), every Go value
      (nil pointers among list elements / map values, ill-typed values, missing struct fields
      included: the same panic on both sides), every target state.  The by-value non-empty branch
      "do g <- rd; copy g" reads the Go field where the empty branch does not, but the template has
      evaluated the same read before (do _u <- rd), and the element loops pass the element; so no
      side condition "the struct has the field" is left.
      C01_placeholder_only_flag_irrelevant_from: every field kind, every attribute value, every Go
      value, under [zero_reset_ok m']: the up-front resets leave the message's zero struct as it is,
      i.e. m_zero m' holds nil in the holders and in the pointer of the embedded message -- which is
      what a Go zero value is (zero_reset_ok_own, zero_reset_ok_promoted give the two instances).  On
      an ill-formed IR whose m_zero lacks that pointer the decode branch panics where the empty branch
      does not: from_flag_relevant_without_zero_refuted (not reachable from Build.v, whose m_zero is
      zero_struct).
      Both follow from congruence lemmas (to_field_alike, from_field_alike): to_field / from_field
      consult the nested message through m_zero, the flag and to_fields / from_fields only.
   5. [go_flags]: the IR with the generator's flags, the flag raised on EVERY message whose only field
      is a placeholder, at every depth.  C01_go_flags_copy_to (unconditional) and
      C01_go_flags_copy_from (under [deep_zero_ok]: zero_reset_ok at every placeholder-only nested
      message): the converters of the model run on the model's flags and on the generator's flags are
      the same functions.
   6. PhExample: the IR Model/Build.v builds for HasWrap/WrapV/WrapP/Nothing; the nested messages are
      placeholder-only with m_empty = false; both converters run with both flag settings, nil
      elements, a prior state, an ill-shaped Go value and objects lacking [active] included.

   No case was found in which the two branches differ on a well-formed IR. *)
From Coq Require Import List String Bool ZArith.
From PGT Require Import Base.Strs Base.AList Model.Vals Model.IR Model.CopyTo Model.CopyFrom Model.Desc Model.Build.
From PGT Require Import Proofs.CopyToProofs Proofs.CopyFromProofs.
From PGT Require Proofs.CopyToTotal.
Import ListNotations.

(* ------------------------------------------------------------------------------------- *)
(* 1. the shape *)

Definition placeholder_info (i : finfo) : Prop :=
  fi_placeholder i = true /\ fi_kind i = PrimitiveKind /\ fi_oneof i = None.

Definition placeholder_only (m : message) : Prop :=
  exists i, m_fields m = [Field i None] /\ placeholder_info i.

Theorem placeholder_field_placeholder_only path n os inj e z :
  placeholder_only (Msg n [Build.placeholder_field path] os inj e z).
Proof. eexists. split; [reflexivity|]. repeat split. Qed.
Print Assumptions placeholder_field_placeholder_only.

(* the re-labelling Build.build_view applies to the fields of a nullable embedded message keeps the shape *)
Definition promote (pn : string) (pz : goval) (c : field) : field :=
  match c with
  | Field ci cm =>
      Field {| fi_name := fi_name ci; fi_snake := fi_snake ci; fi_path := fi_path ci;
               fi_kind := fi_kind ci; fi_tk := fi_tk ci; fi_cast := fi_cast ci;
               fi_nullable := fi_nullable ci; fi_zero := fi_zero ci;
               fi_placeholder := fi_placeholder ci; fi_oneof := fi_oneof ci;
               fi_via := pn :: fi_via ci;
               fi_parent := Some (pn, pz);
               fi_inner := match fi_parent ci with Some pq => pq :: fi_inner ci | None => [] end;
               fi_required := fi_required ci; fi_computed := fi_computed ci;
               fi_sensitive := fi_sensitive ci; fi_validators := fi_validators ci;
               fi_planmods := fi_planmods ci; fi_comment := fi_comment ci;
               fi_suffix := fi_suffix ci |} cm
  end.

Theorem promoted_placeholder_only m pn pz n os inj e z :
  placeholder_only m -> placeholder_only (Msg n (map (promote pn pz) (m_fields m)) os inj e z).
Proof.
  intros (i & F & P & K & O). rewrite F. cbn [map promote m_fields].
  eexists. split; [reflexivity|]. repeat split; assumption.
Qed.
Print Assumptions promoted_placeholder_only.

(* an embedded message by value hands its fields over as they are *)
Theorem embedded_placeholder_only m n os inj e z :
  placeholder_only m -> placeholder_only (Msg n (m_fields m) os inj e z).
Proof. intros (i & F & P). exists i. split; [exact F|exact P]. Qed.
Print Assumptions embedded_placeholder_only.

Definition flip_empty (m : message) : message :=
  match m with Msg n fs os inj e z => Msg n fs os inj (negb e) z end.

Lemma flip_empty_fields m : m_fields (flip_empty m) = m_fields m.
Proof. now destruct m. Qed.
Lemma flip_empty_oneofs m : m_oneofs (flip_empty m) = m_oneofs m.
Proof. now destruct m. Qed.
Lemma flip_empty_zero m : m_zero (flip_empty m) = m_zero m.
Proof. now destruct m. Qed.
Lemma flip_empty_empty m : m_empty (flip_empty m) = negb (m_empty m).
Proof. now destruct m. Qed.
Lemma flip_empty_involutive m : flip_empty (flip_empty m) = m.
Proof. destruct m. cbn [flip_empty]. now rewrite negb_involutive. Qed.

Theorem flip_empty_placeholder_only m : placeholder_only m -> placeholder_only (flip_empty m).
Proof. intros (i & F & P). exists i. rewrite flip_empty_fields. split; assumption. Qed.
Print Assumptions flip_empty_placeholder_only.

(* ------------------------------------------------------------------------------------- *)
(* 2. CopyTo *)

(* the placeholder is written from the attribute type and the current attribute alone *)
Lemma to_prim_value_placeholder_irrelevant i rd1 rd2 obj1 obj2 t cur ds :
  fi_placeholder i = true ->
  to_prim_value i rd1 obj1 t cur ds = to_prim_value i rd2 obj2 t cur ds.
Proof. intros P. unfold to_prim_value. rewrite P. reflexivity. Qed.

Lemma to_field_placeholder_obj_irrelevant hook i obj1 obj2 atys st :
  placeholder_info i ->
  to_field hook (Field i None) obj1 atys st = to_field hook (Field i None) obj2 atys st.
Proof.
  intros (P & K & O). destruct st as [attrs ds]. rewrite !to_field_eq. cbv zeta. rewrite K, O.
  destruct (lookup (fi_snake i) atys) as [t|]; [|reflexivity]. cbn [bind].
  now rewrite (to_prim_value_placeholder_irrelevant i (read_field i (zero_of_prim i) obj1)
                 (read_field i (zero_of_prim i) obj2) obj1 obj2 t _ ds P).
Qed.

Theorem to_fields_placeholder_only_obj_irrelevant hook m obj1 obj2 atys st :
  placeholder_only m -> to_fields hook m obj1 atys st = to_fields hook m obj2 atys st.
Proof.
  intros (i & F & P). rewrite !to_fields_m_fields, F. cbn [to_field_list].
  now rewrite (to_field_placeholder_obj_irrelevant hook i obj1 obj2 atys st P).
Qed.
Print Assumptions to_fields_placeholder_only_obj_irrelevant.

(* what is written: the current [active] attribute when it is a bool, else the null value of the
   attribute type (null is forced), with a conversion diagnostic when that type is no bool-kinded
   primitive; a missing attribute type is reported *)
Definition placeholder_write (i : finfo) (t : tfty) (cur : option tfval) (ds : list diag) : tfval * list diag :=
  let k := fi_tk i in
  match (match cur with
         | Some (VPrim k' n u p) => if tfkind_eqb k k' then Some (n, u, p) else None
         | _ => None
         end) with
  | Some (n, u, p) => (VPrim k n false p, ds)
  | None =>
      match null_value t with
      | VPrim k' n u p =>
          if tfkind_eqb k k' then (VPrim k true false p, ds)
          else (VPrim k true false (zero_prim_of_kind k), diag_append ds (WriteConv, fi_path i))
      | _ => (VPrim k true false (zero_prim_of_kind k), diag_append ds (WriteConv, fi_path i))
      end
  end.

Lemma to_prim_value_placeholder_eq i rd obj t cur ds :
  fi_placeholder i = true -> to_prim_value i rd obj t cur ds = Ok (placeholder_write i t cur ds).
Proof.
  intros P. unfold to_prim_value, placeholder_write. rewrite P.
  destruct cur as [[k' n u p| | | | |]|]; try destruct (tfkind_eqb (fi_tk i) k'); cbn [bind]; try reflexivity.
  all: destruct (null_value t) as [k2 n2 u2 p2| | | | |]; try destruct (tfkind_eqb (fi_tk i) k2); reflexivity.
Qed.

Theorem to_fields_placeholder_only hook m obj atys attrs ds :
  placeholder_only m ->
  exists i, m_fields m = [Field i None] /\ placeholder_info i /\
    to_fields hook m obj atys (attrs, ds) =
    match lookup (fi_snake i) atys with
    | None => Ok (attrs, diag_append ds (WriteMissing, fi_path i))
    | Some t =>
        let '(v, ds') := placeholder_write i t (lookup (fi_snake i) attrs) ds in
        Ok (update (fi_snake i) v attrs, ds')
    end.
Proof.
  intros (i & F & P). exists i. split; [exact F|]. split; [exact P|]. destruct P as (P & K & O).
  rewrite to_fields_m_fields, F. cbn [to_field_list]. rewrite to_field_eq. cbv zeta. rewrite K, O.
  destruct (lookup (fi_snake i) atys) as [t|]; [|reflexivity]. cbn [bind].
  rewrite (to_prim_value_placeholder_eq i _ obj t _ ds P). cbn [bind].
  destruct (placeholder_write i t (lookup (fi_snake i) attrs) ds). reflexivity.
Qed.
Print Assumptions to_fields_placeholder_only.

(* the flag is not consulted by to_fields itself *)
Lemma to_fields_flip_empty hook m obj atys st :
  to_fields hook (flip_empty m) obj atys st = to_fields hook m obj atys st.
Proof. now rewrite !to_fields_m_fields, flip_empty_fields. Qed.

(* genObjectBody on a value that has been read, for two nested messages which are written alike: the flags
   may differ when the writes do not depend on the Go value *)
Definition to_alike (hook : hook_to_t) (m1 m2 : message) : Prop :=
  m_zero m1 = m_zero m2
  /\ (forall o atys st, to_fields hook m1 o atys st = to_fields hook m2 o atys st)
  /\ (m_empty m1 = m_empty m2
      \/ forall o1 o2 atys st, to_fields hook m1 o1 atys st = to_fields hook m1 o2 atys st).

Lemma obj_value_alike hook i obj cur m1 m2 g ats ds :
  to_alike hook m1 m2 ->
  obj_value hook i obj cur m1 (Ok g) ats ds = obj_value hook i obj cur m2 (Ok g) ats ds.
Proof.
  intros (_ & E & H). unfold obj_value.
  destruct (match cur with
            | Some (VObj a n u at0) => (a, n, match at0 with Some x => x | None => [] end)
            | _ => (ats, false, [])
            end) as [[oatys n0] attrs0].
  cbn [bind].
  destruct (fi_nullable i); [destruct g as [| |[inner|]| | | |]; try reflexivity|]; rewrite <- !E.
  all: destruct H as [->|Irr]; [reflexivity|].
  all: destruct (m_empty m1), (m_empty m2); try reflexivity;
    first [now rewrite (Irr obj inner) | now rewrite (Irr inner obj)
          | now rewrite (Irr obj g) | now rewrite (Irr g obj)].
Qed.

Lemma fold_left_ext {A B} (f g : B -> A -> B) l : forall b,
  (forall b a, f b a = g b a) -> fold_left f l b = fold_left g l b.
Proof.
  induction l as [|a r IH]; intros b H; [reflexivity|]. cbn [fold_left]. rewrite H. now apply IH.
Qed.

(* to_field consults the nested message through obj_value (after the read) and m_zero only *)
Lemma to_field_alike hook i m1 m2 obj atys st :
  to_alike hook m1 m2 ->
  to_field hook (Field i (Some m1)) obj atys st = to_field hook (Field i (Some m2)) obj atys st.
Proof.
  intros AL. pose proof AL as (Z & _). destruct st as [attrs ds]. rewrite !to_field_eq. cbv zeta.
  destruct (lookup (fi_snake i) atys) as [t|]; [|reflexivity].
  destruct (fi_kind i); try reflexivity.
  - (* ObjectKind *)
    rewrite <- Z.
    destruct (read_source i (if fi_nullable i then GPtr None else m_zero m1) obj) as [g|]; [|reflexivity].
    cbn [bind]. destruct t; try reflexivity.
    now rewrite (obj_value_alike hook i obj _ m1 m2 g ats ds AL).
  - (* ObjectListKind *)
    destruct t as [|ety| | |]; try reflexivity.
    destruct (read_source i (GSlice None) obj) as [g|]; [|reflexivity]. cbn [bind].
    destruct g as [| | |src| | |]; try reflexivity.
    destruct (match lookup (fi_snake i) attrs with
              | Some (VList e n0 _ el) => _
              | _ => _
              end) as [[cety cn] celems].
    destruct src as [l|]; [|reflexivity].
    destruct ety as [| | |ats|]; try reflexivity.
    f_equal. apply fold_left_ext. intros [[vs ds1]|] a; [|reflexivity]. cbn [bind].
    now rewrite (obj_value_alike hook i obj _ m1 m2 a ats ds1 AL).
  - (* ObjectMapKind *)
    destruct t as [| |ety| |]; try reflexivity.
    destruct (read_source i (GMap None) obj) as [g|]; [|reflexivity]. cbn [bind].
    destruct g as [| | | |src| |]; try reflexivity.
    destruct (match lookup (fi_snake i) attrs with
              | Some (VMap e n0 _ el) => _
              | _ => _
              end) as [[cety cn] celems].
    destruct src as [l|]; [|reflexivity].
    destruct ety as [| | |ats|]; try reflexivity.
    f_equal. apply fold_left_ext. intros [[es ds1]|] ka; [|reflexivity]. cbn [bind].
    now rewrite (obj_value_alike hook i obj _ m1 m2 (snd ka) ats ds1 AL).
Qed.

Lemma to_alike_flip_empty hook m' : placeholder_only m' -> to_alike hook m' (flip_empty m').
Proof.
  intros PO. split; [now rewrite flip_empty_zero|]. split.
  - intros o atys st. now rewrite to_fields_flip_empty.
  - right. intros o1 o2 atys st. now apply to_fields_placeholder_only_obj_irrelevant.
Qed.

(* UNCONDITIONAL: every kind of field, every Go value, every target.  The read the non-empty by-value branch
   performs (do g <- rd) has been evaluated before by the same template (do _u <- rd), and the element loops
   pass the element: no "the struct has the field" side condition is left. *)
Theorem C01_placeholder_only_flag_irrelevant_to hook i m' obj atys st :
  placeholder_only m' ->
  to_field hook (Field i (Some m')) obj atys st = to_field hook (Field i (Some (flip_empty m'))) obj atys st.
Proof. intros PO. apply to_field_alike. now apply to_alike_flip_empty. Qed.
Print Assumptions C01_placeholder_only_flag_irrelevant_to.

(* ------------------------------------------------------------------------------------- *)
(* 3. CopyFrom *)

(* the up-front resets of from_fields on a placeholder-only message: the message's own oneof holders, then
   the pointer of the nullable embedded message the placeholder is promoted from *)
Definition ph_resets (m : message) (obj : goval) : res goval :=
  do o1 <- fold_res reset_oneof (m_oneofs m) obj;
  fold_res reset_parent (m_fields m) o1.

(* from_fields reads no attribute and adds no diagnostic: the placeholder is skipped *)
Theorem from_fields_placeholder_only hook m attrs obj ds :
  placeholder_only m ->
  from_fields hook m attrs (obj, ds) = do o <- ph_resets m obj; Ok (o, ds).
Proof.
  intros (i & F & P & K & O). destruct m as [n fs os inj e z]. cbn [m_fields] in F. subst fs.
  rewrite from_fields_unfold. unfold ph_resets. cbn [m_oneofs m_fields fst snd].
  destruct (fold_res reset_oneof os obj) as [o1|]; [|reflexivity]. cbn [bind fold_res].
  unfold reset_promoted. cbn [f_info]. rewrite O. cbn [bind].
  destruct (reset_parent o1 (Field i None)) as [o3|]; [|reflexivity]. cbn [bind from_field_list f_info].
  now rewrite P.
Qed.
Print Assumptions from_fields_placeholder_only.

Corollary from_fields_placeholder_only_attrs_irrelevant hook m attrs1 attrs2 st :
  placeholder_only m -> from_fields hook m attrs1 st = from_fields hook m attrs2 st.
Proof. intros PO. destruct st as [obj ds]. now rewrite !from_fields_placeholder_only. Qed.
Print Assumptions from_fields_placeholder_only_attrs_irrelevant.

Lemma ph_resets_own m i obj :
  m_fields m = [Field i None] -> fi_parent i = None -> m_oneofs m = [] -> ph_resets m obj = Ok obj.
Proof.
  intros F Pa Os. unfold ph_resets. rewrite F, Os. cbn [fold_res bind]. unfold reset_parent. cbn [f_info].
  now rewrite Pa.
Qed.

Lemma ph_resets_promoted m i pn pz obj :
  m_fields m = [Field i None] -> fi_parent i = Some (pn, pz) -> m_oneofs m = [] ->
  ph_resets m obj = gset obj pn (GPtr None).
Proof.
  intros F Pa Os. unfold ph_resets. rewrite F, Os. cbn [fold_res bind]. unfold reset_parent. cbn [f_info].
  rewrite Pa. now destruct (gset obj pn (GPtr None)).
Qed.

(* the message's own placeholder, no oneof: the Go value is returned as it is, whatever the attributes *)
Corollary from_fields_placeholder_only_own hook m i attrs obj ds :
  m_fields m = [Field i None] -> placeholder_info i -> fi_parent i = None -> m_oneofs m = [] ->
  from_fields hook m attrs (obj, ds) = Ok (obj, ds).
Proof.
  intros F P Pa Os. rewrite from_fields_placeholder_only by (exists i; now split).
  now rewrite (ph_resets_own m i obj F Pa Os).
Qed.
Print Assumptions from_fields_placeholder_only_own.

(* the placeholder promoted from a nullable embedded message: that pointer is set to nil, nothing else *)
Corollary from_fields_placeholder_only_promoted hook m i pn pz attrs obj ds :
  m_fields m = [Field i None] -> placeholder_info i -> fi_parent i = Some (pn, pz) -> m_oneofs m = [] ->
  from_fields hook m attrs (obj, ds) = do o <- gset obj pn (GPtr None); Ok (o, ds).
Proof.
  intros F P Pa Os. rewrite from_fields_placeholder_only by (exists i; now split).
  now rewrite (ph_resets_promoted m i pn pz obj F Pa Os).
Qed.
Print Assumptions from_fields_placeholder_only_promoted.

(* the resets leave the zero struct of the message as it is *)
Definition zero_reset_ok (m : message) : Prop := ph_resets m (m_zero m) = Ok (m_zero m).

Lemma zero_reset_ok_own m i :
  m_fields m = [Field i None] -> fi_parent i = None -> m_oneofs m = [] -> zero_reset_ok m.
Proof. intros F Pa Os. exact (ph_resets_own m i (m_zero m) F Pa Os). Qed.

Lemma update_same_val {A} k (v : A) l : lookup k l = Some v -> update k v l = l.
Proof.
  induction l as [|[k' x] r IH]; cbn [lookup update]; [discriminate|].
  destruct (String.eqb k k') eqn:E.
  - apply String.eqb_eq in E. subst k'. now intros [= ->].
  - intros H. now rewrite IH.
Qed.

Lemma gset_same_val obj n v : gfield obj n = Ok v -> gset obj n v = Ok obj.
Proof.
  destruct obj as [| | | | |fs|]; cbn [gfield gset]; try discriminate.
  destruct (lookup n fs) as [x|] eqn:L; [|discriminate]. intros [= ->]. now rewrite (update_same_val _ _ _ L).
Qed.

(* a Go zero value holds nil in the pointer of the embedded message *)
Lemma zero_reset_ok_promoted m i pn pz :
  m_fields m = [Field i None] -> fi_parent i = Some (pn, pz) -> m_oneofs m = [] ->
  gfield (m_zero m) pn = Ok (GPtr None) -> zero_reset_ok m.
Proof.
  intros F Pa Os G. unfold zero_reset_ok. rewrite (ph_resets_promoted m i pn pz _ F Pa Os).
  now apply gset_same_val.
Qed.

Print Assumptions zero_reset_ok_own.
Print Assumptions zero_reset_ok_promoted.

Lemma zero_reset_ok_flip m : zero_reset_ok m -> zero_reset_ok (flip_empty m).
Proof.
  unfold zero_reset_ok, ph_resets. now rewrite flip_empty_zero, flip_empty_oneofs, flip_empty_fields.
Qed.

(* decoding a placeholder-only message into its zero struct yields the zero struct: the two branches of
   "if m_empty m' then Ok (m_zero m', ds) else decode m' at0 ds" *)
Lemma decode_placeholder_only hook m' at0 ds :
  placeholder_only m' -> zero_reset_ok m' ->
  from_fields hook m' at0 (m_zero m', ds) = Ok (m_zero m', ds).
Proof. intros PO Z. rewrite from_fields_placeholder_only by exact PO. now rewrite Z. Qed.

(* two nested messages which are decoded alike *)
Definition from_alike (hook : hook_from_t) (m1 m2 : message) : Prop :=
  m_zero m1 = m_zero m2
  /\ forall at0 ds,
       (if m_empty m1 then Ok (m_zero m1, ds) else from_fields hook m1 at0 (m_zero m1, ds))
       = (if m_empty m2 then Ok (m_zero m2, ds) else from_fields hook m2 at0 (m_zero m2, ds)).

(* from_field consults the nested message through that conditional and m_zero only *)
Lemma from_field_alike hook i m1 m2 attrs st :
  from_alike hook m1 m2 ->
  from_field hook (Field i (Some m1)) attrs st = from_field hook (Field i (Some m2)) attrs st.
Proof.
  intros (Z & D). destruct st as [obj ds]. cbn [from_field]. fold (from_fields hook).
  destruct (fi_kind i); try reflexivity.
  all: destruct (match attrs with Some l => lookup (fi_snake i) l | None => None end) as [a|]; [|reflexivity].
  - (* ObjectKind *)
    destruct a as [| | |aty n u at0| |]; try reflexivity.
    rewrite <- (D at0 ds), <- Z. reflexivity.
  - (* ObjectListKind *)
    destruct a as [|ety n u el| | | |]; try reflexivity.
    destruct (known n u); [|reflexivity].
    f_equal. apply fold_left_ext. intros [[vs ds1]|] a; [|reflexivity]. cbn [bind].
    destruct a as [| | |aty n1 u1 at0| |]; try (rewrite <- Z; reflexivity).
    destruct (known n1 u1); [|rewrite <- Z; reflexivity].
    rewrite <- (D at0 ds1), <- ?Z. reflexivity.
  - (* ObjectMapKind *)
    destruct a as [| |ety n u el| | |]; try reflexivity.
    destruct (known n u); [|reflexivity].
    f_equal. apply fold_left_ext. intros [[es ds1]|] ka; [|reflexivity]. cbn [bind].
    destruct (snd ka) as [| | |aty n1 u1 at0| |]; try reflexivity.
    destruct (known n1 u1); [|rewrite <- Z; reflexivity].
    rewrite <- (D at0 ds1). reflexivity.
Qed.

Lemma from_alike_flip_empty hook m' :
  placeholder_only m' -> zero_reset_ok m' -> from_alike hook m' (flip_empty m').
Proof.
  intros PO Z. split; [now rewrite flip_empty_zero|]. intros at0 ds.
  rewrite (decode_placeholder_only hook (flip_empty m') at0 ds (flip_empty_placeholder_only m' PO)
             (zero_reset_ok_flip m' Z)).
  rewrite (decode_placeholder_only hook m' at0 ds PO Z), flip_empty_zero.
  now destruct (m_empty m'), (m_empty (flip_empty m')).
Qed.

(* every kind of field, every attribute value, every Go value; the side condition is on the IR only *)
Theorem C01_placeholder_only_flag_irrelevant_from hook i m' attrs st :
  placeholder_only m' -> zero_reset_ok m' ->
  from_field hook (Field i (Some m')) attrs st = from_field hook (Field i (Some (flip_empty m'))) attrs st.
Proof. intros PO Z. apply from_field_alike. now apply from_alike_flip_empty. Qed.
Print Assumptions C01_placeholder_only_flag_irrelevant_from.

(* the side condition of the CopyFrom theorem is needed: with a "zero struct" that lacks the pointer of the
   embedded message the placeholder is promoted from (an ill-formed IR: Build.v records zero_struct), the decode
   branch panics on the reset of that pointer where the empty branch returns the zero struct *)
Module PhRefuted.
  Local Open Scope string_scope.
  Definition ph : finfo :=
    {| fi_name := "active"; fi_snake := "active"; fi_path := "W.active"; fi_kind := PrimitiveKind;
       fi_tk := KBool; fi_cast := GsBool; fi_nullable := false; fi_zero := true; fi_placeholder := true;
       fi_oneof := None; fi_via := ["Nothing"]; fi_parent := Some ("Nothing", GStruct []); fi_inner := [];
       fi_required := false; fi_computed := true; fi_sensitive := false; fi_validators := [];
       fi_planmods := []; fi_comment := ""; fi_suffix := "" |}.
  (* m_zero should be GStruct [("Nothing", GPtr None)] *)
  Definition bad : message := Msg "W" [Field ph None] [] [] false (GStruct []).
  Definition fw : finfo :=
    {| fi_name := "W"; fi_snake := "w"; fi_path := "H.w"; fi_kind := ObjectKind;
       fi_tk := KI64; fi_cast := GsInt64; fi_nullable := true; fi_zero := false; fi_placeholder := false;
       fi_oneof := None; fi_via := []; fi_parent := None; fi_inner := [];
       fi_required := false; fi_computed := false; fi_sensitive := false; fi_validators := [];
       fi_planmods := []; fi_comment := ""; fi_suffix := "" |}.
  Definition attrs : option (list (string * tfval)) :=
    Some [("w", VObj [("active", TyPrim KBool)] false false (Some [("active", VPrim KBool true false (PBool false))]))].
  Definition obj : goval := GStruct [("W", GPtr None)].
  Definition decoded : goval := GStruct [("W", GPtr (Some (GStruct [])))].
End PhRefuted.

Theorem from_flag_relevant_without_zero_refuted :
  placeholder_only PhRefuted.bad /\ ~ zero_reset_ok PhRefuted.bad /\
  from_field std_hook_from (Field PhRefuted.fw (Some PhRefuted.bad)) PhRefuted.attrs (PhRefuted.obj, []) = Panic /\
  from_field std_hook_from (Field PhRefuted.fw (Some (flip_empty PhRefuted.bad))) PhRefuted.attrs (PhRefuted.obj, [])
  = Ok (PhRefuted.decoded, []).
Proof.
  split; [eexists; split; [reflexivity|repeat split]|]. split; [intros H; vm_compute in H; discriminate H|].
  split; vm_compute; reflexivity.
Qed.
Print Assumptions from_flag_relevant_without_zero_refuted.

(* ------------------------------------------------------------------------------------- *)
(* 4. every flag at once: the IR with the generator's flags *)

(* Message.IsEmpty of the generator: the only field is a placeholder *)
Definition ph_only_b (fs : list field) : bool :=
  match fs with
  | [Field i None] =>
      fi_placeholder i && kind_eqb (fi_kind i) PrimitiveKind
      && match fi_oneof i with None => true | Some _ => false end
  | _ => false
  end.

Lemma ph_only_b_spec m : ph_only_b (m_fields m) = true <-> placeholder_only m.
Proof.
  split.
  - unfold placeholder_only. destruct (m_fields m) as [|[i [m'|]] [|f r]]; cbn [ph_only_b]; try discriminate.
    intros H. apply andb_prop in H. destruct H as [H O]. apply andb_prop in H. destruct H as [P K].
    exists i. split; [reflexivity|]. split; [exact P|]. split.
    + destruct (fi_kind i); (reflexivity || discriminate K).
    + now destruct (fi_oneof i).
  - intros (i & F & P & K & O). rewrite F. cbn [ph_only_b]. now rewrite P, K, O.
Qed.

(* the flag is raised on every message, at every depth, whose only field is a placeholder *)
Fixpoint go_flags (m : message) : message :=
  match m with
  | Msg n fs os inj e z =>
      Msg n (map (fun f => match f with
                           | Field i (Some m') => Field i (Some (go_flags m'))
                           | Field i None => f
                           end) fs) os inj (ph_only_b fs || e) z
  end.

Definition go_flags_field (f : field) : field :=
  match f with
  | Field i (Some m') => Field i (Some (go_flags m'))
  | Field i None => f
  end.

Lemma go_flags_eq n fs os inj e z :
  go_flags (Msg n fs os inj e z) = Msg n (map go_flags_field fs) os inj (ph_only_b fs || e) z.
Proof. reflexivity. Qed.

Lemma go_flags_zero m : m_zero (go_flags m) = m_zero m.
Proof. now destruct m. Qed.
Lemma go_flags_empty m : m_empty (go_flags m) = ph_only_b (m_fields m) || m_empty m.
Proof. now destruct m. Qed.
Lemma go_flags_field_info f : f_info (go_flags_field f) = f_info f.
Proof. now destruct f as [i [m'|]]. Qed.

Theorem go_flags_to hook : forall m obj atys st,
  to_fields hook (go_flags m) obj atys st = to_fields hook m obj atys st.
Proof.
  apply (message_ind'
           (fun f => forall obj atys st, to_field hook (go_flags_field f) obj atys st = to_field hook f obj atys st)
           (fun m => forall obj atys st, to_fields hook (go_flags m) obj atys st = to_fields hook m obj atys st)).
  - reflexivity.
  - intros i m Q obj atys st. cbn [go_flags_field]. apply to_field_alike.
    split; [apply go_flags_zero|]. split; [exact Q|].
    rewrite go_flags_empty. destruct (ph_only_b (m_fields m)) eqn:B; [right|left; reflexivity].
    intros o1 o2 atys' st'. rewrite !Q. apply to_fields_placeholder_only_obj_irrelevant.
    now apply ph_only_b_spec.
  - intros n fs os inj e z HF obj atys st. rewrite go_flags_eq, !to_fields_list.
    revert st. induction HF as [|f r Pf _ IH]; intros st; [reflexivity|].
    cbn [map to_field_list]. rewrite Pf. destruct (to_field hook f obj atys st); [|reflexivity].
    cbn [bind]. apply IH.
Qed.
Print Assumptions go_flags_to.

(* the zero structs of the placeholder-only messages below m are zero values *)
Definition field_zero_ok (deep : message -> Prop) (f : field) : Prop :=
  match f with
  | Field _ (Some m') => (placeholder_only m' -> zero_reset_ok m') /\ deep m'
  | Field _ None => True
  end.

Fixpoint deep_zero_ok (m : message) : Prop :=
  match m with
  | Msg _ fs _ _ _ _ =>
      (fix go (l : list field) : Prop :=
         match l with
         | [] => True
         | f :: r =>
             match f with
             | Field _ (Some m') => (placeholder_only m' -> zero_reset_ok m') /\ deep_zero_ok m'
             | Field _ None => True
             end /\ go r
         end) fs
  end.

Lemma deep_zero_ok_eq n fs os inj e z :
  deep_zero_ok (Msg n fs os inj e z) <-> Forall (field_zero_ok deep_zero_ok) fs.
Proof.
  cbn [deep_zero_ok]. induction fs as [|f r IH].
  - split; [constructor|exact (fun _ => I)].
  - split.
    + intros [H1 H2]. constructor; [destruct f as [i [m'|]]; exact H1|now apply IH].
    + intros H. inversion H as [|? ? H1 H2]; subst. split; [destruct f as [i [m'|]]; exact H1|now apply IH].
Qed.

Lemma fold_res_map_info {A} (g : goval -> A -> res goval) (h : A -> A) l :
  (forall o a, g o (h a) = g o a) -> forall o, fold_res g (map h l) o = fold_res g l o.
Proof.
  intros H. induction l as [|a r IH]; intros o; [reflexivity|].
  cbn [map fold_res]. rewrite H. destruct (g o a); [|reflexivity]. cbn [bind]. apply IH.
Qed.

Theorem go_flags_from hook : forall m, deep_zero_ok m -> forall attrs st,
  from_fields hook (go_flags m) attrs st = from_fields hook m attrs st.
Proof.
  apply (message_ind'
           (fun f => field_zero_ok deep_zero_ok f -> forall attrs st,
                       from_field hook (go_flags_field f) attrs st = from_field hook f attrs st)
           (fun m => deep_zero_ok m -> forall attrs st,
                       from_fields hook (go_flags m) attrs st = from_fields hook m attrs st)).
  - reflexivity.
  - intros i m Q [Z D] attrs st. cbn [go_flags_field]. apply from_field_alike.
    split; [apply go_flags_zero|]. intros at0 ds.
    rewrite go_flags_zero, go_flags_empty, (Q D).
    destruct (ph_only_b (m_fields m)) eqn:B; [|reflexivity]. cbn [orb].
    apply ph_only_b_spec in B. rewrite (decode_placeholder_only hook m at0 ds B (Z B)).
    now destruct (m_empty m).
  - intros n fs os inj e z HF DZ attrs st. rewrite go_flags_eq, !from_fields_unfold.
    apply deep_zero_ok_eq in DZ.
    destruct (fold_res reset_oneof os (fst st)) as [o1|]; [|reflexivity]. cbn [bind].
    rewrite (fold_res_map_info reset_promoted go_flags_field fs)
      by (intros o a; unfold reset_promoted; now rewrite go_flags_field_info).
    destruct (fold_res reset_promoted fs o1) as [o2|]; [|reflexivity]. cbn [bind].
    rewrite (fold_res_map_info reset_parent go_flags_field fs)
      by (intros o a; unfold reset_parent; now rewrite go_flags_field_info).
    destruct (fold_res reset_parent fs o2) as [o3|]; [|reflexivity]. cbn [bind].
    generalize (o3, snd st). clear o1 o2 o3 st.
    induction HF as [|f r Pf _ IH]; intros st; [reflexivity|].
    inversion DZ as [|? ? D1 D2]; subst.
    cbn [map from_field_list]. rewrite go_flags_field_info, (Pf D1).
    destruct (fi_placeholder (f_info f)); [now apply IH|].
    destruct (from_field hook f attrs st); [|reflexivity]. cbn [bind]. now apply IH.
Qed.
Print Assumptions go_flags_from.

(* the converters of the model run on the model's flags and on the generator's flags are the same functions *)
Theorem C01_go_flags_copy_to hook m obj tf :
  copy_to hook (go_flags m) obj tf = copy_to hook m obj tf.
Proof. unfold copy_to. destruct tf; try reflexivity. now rewrite go_flags_to. Qed.
Print Assumptions C01_go_flags_copy_to.

Theorem C01_go_flags_copy_from hook m tf obj :
  deep_zero_ok m -> copy_from hook (go_flags m) tf obj = copy_from hook m tf obj.
Proof. intros D. unfold copy_from. destruct tf; try reflexivity. now apply go_flags_from. Qed.
Print Assumptions C01_go_flags_copy_from.


(* ------------------------------------------------------------------------------------- *)
(* 5. non-vacuity: the IR of Model/Build.v *)


Module PhExample.
  Import PGT.Proofs.CopyToTotal.
  Local Open Scope string_scope.
  Local Open Scope Z_scope.

  Definition fd (n : string) (num : Z) (t : ptype) (rep : bool) (nullable : option bool) (embed : bool) : fdesc :=
    {| fd_name := n; fd_num := num; fd_type := t; fd_repeated := rep; fd_nullable := nullable;
       fd_embed := embed; fd_cast := ""; fd_custom := ""; fd_stdtime := false; fd_stddur := false;
       fd_jsontag := None; fd_oneof := None; fd_comment := "" |}.

  (* message Nothing {}
     message WrapV { Nothing nothing = 1 [embed, nullable = false]; }
     message WrapP { Nothing nothing = 1 [embed]; }
     message HasWrap { WrapV v = 1; repeated WrapV vs = 2; WrapP p = 3 [nullable = false];
                       map<string, WrapP> pm = 4; } *)
  Definition d_nothing : mdesc := {| md_name := "Nothing"; md_comment := ""; md_oneofs := []; md_fields := [] |}.
  Definition d_wrapv : mdesc :=
    {| md_name := "WrapV"; md_comment := ""; md_oneofs := [];
       md_fields := [fd "nothing" 1 (PMsg "Nothing") false (Some false) true] |}.
  Definition d_wrapp : mdesc :=
    {| md_name := "WrapP"; md_comment := ""; md_oneofs := [];
       md_fields := [fd "nothing" 1 (PMsg "Nothing") false None true] |}.
  Definition d_has : mdesc :=
    {| md_name := "HasWrap"; md_comment := ""; md_oneofs := [];
       md_fields := [fd "v" 1 (PMsg "WrapV") false None false;
                     fd "vs" 2 (PMsg "WrapV") true None false;
                     fd "p" 3 (PMsg "WrapP") false (Some false) false;
                     fd "pm" 4 (PMap (PScalar SString) (PMsg "WrapP")) false None false] |}.
  Definition cfg : config :=
    {| c_types := ["HasWrap"]; c_duration_custom_type := ""; c_exclude := []; c_computed := [];
       c_required := []; c_sensitive := []; c_target_pkg := ""; c_default_pkg := ""; c_sort := false;
       c_use_state := false; c_suffixes := []; c_name_overrides := []; c_validators := [];
       c_planmods := []; c_time_type := true; c_duration_type := true; c_injected := [];
       c_import_overrides := []; c_custom_types := [] |}.
  Definition table : list mdesc := [d_nothing; d_wrapv; d_wrapp; d_has].
  Definition dummy := Msg "" [] [] [] false (GStruct []).
  Definition m : message :=
    Eval vm_compute in
      match build_message (obs_of cfg) table 5 d_has "HasWrap" with BOk m => m | _ => dummy end.

  Example m_built : build_message (obs_of cfg) table 5 d_has "HasWrap" = BOk m.
  Proof. vm_compute. reflexivity. Qed.

  Definition nested (m : message) : list message :=
    flat_map (fun f => match f_msg f with Some m' => [m'] | None => [] end) (m_fields m).

  Example m_shape :
    map (fun f => (fi_name (f_info f), fi_kind (f_info f), fi_nullable (f_info f),
                   match f_msg f with Some m' => Some (m_name m', m_empty m', m_zero m') | None => None end))
        (m_fields m)
    = [("V", ObjectKind, true, Some ("WrapV", false, GStruct []));
       ("Vs", ObjectListKind, true, Some ("WrapV", false, GStruct []));
       ("P", ObjectKind, false, Some ("WrapP", false, GStruct [("Nothing", GPtr None)]));
       ("Pm", ObjectMapKind, true, Some ("WrapP", false, GStruct [("Nothing", GPtr None)]))].
  Proof. vm_compute. reflexivity. Qed.

  (* the placeholders: promoted by value (WrapV: the finfo of Nothing's own placeholder), promoted from the
     nullable embedded message (WrapP: fi_via, fi_parent set) *)
  Example placeholders_shape :
    map (fun m' => map (fun f => (fi_name (f_info f), fi_placeholder (f_info f), fi_via (f_info f),
                                  fi_parent (f_info f))) (m_fields m')) (nested m)
    = [[("active", true, [], None)]; [("active", true, [], None)];
       [("active", true, ["Nothing"], Some ("Nothing", GStruct []))];
       [("active", true, ["Nothing"], Some ("Nothing", GStruct []))]].
  Proof. vm_compute. reflexivity. Qed.

  (* every nested message is placeholder-only, is NOT flagged empty by the model's front end (the generator
     flags it), and its zero struct is a zero value *)
  Example nested_placeholder_only :
    Forall (fun m' => placeholder_only m' /\ m_empty m' = false /\ zero_reset_ok m') (nested m).
  Proof.
    repeat constructor; try (apply ph_only_b_spec; vm_compute; reflexivity); vm_compute; reflexivity.
  Qed.

  Example m_deep_zero_ok : deep_zero_ok m.
  Proof.
    apply deep_zero_ok_eq. repeat constructor; intros _; vm_compute; reflexivity.
  Qed.

  (* the generator's flags: the four nested messages are flagged, nothing else changes *)
  Example go_flags_m :
    map (fun m' => m_empty m') (nested (go_flags m)) = [true; true; true; true]
    /\ map flip_empty (nested m) = nested (go_flags m)
    /\ m_empty (go_flags m) = m_empty m.
  Proof. vm_compute. repeat split. Qed.

  Definition wv : goval := GStruct [].
  Definition wp_nil : goval := GStruct [("Nothing", GPtr None)].
  Definition wp_set : goval := GStruct [("Nothing", GPtr (Some (GStruct [])))].
  (* nil pointers among the list elements and the map values included *)
  Definition obj : goval :=
    GStruct [("V", GPtr (Some wv));
             ("Vs", GSlice (Some [GPtr (Some wv); GPtr None; GPtr (Some wv)]));
             ("P", wp_set);
             ("Pm", GMap (Some [("a", GPtr (Some wp_nil)); ("b", GPtr (Some wp_set)); ("c", GPtr None)]))].
  Definition tf0 : tfval := VObj (msg_ty m) false false None.

  Definition ph_obj (n : bool) : tfval :=
    VObj [("active", TyPrim KBool)] n false
         (Some (if n then [] else [("active", VPrim KBool true false (PBool false))])).
  Definition tf1 : tfval :=
    VObj (msg_ty m) false false
         (Some [("v", ph_obj false);
                ("vs", VList (TyObj [("active", TyPrim KBool)]) false false
                             (Some [ph_obj false; ph_obj true; ph_obj false]));
                ("p", ph_obj false);
                ("pm", VMap (TyObj [("active", TyPrim KBool)]) false false
                            (Some [("a", ph_obj false); ("b", ph_obj false); ("c", ph_obj true)]))]).

  (* CopyTo with the model's flags and with the generator's flags, into the empty object and over a prior state *)
  Example copy_to_both_flags :
    copy_to std_hook_to m obj tf0 = Ok (tf1, [])
    /\ copy_to std_hook_to (go_flags m) obj tf0 = Ok (tf1, [])
    /\ copy_to std_hook_to m obj tf1 = Ok (tf1, [])
    /\ copy_to std_hook_to (go_flags m) obj tf1 = Ok (tf1, []).
  Proof. repeat split; vm_compute; reflexivity. Qed.

  (* field by field, the flag of one nested message negated *)
  Example to_field_both_flags :
    Forall (fun f => match f with
                     | Field i (Some m') =>
                         exists st, to_field std_hook_to (Field i (Some m')) obj (msg_ty m) ([], []) = Ok st
                                    /\ to_field std_hook_to (Field i (Some (flip_empty m'))) obj (msg_ty m) ([], []) = Ok st
                     | _ => False
                     end) (m_fields m).
  Proof. repeat constructor; eexists; split; vm_compute; reflexivity. Qed.

  (* a Go value of the wrong shape (no field P): the same panic under both flags *)
  Example copy_to_both_flags_panic :
    let bad := GStruct [("V", GPtr None); ("Vs", GSlice None); ("Pm", GMap None)] in
    copy_to std_hook_to m bad tf0 = Panic /\ copy_to std_hook_to (go_flags m) bad tf0 = Panic.
  Proof. split; vm_compute; reflexivity. Qed.

  (* CopyFrom: the embedded pointer of P was set in obj; the placeholder cannot carry that, the pointer comes
     back nil -- under both flags *)
  Definition back : goval :=
    GStruct [("V", GPtr (Some wv));
             ("Vs", GSlice (Some [GPtr (Some wv); GPtr None; GPtr (Some wv)]));
             ("P", wp_nil);
             ("Pm", GMap (Some [("a", GPtr (Some wp_nil)); ("b", GPtr (Some wp_nil)); ("c", GPtr None)]))].

  Example copy_from_both_flags :
    copy_from std_hook_from m tf1 (m_zero m) = Ok (back, [])
    /\ copy_from std_hook_from (go_flags m) tf1 (m_zero m) = Ok (back, [])
    /\ copy_from std_hook_from m tf1 obj = Ok (back, [])
    /\ copy_from std_hook_from (go_flags m) tf1 obj = Ok (back, []).
  Proof. repeat split; vm_compute; reflexivity. Qed.

  (* the attribute [active] missing from the nested objects: not reported, under either flag *)
  Definition tf_no_active : tfval :=
    VObj (msg_ty m) false false
         (Some [("v", VObj [] false false (Some []));
                ("vs", VList (TyObj []) false false (Some [VObj [] false false (Some [])]));
                ("p", VObj [] false false None);
                ("pm", VMap (TyObj []) false false (Some [("a", VObj [] false false (Some []))]))]).
  Example copy_from_missing_active :
    exists g, copy_from std_hook_from m tf_no_active (m_zero m) = Ok (g, [])
              /\ copy_from std_hook_from (go_flags m) tf_no_active (m_zero m) = Ok (g, []).
  Proof. eexists. split; vm_compute; reflexivity. Qed.

  (* the general theorems, instantiated *)
  Example copy_to_go_flags obj' tf : copy_to std_hook_to (go_flags m) obj' tf = copy_to std_hook_to m obj' tf.
  Proof. apply C01_go_flags_copy_to. Qed.
  Example copy_from_go_flags tf obj' :
    copy_from std_hook_from (go_flags m) tf obj' = copy_from std_hook_from m tf obj'.
  Proof. apply C01_go_flags_copy_from. exact m_deep_zero_ok. Qed.
End PhExample.

Print Assumptions PhExample.nested_placeholder_only.
Print Assumptions PhExample.copy_to_both_flags.
Print Assumptions PhExample.copy_from_both_flags.
Print Assumptions PhExample.copy_to_go_flags.
Print Assumptions PhExample.copy_from_go_flags.
