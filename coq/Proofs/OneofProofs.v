(* C07 at the level of the message: oneof groups stay exclusive in both directions.

   A. CopyTo (Model/CopyTo.v), class rt_ok of MsgRoundTrip.v, values rt_typed, empty target of the
      schema's type: for every oneof holder of the message, the null flag of every branch attribute
      is computed from the holder alone ([branch_null]): nil holder -> every branch attribute null;
      holder set to branch b -> every other branch attribute null, b's attribute non-null iff the
      payload is a non-nil pointer (message branch) resp. the cast payload is not the zero literal
      (scalar branch).  Hence at most one branch attribute per group is non-null
      (copy_to_oneof_exclusive_partial, the count in copy_to_oneof_count_partial), and the same
      holds in every nested message value of the result, at every depth ([excl],
      copy_to_excl_partial).
   B. CopyFrom (Model/CopyFrom.v), class flat_ok of CopyFromProofs.v with holders which are not the
      Go name of a plain field ([holders_sep]), ANY object and ANY prior value of the target: after
      a successful CopyFrom every holder is nil or set to a branch of its oneof, namely the LAST
      branch in field order whose attribute is known and non-null ([last_known_branch]);
      copy_from_holders_ok_partial, and with totality copy_from_holders_total_partial.
   C. Round trip: an active branch whose payload is not equivalent to the zero value of the branch
      survives CopyTo followed by CopyFrom (oneof_round_trip_partial, oneof_round_trip_nofloat32).

   Only oneof_round_trip_partial and copy_to_oneof_scalar_zero_partial (the float32 casts, through
   Flocq) depend on the axioms of the standard library's real numbers; every other theorem is closed
   under the global context: the null flag of a scalar branch is prim_is_zero of the cast payload, no
   round trip of the scalar is needed.

   Not covered: A. custom types, fields promoted from nullable embedded messages, oneof branches
   which are pointer scalars, times or durations (the class rt_ok); B. states the holders of the
   message itself, not those of the nested messages CopyFrom decodes (they are values of
   from_fields on m_zero, to which the theorem applies message by message). *)
From Coq Require Import List String Bool ZArith Lia.
From PGT Require Import Base.Strs Base.AList Model.Vals Model.IR Model.CopyTo Model.CopyFrom.
From PGT Require Import Proofs.CopyToProofs Proofs.CopyFromProofs Proofs.RoundTripProofs.
From PGT Require Import Proofs.CopyToTotal Proofs.EchoProofs Proofs.MsgRoundTrip.
Import ListNotations.

(* ------------------------------------------------------------------------------------- *)
(* 1. definitions *)

(* the null flag of an attribute value which is a scalar or an object *)
Definition attr_null (o : option tfval) : bool :=
  match o with
  | Some (VPrim _ n _ _) => n
  | Some (VObj _ n _ _) => n
  | _ => false
  end.

(* the null flag CopyTo gives the attribute of branch i when the holder of its oneof is GOneof hv *)
Definition branch_null (i : finfo) (hv : option (string * goval)) : bool :=
  match hv with
  | None => true
  | Some (b, p) =>
      if String.eqb b (fi_name i) then
        match fi_kind i with
        | PrimitiveKind => match cast_to (fi_tk i) p with Ok c => prim_is_zero c | Panic => true end
        | _ => match p with GPtr (Some _) => false | _ => true end
        end
      else true
  end.

Definition is_branch (h : string) (f : field) : bool :=
  match fi_oneof (f_info f) with Some h' => String.eqb h' h | None => false end.

(* the branches of oneof h whose attribute is not null *)
Definition nonnull_branches (fs : list field) (attrs : list (string * tfval)) (h : string) : list field :=
  filter (fun f => is_branch h f && negb (attr_null (lookup (snake f) attrs))) fs.

Definition group_ok (fs : list field) (attrs : list (string * tfval)) (h : string) : bool :=
  Nat.leb (List.length (nonnull_branches fs attrs h)) 1.

(* exclusivity at every depth: in an object value of message m which is not null, every oneof of m
   has at most one branch attribute which is not null, and the same holds in the message values
   below (fields, list elements, map values) *)
Fixpoint excl (m : message) (v : tfval) {struct m} : bool :=
  match m with
  | Msg _ fs os _ _ _ =>
      match v with
      | VObj _ n _ (Some attrs) =>
          n || (forallb (group_ok fs attrs) os
                && (fix go (l : list field) : bool :=
                      match l with
                      | [] => true
                      | f :: r => fexcl f (lookup (fi_snake (f_info f)) attrs) && go r
                      end) fs)
      | _ => false
      end
  end
with fexcl (f : field) (ov : option tfval) {struct f} : bool :=
  match f with
  | Field i (Some m') =>
      match fi_kind i with
      | ObjectKind => match ov with Some v => excl m' v | None => false end
      | ObjectListKind =>
          match ov with Some (VList _ _ _ (Some l)) => forallb (excl m') l | _ => false end
      | ObjectMapKind =>
          match ov with Some (VMap _ _ _ (Some l)) => forallb (fun kv => excl m' (snd kv)) l | _ => false end
      | _ => true
      end
  | Field _ None => true
  end.

Lemma excl_eq n fs os inj e z a nl u attrs :
  excl (Msg n fs os inj e z) (VObj a nl u (Some attrs))
  = nl || (forallb (group_ok fs attrs) os && forallb (fun f => fexcl f (lookup (snake f) attrs)) fs).
Proof.
  cbn [excl]. apply (f_equal (orb nl)). apply (f_equal (andb _)). unfold snake.
  induction fs as [|f r IH]; [reflexivity|].
  cbn [forallb]. now rewrite IH.
Qed.

Lemma excl_null m a u attrs : excl m (VObj a true u (Some attrs)) = true.
Proof. destruct m. reflexivity. Qed.

(* ------------------------------------------------------------------------------------- *)
(* 2. counting *)

Lemma filter_nil {A} (P : A -> bool) l : (forall x, In x l -> P x = false) -> filter P l = [].
Proof.
  induction l as [|x r IH]; intros H; cbn [filter]; [reflexivity|].
  rewrite (H x (or_introl eq_refl)). apply IH. intros y Hy. apply H. now right.
Qed.

Lemma filter_name_le1 (fs : list field) (b : string) (P : field -> bool) :
  NoDup (map (fun f => fi_name (f_info f)) fs) ->
  (forall f, In f fs -> P f = true -> fi_name (f_info f) = b) ->
  (List.length (filter P fs) <= 1)%nat.
Proof.
  induction fs as [|f r IH]; intros ND H; cbn [filter]; [cbn; lia|].
  cbn [map] in ND. inversion ND as [|? ? N1 N2]; subst.
  destruct (P f) eqn:Pf.
  - rewrite (filter_nil P r); [cbn; lia|]. intros x Hx. destruct (P x) eqn:Px; [|reflexivity].
    exfalso. apply N1. rewrite (H f (or_introl eq_refl) Pf), <- (H x (or_intror Hx) Px).
    now apply (in_map (fun f => fi_name (f_info f))).
  - apply IH; [exact N2|]. intros x Hx. apply H. now right.
Qed.

Lemma le1_same {A} (l : list A) x y : (List.length l <= 1)%nat -> In x l -> In y l -> x = y.
Proof.
  destruct l as [|a [|b r]]; cbn [List.length In]; intros L Hx Hy; try lia; try tauto.
  destruct Hx as [<-|[]], Hy as [<-|[]]. reflexivity.
Qed.

Lemma branch_null_false i hv :
  branch_null i hv = false -> exists p, hv = Some (fi_name i, p).
Proof.
  unfold branch_null. destruct hv as [[b p]|]; [|discriminate].
  destruct (String.eqb b (fi_name i)) eqn:E; [|discriminate].
  apply String.eqb_eq in E. subst b. eauto.
Qed.

(* ------------------------------------------------------------------------------------- *)
(* 3. CopyTo: one field *)

(* what rt_info_ok says about a oneof branch *)
Definition ocond (i : finfo) : Prop :=
  forall h, fi_oneof i = Some h ->
    (fi_kind i = PrimitiveKind /\ fi_nullable i = false /\ fi_zero i = true /\ fi_placeholder i = false
     /\ exists pz, cast_to (fi_tk i) (zero_scalar (fi_cast i)) = Ok pz /\ prim_is_zero pz = true)
    \/ (fi_kind i = ObjectKind /\ fi_nullable i = true).

Lemma ocond_of os i om : finfo_ok i om = true -> rt_info_ok os i = true -> ocond i.
Proof.
  intros F R h O. destruct (finfo_ok_inv _ _ F) as (_ & _ & _ & _ & _ & _ & PH).
  unfold rt_info_ok in R. rewrite O in R. apply andb_prop in R. destruct R as [R1 R2].
  apply andb_prop in R2. destruct R2 as [_ R3].
  destruct (fi_kind i) eqn:K; try discriminate R3.
  - left. cbn [is_prim_kind] in R1. apply tfkind_eqb_eq in R1.
    apply andb_prop in R3. destruct R3 as [R3 ZL]. apply andb_prop in R3. destruct R3 as [Nn Zz].
    split; [reflexivity|]. split; [now destruct (fi_nullable i)|]. split; [exact Zz|]. split.
    + destruct (fi_placeholder i) eqn:Pl; [|reflexivity]. destruct (PH eq_refl) as [_ X]. congruence.
    + rewrite R1. apply zero_scalar_payload_zero. exact ZL.
  - right. split; [reflexivity|exact R3].
Qed.

Section To.
  Variable hook : hook_to_t.

  (* the result of one field: exclusivity below, and the null flag of a branch *)
  Definition field_res (f : field) (gs : list (string * goval)) (v : tfval) : Prop :=
    fexcl f (Some v) = true /\
    forall h hv, fi_oneof (f_info f) = Some h -> lookup h gs = Some (GOneof hv) ->
                 attr_null (Some v) = branch_null (f_info f) hv.

  Definition field_x (f : field) : Prop :=
    forall gs atys attrs ds t, ftyped f gs -> field_ty f = Some t ->
      lookup (snake f) atys = Some t -> lookup (snake f) attrs = None ->
      exists v, to_field hook f (GStruct gs) atys (attrs, ds) = Ok (update (snake f) v attrs, ds)
                /\ field_res f gs v.

  Definition branches_ok (m : message) (obj : goval) (attrs : list (string * tfval)) : Prop :=
    forall f h hv, In f (m_fields m) -> fi_oneof (f_info f) = Some h -> gfield obj h = Ok (GOneof hv) ->
                   attr_null (lookup (snake f) attrs) = branch_null (f_info f) hv.

  Definition msg_x (m : message) : Prop :=
    forall obj ds, typed m obj ->
      exists attrs, to_fields hook m obj (msg_ty m) ([], ds) = Ok (attrs, ds)
                    /\ excl m (VObj (msg_ty m) false false (Some attrs)) = true
                    /\ branches_ok m obj attrs.

  (* scalars, lists and maps of scalars which are not oneof branches: nothing to show beyond
     totality *)
  Lemma field_x_plain i om :
    finfo_ok i om = true -> is_prim_kind (fi_kind i) = true -> fi_oneof i = None ->
    (forall m', om = Some m' -> tf_ok m' = true) -> field_x (Field i om).
  Proof.
    intros F PK O Q gs atys attrs ds t Ty FT La Lc.
    destruct (CopyToTotal.field_step hook i om F) with (gs := gs) (atys := atys) (attrs := attrs) (ds := ds) (t := t)
      as (v & E & _); auto.
    { intros m' Em. split; [now apply Q|]. apply CopyToTotal.total_mutual. now apply Q. }
    exists v. split; [exact E|]. split.
    - destruct om as [m'|]; [|reflexivity]. cbn [fexcl]. now destruct (fi_kind i).
    - intros h hv X. cbn [f_info] in X. congruence.
  Qed.

  (* a scalar branch *)
  Lemma field_x_branch i om h :
    finfo_ok i om = true -> ocond i -> fi_oneof i = Some h -> fi_kind i = PrimitiveKind ->
    field_x (Field i om).
  Proof.
    intros F OC O K gs atys attrs ds t Ty FT La Lc.
    destruct (finfo_ok_inv _ _ F) as (V & P & _).
    destruct (OC h O) as [(_ & Nn & Zz & Pl & pz & Cz & PZ)|(K' & _)]; [|congruence].
    unfold snake in *. cbn [f_info] in *.
    cbn [field_ty] in FT. rewrite K in FT. injection FT as <-.
    cbn [ftyped] in Ty. rewrite Pl in Ty. unfold reads in Ty. rewrite O in Ty.
    destruct Ty as (hv & L & Sh).
    assert (FX : forall v, fexcl (Field i om) (Some v) = true).
    { intros v. destruct om as [m'|]; [|reflexivity]. cbn [fexcl]. now rewrite K. }
    assert (IN : forall b p, hv = GOneof None \/ (hv = GOneof (Some (b, p)) /\ b <> fi_name i) ->
                 exists v, to_field hook (Field i om) (GStruct gs) atys (attrs, ds)
                           = Ok (update (fi_snake i) v attrs, ds) /\ attr_null (Some v) = true).
    { intros b p HV. exists (VPrim (fi_tk i) true false pz). split; [|reflexivity].
      apply (to_field_oneof_inactive hook i om (GStruct gs) atys attrs ds h pz); auto.
      cbn [gfield]. rewrite L. destruct HV as [->|[-> N]]; [now left|right; eauto]. }
    destruct Sh as [->|(b & p & -> & Sp)].
    - destruct (IN EmptyString (GPtr None) (or_introl eq_refl)) as (v & E & Nv).
      exists v. split; [exact E|]. split; [apply FX|].
      intros h' hv' O' L'. cbn [f_info] in O'. rewrite O in O'. injection O' as <-. rewrite L in L'. injection L' as <-. exact Nv.
    - destruct (String.eqb b (fi_name i)) eqn:Eb.
      + apply String.eqb_eq in Eb. specialize (Sp Eb). unfold val_shape in Sp. rewrite K in Sp.
        unfold elem_shape in Sp. rewrite Nn in Sp. destruct (cast_ok _ _ Sp) as (c & C & _).
        subst b. eexists. split.
        * apply (to_field_oneof_active hook i om (GStruct gs) atys attrs ds h p c); auto.
          cbn [gfield]. now rewrite L.
        * split; [apply FX|]. intros h' hv' O' L'. cbn [f_info] in O'. rewrite O in O'. injection O' as <-. rewrite L in L'. injection L' as <-.
          cbn [attr_null f_info]. unfold branch_null. now rewrite String.eqb_refl, K, C.
      + apply String.eqb_neq in Eb.
        destruct (IN b p (or_intror (conj eq_refl Eb))) as (v & E & Nv).
        exists v. split; [exact E|]. split; [apply FX|].
        intros h' hv' O' L'. cbn [f_info] in O'. rewrite O in O'. injection O' as <-. rewrite L in L'. injection L' as <-. rewrite Nv.
        cbn [f_info]. unfold branch_null. apply String.eqb_neq in Eb. now rewrite Eb.
  Qed.

  (* a message value: a field, a list element, a map value *)
  Lemma obj_value_x i gs m' g ds :
    tf_ok m' = true -> msg_x m' -> elem_shape i (typed m') g ->
    exists n at0,
      obj_value hook i (GStruct gs) None m' (Ok g) (msg_ty m') ds
      = Ok (VObj (msg_ty m') n false (Some at0), ds)
      /\ excl m' (VObj (msg_ty m') n false (Some at0)) = true
      /\ n = (if fi_nullable i then match g with GPtr None => true | _ => false end else false).
  Proof.
    intros T G S. unfold obj_value. cbv beta iota zeta. unfold elem_shape in S.
    assert (K : forall x, typed m' x ->
                exists at0,
                  (do st' <- to_fields hook m' x (msg_ty m') ([], ds);
                   let '(attrs', ds') := st' in
                   Ok (VObj (msg_ty m') false false (Some attrs'), ds'))
                  = Ok (VObj (msg_ty m') false false (Some at0), ds)
                  /\ excl m' (VObj (msg_ty m') false false (Some at0)) = true).
    { intros x Tx. destruct (G x ds Tx) as (attrs & E & C & _). rewrite E. cbn [bind]. eauto. }
    destruct (fi_nullable i).
    - destruct S as [->|(x & -> & Tx)]; cbn [bind].
      + exists true, []. split; [reflexivity|]. split; [apply excl_null|reflexivity].
      + destruct (m_empty m') eqn:E.
        * destruct (K (GStruct gs) (empty_typed m' gs T E)) as (at0 & Eq & Ex). exists false, at0. auto.
        * destruct (K x Tx) as (at0 & Eq & Ex). exists false, at0. auto.
    - destruct (m_empty m') eqn:E; cbn [bind].
      + destruct (K (GStruct gs) (empty_typed m' gs T E)) as (at0 & Eq & Ex). exists false, at0. auto.
      + destruct (K g S) as (at0 & Eq & Ex). exists false, at0. auto.
  Qed.

  Lemma field_x_step i om :
    finfo_ok i om = true -> ocond i ->
    (forall m', om = Some m' -> tf_ok m' = true /\ msg_x m') ->
    field_x (Field i om).
  Proof.
    intros F OC Q.
    destruct (is_prim_kind (fi_kind i)) eqn:PK.
    { destruct (fi_oneof i) as [h|] eqn:O.
      - apply (field_x_branch i om h); auto.
        destruct (OC h O) as [(K & _)|(K & _)]; [exact K|]. rewrite K in PK. discriminate PK.
      - apply field_x_plain; auto. intros m' E. now apply Q. }
    intros gs atys attrs ds t Ty FT La Lc.
    destruct (finfo_ok_inv _ _ F) as (V & P & NC & Z & OM & OO & PH).
    destruct (OM PK) as (m' & ->). destruct (Q m' eq_refl) as [T' G'].
    assert (Pl : fi_placeholder i = false).
    { destruct (fi_placeholder i); [|reflexivity]. destruct (PH eq_refl) as [X _]. rewrite X in PK. discriminate PK. }
    unfold snake in *. cbn [f_info] in *.
    cbn [ftyped] in Ty. rewrite Pl in Ty. cbn [field_ty] in FT. unfold val_shape in Ty.
    unfold field_res. cbn [fexcl f_info].
    destruct (fi_kind i) eqn:K; try discriminate PK.
    - (* ObjectKind *)
      injection FT as <-.
      assert (ON : fi_oneof i <> None -> fi_nullable i = true).
      { intros N. destruct (fi_oneof i) as [h|]; [|congruence].
        destruct (OO h eq_refl) as [(D & _)|(_ & D)]; [congruence|exact D]. }
      destruct (reads_go i _ gs V P Ty) as (g & RG & Sg & _ & RS & _).
      { intros N. unfold elem_shape. rewrite (ON N). left. apply zero_of_prim_nullable. exact (ON N). }
      assert (RS' : read_source i (if fi_nullable i then GPtr None else m_zero m') (GStruct gs) = Ok g).
      { apply RS. destruct (fi_oneof i) as [h|] eqn:O; [right|now left].
        rewrite ON by discriminate. symmetry. apply zero_of_prim_nullable. apply ON. discriminate. }
      rewrite to_field_eq. cbv zeta. rewrite La, Lc, K, RS'. cbn [bind].
      destruct (obj_value_x i gs m' g ds T' G' Sg) as (n & at0 & Ev & Ex & Hn). rewrite Ev. cbn [bind].
      eexists. split; [reflexivity|]. split; [exact Ex|].
      intros h hv O L. pose proof (ON ltac:(congruence)) as Nn. rewrite Nn in Hn.
      unfold read_go in RG. rewrite O, L in RG. unfold elem_shape in Sg. rewrite Nn in Sg.
      cbn [attr_null]. unfold branch_null. rewrite K.
      destruct hv as [[b p]|]; injection RG as RG.
      + destruct (String.eqb b (fi_name i)).
        * subst p. destruct Sg as [->|(x & -> & _)]; exact Hn.
        * rewrite (zero_of_prim_nullable i Nn) in RG. subst g. exact Hn.
      + rewrite (zero_of_prim_nullable i Nn) in RG. subst g. exact Hn.
    - (* ObjectListKind *)
      injection FT as <-.
      assert (O : fi_oneof i = None).
      { destruct (fi_oneof i) as [h|]; [|reflexivity]. destruct (OO h eq_refl) as [(D & _)|(D & _)]; discriminate D. }
      destruct (read_source_ok i _ gs (GSlice None) V P Ty) as (g & E & o & -> & Hl).
      { intros _. exists None. split; [reflexivity|discriminate]. }
      rewrite to_field_eq. cbv zeta. rewrite La, Lc, K, E. cbn [bind]. destruct o as [l|]; cbv beta iota zeta.
      + assert (HF : Forall (fun a => forall ds, exists v,
                                 (fun a d => obj_value hook i (GStruct gs) None m' (Ok a) (msg_ty m') d) a ds
                                 = Ok (v, ds) /\ excl m' v = true) l).
        { eapply Forall_impl; [|exact (Hl l eq_refl)]. intros a Sa d.
          destruct (obj_value_x i gs m' a d T' G' Sa) as (n & at0 & Ev & Ex & _). eauto. }
        destruct (fold_list_total _ _ l HF [] ds) as (vs & Ef & Cvs). cbv beta in Ef. rewrite Ef.
        cbn [bind app]. eexists. split; [reflexivity|]. split; [exact Cvs|]. intros h hv X. congruence.
      + eexists. split; [reflexivity|]. split; [reflexivity|]. intros h hv X. congruence.
    - (* ObjectMapKind *)
      injection FT as <-.
      assert (O : fi_oneof i = None).
      { destruct (fi_oneof i) as [h|]; [|reflexivity]. destruct (OO h eq_refl) as [(D & _)|(D & _)]; discriminate D. }
      destruct (read_source_ok i _ gs (GMap None) V P Ty) as (g & E & o & -> & Hl).
      { intros _. exists None. split; [reflexivity|discriminate]. }
      rewrite to_field_eq. cbv zeta. rewrite La, Lc, K, E. cbn [bind]. destruct o as [l|]; cbv beta iota zeta.
      + assert (HF : Forall (fun ka : string * goval => forall ds, exists v,
                                 (fun a d => obj_value hook i (GStruct gs) None m' (Ok a) (msg_ty m') d) (snd ka) ds
                                 = Ok (v, ds) /\ excl m' v = true) l).
        { eapply Forall_impl; [|exact (Hl l eq_refl)]. intros a Sa d.
          destruct (obj_value_x i gs m' (snd a) d T' G' Sa) as (n & at0 & Ev & Ex & _). eauto. }
        destruct (fold_map_total _ _ l HF [] ds eq_refl) as (es & Ef & Ces). cbv beta in Ef. rewrite Ef.
        cbn [bind]. eexists. split; [reflexivity|]. split; [exact Ces|]. intros h hv X. congruence.
      + eexists. split; [reflexivity|]. split; [reflexivity|]. intros h hv X. congruence.
    - now contradiction NC.
  Qed.


  (* the fields of a message one after the other *)
  Lemma field_list_x l gs atys :
    Forall field_x l -> Forall (fun f => ftyped f gs) l ->
    (forall f, In f l -> exists t, field_ty f = Some t /\ lookup (snake f) atys = Some t) ->
    NoDup (snakes l) ->
    forall attrs ds, (forall f, In f l -> lookup (snake f) attrs = None) ->
    exists attrs', to_field_list hook l (GStruct gs) atys (attrs, ds) = Ok (attrs', ds)
      /\ (forall k, ~ In k (snakes l) -> lookup k attrs' = lookup k attrs)
      /\ (forall f, In f l -> exists v, lookup (snake f) attrs' = Some v /\ field_res f gs v).
  Proof.
    induction l as [|f r IH]; intros G T A ND attrs ds N; cbn [to_field_list].
    - exists attrs. split; [reflexivity|]. split; [reflexivity|]. intros f [].
    - inversion G as [|? ? Gf Gr]; subst. inversion T as [|? ? Tf Tr]; subst.
      cbn [snakes map] in ND. inversion ND as [|? ? N1 N2]; subst.
      destruct (A f (or_introl eq_refl)) as (t & FT & La).
      destruct (Gf gs atys attrs ds t Tf FT La (N f (or_introl eq_refl))) as (v & E & Bv).
      rewrite E. cbn [bind].
      destruct (IH Gr Tr (fun f' I => A f' (or_intror I)) N2 (update (snake f) v attrs) ds)
        as (attrs' & E' & L' & B').
      { intros f' I. rewrite lookup_update_neq; [apply N; now right|].
        intros Eq. apply N1. rewrite <- Eq. now apply in_map. }
      exists attrs'. split; [exact E'|]. split.
      + intros k Nk. cbn [snakes map In] in Nk. rewrite L' by tauto. apply lookup_update_neq.
        intros ->. tauto.
      + intros f' [<-|I].
        * rewrite L' by exact N1. rewrite lookup_update_eq. eauto.
        * now apply B'.
  Qed.

  (* a branch of the message reads its holder *)
  Lemma branch_holder f gs h :
    ftf_ok f = true -> ftyped f gs -> fi_oneof (f_info f) = Some h ->
    exists hv, lookup h gs = Some (GOneof hv).
  Proof.
    destruct f as [i om]. cbn [ftf_ok ftyped f_info]. intros F Ty O.
    apply andb_prop in F. destruct F as [F _]. destruct (finfo_ok_inv _ _ F) as (_ & _ & _ & _ & _ & _ & PH).
    destruct (fi_placeholder i) eqn:Pl; [destruct (PH eq_refl) as [_ X]; congruence|].
    unfold reads in Ty. rewrite O in Ty. destruct Ty as (hv & L & [->|(b & p & -> & _)]); eauto.
  Qed.

  Lemma msg_x_step n fs os inj e z :
    Forall field_x fs -> NoDup (snakes fs) -> NoDup (map (fun f => fi_name (f_info f)) fs) ->
    (forall f, In f fs -> ftf_ok f = true) ->
    msg_x (Msg n fs os inj e z).
  Proof.
    intros G ND NDn FF obj ds T. rewrite typed_eq in T. destruct T as (gs & -> & T).
    rewrite to_fields_list, msg_ty_eq.
    assert (A : forall f, In f fs -> exists t, field_ty f = Some t /\ lookup (snake f) (fields_ty fs) = Some t).
    { intros [i om] I. pose proof (FF _ I) as Ff. cbn [ftf_ok] in Ff.
      apply andb_prop in Ff. destruct Ff as [Ff _].
      destruct (field_ty_some _ _ Ff) as (t & FT). exists t. split; [exact FT|]. now apply lookup_fields_ty. }
    destruct (field_list_x fs gs (fields_ty fs) G T A ND [] ds) as (attrs & E & _ & C); [reflexivity|].
    exists attrs. split; [exact E|].
    assert (BR : forall f h hv, In f fs -> fi_oneof (f_info f) = Some h -> lookup h gs = Some (GOneof hv) ->
                 attr_null (lookup (snake f) attrs) = branch_null (f_info f) hv).
    { intros f h hv If O L. destruct (C f If) as (v & Lv & _ & Bv). rewrite Lv. now apply (Bv h). }
    split.
    - rewrite excl_eq. cbn [orb]. apply andb_true_intro. split.
      + apply forallb_forall. intros h Hh. unfold group_ok, nonnull_branches. apply Nat.leb_le.
        set (P := fun f => is_branch h f && negb (attr_null (lookup (snake f) attrs))).
        assert (HP : forall f, In f fs -> P f = true ->
                     exists p, lookup h gs = Some (GOneof (Some (fi_name (f_info f), p)))).
        { intros f If Pf. unfold P in Pf. apply andb_prop in Pf. destruct Pf as [B NN].
          unfold is_branch in B. destruct (fi_oneof (f_info f)) as [h'|] eqn:O; [|discriminate B].
          apply String.eqb_eq in B. subst h'.
          rewrite Forall_forall in T.
          destruct (branch_holder f gs h (FF f If) (T f If) O) as (hv & L).
          rewrite (BR f h hv If O L) in NN. apply negb_true_iff in NN.
          destruct (branch_null_false _ _ NN) as (p & ->). eauto. }
        destruct (lookup h gs) as [[| | | | | |[[b p]|]]|] eqn:Lh.
        7: { apply (filter_name_le1 fs b P NDn). intros f If Pf.
             destruct (HP f If Pf) as (p' & X). now injection X. }
        all: rewrite (filter_nil P fs); [cbn; lia|]; intros f If; destruct (P f) eqn:Pf; [|reflexivity];
          destruct (HP f If Pf) as (p' & X); discriminate X.
      + apply forallb_forall. intros f If. destruct (C f If) as (v & Lv & Fx & _). now rewrite Lv.
    - intros f h hv If O L. cbn [m_fields] in If. cbn [gfield] in L.
      destruct (lookup h gs) as [x|] eqn:Lh; [|discriminate L]. injection L as ->. now apply (BR f h hv).
  Qed.

  (* the induction over the IR *)
  Definition field_Px (f : field) : Prop :=
    forall os, ftf_ok f = true -> frt_more os f = true -> field_x f.

  Definition msg_Px (m : message) : Prop := tf_ok m = true -> rt_more m = true -> msg_x m.

  Lemma x_mutual : forall m, msg_Px m.
  Proof.
    apply (message_ind' field_Px msg_Px).
    - intros i os F R. cbn [ftf_ok frt_more] in *. rewrite andb_true_r in F, R.
      apply field_x_step; [exact F|now apply (ocond_of os i None)|]. intros m' [=].
    - intros i m IH os F R. cbn [ftf_ok frt_more] in *.
      apply andb_prop in F. destruct F as [F1 F2]. apply andb_prop in R. destruct R as [R1 R2].
      apply field_x_step; [exact F1|now apply (ocond_of os i (Some m))|].
      intros m' [= <-]. split; [exact F2|now apply IH].
    - intros n fs os inj e z IH T R.
      rewrite tf_ok_eq in T. rewrite rt_more_eq in R.
      apply andb_prop in T. destruct T as [T T3]. apply andb_prop in T. destruct T as [T1 _].
      apply andb_prop in R. destruct R as [R R4]. apply andb_prop in R. destruct R as [R _].
      apply andb_prop in R. destruct R as [R1 _].
      apply nodup_b_NoDup in T1. apply nodup_b_NoDup in R1.
      rewrite forallb_forall in T3, R4. rewrite Forall_forall in IH.
      apply msg_x_step; auto. apply Forall_forall. intros f If. exact (IH f If os (T3 f If) (R4 f If)).
  Qed.
End To.

(* ------------------------------------------------------------------------------------- *)
(* 4. C07, CopyTo direction, at the level of the message *)

Lemma rt_ok_rt_more m : rt_ok m = true -> rt_more m = true.
Proof. unfold rt_ok. intros H. apply andb_prop in H. tauto. Qed.

Lemma copy_to_x hook m obj attrs :
  rt_ok m = true -> rt_typed m obj ->
  copy_to hook m obj (VObj (msg_ty m) false false None) = Ok (VObj (msg_ty m) false false (Some attrs), []) ->
  excl m (VObj (msg_ty m) false false (Some attrs)) = true /\ branches_ok m obj attrs.
Proof.
  intros R Ty H. pose proof (rt_ok_tf_ok m R) as T. pose proof (rt_ok_rt_more m R) as RM.
  destruct (x_mutual hook m T RM obj [] (rt_typed_typed m RM obj Ty)) as (attrs0 & E & X & B).
  cbn [copy_to] in H. rewrite E in H. cbn [bind] in H. injection H as <-. auto.
Qed.

(* exclusivity at every depth *)
Theorem copy_to_excl_partial hook m obj attrs :
  rt_ok m = true -> rt_typed m obj ->
  copy_to hook m obj (VObj (msg_ty m) false false None) = Ok (VObj (msg_ty m) false false (Some attrs), []) ->
  excl m (VObj (msg_ty m) false false (Some attrs)) = true.
Proof. intros R Ty H. exact (proj1 (copy_to_x hook m obj attrs R Ty H)). Qed.

(* the null flag of every branch attribute is the one the holder decides *)
Theorem copy_to_oneof_branches_partial hook m obj attrs :
  rt_ok m = true -> rt_typed m obj ->
  copy_to hook m obj (VObj (msg_ty m) false false None) = Ok (VObj (msg_ty m) false false (Some attrs), []) ->
  forall h, In h (m_oneofs m) ->
  exists hv, gfield obj h = Ok (GOneof hv) /\
    forall f, In f (m_fields m) -> fi_oneof (f_info f) = Some h ->
      attr_null (lookup (fi_snake (f_info f)) attrs) = branch_null (f_info f) hv.
Proof.
  intros R Ty H h Hh. destruct (copy_to_x hook m obj attrs R Ty H) as [_ B].
  destruct m as [n fs os inj e z]. rewrite rt_typed_eq in Ty. destruct Ty as (gs & -> & _ & HO & _).
  cbn [m_oneofs m_fields] in *. destruct (HO h Hh) as (hv & L & W).
  assert (X : exists x, hv = GOneof x) by (destruct W as [->|(f & p & _ & _ & ->)]; eauto).
  destruct X as (x & ->). exists x. split; [cbn [gfield]; now rewrite L|].
  intros f If O. apply (B f h x If O). cbn [gfield]. now rewrite L.
Qed.

(* 1. a nil holder: every branch attribute is null *)
Corollary copy_to_oneof_nil_partial hook m obj attrs :
  rt_ok m = true -> rt_typed m obj ->
  copy_to hook m obj (VObj (msg_ty m) false false None) = Ok (VObj (msg_ty m) false false (Some attrs), []) ->
  forall h, In h (m_oneofs m) -> gfield obj h = Ok (GOneof None) ->
  forall f, In f (m_fields m) -> fi_oneof (f_info f) = Some h ->
    attr_null (lookup (fi_snake (f_info f)) attrs) = true.
Proof.
  intros R Ty H h Hh G f If O.
  destruct (copy_to_oneof_branches_partial hook m obj attrs R Ty H h Hh) as (hv & G' & B).
  rewrite G in G'. injection G' as <-. now rewrite (B f If O).
Qed.

(* 2. a holder set to branch b with payload p: every other branch attribute is null; the attribute of
   a scalar branch b is null iff the cast payload is the zero literal, the one of a message branch
   iff the pointer is nil *)
Corollary copy_to_oneof_set_partial hook m obj attrs :
  rt_ok m = true -> rt_typed m obj ->
  copy_to hook m obj (VObj (msg_ty m) false false None) = Ok (VObj (msg_ty m) false false (Some attrs), []) ->
  forall h b p, In h (m_oneofs m) -> gfield obj h = Ok (GOneof (Some (b, p))) ->
  forall f, In f (m_fields m) -> fi_oneof (f_info f) = Some h ->
    (fi_name (f_info f) <> b -> attr_null (lookup (fi_snake (f_info f)) attrs) = true)
    /\ (fi_name (f_info f) = b ->
        (fi_kind (f_info f) = PrimitiveKind /\
         exists c, cast_to (fi_tk (f_info f)) p = Ok c
                   /\ attr_null (lookup (fi_snake (f_info f)) attrs) = prim_is_zero c)
        \/ (fi_kind (f_info f) = ObjectKind /\
            ((p = GPtr None /\ attr_null (lookup (fi_snake (f_info f)) attrs) = true)
             \/ (exists x, p = GPtr (Some x) /\ attr_null (lookup (fi_snake (f_info f)) attrs) = false)))).
Proof.
  intros R Ty H h b p Hh G f If O.
  destruct (copy_to_oneof_branches_partial hook m obj attrs R Ty H h Hh) as (hv & G' & B).
  rewrite G in G'. injection G' as <-. rewrite (B f If O). unfold branch_null. split.
  - intros N. assert (E : String.eqb b (fi_name (f_info f)) = false) by (apply String.eqb_neq; congruence).
    now rewrite E.
  - intros <-. rewrite String.eqb_refl.
    (* the payload of the active branch is a value of the branch *)
    pose proof (rt_ok_tf_ok m R) as T. pose proof (rt_ok_rt_more m R) as RM.
    pose proof (rt_typed_typed m RM obj Ty) as Ty'.
    destruct m as [n fs os inj e z]. cbn [m_fields m_oneofs] in *.
    rewrite typed_eq in Ty'. destruct Ty' as (gs & -> & Tf). rewrite Forall_forall in Tf. specialize (Tf f If).
    rewrite tf_ok_eq in T. apply andb_prop in T. destruct T as [_ T3]. rewrite forallb_forall in T3.
    rewrite rt_more_eq in RM. apply andb_prop in RM. destruct RM as [_ R4]. rewrite forallb_forall in R4.
    specialize (T3 f If). specialize (R4 f If). destruct f as [i om]. cbn [f_info ftf_ok frt_more ftyped] in *.
    apply andb_prop in T3. destruct T3 as [F _]. apply andb_prop in R4. destruct R4 as [RI _].
    destruct (ocond_of os i om F RI h O) as [(K & Nn & _ & Pl & _)|(K & Nn)]; rewrite K.
    + left. split; [reflexivity|]. rewrite Pl in Tf. unfold reads in Tf. rewrite O in Tf.
      cbn [gfield] in G. destruct Tf as (hv & L & W). rewrite L in G. injection G as ->.
      destruct W as [X|(b' & p' & [= <- <-] & Sp)]; [discriminate X|]. specialize (Sp eq_refl).
      unfold val_shape in Sp. rewrite K in Sp. unfold elem_shape in Sp. rewrite Nn in Sp.
      destruct (cast_ok _ _ Sp) as (c & C & _). exists c. now rewrite C.
    + right. split; [reflexivity|].
      destruct (finfo_ok_inv _ _ F) as (_ & _ & _ & _ & _ & _ & PH).
      assert (Pl : fi_placeholder i = false).
      { destruct (fi_placeholder i); [|reflexivity]. destruct (PH eq_refl) as [X _]. congruence. }
      rewrite Pl in Tf. unfold reads in Tf. rewrite O in Tf.
      cbn [gfield] in G. destruct Tf as (hv & L & W). rewrite L in G. injection G as ->.
      destruct W as [X|(b' & p' & [= <- <-] & Sp)]; [discriminate X|]. specialize (Sp eq_refl).
      unfold val_shape in Sp. rewrite K in Sp. destruct om as [m'|]; [|contradiction].
      unfold elem_shape in Sp. rewrite Nn in Sp. destruct Sp as [->|(x & -> & _)]; [left|right]; eauto.
Qed.

(* ... in terms of the Go value: the attribute of the active scalar branch is null iff the payload
   is the zero value of the branch's Go type (up to the normal form of RoundTripProofs: the two
   float zeros, nil and empty byte strings) *)
Lemma copy_to_oneof_scalar_zero_in hook m obj attrs h i om p :
  rt_ok m = true -> rt_typed m obj ->
  copy_to hook m obj (VObj (msg_ty m) false false None) = Ok (VObj (msg_ty m) false false (Some attrs), []) ->
  In h (m_oneofs m) -> In (Field i om) (m_fields m) -> fi_oneof i = Some h -> fi_kind i = PrimitiveKind ->
  gfield obj h = Ok (GOneof (Some (fi_name i, p))) ->
  (forall c, zero_lit (fi_cast i) = true -> scalar_val (fi_cast i) p -> cast_to (kind_of (fi_cast i)) p = Ok c ->
             (prim_is_zero c = true <-> nf_scalar p = nf_scalar (zero_scalar (fi_cast i)))) ->
  (attr_null (lookup (fi_snake i) attrs) = true <-> nf_scalar p = nf_scalar (zero_scalar (fi_cast i))).
Proof.
  intros R Ty H Hh If O K G SZ.
  destruct (copy_to_oneof_set_partial hook m obj attrs R Ty H h (fi_name i) p Hh G (Field i om) If O) as [_ A].
  cbn [f_info] in A. destruct (A eq_refl) as [(_ & c & C & ->)|(K' & _)]; [|congruence].
  pose proof (rt_ok_tf_ok m R) as T. pose proof (rt_ok_rt_more m R) as RM.
  destruct m as [n fs os inj e z]. cbn [m_fields m_oneofs] in *.
  rewrite rt_typed_eq in Ty. destruct Ty as (gs & -> & _ & _ & Tf). rewrite Forall_forall in Tf.
  specialize (Tf _ If).
  rewrite tf_ok_eq in T. apply andb_prop in T. destruct T as [_ T3]. rewrite forallb_forall in T3.
  rewrite rt_more_eq in RM. apply andb_prop in RM. destruct RM as [_ R4]. rewrite forallb_forall in R4.
  specialize (T3 _ If). specialize (R4 _ If). cbn [ftf_ok frt_more rt_ftyped] in *.
  apply andb_prop in T3. destruct T3 as [F _]. apply andb_prop in R4. destruct R4 as [RI _].
  destruct (ocond_of os i om F RI h O) as [(_ & Nn & _ & Pl & _)|(K' & _)]; [|congruence].
  unfold rt_info_ok in RI. rewrite O, K in RI. cbn [is_prim_kind] in RI.
  apply andb_prop in RI. destruct RI as [Ek RI]. apply tfkind_eqb_eq in Ek.
  apply andb_prop in RI. destruct RI as [_ RI]. apply andb_prop in RI. destruct RI as [_ ZL].
  rewrite Pl in Tf. unfold reads in Tf. rewrite O in Tf. cbn [gfield] in G.
  destruct Tf as (hv & L & W). rewrite L in G. injection G as ->.
  destruct W as [X|(b' & p' & [= <- <-] & Sp)]; [discriminate X|]. specialize (Sp eq_refl).
  unfold rt_val_shape in Sp. rewrite K in Sp. unfold elem_shape, sval in Sp. rewrite Nn in Sp.
  rewrite Ek in C. now apply SZ.
Qed.

Corollary copy_to_oneof_scalar_zero_nofloat32 hook m obj attrs h i om p :
  rt_ok m = true -> rt_typed m obj ->
  copy_to hook m obj (VObj (msg_ty m) false false None) = Ok (VObj (msg_ty m) false false (Some attrs), []) ->
  In h (m_oneofs m) -> In (Field i om) (m_fields m) -> fi_oneof i = Some h -> fi_kind i = PrimitiveKind ->
  fi_cast i <> GsFloat32 ->
  gfield obj h = Ok (GOneof (Some (fi_name i, p))) ->
  (attr_null (lookup (fi_snake i) attrs) = true <-> nf_scalar p = nf_scalar (zero_scalar (fi_cast i))).
Proof.
  intros R Ty H Hh If O K NF G. apply (copy_to_oneof_scalar_zero_in hook m obj attrs h i om p); auto.
  intros c ZL Sv C. now apply scalar_zero_null_nofloat.
Qed.

Corollary copy_to_oneof_scalar_zero_partial hook m obj attrs h i om p :
  rt_ok m = true -> rt_typed m obj ->
  copy_to hook m obj (VObj (msg_ty m) false false None) = Ok (VObj (msg_ty m) false false (Some attrs), []) ->
  In h (m_oneofs m) -> In (Field i om) (m_fields m) -> fi_oneof i = Some h -> fi_kind i = PrimitiveKind ->
  gfield obj h = Ok (GOneof (Some (fi_name i, p))) ->
  (attr_null (lookup (fi_snake i) attrs) = true <-> nf_scalar p = nf_scalar (zero_scalar (fi_cast i))).
Proof.
  intros R Ty H Hh If O K G. apply (copy_to_oneof_scalar_zero_in hook m obj attrs h i om p); auto.
  intros c ZL Sv C. now apply scalar_zero_null.
Qed.

(* at most one branch attribute of a oneof is not null: the count *)
Theorem copy_to_oneof_count_partial hook m obj attrs :
  rt_ok m = true -> rt_typed m obj ->
  copy_to hook m obj (VObj (msg_ty m) false false None) = Ok (VObj (msg_ty m) false false (Some attrs), []) ->
  forall h, In h (m_oneofs m) -> (List.length (nonnull_branches (m_fields m) attrs h) <= 1)%nat.
Proof.
  intros R Ty H h Hh. pose proof (copy_to_excl_partial hook m obj attrs R Ty H) as X.
  destruct m as [n fs os inj e z]. rewrite excl_eq in X. cbn [orb m_oneofs m_fields] in *.
  apply andb_prop in X. destruct X as [X _]. rewrite forallb_forall in X. specialize (X h Hh).
  unfold group_ok in X. now apply Nat.leb_le.
Qed.

(* ... and pairwise *)
Theorem copy_to_oneof_exclusive_partial hook m obj attrs :
  rt_ok m = true -> rt_typed m obj ->
  copy_to hook m obj (VObj (msg_ty m) false false None) = Ok (VObj (msg_ty m) false false (Some attrs), []) ->
  forall h, In h (m_oneofs m) ->
  forall f1 f2, In f1 (m_fields m) -> In f2 (m_fields m) ->
    fi_oneof (f_info f1) = Some h -> fi_oneof (f_info f2) = Some h ->
    fi_name (f_info f1) <> fi_name (f_info f2) ->
    attr_null (lookup (fi_snake (f_info f1)) attrs) = true
    \/ attr_null (lookup (fi_snake (f_info f2)) attrs) = true.
Proof.
  intros R Ty H h Hh f1 f2 I1 I2 O1 O2 NE.
  pose proof (copy_to_oneof_count_partial hook m obj attrs R Ty H h Hh) as C.
  destruct (attr_null (lookup (fi_snake (f_info f1)) attrs)) eqn:N1; [now left|].
  destruct (attr_null (lookup (fi_snake (f_info f2)) attrs)) eqn:N2; [now right|]. exfalso. apply NE.
  assert (B : forall f, In f (m_fields m) -> fi_oneof (f_info f) = Some h ->
              attr_null (lookup (fi_snake (f_info f)) attrs) = false ->
              In f (nonnull_branches (m_fields m) attrs h)).
  { intros f If O N. unfold nonnull_branches. apply filter_In. split; [exact If|].
    unfold is_branch, snake. now rewrite O, String.eqb_refl, N. }
  now rewrite (le1_same _ f1 f2 C (B f1 I1 O1 N1) (B f2 I2 O2 N2)).
Qed.

(* with totality: the result exists *)
Corollary copy_to_oneof_total_partial hook m obj :
  rt_ok m = true -> rt_typed m obj ->
  exists attrs,
    copy_to hook m obj (VObj (msg_ty m) false false None) = Ok (VObj (msg_ty m) false false (Some attrs), [])
    /\ excl m (VObj (msg_ty m) false false (Some attrs)) = true
    /\ forall h, In h (m_oneofs m) -> (List.length (nonnull_branches (m_fields m) attrs h) <= 1)%nat.
Proof.
  intros R Ty.
  destruct (copy_to_spec_partial hook m obj (rt_ok_tf_ok m R) (rt_typed_typed m (rt_ok_rt_more m R) obj Ty))
    as (attrs & E & _).
  exists attrs. split; [exact E|]. split.
  - now apply (copy_to_excl_partial hook m obj).
  - now apply (copy_to_oneof_count_partial hook m obj).
Qed.

(* ------------------------------------------------------------------------------------- *)
(* 5. C07, CopyFrom direction, at the level of the message: any object, any prior value *)

Definition tf_attrs (t : tfval) : option (list (string * tfval)) :=
  match t with VObj _ _ _ a => a | _ => None end.

(* the branch f of oneof h sets the holder: its attribute is present, of the branch's type, known
   and not null *)
Definition sets_holder (h : string) (attrs : option (list (string * tfval))) (f : field) : bool :=
  negb (fi_placeholder (f_info f)) && is_branch h f &&
  match lookup (fi_snake (f_info f)) (attrs_list attrs) with
  | Some (VPrim k n u _) =>
      kind_eqb (fi_kind (f_info f)) PrimitiveKind && tfkind_eqb k (fi_tk (f_info f)) && known n u
  | Some (VObj _ n u _) => kind_eqb (fi_kind (f_info f)) ObjectKind && known n u
  | _ => false
  end.

(* the last branch of h, in field order, which sets the holder *)
Definition last_known_branch (fs : list field) (h : string) (attrs : option (list (string * tfval)))
  : option field :=
  fold_left (fun acc f => if sets_holder h attrs f then Some f else acc) fs None.

(* the payload the branch leaves in the holder: the cast attribute value, a pointer to the decoded
   message *)
Definition payload_of (attrs : option (list (string * tfval))) (f : field) (p : goval) : Prop :=
  match lookup (fi_snake (f_info f)) (attrs_list attrs) with
  | Some (VPrim _ n u q) => from_prim_value (f_info f) n u q = Ok p
  | Some (VObj _ _ _ _) => exists v, p = GPtr (Some v)
  | _ => False
  end.

Definition holds (h : string) (attrs : option (list (string * tfval))) (obj : goval) (o : option field) : Prop :=
  match o with
  | None => gfield obj h = Ok (GOneof None)
  | Some f => exists p, gfield obj h = Ok (GOneof (Some (fi_name (f_info f), p))) /\ payload_of attrs f p
  end.

(* a holder is not the Go name of a plain field of the message (a Go struct has no two fields of the
   same name) *)
Definition holders_sep (m : message) : bool :=
  forallb (fun f => match fi_oneof (f_info f) with
                    | None => negb (mem_str (fi_name (f_info f)) (m_oneofs m))
                    | Some _ => true
                    end) (m_fields m).

Lemma from_field_oneof_obj hook i m' attrs obj ds obj' ds' h a n u at0 :
  fi_oneof i = Some h -> fi_kind i = ObjectKind -> fi_via i = [] ->
  lookup (fi_snake i) (attrs_list attrs) = Some (VObj a n u at0) -> known n u = true ->
  from_field hook (Field i (Some m')) attrs (obj, ds) = Ok (obj', ds') ->
  exists v, gfield obj' h = Ok (GOneof (Some (fi_name i, GPtr (Some v)))).
Proof.
  intros O K V L N. rewrite <- attr_lookup_eq in L. cbn [from_field]. fold (from_fields hook).
  rewrite K, L, O, V, N. cbn [gset_via].
  destruct (alloc_parent i obj) as [o1|]; cbn [bind]; [|discriminate].
  match goal with |- bind ?x _ = _ -> _ => destruct x as [[v d]|] end; cbn [bind]; [|discriminate].
  destruct (gset o1 h (GOneof (Some (fi_name i, GPtr (Some v))))) as [o2|] eqn:E; cbn [bind]; [|discriminate].
  intros [= <- <-]. exists v. eapply gset_same; eauto.
Qed.

Lemma from_field_sets hook f attrs obj ds obj' ds' h :
  info_ok (f_info f) (f_msg f) = true -> sets_holder h attrs f = true ->
  from_field hook f attrs (obj, ds) = Ok (obj', ds') -> holds h attrs obj' (Some f).
Proof.
  destruct f as [i om]. cbn [f_info f_msg]. intros IO S H.
  destruct (info_ok_inv _ _ IO) as (V & P & KM & _).
  unfold sets_holder, is_branch in S. cbn [f_info] in S.
  apply andb_prop in S. destruct S as [S S3]. apply andb_prop in S. destruct S as [_ S2].
  destruct (fi_oneof i) as [h'|] eqn:O; [|discriminate S2]. apply String.eqb_eq in S2. subst h'.
  cbn [holds f_info]. unfold payload_of. cbn [f_info].
  destruct (lookup (fi_snake i) (attrs_list attrs)) as [[k n u q| | |a n u at0| |]|] eqn:L; try discriminate S3.
  - apply andb_prop in S3. destruct S3 as [S3 N]. apply andb_prop in S3. destruct S3 as [K Ek].
    assert (K' : fi_kind i = PrimitiveKind) by (destruct (fi_kind i); (reflexivity || discriminate K)).
    apply tfkind_eqb_eq in Ek. subst k.
    destruct (from_field_oneof_prim hook i om attrs obj ds obj' ds' h n u q O K' V L N H) as (t & Et & G).
    exists t. auto.
  - apply andb_prop in S3. destruct S3 as [K N].
    assert (K' : fi_kind i = ObjectKind) by (destruct (fi_kind i); (reflexivity || discriminate K)).
    rewrite K' in KM. destruct KM as (m' & ->).
    destruct (from_field_oneof_obj hook i m' attrs obj ds obj' ds' h a n u at0 O K' V L N H) as (v & G).
    eexists. split; [exact G|]. eauto.
Qed.

Lemma from_field_oneof_skip hook i om attrs obj ds obj' ds' h :
  fi_oneof i = Some h -> fi_kind i = PrimitiveKind \/ fi_kind i = ObjectKind ->
  fi_placeholder i = false -> sets_holder h attrs (Field i om) = false ->
  from_field hook (Field i om) attrs (obj, ds) = Ok (obj', ds') -> obj' = obj.
Proof.
  intros O K Pl S. unfold sets_holder, is_branch in S. cbn [f_info] in S.
  rewrite Pl, O, String.eqb_refl in S. cbn [negb andb] in S. rewrite <- attr_lookup_eq in S.
  cbn [from_field]. fold (from_fields hook). rewrite O.
  destruct K as [K|K]; rewrite K in *; cbn [kind_eqb andb] in S.
  - destruct (match attrs with Some l => lookup (fi_snake i) l | None => None end) as [a|] eqn:L;
      [|now intros [= <- <-]].
    destruct (as_prim i a) as [[[n u] p]|] eqn:AP; [|now intros [= <- <-]].
    apply as_prim_inv in AP. subst a. rewrite CopyToProofs.tfkind_eqb_refl in S. cbn [andb] in S. rewrite S.
    destruct (from_prim_value i n u p); cbn [bind]; [|discriminate]. now intros [= <- <-].
  - destruct (match attrs with Some l => lookup (fi_snake i) l | None => None end) as [a|] eqn:L;
      [|now intros [= <- <-]].
    destruct om as [m'|]; [|discriminate].
    destruct a as [| | |aty n u at0| |]; try (now intros [= <- <-]).
    rewrite S. now intros [= <- <-].
Qed.

Lemma holds_ext h attrs obj obj' o : gfield obj' h = gfield obj h -> holds h attrs obj o -> holds h attrs obj' o.
Proof. intros E. unfold holds. now rewrite E. Qed.

Lemma from_field_keeps hook f attrs obj ds obj' ds' h :
  info_ok (f_info f) (f_msg f) = true -> fi_placeholder (f_info f) = false ->
  (fi_oneof (f_info f) = None -> fi_name (f_info f) <> h) ->
  sets_holder h attrs f = false ->
  from_field hook f attrs (obj, ds) = Ok (obj', ds') -> gfield obj' h = gfield obj h.
Proof.
  destruct f as [i om]. cbn [f_info f_msg]. intros IO Pl NH S H.
  destruct (info_ok_inv _ _ IO) as (V & P & _ & KO).
  destruct (fi_oneof i) as [h'|] eqn:O.
  - destruct (string_dec h' h) as [->|NE].
    + now rewrite (from_field_oneof_skip hook i om attrs obj ds obj' ds' h O KO Pl S H).
    + apply (from_field_untouched _ _ _ _ _ _ _ H). cbn [f_info]. unfold top_keys, write_key.
      rewrite V, P, O. cbn [hd]. destruct KO as [-> | ->]; cbn [In]; intuition congruence.
  - apply (from_field_untouched _ _ _ _ _ _ _ H). cbn [f_info]. unfold top_keys, write_key.
    rewrite V, P, O. cbn [hd In]. specialize (NH eq_refl). intuition congruence.
Qed.

Lemma from_field_list_holder hook attrs h fs : forall obj ds obj' ds' acc,
  (forall f, In f fs -> info_ok (f_info f) (f_msg f) = true) ->
  (forall f, In f fs -> fi_oneof (f_info f) = None -> fi_name (f_info f) <> h) ->
  from_field_list hook fs attrs (obj, ds) = Ok (obj', ds') ->
  holds h attrs obj acc ->
  holds h attrs obj' (fold_left (fun acc f => if sets_holder h attrs f then Some f else acc) fs acc).
Proof.
  induction fs as [|f r IH]; intros obj ds obj' ds' acc IO NH H A; cbn [from_field_list fold_left] in *.
  - now injection H as <- <-.
  - assert (IOr : forall f', In f' r -> info_ok (f_info f') (f_msg f') = true) by (intros; apply IO; now right).
    assert (NHr : forall f', In f' r -> fi_oneof (f_info f') = None -> fi_name (f_info f') <> h)
      by (intros; apply NH; [now right|assumption]).
    destruct (fi_placeholder (f_info f)) eqn:Pl.
    + assert (S : sets_holder h attrs f = false) by (unfold sets_holder; now rewrite Pl).
      rewrite S. now apply (IH obj ds obj' ds').
    + destruct (from_field hook f attrs (obj, ds)) as [[o1 d1]|] eqn:E; cbn [bind] in H; [|discriminate].
      apply (IH o1 d1 obj' ds'); auto.
      destruct (sets_holder h attrs f) eqn:S.
      * apply (from_field_sets hook f attrs obj ds o1 d1 h); auto. apply IO. now left.
      * apply (holds_ext h attrs obj); [|exact A].
        apply (from_field_keeps hook f attrs obj ds o1 d1 h); auto; [apply IO; now left|apply NH; now left].
Qed.

Lemma fold_last_in {A} (P : A -> bool) l : forall acc f,
  fold_left (fun acc x => if P x then Some x else acc) l acc = Some f ->
  (In f l /\ P f = true) \/ acc = Some f.
Proof.
  induction l as [|x r IH]; intros acc f H; cbn [fold_left] in H; [now right|].
  destruct (IH _ _ H) as [[I Pf]|E]; [left; split; [now right|exact Pf]|].
  destruct (P x) eqn:Px; [|now right]. injection E as <-. left. split; [now left|exact Px].
Qed.

Lemma last_known_branch_in fs h attrs f :
  last_known_branch fs h attrs = Some f ->
  In f fs /\ fi_oneof (f_info f) = Some h /\ sets_holder h attrs f = true.
Proof.
  intros H. destruct (fold_last_in _ _ _ _ H) as [[I S]|E]; [|discriminate E].
  split; [exact I|]. split; [|exact S]. unfold sets_holder, is_branch in S.
  apply andb_prop in S. destruct S as [S _]. apply andb_prop in S. destruct S as [_ S].
  destruct (fi_oneof (f_info f)) as [h'|]; [|discriminate S]. apply String.eqb_eq in S. now subst.
Qed.

Theorem from_fields_holders hook m attrs obj ds obj' ds' h :
  flat_ok m = true -> holders_sep m = true ->
  from_fields hook m attrs (obj, ds) = Ok (obj', ds') -> In h (m_oneofs m) ->
  holds h attrs obj' (last_known_branch (m_fields m) h attrs).
Proof.
  destruct m as [nm fs os inj e z]. rewrite flat_ok_forallb, from_fields_unfold. unfold holders_sep.
  cbn [fst snd m_oneofs m_fields]. intros F HS H Hh. rewrite forallb_forall in F, HS.
  assert (IO : forall f, In f fs -> info_ok (f_info f) (f_msg f) = true).
  { intros [i om] If. specialize (F _ If). cbn [fflat_ok] in F. apply andb_prop in F. tauto. }
  assert (NH : forall f, In f fs -> fi_oneof (f_info f) = None -> fi_name (f_info f) <> h).
  { intros f If O EQ. specialize (HS f If). rewrite O, EQ in HS. apply mem_str_In in Hh. now rewrite Hh in HS. }
  destruct (fold_res reset_oneof os obj) as [o1|] eqn:E1; cbn [bind] in H; [|discriminate].
  destruct (fold_res reset_promoted fs o1) as [o2|] eqn:E2; cbn [bind] in H; [|discriminate].
  destruct (fold_res reset_parent fs o2) as [o3|] eqn:E3; cbn [bind] in H; [|discriminate].
  apply (from_field_list_holder hook attrs h fs o3 ds obj' ds' None IO NH H). cbn [holds].
  apply (fold_res_inv reset_parent (fun o => gfield o h = Ok (GOneof None)) fs) with (o := o2); [|
    apply (fold_res_inv reset_promoted (fun o => gfield o h = Ok (GOneof None)) fs) with (o := o1); [|
      apply (reset_oneofs_nil h os _ _ E1); now left | exact E2] | exact E3].
  - intros f Hf o o' Po. unfold reset_parent. destruct (info_ok_inv _ _ (IO f Hf)) as (_ & -> & _).
    now intros [= <-].
  - intros f Hf o o' Po. unfold reset_promoted. destruct (fi_oneof (f_info f)) as [k|]; [|now intros [= <-]].
    destruct (fi_parent (f_info f)); [now intros [= <-]|].
    intros S. eapply gset_nil_preserved; eauto.
Qed.

(* C07, CopyFrom direction: whatever object is read and whatever the target held, every holder of
   the message is nil or set to a branch of its oneof: nil when no branch attribute is known and not
   null, the last such branch in field order otherwise *)
Theorem copy_from_holders_ok_partial hook m t prior g ds :
  flat_ok m = true -> holders_sep m = true ->
  copy_from hook m t prior = Ok (g, ds) ->
  forall h, In h (m_oneofs m) ->
  exists gs, g = GStruct gs /\ holder_ok (m_fields m) h gs /\
    match last_known_branch (m_fields m) h (tf_attrs t) with
    | None => lookup h gs = Some (GOneof None)
    | Some f => In f (m_fields m) /\ fi_oneof (f_info f) = Some h /\
                exists p, lookup h gs = Some (GOneof (Some (fi_name (f_info f), p)))
                          /\ payload_of (tf_attrs t) f p
    end.
Proof.
  intros F HS H h Hh. destruct t as [| | |a n u at0| |]; try discriminate H. cbn [copy_from tf_attrs] in *.
  pose proof (from_fields_holders hook m at0 prior [] g ds h F HS H Hh) as X.
  assert (L : forall v, gfield g h = Ok v -> exists gs, g = GStruct gs /\ lookup h gs = Some v).
  { intros v G. destruct g as [| | | | |gs|]; try discriminate G. exists gs. split; [reflexivity|].
    cbn [gfield] in G. destruct (lookup h gs); [now injection G as ->|discriminate G]. }
  destruct (last_known_branch (m_fields m) h at0) as [f|] eqn:LB; cbn [holds] in X.
  - destruct X as (p & G & PO). destruct (L _ G) as (gs & -> & Lh).
    destruct (last_known_branch_in _ _ _ _ LB) as (If & O & _).
    exists gs. split; [reflexivity|]. split; [|eauto 6].
    eexists. split; [exact Lh|]. right. eauto.
  - destruct (L _ X) as (gs & -> & Lh). exists gs. split; [reflexivity|]. split; [|exact Lh].
    eexists. split; [exact Lh|]. now left.
Qed.

(* with totality (CopyFromProofs.copy_from_total_partial): on every payload-typed object and every
   target with the keys of the message, CopyFrom returns and the holders are as above *)
Corollary copy_from_holders_total_partial hook m a n u at0 prior :
  flat_ok m = true -> holders_sep m = true -> zeros_ok m -> attrs_typed at0 = true -> has_keys m prior ->
  exists g ds, copy_from hook m (VObj a n u at0) prior = Ok (g, ds) /\
    forall h, In h (m_oneofs m) ->
    exists gs, g = GStruct gs /\ holder_ok (m_fields m) h gs /\
      match last_known_branch (m_fields m) h at0 with
      | None => lookup h gs = Some (GOneof None)
      | Some f => In f (m_fields m) /\ fi_oneof (f_info f) = Some h /\
                  exists p, lookup h gs = Some (GOneof (Some (fi_name (f_info f), p)))
                            /\ payload_of at0 f p
      end.
Proof.
  intros F HS Z T K. destruct (copy_from_total_partial hook m a n u at0 prior F Z T K) as (g & ds & E & _).
  exists g, ds. split; [exact E|]. exact (copy_from_holders_ok_partial hook m _ prior g ds F HS E).
Qed.

(* the class of the round trip theorem is inside *)
Lemma rt_ok_holders_sep m : rt_ok m = true -> holders_sep m = true.
Proof.
  intros R. apply rt_ok_rt_more in R. destruct m as [n fs os inj e z]. rewrite rt_more_eq in R.
  apply andb_prop in R. destruct R as [_ R]. rewrite forallb_forall in R.
  unfold holders_sep. cbn [m_fields m_oneofs]. apply forallb_forall. intros [i om] If.
  specialize (R _ If). cbn [frt_more f_info] in *. apply andb_prop in R. destruct R as [R _].
  unfold rt_info_ok in R. apply andb_prop in R. destruct R as [_ R]. now destruct (fi_oneof i).
Qed.

(* ------------------------------------------------------------------------------------- *)
(* 6. round trip: the active branch survives CopyTo followed by CopyFrom unless its payload is
   equivalent to the zero value of the branch (which CopyTo renders null: the normal form) *)

Lemma oneof_survives n fs os inj z gs obj' h b p :
  rt_more (Msg n fs os inj false z) = true ->
  nf_equiv (Msg n fs os inj false z) obj' (GStruct gs) ->
  In h os -> lookup h gs = Some (GOneof (Some (b, p))) ->
  (forall f, branch_of fs h b f -> ~ val_equiv (f_info f) (E_of (f_msg f)) (zero_of_prim (f_info f)) p) ->
  exists gs' p' f,
    obj' = GStruct gs' /\ lookup h gs' = Some (GOneof (Some (b, p'))) /\
    branch_of fs h b f /\ val_equiv (f_info f) (E_of (f_msg f)) p' p.
Proof.
  intros RM N Hh L NZ.
  pose proof N as N'. rewrite nf_equiv_eq in N'. destruct N' as (ga & gb & -> & _).
  rewrite rt_more_eq in RM. apply andb_prop in RM. destruct RM as [RM _]. apply andb_prop in RM.
  destruct RM as [RM _]. apply andb_prop in RM. destruct RM as [_ PH]. cbn [orb] in PH.
  rewrite forallb_forall in PH.
  assert (PH' : forall f, In f fs -> fi_placeholder (f_info f) = false).
  { intros f If. specialize (PH f If). now destruct (fi_placeholder (f_info f)). }
  destruct (nf_equiv_holder n fs os inj z ga gs h N PH' Hh) as (ha & hb & La & Lb & M).
  rewrite L in Lb. injection Lb as <-.
  destruct ha as [[b1 p1]|].
  - destruct M as [(-> & f & B & E)|(_ & f1 & f2 & _ & _ & B2 & E2)].
    + exists ga, p1, f. auto.
    + exfalso. exact (NZ f2 B2 E2).
  - destruct M as (f & B & E). exfalso. exact (NZ f B E).
Qed.

Corollary oneof_round_trip_partial hook_to hook_from n fs os inj z gs h b p :
  let m := Msg n fs os inj false z in
  rt_ok m = true -> rt_typed m (GStruct gs) ->
  In h os -> lookup h gs = Some (GOneof (Some (b, p))) ->
  (forall f, branch_of fs h b f -> ~ val_equiv (f_info f) (E_of (f_msg f)) (zero_of_prim (f_info f)) p) ->
  exists t gs' p' f,
    copy_to hook_to m (GStruct gs) (VObj (msg_ty m) false false None) = Ok (t, []) /\
    copy_from hook_from m t (m_zero m) = Ok (GStruct gs', []) /\
    lookup h gs' = Some (GOneof (Some (b, p'))) /\
    branch_of fs h b f /\ val_equiv (f_info f) (E_of (f_msg f)) p' p.
Proof.
  intros m R Ty Hh L NZ.
  destruct (copy_round_trip_partial hook_to hook_from m (GStruct gs) R Ty) as (t & obj' & E1 & E2 & N).
  destruct (oneof_survives n fs os inj z gs obj' h b p (rt_ok_rt_more m R) N Hh L NZ)
    as (gs' & p' & f & -> & L' & B & E).
  exists t, gs', p', f. auto.
Qed.

(* without float32 scalars: closed under the global context *)
Corollary oneof_round_trip_nofloat32 hook_to hook_from n fs os inj z gs h b p :
  let m := Msg n fs os inj false z in
  rt_ok m = true -> casts_in not_f32 m = true -> rt_typed m (GStruct gs) ->
  In h os -> lookup h gs = Some (GOneof (Some (b, p))) ->
  (forall f, branch_of fs h b f -> ~ val_equiv (f_info f) (E_of (f_msg f)) (zero_of_prim (f_info f)) p) ->
  exists t gs' p' f,
    copy_to hook_to m (GStruct gs) (VObj (msg_ty m) false false None) = Ok (t, []) /\
    copy_from hook_from m t (m_zero m) = Ok (GStruct gs', []) /\
    lookup h gs' = Some (GOneof (Some (b, p'))) /\
    branch_of fs h b f /\ val_equiv (f_info f) (E_of (f_msg f)) p' p.
Proof.
  intros m R C Ty Hh L NZ.
  destruct (copy_round_trip_nofloat32 hook_to hook_from m (GStruct gs) R C Ty) as (t & obj' & E1 & E2 & N).
  destruct (oneof_survives n fs os inj z gs obj' h b p (rt_ok_rt_more m R) N Hh L NZ)
    as (gs' & p' & f & -> & L' & B & E).
  exists t, gs', p', f. auto.
Qed.

(* ------------------------------------------------------------------------------------- *)
(* 7. the model computes: RTExample.outer (two oneofs, a scalar and a message branch in "Kind") *)
Module OneofExamples.
  Import RTExample.
  Local Open Scope string_scope.
  Local Open Scope Z_scope.

  Definition setk (k : string) (v : goval) (g : goval) : goval :=
    match g with GStruct fs => GStruct (update k v fs) | _ => g end.

  Definition run (kind other : goval) : res (tfval * list diag) :=
    copy_to std_hook_to outer (setk "Kind" kind (setk "Other" other value)) (VObj (msg_ty outer) false false None).

  (* the null flags of the branch attributes x, y (oneof Kind) and z (oneof Other), exclusivity *)
  Definition nulls (r : res (tfval * list diag)) : list (string * bool) * bool :=
    match r with
    | Ok (VObj a n u (Some attrs), []) =>
        (map (fun k => (k, attr_null (lookup k attrs))) ["x"; "y"; "z"], excl outer (VObj a n u (Some attrs)))
    | _ => ([], false)
    end.

  (* holders nil *)
  Example to_nil : nulls (run (GOneof None) (GOneof None)) = ([("x", true); ("y", true); ("z", true)], true).
  Proof. vm_compute. reflexivity. Qed.
  (* scalar branches holding zero: rendered null (the normal form) *)
  Example to_scalar_zero :
    nulls (run (GOneof (Some ("X", GPrim (PInt 0)))) (GOneof (Some ("Z", GPrim (PInt 0)))))
    = ([("x", true); ("y", true); ("z", true)], true).
  Proof. vm_compute. reflexivity. Qed.
  (* scalar branches holding a non-zero payload *)
  Example to_scalar_set :
    nulls (run (GOneof (Some ("X", GPrim (PInt 5)))) (GOneof (Some ("Z", GPrim (PInt 7)))))
    = ([("x", false); ("y", true); ("z", false)], true).
  Proof. vm_compute. reflexivity. Qed.
  (* message branch holding a nil pointer *)
  Example to_msg_nil :
    nulls (run (GOneof (Some ("Y", GPtr None))) (GOneof None)) = ([("x", true); ("y", true); ("z", true)], true).
  Proof. vm_compute. reflexivity. Qed.
  (* message branch set, even to the zero message *)
  Example to_msg_set :
    nulls (run (GOneof (Some ("Y", GPtr (Some (inn "" 0))))) (GOneof None))
    = ([("x", true); ("y", false); ("z", true)], true).
  Proof. vm_compute. reflexivity. Qed.

  (* branch_null is the flag computed *)
  Example branch_null_x :
    branch_null (mk "X" "x" PrimitiveKind KI64 GsInt32 false true (Some "Kind")) (Some ("X", GPrim (PInt 5))) = false
    /\ branch_null (mk "X" "x" PrimitiveKind KI64 GsInt32 false true (Some "Kind")) (Some ("X", GPrim (PInt 0))) = true
    /\ branch_null (mk "X" "x" PrimitiveKind KI64 GsInt32 false true (Some "Kind")) (Some ("Y", GPtr None)) = true
    /\ branch_null (mk "Y" "y" ObjectKind KI64 GsInt64 true false (Some "Kind")) (Some ("Y", GPtr (Some (inn "" 0)))) = false
    /\ branch_null (mk "Y" "y" ObjectKind KI64 GsInt64 true false (Some "Kind")) (Some ("Y", GPtr None)) = true.
  Proof. repeat split; reflexivity. Qed.

  (* the theorems on RTExample.value *)
  Example value_excl :
    exists attrs,
      copy_to std_hook_to outer value (VObj (msg_ty outer) false false None)
      = Ok (VObj (msg_ty outer) false false (Some attrs), [])
      /\ excl outer (VObj (msg_ty outer) false false (Some attrs)) = true
      /\ forall h, In h (m_oneofs outer) -> (List.length (nonnull_branches (m_fields outer) attrs h) <= 1)%nat.
  Proof. exact (copy_to_oneof_total_partial std_hook_to outer value outer_ok value_typed). Qed.

  (* excl is not trivially true: both branches of Kind non-null *)
  Definition two_set : tfval :=
    VObj (msg_ty outer) false false
         (Some [("x", VPrim KI64 false false (PInt 1)); ("y", VObj (msg_ty inner) false false (Some []))]).
  Example excl_rejects : excl outer two_set = false.
  Proof. vm_compute. reflexivity. Qed.

  (* at depth: a message holding outer by pointer and in a list *)
  Definition wrap : message :=
    Msg "Wrap" [Field (mk "O" "o" ObjectKind KI64 GsInt64 true false None) (Some outer);
                Field (mk "Os" "os" ObjectListKind KI64 GsInt64 false false None) (Some outer)] [] [] false
        (GStruct [("O", GPtr None); ("Os", GSlice None)]).
  Definition wvalue : goval :=
    GStruct [("O", GPtr (Some value));
             ("Os", GSlice (Some [setk "Kind" (GOneof (Some ("X", GPrim (PInt 3)))) value; value]))].
  Example wrap_ok : rt_ok wrap = true.
  Proof. vm_compute. reflexivity. Qed.
  Example wrap_run :
    exists t, copy_to std_hook_to wrap wvalue (VObj (msg_ty wrap) false false None) = Ok (t, [])
              /\ excl wrap t = true.
  Proof. eexists. split; vm_compute; reflexivity. Qed.
  (* ... and a violation below is seen *)
  Example wrap_rejects :
    excl wrap (VObj (msg_ty wrap) false false
                    (Some [("o", two_set); ("os", VList (TyObj (msg_ty outer)) true false (Some []))])) = false.
  Proof. vm_compute. reflexivity. Qed.

  (* CopyFrom: the object CopyTo returns for value with the attributes x, y, z replaced; the target
     is value itself (both holders set) *)
  Definition mkattrs (x y z : tfval) : tfval :=
    match copy_to std_hook_to outer value (VObj (msg_ty outer) false false None) with
    | Ok (VObj a n u (Some attrs), _) => VObj a n u (Some (update "x" x (update "y" y (update "z" z attrs))))
    | _ => VNil
    end.
  Definition holders (r : res (goval * list diag)) : res goval * res goval :=
    match r with Ok (g, _) => (gfield g "Kind", gfield g "Other") | Panic => (Panic, Panic) end.
  Definition yobj (n : bool) : tfval :=
    VObj (msg_ty inner) n false
         (Some [("a", VPrim KStr false false (PStr "q")); ("u", VPrim KI64 false false (PInt 3))]).
  Definition names (t : tfval) : option string * option string :=
    (option_map (fun f => fi_name (f_info f)) (last_known_branch (m_fields outer) "Kind" (tf_attrs t)),
     option_map (fun f => fi_name (f_info f)) (last_known_branch (m_fields outer) "Other" (tf_attrs t))).

  (* both branches of Kind known: the last one in field order wins; z null: Other is reset to nil *)
  Example from_both :
    let t := mkattrs (VPrim KI64 false false (PInt 4)) (yobj false) (VPrim KI64 true false (PInt 0)) in
    holders (copy_from std_hook_from outer t value)
    = (Ok (GOneof (Some ("Y", GPtr (Some (inn "q" 3))))), Ok (GOneof None))
    /\ names t = (Some "Y", None).
  Proof. split; vm_compute; reflexivity. Qed.
  (* y null, z unknown *)
  Example from_first :
    let t := mkattrs (VPrim KI64 false false (PInt 4)) (yobj true) (VPrim KI64 false true (PInt 0)) in
    holders (copy_from std_hook_from outer t value)
    = (Ok (GOneof (Some ("X", GPrim (PInt 4)))), Ok (GOneof None))
    /\ names t = (Some "X", None).
  Proof. split; vm_compute; reflexivity. Qed.
  (* x null, y null, z of the wrong kind: both holders nil *)
  Example from_none :
    let t := mkattrs (VPrim KI64 true false (PInt 4)) (yobj true) (VPrim KStr false false (PStr "zz")) in
    holders (copy_from std_hook_from outer t value) = (Ok (GOneof None), Ok (GOneof None))
    /\ names t = (None, None).
  Proof. split; vm_compute; reflexivity. Qed.
  (* a known zero payload sets the holder (CopyFrom does not normalise); y a scalar, z an object *)
  Example from_zero_payload :
    let t := mkattrs (VPrim KI64 false false (PInt 0)) (VPrim KI64 false false (PInt 0)) (VObj [] false false None) in
    holders (copy_from std_hook_from outer t value)
    = (Ok (GOneof (Some ("X", GPrim (PInt 0)))), Ok (GOneof None))
    /\ names t = (Some "X", None).
  Proof. split; vm_compute; reflexivity. Qed.

  Example outer_flat : flat_ok outer = true /\ holders_sep outer = true.
  Proof. split; vm_compute; reflexivity. Qed.

  (* the theorem on this input *)
  Example from_both_thm g ds :
    copy_from std_hook_from outer
              (mkattrs (VPrim KI64 false false (PInt 4)) (yobj false) (VPrim KI64 true false (PInt 0))) value
    = Ok (g, ds) ->
    exists gs p, g = GStruct gs /\ lookup "Kind" gs = Some (GOneof (Some ("Y", p)))
                 /\ lookup "Other" gs = Some (GOneof None).
  Proof.
    intros H. destruct outer_flat as [F S].
    destruct (copy_from_holders_ok_partial std_hook_from outer _ value g ds F S H "Kind") as (gs & -> & _ & K);
      [cbn; tauto|].
    destruct (copy_from_holders_ok_partial std_hook_from outer _ value (GStruct gs) ds F S H "Other")
      as (gs' & [= <-] & _ & O); [cbn; tauto|].
    vm_compute in K. vm_compute in O. destruct K as (_ & _ & p & L & _). eauto.
  Qed.
End OneofExamples.

Print Assumptions copy_to_oneof_exclusive_partial.
Print Assumptions copy_to_oneof_count_partial.
Print Assumptions copy_to_oneof_branches_partial.
Print Assumptions copy_to_oneof_nil_partial.
Print Assumptions copy_to_oneof_set_partial.
Print Assumptions copy_to_oneof_scalar_zero_nofloat32.
Print Assumptions copy_to_excl_partial.
Print Assumptions copy_to_oneof_total_partial.
Print Assumptions copy_from_holders_ok_partial.
Print Assumptions copy_from_holders_total_partial.
Print Assumptions oneof_round_trip_nofloat32.
Print Assumptions oneof_round_trip_partial.
Print Assumptions copy_to_oneof_scalar_zero_partial.
