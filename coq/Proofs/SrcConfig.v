(* [configuration] Agreement between the tables regenerated from the Go sources on every run (Generated/Src.v, written by
   `vh translate`) and the hand-written model. Every statement is closed by computation over a finite
   domain (the fifteen proto scalar types, the nine command-line options, the configuration keys), so a
   change of a row in the source breaks the proof at once. *)
From Coq Require Import List String Ascii Bool NArith.
From PGT Require Import Base.Strs Base.AList Model.Vals Model.Desc Model.Build Model.GoTypes.
From PGT Require Import Proofs.CopyToTotal.
From PGT Require Import Generated.Src.
Import ListNotations.
Open Scope string_scope.

(* ---- 2. readFromCLI ----------------------------------------------------------------------------- *)

(* the command-line stage of the model's read_config, named *)
Definition read_from_cli (ps : params) (c : config) : config :=
  {| c_types := get_slice_param ps "types" (c_types c);
     c_duration_custom_type := get_string_param ps "custom_duration" (c_duration_custom_type c);
     c_exclude := get_slice_param ps "exclude_fields" (c_exclude c);
     c_computed := get_slice_param ps "computed_fields" (c_computed c);
     c_required := get_slice_param ps "required_fields" (c_required c);
     c_sensitive := get_slice_param ps "sensitive" (c_sensitive c);
     c_target_pkg := get_string_param ps "target_package_name" (c_target_pkg c);
     c_default_pkg := get_string_param ps "default_package_name" (c_default_pkg c);
     c_sort := get_bool_param ps "sort" (c_sort c);
     c_use_state := c_use_state c; c_suffixes := c_suffixes c;
     c_name_overrides := c_name_overrides c; c_validators := c_validators c;
     c_planmods := c_planmods c; c_time_type := c_time_type c;
     c_duration_type := c_duration_type c; c_injected := c_injected c;
     c_import_overrides := c_import_overrides c; c_custom_types := c_custom_types c |}.

(* read_config without a configuration file is exactly this stage on the empty configuration *)
Lemma read_config_is_cli_stage ps :
  get_string_param ps "config" "" = "" ->
  read_config ps YAbsent =
  match c_types (read_from_cli ps empty_config) with [] => CfgFail | _ => CfgOk (read_from_cli ps empty_config) end.
Proof. intros E. unfold read_config. rewrite E. reflexivity. Qed.

(* in every case the configuration read_config returns is this stage applied to what the file gave *)
Lemma read_config_cli_after_yaml ps y :
  read_config ps y = CfgFail \/ exists c0, read_config ps y = CfgOk (read_from_cli ps c0).
Proof.
  unfold read_config.
  destruct (String.eqb (get_string_param ps "config" "") "") eqn:Ec; [|destruct y as [| | |d]];
    try (left; reflexivity);
    lazymatch goal with
    | |- (match c_types ?X with _ => _ end) = CfgFail \/ _ =>
        lazymatch X with
        | context [c_types ?C0] =>
            change X with (read_from_cli ps C0);
            destruct (c_types (read_from_cli ps C0)); [left; reflexivity | right; exists C0; reflexivity]
        end
    end.
Qed.

(* the function regenerated from config.go's readFromCLI IS the model's command-line stage *)
Theorem src_read_from_cli_agrees : forall ps c, src_read_from_cli ps c = read_from_cli ps c.
Proof. reflexivity. Qed.

Theorem src_cli_params_documented :
  src_cli_params =
  [("Types", "getSliceParam", "types"); ("ExcludeFields", "getSliceParam", "exclude_fields");
   ("ComputedFields", "getSliceParam", "computed_fields"); ("RequiredFields", "getSliceParam", "required_fields");
   ("SensitiveFields", "getSliceParam", "sensitive"); ("DefaultPackageName", "getStringParam", "default_package_name");
   ("TargetPackageName", "getStringParam", "target_package_name"); ("DurationCustomType", "getStringParam", "custom_duration");
   ("Sort", "getBoolParam", "sort")].
Proof. reflexivity. Qed.

(* ---- 3. configuration keys of the YAML document ---------------------------------------------------- *)

Definition yaml_key (field : string) : option string :=
  match find (fun r => String.eqb (fst (fst r)) field) src_yaml_keys with
  | Some (_, k, _) => Some k
  | None => None
  end.

(* the keys the documentation (README, test/config.yaml) gives and the harness writes *)
Definition documented_yaml_keys : list (string * string) :=
  [("Config.Types", "types"); ("Config.DurationCustomType", "duration_custom_type"); ("Config.ExcludeFields", "exclude_fields");
   ("Config.TargetPackageName", "target_package_name"); ("Config.DefaultPackageName", "default_package_name"); ("Config.Sort", "sort");
   ("Config.UseStateForUnknownByDefault", "use_state_for_unknown_by_default"); ("Config.ComputedFields", "computed_fields");
   ("Config.RequiredFields", "required_fields"); ("Config.SensitiveFields", "sensitive_fields"); ("Config.Suffixes", "suffixes");
   ("Config.NameOverrides", "name_overrides"); ("Config.Validators", "validators"); ("Config.PlanModifiers", "plan_modifiers");
   ("Config.SchemaTypes", "schema_types"); ("Config.TimeType", "time_type"); ("Config.DurationType", "duration_type");
   ("Config.InjectedFields", "injected_fields"); ("Config.ImportPathOverrides", "import_path_overrides"); ("Config.CustomTypes", "custom_types");
   ("SchemaType.Type", "type"); ("SchemaType.ValueType", "value_type"); ("SchemaType.CastToType", "cast_to_type");
   ("SchemaType.CastFromType", "cast_from_type"); ("SchemaType.TypeConstructor", "type_constructor");
   ("InjectedField.Name", "name"); ("InjectedField.Type", "type"); ("InjectedField.Required", "required");
   ("InjectedField.Computed", "computed"); ("InjectedField.Optional", "optional");
   ("InjectedField.PlanModifiers", "plan_modifiers"); ("InjectedField.Validators", "validators")].

Theorem src_yaml_keys_documented :
  forallb (fun fk => match yaml_key (fst fk) with Some k => String.eqb k (snd fk) | None => false end) documented_yaml_keys = true
  /\ List.length src_yaml_keys = S (List.length documented_yaml_keys)      (* + the unexported params field, tag "-" *)
  /\ yaml_key "Config.params" = Some "-".
Proof. vm_compute. repeat split; reflexivity. Qed.

