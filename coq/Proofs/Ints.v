(* Integer conversions of the generated code: casting a Go integer field to the int64 payload of
   a types.Int64 and back is the identity over the whole range of the field's type. *)
From Coq Require Import List String Bool ZArith Lia.
From PGT Require Import Model.Vals.
Local Open Scope Z_scope.

Ltac Zify.zify_post_hook ::= Z.div_mod_to_equations.

Definition in_range (s : goscalar) (x : Z) : Prop :=
  match s with
  | GsInt32 | GsEnum => - 2 ^ 31 <= x < 2 ^ 31
  | GsInt64 | GsDuration => - 2 ^ 63 <= x < 2 ^ 63
  | GsUint32 => 0 <= x < 2 ^ 32
  | GsUint64 => 0 <= x < 2 ^ 64
  | _ => False
  end.

Lemma wrap_s_id bits x : 0 < bits -> - 2 ^ (bits - 1) <= x < 2 ^ (bits - 1) -> wrap_s bits x = x.
Proof.
  intros Hb Hx. unfold wrap_s.
  assert (E : 2 ^ bits = 2 * 2 ^ (bits - 1)).
  { replace bits with (1 + (bits - 1)) at 1 by lia. rewrite Z.pow_add_r by lia. reflexivity. }
  assert (P : 0 < 2 ^ (bits - 1)) by (apply Z.pow_pos_nonneg; lia).
  destruct (Z.ltb_spec (x mod 2 ^ bits) (2 ^ (bits - 1))) as [H|H].
  - destruct (Z_lt_le_dec x 0) as [N|N].
    + exfalso. assert (x mod 2 ^ bits = x + 2 ^ bits).
      { symmetry. apply Z.mod_unique with (q := -1); lia. }
      lia.
    + apply Z.mod_small. lia.
  - destruct (Z_lt_le_dec x 0) as [N|N].
    + assert (x mod 2 ^ bits = x + 2 ^ bits).
      { symmetry. apply Z.mod_unique with (q := -1); lia. }
      lia.
    + exfalso. rewrite Z.mod_small in H by lia. lia.
Qed.

Lemma wrap_u_id bits x : 0 <= x < 2 ^ bits -> wrap_u bits x = x.
Proof. intros H. unfold wrap_u. apply Z.mod_small. exact H. Qed.

(* uint64 -> int64 -> uint64: the only conversion pair that actually wraps *)
Lemma wrap_u64_s64 x : 0 <= x < 2 ^ 64 -> wrap_u 64 (wrap_s 64 x) = x.
Proof.
  intros H. unfold wrap_u, wrap_s.
  rewrite (Z.mod_small x) by exact H.
  change (2 ^ (64 - 1)) with (2 ^ 63).
  destruct (Z.ltb_spec x (2 ^ 63)).
  - apply Z.mod_small. exact H.
  - symmetry. apply Z.mod_unique with (q := -1); lia.
Qed.

Lemma wrap_s64_small x : - 9223372036854775808 <= x < 9223372036854775808 -> wrap_s 64 x = x.
Proof. intros H. apply wrap_s_id; [lia|]. change (2 ^ (64 - 1)) with 9223372036854775808. exact H. Qed.

Lemma wrap_s32_small x : - 2147483648 <= x < 2147483648 -> wrap_s 32 x = x.
Proof. intros H. apply wrap_s_id; [lia|]. change (2 ^ (32 - 1)) with 2147483648. exact H. Qed.

Lemma wrap_u32_small x : 0 <= x < 4294967296 -> wrap_u 32 x = x.
Proof. intros H. apply wrap_u_id. change (2 ^ 32) with 4294967296. exact H. Qed.

Lemma wrap_u64_s64' x : 0 <= x < 18446744073709551616 -> wrap_u 64 (wrap_s 64 x) = x.
Proof. intros H. apply wrap_u64_s64. change (2 ^ 64) with 18446744073709551616. exact H. Qed.

Theorem int_round_trip (s : goscalar) (x : Z) :
  in_range s x ->
  exists p, cast_to KI64 (GPrim (PInt x)) = Ok p /\ cast_from s p = Ok (GPrim (PInt x))
            \/ (s = GsDuration /\ cast_to KDur (GPrim (PInt x)) = Ok p /\ cast_from s p = Ok (GPrim (PInt x))).
Proof.
  intros H. destruct s; cbn [in_range] in H; try contradiction;
    change (2 ^ 31) with 2147483648 in *; change (2 ^ 32) with 4294967296 in *;
    change (2 ^ 63) with 9223372036854775808 in *; change (2 ^ 64) with 18446744073709551616 in *.
  - (* int32 *) exists (PInt (wrap_s 64 x)). left. split; [reflexivity|]. cbn [cast_from].
    rewrite (wrap_s64_small x) by lia. rewrite wrap_s32_small by lia. reflexivity.
  - (* int64 *) exists (PInt (wrap_s 64 x)). left. split; [reflexivity|]. cbn [cast_from].
    rewrite (wrap_s64_small x) by lia. rewrite (wrap_s64_small x) by lia. reflexivity.
  - (* uint32 *) exists (PInt (wrap_s 64 x)). left. split; [reflexivity|]. cbn [cast_from].
    rewrite (wrap_s64_small x) by lia. rewrite wrap_u32_small by lia. reflexivity.
  - (* uint64 *) exists (PInt (wrap_s 64 x)). left. split; [reflexivity|]. cbn [cast_from].
    rewrite wrap_u64_s64' by lia. reflexivity.
  - (* enum *) exists (PInt (wrap_s 64 x)). left. split; [reflexivity|]. cbn [cast_from].
    rewrite (wrap_s64_small x) by lia. rewrite wrap_s32_small by lia. reflexivity.
  - (* duration *) exists (PInt x). right. split; [reflexivity|]. split; reflexivity.
Qed.

(* non-vacuity and the extremes *)
Example uint64_max : cast_from GsUint64 (PInt (wrap_s 64 (2 ^ 64 - 1))) = Ok (GPrim (PInt (2 ^ 64 - 1))).
Proof. vm_compute. reflexivity. Qed.
Example int32_min : cast_from GsInt32 (PInt (wrap_s 64 (- 2 ^ 31))) = Ok (GPrim (PInt (- 2 ^ 31))).
Proof. vm_compute. reflexivity. Qed.

(* the other exact scalars *)
Theorem bool_round_trip b : exists p, cast_to KBool (GPrim (PBool b)) = Ok p /\ cast_from GsBool p = Ok (GPrim (PBool b)).
Proof. eexists; split; reflexivity. Qed.
Theorem string_round_trip s : exists p, cast_to KStr (GPrim (PStr s)) = Ok p /\ cast_from GsString p = Ok (GPrim (PStr s)).
Proof. eexists; split; reflexivity. Qed.
Theorem bytes_round_trip s : exists p, cast_to KStr (GBytes (Some s)) = Ok p /\ cast_from GsBytes p = Ok (GBytes (Some s)).
Proof. eexists; split; reflexivity. Qed.
Theorem time_round_trip a b c : exists p, cast_to KTime (GPrim (PTime a b c)) = Ok p /\ cast_from GsTime p = Ok (GPrim (PTime a b c)).
Proof. eexists; split; reflexivity. Qed.
Theorem float64_round_trip x : exists p, cast_to KF64 (GPrim (PF64 x)) = Ok p /\ cast_from GsFloat64 p = Ok (GPrim (PF64 x)).
Proof. eexists; split; reflexivity. Qed.
