(* main.go replacePackageName (Model/GoTypes.replace_package_name): exactly one line — the first
   "package <something>" line — is rewritten, everything before and after is kept. *)
From Coq Require Import List String Ascii Bool NArith Arith Lia.
From PGT Require Import Base.Strs Model.GoTypes.
Import ListNotations.
Open Scope string_scope.

Definition newline : ascii := ascii_of_N 10.

Lemma is_nl_newline c : is_nl c = true <-> c = newline.
Proof.
  unfold is_nl, code, newline. rewrite N.eqb_eq. split; intros H.
  - rewrite <- (ascii_N_embedding c), H. reflexivity.
  - subst c. reflexivity.
Qed.

Lemma split_line_spec s x rest :
  split_line s = Some (x, rest) -> s = x ++ nl ++ rest /\ contains_char newline x = false.
Proof.
  revert x rest. induction s as [|c r IH]; intros x rest H; cbn in H; [discriminate|].
  destruct (is_nl c) eqn:Hc.
  - inversion H; subst. apply is_nl_newline in Hc. subst c. split; reflexivity.
  - destruct (split_line r) as [[x' rest']|] eqn:Hr; [|discriminate].
    inversion H; subst. destruct (IH _ _ eq_refl) as [E N]. split.
    + cbn. now rewrite E.
    + cbn [contains_char]. rewrite N. unfold ascii_eqb. destruct (Ascii.eqb newline c) eqn:E'; [|reflexivity].
      apply Ascii.eqb_eq in E'. subst c. discriminate.
Qed.

Lemma split_line_complete x rest :
  contains_char newline x = false -> split_line (x ++ nl ++ rest) = Some (x, rest).
Proof.
  induction x as [|c r IH]; intros H.
  - reflexivity.
  - cbn [contains_char] in H. apply orb_false_iff in H as [Hc Hr].
    change (String c r ++ nl ++ rest) with (String c (r ++ nl ++ rest)). cbn [split_line].
    destruct (is_nl c) eqn:E.
    + apply is_nl_newline in E. subst c. unfold ascii_eqb in Hc. now rewrite Ascii.eqb_refl in Hc.
    + now rewrite (IH Hr).
Qed.

Lemma has_prefix_app p s : has_prefix p (p ++ s) = true.
Proof. induction p as [|c r IH]; cbn; [reflexivity|]. unfold ascii_eqb. now rewrite Ascii.eqb_refl. Qed.

Lemma has_prefix_split p s : has_prefix p s = true -> s = p ++ drop (String.length p) s.
Proof.
  revert s. induction p as [|c r IH]; intros s H; cbn; [reflexivity|].
  destruct s as [|d s']; cbn in H; [discriminate|].
  apply andb_true_iff in H as [Hc Hr]. apply Ascii.eqb_eq in Hc. subst d. cbn. now rewrite <- IH.
Qed.

Lemma replace_unfold c r t :
  replace_package_name (String c r) t =
  if has_prefix pkg_kw (String c r) then
    match split_line (drop 8 (String c r)) with
    | Some (EmptyString, _) => String c (replace_package_name r t)
    | Some (_, rest) => pkg_kw ++ t ++ nl ++ rest
    | None => String c r
    end
  else String c (replace_package_name r t).
Proof. reflexivity. Qed.

(* the shape of every result: the text unchanged, or exactly one line "package x" rewritten *)
Theorem replace_package_name_shape s t :
  replace_package_name s t = s \/
  exists pre x rest,
    s = pre ++ pkg_kw ++ x ++ nl ++ rest /\ x <> "" /\ contains_char newline x = false /\
    replace_package_name s t = pre ++ pkg_kw ++ t ++ nl ++ rest.
Proof.
  induction s as [|c r IH]; [left; reflexivity|].
  assert (Hskip : replace_package_name (String c r) t = String c (replace_package_name r t) ->
                  replace_package_name (String c r) t = String c r \/
                  exists pre x rest, String c r = pre ++ pkg_kw ++ x ++ nl ++ rest /\ x <> "" /\
                    contains_char newline x = false /\
                    replace_package_name (String c r) t = pre ++ pkg_kw ++ t ++ nl ++ rest).
  { intros E. rewrite E. destruct IH as [IH|(pre & x & rest & E1 & Hx & Hn & E2)].
    - left. now rewrite IH.
    - right. exists (String c pre), x, rest.
      change (String c pre ++ pkg_kw ++ x ++ nl ++ rest) with (String c (pre ++ pkg_kw ++ x ++ nl ++ rest)).
      change (String c pre ++ pkg_kw ++ t ++ nl ++ rest) with (String c (pre ++ pkg_kw ++ t ++ nl ++ rest)).
      rewrite <- E1, E2. repeat split; auto. }
  destruct (has_prefix pkg_kw (String c r)) eqn:Hp.
  2: { apply Hskip. rewrite replace_unfold, Hp. reflexivity. }
  destruct (split_line (drop 8 (String c r))) as [[x rest]|] eqn:Hs.
  2: { left. rewrite replace_unfold, Hp, Hs. reflexivity. }
  destruct x as [|x0 xr].
  - apply Hskip. rewrite replace_unfold, Hp, Hs. reflexivity.
  - right. exists "", (String x0 xr), rest. rewrite replace_unfold, Hp, Hs.
    apply split_line_spec in Hs as [E N]. apply has_prefix_split in Hp.
    change (String.length pkg_kw) with 8 in Hp. rewrite E in Hp.
    repeat split; auto. discriminate.
Qed.

(* no position of [pre] starts the text "package " when [pre] is followed by [follow] *)
Fixpoint no_start (pre follow : string) : bool :=
  match pre with
  | EmptyString => true
  | String c r => negb (has_prefix pkg_kw (pre ++ follow)) && no_start r follow
  end.

Theorem replace_package_name_first pre x rest t :
  no_start pre (pkg_kw ++ x ++ nl ++ rest) = true -> x <> "" -> contains_char newline x = false ->
  replace_package_name (pre ++ pkg_kw ++ x ++ nl ++ rest) t = pre ++ pkg_kw ++ t ++ nl ++ rest.
Proof.
  intros Hpre Hx Hn. induction pre as [|c r IH].
  - change ("" ++ pkg_kw ++ x ++ nl ++ rest) with (String "p" ("ackage " ++ x ++ nl ++ rest)).
    rewrite replace_unfold.
    change (has_prefix pkg_kw (String "p" ("ackage " ++ x ++ nl ++ rest))) with true.
    change (drop 8 (String "p" ("ackage " ++ x ++ nl ++ rest))) with (x ++ nl ++ rest).
    rewrite (split_line_complete _ rest Hn). destruct x; [contradiction|reflexivity].
  - cbn [no_start] in Hpre. apply andb_true_iff in Hpre as [H1 H2]. apply negb_true_iff in H1.
    change ((String c r) ++ pkg_kw ++ x ++ nl ++ rest) with (String c (r ++ pkg_kw ++ x ++ nl ++ rest)) in *.
    rewrite replace_unfold, H1. now rewrite (IH H2).
Qed.

(* the clause at the very beginning of the text *)
Corollary replace_package_name_head x rest t :
  x <> "" -> contains_char newline x = false ->
  replace_package_name (pkg_kw ++ x ++ nl ++ rest) t = pkg_kw ++ t ++ nl ++ rest.
Proof. intros Hx Hn. exact (replace_package_name_first "" x rest t eq_refl Hx Hn). Qed.

(* a text without any "package x" line is returned as it is *)
Theorem replace_package_name_absent s t :
  (forall pre x rest, s = pre ++ pkg_kw ++ x ++ nl ++ rest -> x <> "" -> contains_char newline x = false -> False) ->
  replace_package_name s t = s.
Proof.
  intros H. destruct (replace_package_name_shape s t) as [E|(pre & x & rest & E & Hx & Hn & _)]; [exact E|].
  exfalso. exact (H _ _ _ E Hx Hn).
Qed.

(* what a generated file looks like: comment header, the clause, then declarations whose string
   literals mention the word package — only the clause changes *)
Example replace_package_name_example :
  replace_package_name
    ("// Code generated by protoc-gen-terraform. DO NOT EDIT." ++ nl ++ "// source: a.proto" ++ nl ++ nl
     ++ "package types" ++ nl ++ nl ++ "var d = ""Name of the package to install""" ++ nl ++ "// package x" ++ nl) "tfschema"
  = "// Code generated by protoc-gen-terraform. DO NOT EDIT." ++ nl ++ "// source: a.proto" ++ nl ++ nl
     ++ "package tfschema" ++ nl ++ nl ++ "var d = ""Name of the package to install""" ++ nl ++ "// package x" ++ nl.
Proof. vm_compute. reflexivity. Qed.

Example no_start_example :
  no_start ("// Code generated by protoc-gen-terraform. DO NOT EDIT." ++ nl ++ "// source: a.proto" ++ nl ++ nl)
           (pkg_kw ++ "types" ++ nl) = true.
Proof. vm_compute. reflexivity. Qed.
