(* C03 for the model of Copy<T>ToTerraform (Model/CopyTo.v): on an object that carries the schema's
   attribute types and no values, CopyTo of a well-typed Go value ([typed]) returns, without panic
   and without diagnostic; afterwards every attribute that stems from a field is present with a
   value of exactly the schema's type ([conforms]), recursively, no other attribute is present, and
   nothing is unknown.  (copy_to_total_partial, copy_to_conforms_partial, copy_to_spec_partial;
   with the type of Model/Schema.v: schema_ty_msg_ty, copy_to_schema_partial; C20 at the level of
   the message: copy_to_nullness_partial.)

   The class of messages covered is [tf_ok]: at every depth
   - no field promoted from a pointer-embedded message (fi_via = [], fi_parent = None),
   - no custom-type field; the object kinds carry their message,
   - a oneof branch is a scalar (a value scalar whose Go zero value its cast accepts, or a pointer
     scalar) or a nullable message,
   - distinct attribute names within a message,
   - a zero literal only on value (non-pointer) scalars and scalar elements,
   - the placeholder only as a plain scalar field, and a message flagged empty has placeholder
     fields only.
   All six non-custom kinds, nullable or not, oneofs and nesting at any depth are covered (stages
   (a), (b) and (c)); the proof is by mutual induction over the IR (message_ind'). *)
From Coq Require Import List String Bool ZArith Lia.
From PGT Require Import Base.Strs Base.AList Model.Vals Model.IR Model.CopyTo Model.Schema.
From PGT Require Import Proofs.CopyToProofs.
From PGT Require Proofs.CopyFromProofs Model.Build.
Import ListNotations.

Notation prim_has_kind := CopyFromProofs.prim_has_kind.
Notation cast_compat := CopyFromProofs.cast_compat.

(* ------------------------------------------------------------------------------------- *)
(* 1. equality of Terraform types *)

Section TyInd.
  Variable P : tfty -> Prop.
  Hypothesis Hp : forall k, P (TyPrim k).
  Hypothesis Hl : forall e, P e -> P (TyList e).
  Hypothesis Hm : forall e, P e -> P (TyMap e).
  Hypothesis Ho : forall ats, Forall (fun kt => P (snd kt)) ats -> P (TyObj ats).
  Hypothesis Hh : forall s, P (TyHook s).

  Fixpoint tfty_ind' (t : tfty) : P t :=
    match t with
    | TyPrim k => Hp k
    | TyList e => Hl e (tfty_ind' e)
    | TyMap e => Hm e (tfty_ind' e)
    | TyObj ats =>
        Ho ats ((fix go (l : list (string * tfty)) : Forall (fun kt => P (snd kt)) l :=
                   match l with
                   | [] => Forall_nil _
                   | (k, t') :: r => Forall_cons (k, t') (tfty_ind' t') (go r)
                   end) ats)
    | TyHook s => Hh s
    end.
End TyInd.

Fixpoint tfty_eqb (a b : tfty) {struct a} : bool :=
  match a, b with
  | TyPrim k, TyPrim k' => tfkind_eqb k k'
  | TyList e, TyList e' => tfty_eqb e e'
  | TyMap e, TyMap e' => tfty_eqb e e'
  | TyObj l, TyObj l' =>
      (fix go (l l' : list (string * tfty)) {struct l} : bool :=
         match l, l' with
         | [], [] => true
         | (k, t) :: r, (k', t') :: r' => String.eqb k k' && tfty_eqb t t' && go r r'
         | _, _ => false
         end) l l'
  | TyHook s, TyHook s' => String.eqb s s'
  | _, _ => false
  end.

Fixpoint atys_eqb (l l' : list (string * tfty)) {struct l} : bool :=
  match l, l' with
  | [], [] => true
  | (k, t) :: r, (k', t') :: r' => String.eqb k k' && tfty_eqb t t' && atys_eqb r r'
  | _, _ => false
  end.

Lemma tfty_eqb_obj l l' : tfty_eqb (TyObj l) (TyObj l') = atys_eqb l l'.
Proof.
  cbn [tfty_eqb]. revert l'. induction l as [|[k t] r IH]; intros [|[k' t'] r']; cbn [atys_eqb];
    first [reflexivity | now rewrite IH].
Qed.

Lemma tfkind_eqb_eq k k' : tfkind_eqb k k' = true -> k = k'.
Proof. destruct k, k'; (reflexivity || discriminate). Qed.

Lemma tfty_eqb_refl t : tfty_eqb t t = true.
Proof.
  induction t using tfty_ind'; try (cbn [tfty_eqb]; first [apply tfkind_eqb_refl|assumption|apply String.eqb_refl]).
  rewrite tfty_eqb_obj. induction H as [|[k t] r Ht _ IH]; cbn [atys_eqb]; [reflexivity|].
  cbn [snd] in Ht. now rewrite String.eqb_refl, Ht, IH.
Qed.

Lemma tfty_eqb_eq a : forall b, tfty_eqb a b = true -> a = b.
Proof.
  induction a using tfty_ind'; intros b E; destruct b; try discriminate E.
  - cbn [tfty_eqb] in E. now rewrite (tfkind_eqb_eq _ _ E).
  - cbn [tfty_eqb] in E. now rewrite (IHa _ E).
  - cbn [tfty_eqb] in E. now rewrite (IHa _ E).
  - rewrite tfty_eqb_obj in E. f_equal. revert ats0 E.
    induction H as [|[k t] r Ht _ IH]; intros [|[k' t'] r'] E; cbn [atys_eqb] in E; try discriminate E; [reflexivity|].
    apply andb_prop in E. destruct E as [E E3]. apply andb_prop in E. destruct E as [E1 E2].
    apply String.eqb_eq in E1. cbn [snd] in Ht. now rewrite E1, (Ht _ E2), (IH _ E3).
  - cbn [tfty_eqb] in E. apply String.eqb_eq in E. now subst.
Qed.

(* ------------------------------------------------------------------------------------- *)
(* 2. a value has exactly a type *)

(* v is a value of type t: the kind, element type or attribute types it carries are those of t; a
   list or map which is not null holds elements of the element type; an object which is not null
   holds, for every attribute name of t, a value of the attribute's type, and no attribute under
   another name; the payload of a scalar has the Go type of its kind; nothing is unknown.  A null
   value is not looked into. *)
Fixpoint conforms (t : tfty) (v : tfval) {struct t} : bool :=
  match t, v with
  | TyPrim k, VPrim k' n u p => tfkind_eqb k k' && negb u && prim_has_kind k' p
  | TyList e, VList e' n u els =>
      tfty_eqb e e' && negb u
      && (n || match els with Some l => forallb (conforms e) l | None => false end)
  | TyMap e, VMap e' n u els =>
      tfty_eqb e e' && negb u
      && (n || match els with Some l => forallb (fun kv => conforms e (snd kv)) l | None => false end)
  | TyObj ats, VObj ats' n u attrs =>
      tfty_eqb (TyObj ats) (TyObj ats') && negb u
      && (n || match attrs with
               | Some l =>
                   (fix go (a : list (string * tfty)) : bool :=
                      match a with
                      | [] => true
                      | (k, t') :: r =>
                          match lookup k l with Some v' => conforms t' v' | None => false end && go r
                      end) ats
                   && forallb (fun kv => has_key (fst kv) ats) l
               | None => false
               end)
  | _, _ => false
  end.

Definition attrs_conform (ats : list (string * tfty)) (l : list (string * tfval)) : bool :=
  forallb (fun kt => match lookup (fst kt) l with Some v => conforms (snd kt) v | None => false end) ats
  && forallb (fun kv => has_key (fst kv) ats) l.

Lemma conforms_obj ats ats' n u l :
  conforms (TyObj ats) (VObj ats' n u (Some l))
  = tfty_eqb (TyObj ats) (TyObj ats') && negb u && (n || attrs_conform ats l).
Proof.
  cbn [conforms]. do 2 f_equal. unfold attrs_conform. apply (f_equal (fun b => b && _)).
  induction ats as [|[k t] r IH]; cbn [forallb fst snd]; [reflexivity|]. now rewrite IH.
Qed.

(* conformance implies absence of unknown values at every depth which is looked into: at the top *)
Lemma conforms_known t v : conforms t v = true ->
  match v with
  | VPrim _ _ u _ | VList _ _ u _ | VMap _ _ u _ | VObj _ _ u _ => u = false
  | _ => False
  end.
Proof.
  destruct t, v; cbn [conforms]; try discriminate; intros H;
    repeat (apply andb_prop in H; destruct H as [H ?]);
    match goal with E : negb ?u = true |- _ => now destruct u end.
Qed.

(* ------------------------------------------------------------------------------------- *)
(* 3. the attribute types of the generated schema *)

Fixpoint msg_ty (m : message) {struct m} : list (string * tfty) :=
  match m with
  | Msg _ fs _ _ _ _ =>
      (fix go (l : list field) : list (string * tfty) :=
         match l with
         | [] => []
         | f :: r =>
             match field_ty f with
             | Some t => (fi_snake (f_info f), t) :: go r
             | None => go r
             end
         end) fs
  end
with field_ty (f : field) {struct f} : option tfty :=
  match f with
  | Field i om =>
      match fi_kind i, om with
      | PrimitiveKind, _ => Some (TyPrim (fi_tk i))
      | PrimitiveListKind, _ => Some (TyList (TyPrim (fi_tk i)))
      | PrimitiveMapKind, _ => Some (TyMap (TyPrim (fi_tk i)))
      | ObjectKind, Some m' => Some (TyObj (msg_ty m'))
      | ObjectListKind, Some m' => Some (TyList (TyObj (msg_ty m')))
      | ObjectMapKind, Some m' => Some (TyMap (TyObj (msg_ty m')))
      | _, _ => None
      end
  end.

Definition snake (f : field) : string := fi_snake (f_info f).
Definition snakes (fs : list field) : list string := map snake fs.

Definition fields_ty (fs : list field) : list (string * tfty) :=
  flat_map (fun f => match field_ty f with Some t => [(snake f, t)] | None => [] end) fs.

Lemma msg_ty_eq n fs os inj e z : msg_ty (Msg n fs os inj e z) = fields_ty fs.
Proof.
  cbn [msg_ty]. unfold fields_ty. induction fs as [|f r IH]; [reflexivity|].
  cbn [flat_map]. rewrite <- IH. now destruct (field_ty f).
Qed.

Lemma msg_ty_fields m : msg_ty m = fields_ty (m_fields m).
Proof. destruct m. apply msg_ty_eq. Qed.

(* ------------------------------------------------------------------------------------- *)
(* 4. the class of messages *)

(* the Go values <ValueCastToType> accepts for a kind *)
Definition scalar_ok (k : tfkind) (g : goval) : bool :=
  match k, g with
  | KI64, GPrim (PInt _) | KDur, GPrim (PInt _)
  | KF64, GPrim (PF32 _) | KF64, GPrim (PF64 _)
  | KStr, GPrim (PStr _) | KStr, GBytes _
  | KBool, GPrim (PBool _)
  | KTime, GPrim (PTime _ _ _) => true
  | _, _ => false
  end.

Lemma cast_ok k g : scalar_ok k g = true -> exists p, cast_to k g = Ok p /\ prim_has_kind k p = true.
Proof.
  destruct k; destruct g as [p|o|o|o|o|fs|o]; try discriminate; try destruct p; try destruct o;
    try discriminate; intros _; cbn; eauto.
Qed.

(* the table is exact *)
Lemma cast_ok_conv k g p : cast_to k g = Ok p -> scalar_ok k g = true.
Proof.
  destruct k; destruct g as [q|o|o|o|o|fs|o]; try discriminate; try destruct q; try destruct o;
    try discriminate; reflexivity.
Qed.

Lemma cast_compat_zero k c : cast_compat k c = true -> scalar_ok k (zero_scalar c) = true.
Proof. destruct k, c; try discriminate; reflexivity. Qed.

Fixpoint nodup_b (l : list string) : bool :=
  match l with
  | [] => true
  | x :: r => negb (existsb (String.eqb x) r) && nodup_b r
  end.

Lemma nodup_b_NoDup l : nodup_b l = true -> NoDup l.
Proof.
  induction l as [|x r IH]; cbn [nodup_b]; intros H; constructor.
  - apply andb_prop in H. destruct H as [H _]. intros I.
    assert (E : existsb (String.eqb x) r = true) by (apply existsb_exists; exists x; split; [exact I|apply String.eqb_refl]).
    now rewrite E in H.
  - apply andb_prop in H. tauto.
Qed.

Definition is_prim_kind (k : kind) : bool :=
  match k with PrimitiveKind | PrimitiveListKind | PrimitiveMapKind => true | _ => false end.

(* one field *)
Definition finfo_ok (i : finfo) (om : option message) : bool :=
  match fi_via i with [] => true | _ => false end
  && match fi_parent i with None => true | Some _ => false end
  && match fi_kind i with
     | PrimitiveKind | PrimitiveListKind | PrimitiveMapKind => negb (fi_zero i) || negb (fi_nullable i)
     | ObjectKind | ObjectListKind | ObjectMapKind => match om with Some _ => true | None => false end
     | CustomKind => false
     end
  && match fi_oneof i with
     | None => true
     | Some _ =>
         match fi_kind i with
         | PrimitiveKind => fi_nullable i || scalar_ok (fi_tk i) (zero_scalar (fi_cast i))
         | ObjectKind => fi_nullable i
         | _ => false
         end
     end
  && (negb (fi_placeholder i)
      || (kind_eqb (fi_kind i) PrimitiveKind && match fi_oneof i with None => true | Some _ => false end)).

Fixpoint tf_ok (m : message) {struct m} : bool :=
  match m with
  | Msg _ fs _ _ e _ =>
      nodup_b (map (fun f => fi_snake (f_info f)) fs)
      && (negb e || forallb (fun f => fi_placeholder (f_info f)) fs)
      && (fix go (l : list field) : bool :=
            match l with
            | [] => true
            | f :: r => ftf_ok f && go r
            end) fs
  end
with ftf_ok (f : field) {struct f} : bool :=
  match f with
  | Field i om => finfo_ok i om && match om with Some m' => tf_ok m' | None => true end
  end.

Lemma tf_ok_eq n fs os inj e z :
  tf_ok (Msg n fs os inj e z)
  = nodup_b (snakes fs) && (negb e || forallb (fun f => fi_placeholder (f_info f)) fs) && forallb ftf_ok fs.
Proof.
  cbn [tf_ok]. unfold snakes, snake. apply (f_equal (andb _)).
  induction fs as [|f r IH]; [reflexivity|]. cbn [forallb]. now rewrite IH.
Qed.

(* ------------------------------------------------------------------------------------- *)
(* 5. the values of the generated struct *)

(* a value or element: T itself, or a pointer to T *)
Definition elem_shape (i : finfo) (T : goval -> Prop) (g : goval) : Prop :=
  if fi_nullable i then g = GPtr None \/ exists x, g = GPtr (Some x) /\ T x else T g.

(* the value of the Go field (or oneof payload) of an IR field; T: the values of its message *)
Definition val_shape (i : finfo) (T : option (goval -> Prop)) (g : goval) : Prop :=
  let sc := fun x => scalar_ok (fi_tk i) x = true in
  match fi_kind i with
  | PrimitiveKind => elem_shape i sc g
  | PrimitiveListKind => exists o, g = GSlice o /\ forall l, o = Some l -> Forall (elem_shape i sc) l
  | PrimitiveMapKind => exists o, g = GMap o /\ forall l, o = Some l -> Forall (fun ka => elem_shape i sc (snd ka)) l
  | ObjectKind => match T with Some T => elem_shape i T g | None => False end
  | ObjectListKind =>
      match T with
      | Some T => exists o, g = GSlice o /\ forall l, o = Some l -> Forall (elem_shape i T) l
      | None => False
      end
  | ObjectMapKind =>
      match T with
      | Some T => exists o, g = GMap o /\ forall l, o = Some l -> Forall (fun ka => elem_shape i T (snd ka)) l
      | None => False
      end
  | CustomKind => True
  end.

(* the struct has the key the field reads, with a value of shape S; a oneof branch reads the holder,
   and its payload has shape S when the holder is set to this branch *)
Definition reads (i : finfo) (S : goval -> Prop) (gs : list (string * goval)) : Prop :=
  match fi_oneof i with
  | None => exists g, lookup (fi_name i) gs = Some g /\ S g
  | Some h =>
      exists hv, lookup h gs = Some hv /\
                 (hv = GOneof None \/ exists b p, hv = GOneof (Some (b, p)) /\ (b = fi_name i -> S p))
  end.

Fixpoint typed (m : message) (obj : goval) {struct m} : Prop :=
  match m with
  | Msg _ fs _ _ _ _ =>
      exists gs, obj = GStruct gs /\
                 (fix go (l : list field) : Prop :=
                    match l with
                    | [] => True
                    | f :: r => ftyped f gs /\ go r
                    end) fs
  end
with ftyped (f : field) (gs : list (string * goval)) {struct f} : Prop :=
  match f with
  | Field i om =>
      if fi_placeholder i then True     (* the placeholder attribute reads nothing *)
      else reads i (val_shape i (match om with Some m' => Some (typed m') | None => None end)) gs
  end.

Lemma typed_eq n fs os inj e z obj :
  typed (Msg n fs os inj e z) obj <-> exists gs, obj = GStruct gs /\ Forall (fun f => ftyped f gs) fs.
Proof.
  cbn [typed]. split; intros [gs [E H]]; exists gs; (split; [exact E|]); clear E.
  - induction fs as [|f r IH]; constructor; tauto.
  - induction H; tauto.
Qed.

(* ------------------------------------------------------------------------------------- *)
(* 6. reading the struct *)

Lemma finfo_ok_inv i om : finfo_ok i om = true ->
  fi_via i = [] /\ fi_parent i = None /\ fi_kind i <> CustomKind /\
  (is_prim_kind (fi_kind i) = true -> fi_zero i = true -> fi_nullable i = false) /\
  (is_prim_kind (fi_kind i) = false -> exists m', om = Some m') /\
  (forall h, fi_oneof i = Some h ->
     (fi_kind i = PrimitiveKind /\ (fi_nullable i = true \/ scalar_ok (fi_tk i) (zero_scalar (fi_cast i)) = true))
     \/ (fi_kind i = ObjectKind /\ fi_nullable i = true)) /\
  (fi_placeholder i = true -> fi_kind i = PrimitiveKind /\ fi_oneof i = None).
Proof.
  unfold finfo_ok. intros H.
  apply andb_prop in H. destruct H as [H H5]. apply andb_prop in H. destruct H as [H H4].
  apply andb_prop in H. destruct H as [H H3]. apply andb_prop in H. destruct H as [H1 H2].
  split; [destruct (fi_via i); [reflexivity|discriminate]|].
  split; [destruct (fi_parent i); [discriminate|reflexivity]|].
  split; [intros K; rewrite K in H3; discriminate|].
  split.
  { intros P Z. rewrite Z in H3. destruct (fi_kind i); try discriminate P; now destruct (fi_nullable i). }
  split.
  { intros P. destruct (fi_kind i); try discriminate P; destruct om; try discriminate H3; eauto. }
  split.
  { intros h E. rewrite E in H4. destruct (fi_kind i); try discriminate H4.
    - left. split; [reflexivity|]. apply orb_prop in H4. tauto.
    - right. tauto. }
  intros P. rewrite P in H5. cbn [negb orb] in H5. apply andb_prop in H5. destruct H5 as [K O].
  split; [destruct (fi_kind i); (reflexivity || discriminate)|destruct (fi_oneof i); [discriminate|reflexivity]].
Qed.

Lemma read_holder_ok i S gs h :
  fi_via i = [] -> fi_parent i = None -> fi_oneof i = Some h -> reads i S gs ->
  exists hv, read_holder i h (GStruct gs) = Ok hv.
Proof.
  intros V P O R. unfold reads in R. rewrite O in R. destruct R as (hv & L & _).
  unfold read_holder, parent_is_nil. rewrite P, V. cbn [bind gget_via gfield]. rewrite L. eauto.
Qed.

Lemma read_field_ok i S gs bz :
  fi_via i = [] -> fi_parent i = None -> reads i S gs -> (fi_oneof i <> None -> S bz) ->
  exists g, read_field i bz (GStruct gs) = Ok g /\ S g.
Proof.
  intros V P R Z. unfold reads in R. unfold read_field, read_holder, parent_is_nil. rewrite P, V.
  destruct (fi_oneof i) as [h|].
  - destruct R as (hv & L & [->|(b & p & -> & Hp)]); cbn [bind gget_via gfield]; rewrite L; cbn [bind].
    + exists bz. split; [reflexivity|]. apply Z. discriminate.
    + destruct (String.eqb b (fi_name i)) eqn:E.
      * apply String.eqb_eq in E. exists p. split; [reflexivity|exact (Hp E)].
      * exists bz. split; [reflexivity|]. apply Z. discriminate.
  - destruct R as (g & L & Sg). cbn [gget_via gfield]. rewrite L. eauto.
Qed.

Lemma read_source_ok i S gs z :
  fi_via i = [] -> fi_parent i = None -> reads i S gs -> (fi_oneof i <> None -> S z) ->
  exists g, read_source i z (GStruct gs) = Ok g /\ S g.
Proof.
  intros V P R Z. unfold read_source. destruct (fi_oneof i) as [h|] eqn:O.
  - apply read_field_ok; auto. rewrite O. exact Z.
  - unfold parent_is_nil. rewrite P, V. cbn [bind gget_via gfield].
    unfold reads in R. rewrite O in R. destruct R as (g & L & Sg). rewrite L. eauto.
Qed.

(* ------------------------------------------------------------------------------------- *)
(* 7. scalars *)

Lemma zero_prim_kind k : prim_has_kind k (zero_prim_of_kind k) = true.
Proof. now destruct k. Qed.

Definition sc_shape (i : finfo) : goval -> Prop := elem_shape i (fun x => scalar_ok (fi_tk i) x = true).

Lemma to_prim_value_total i rd obj ds :
  fi_parent i = None ->
  (fi_zero i = true -> fi_nullable i = false) ->
  (fi_placeholder i = true \/ exists g, rd = Ok g /\ sc_shape i g) ->
  exists n p, to_prim_value i rd obj (TyPrim (fi_tk i)) None ds = Ok (VPrim (fi_tk i) n false p, ds)
              /\ prim_has_kind (fi_tk i) p = true.
Proof.
  intros P Z H. unfold to_prim_value, parent_is_nil. rewrite P. cbn [null_value].
  rewrite tfkind_eqb_refl.
  destruct (fi_placeholder i) eqn:PH.
  { cbn [bind]. do 2 eexists. split; [reflexivity|apply zero_prim_kind]. }
  destruct H as [H|(g & -> & S)]; [discriminate|]. unfold sc_shape, elem_shape in S.
  destruct (fi_nullable i) eqn:N.
  - destruct (fi_zero i); [specialize (Z eq_refl); discriminate|].
    destruct S as [->|(x & -> & Sx)].
    + destruct (fi_oneof i); cbn [bind]; do 2 eexists; (split; [reflexivity|apply zero_prim_kind]).
    + destruct (cast_ok _ _ Sx) as (p & E & K).
      destruct (fi_oneof i); cbn [bind]; rewrite E; cbn [bind]; eauto.
  - destruct (cast_ok _ _ S) as (p & E & K).
    destruct (fi_zero i), (fi_oneof i); cbn [bind]; rewrite E; cbn [bind]; eauto.
Qed.

Lemma conforms_prim k n p : prim_has_kind k p = true -> conforms (TyPrim k) (VPrim k n false p) = true.
Proof. intros H. cbn [conforms negb]. now rewrite tfkind_eqb_refl, H. Qed.

Lemma conforms_list e n vs :
  n = true \/ forallb (conforms e) vs = true -> conforms (TyList e) (VList e n false (Some vs)) = true.
Proof.
  intros H. cbn [conforms negb]. rewrite tfty_eqb_refl. cbn [andb].
  destruct H as [->| ->]; [reflexivity|apply orb_true_r].
Qed.

Lemma conforms_map e n es :
  n = true \/ forallb (fun kv => conforms e (snd kv)) es = true ->
  conforms (TyMap e) (VMap e n false (Some es)) = true.
Proof.
  intros H. cbn [conforms negb]. rewrite tfty_eqb_refl. cbn [andb].
  destruct H as [->| ->]; [reflexivity|apply orb_true_r].
Qed.

(* ------------------------------------------------------------------------------------- *)
(* 8. the element loops *)

Lemma fold_list_total {A} (F : A -> list diag -> res (tfval * list diag)) (C : tfval -> bool) l :
  Forall (fun a => forall ds, exists v, F a ds = Ok (v, ds) /\ C v = true) l ->
  forall vs0 ds, exists vs,
    fold_left (fun acc a => do '(vs, ds1) <- acc; do '(v, ds2) <- F a ds1; Ok (vs ++ [v], ds2)) l (Ok (vs0, ds))
    = Ok (vs0 ++ vs, ds) /\ forallb C vs = true.
Proof.
  induction 1 as [|a r Ha _ IH]; intros vs0 ds; cbn [fold_left].
  - exists []. now rewrite app_nil_r.
  - destruct (Ha ds) as (v & E & Cv). cbn [bind]. rewrite E. cbn [bind].
    destruct (IH (vs0 ++ [v]) ds) as (vs & E2 & Cs). exists (v :: vs). rewrite E2, <- app_assoc.
    split; [reflexivity|]. cbn [forallb]. now rewrite Cv, Cs.
Qed.

Lemma forallb_update {V} (C : V -> bool) k v l :
  C v = true -> forallb (fun kv => C (snd kv)) l = true -> forallb (fun kv => C (snd kv)) (update k v l) = true.
Proof.
  intros Hv. induction l as [|[k' v'] r IH]; cbn [update forallb snd].
  - intros _. now rewrite Hv.
  - intros H. apply andb_prop in H. destruct H as [H1 H2].
    destruct (String.eqb k k'); cbn [forallb snd]; [now rewrite Hv, H2|now rewrite H1, IH].
Qed.

Lemma fold_map_total {A} (F : A -> list diag -> res (tfval * list diag)) (C : tfval -> bool)
      (l : list (string * A)) :
  Forall (fun ka => forall ds, exists v, F (snd ka) ds = Ok (v, ds) /\ C v = true) l ->
  forall es0 ds, forallb (fun kv => C (snd kv)) es0 = true -> exists es,
    fold_left (fun acc ka => do '(es, ds1) <- acc; do '(v, ds2) <- F (snd ka) ds1; Ok (update (fst ka) v es, ds2))
              l (Ok (es0, ds))
    = Ok (es, ds) /\ forallb (fun kv => C (snd kv)) es = true.
Proof.
  induction 1 as [|a r Ha _ IH]; intros es0 ds C0; cbn [fold_left].
  - eauto.
  - destruct (Ha ds) as (v & E & Cv). cbn [bind]. rewrite E. cbn [bind].
    apply IH. now apply forallb_update.
Qed.

(* ------------------------------------------------------------------------------------- *)
(* 9. the fields *)

Lemma empty_typed m gs : tf_ok m = true -> m_empty m = true -> typed m (GStruct gs).
Proof.
  destruct m as [n fs os inj e z]. rewrite tf_ok_eq, typed_eq. cbn [m_empty]. intros H ->.
  apply andb_prop in H. destruct H as [H _]. apply andb_prop in H. destruct H as [_ H]. cbn [negb orb] in H.
  exists gs. split; [reflexivity|]. rewrite forallb_forall in H. apply Forall_forall. intros [i om] I.
  specialize (H _ I). cbn [f_info] in H. cbn [ftyped]. now rewrite H.
Qed.

Lemma field_ty_some i om : finfo_ok i om = true -> exists t, field_ty (Field i om) = Some t.
Proof.
  intros F. destruct (finfo_ok_inv _ _ F) as (_ & _ & NC & _ & OM & _). cbn [field_ty].
  destruct (fi_kind i); eauto; try (destruct (OM eq_refl) as (m' & ->); eauto). now contradiction NC.
Qed.

Lemma lookup_fields_ty fs f t :
  NoDup (snakes fs) -> In f fs -> field_ty f = Some t -> lookup (snake f) (fields_ty fs) = Some t.
Proof.
  induction fs as [|f0 r IH]; intros ND I FT; [destruct I|].
  cbn [snakes map] in ND. inversion ND as [|? ? N1 N2]; subst. unfold fields_ty. cbn [flat_map].
  destruct I as [->|I].
  - rewrite FT. cbn [app lookup]. now rewrite String.eqb_refl.
  - assert (NE : snake f <> snake f0) by (intros E; apply N1; rewrite <- E; now apply in_map).
    destruct (field_ty f0); cbn [app lookup]; [|now apply IH].
    destruct (String.eqb (snake f) (snake f0)) eqn:E; [apply String.eqb_eq in E; contradiction|now apply IH].
Qed.

Section Total.
  Variable hook : hook_to_t.

  (* on the empty object of the schema's type: no panic, no diagnostic, conforming attributes *)
  Definition msg_good (m : message) : Prop :=
    forall obj ds, typed m obj ->
      exists attrs, to_fields hook m obj (msg_ty m) ([], ds) = Ok (attrs, ds)
                    /\ attrs_conform (msg_ty m) attrs = true.

  Definition field_good (f : field) : Prop :=
    forall gs atys attrs ds t, ftyped f gs -> field_ty f = Some t ->
      lookup (snake f) atys = Some t -> lookup (snake f) attrs = None ->
      exists v, to_field hook f (GStruct gs) atys (attrs, ds) = Ok (update (snake f) v attrs, ds)
                /\ conforms t v = true.

  Lemma obj_value_total i gs m' g ds :
    tf_ok m' = true -> msg_good m' -> elem_shape i (typed m') g ->
    exists v, obj_value hook i (GStruct gs) None m' (Ok g) (msg_ty m') ds = Ok (v, ds)
              /\ conforms (TyObj (msg_ty m')) v = true.
  Proof.
    intros T G S. unfold obj_value. cbv beta iota zeta. unfold elem_shape in S.
    assert (K : forall x, typed m' x ->
                exists v, (do st' <- to_fields hook m' x (msg_ty m') ([], ds);
                           let '(attrs', ds') := st' in
                           Ok (VObj (msg_ty m') false false (Some attrs'), ds')) = Ok (v, ds)
                          /\ conforms (TyObj (msg_ty m')) v = true).
    { intros x Tx. destruct (G x ds Tx) as (attrs & E & C). rewrite E. cbn [bind].
      eexists. split; [reflexivity|]. rewrite conforms_obj, tfty_eqb_refl, C. reflexivity. }
    destruct (fi_nullable i).
    - destruct S as [->|(x & -> & Tx)]; cbn [bind].
      + eexists. split; [reflexivity|]. rewrite conforms_obj, tfty_eqb_refl. reflexivity.
      + destruct (m_empty m') eqn:E; apply K; [now apply empty_typed|assumption].
    - destruct (m_empty m') eqn:E; cbn [bind]; apply K; [now apply empty_typed|assumption].
  Qed.

  Lemma field_step i om :
    finfo_ok i om = true ->
    (forall m', om = Some m' -> tf_ok m' = true /\ msg_good m') ->
    field_good (Field i om).
  Proof.
    intros F Q gs atys attrs ds t Ty FT La Lc.
    destruct (finfo_ok_inv _ _ F) as (V & P & NC & Z & OM & OO & PH).
    rewrite to_field_eq. cbv zeta. unfold snake in *. cbn [f_info] in *. rewrite La, Lc.
    cbn [ftyped] in Ty. cbn [field_ty] in FT. unfold val_shape in Ty.
    revert Ty Z OM OO PH FT NC. destruct (fi_kind i) eqn:K; intros Ty Z OM OO PH FT NC.
    - (* PrimitiveKind *)
      inversion FT; subst t; clear FT. specialize (Z eq_refl).
      destruct (fi_placeholder i) eqn:PHE.
      + destruct (PH eq_refl) as [_ O]. rewrite O. cbn [bind].
        destruct (to_prim_value_total i (read_field i (zero_of_prim i) (GStruct gs)) (GStruct gs) ds P Z
                                      (or_introl PHE)) as (n & p & E & Kp).
        rewrite E. cbn [bind]. eexists. split; [reflexivity|now apply conforms_prim].
      + assert (Hbz : fi_oneof i <> None -> sc_shape i (zero_of_prim i)).
        { intros N. unfold sc_shape, elem_shape, zero_of_prim. destruct (fi_oneof i) as [h|]; [|congruence].
          destruct (fi_nullable i); [now left|].
          destruct (OO h eq_refl) as [[_ [D|D]]|[D _]]; [discriminate|exact D|discriminate]. }
        destruct (read_field_ok i _ gs _ V P Ty Hbz) as (g & E & Sg).
        assert (Hh : (match fi_oneof i with
                      | Some h => do _u <- read_holder i h (GStruct gs); Ok tt
                      | None => Ok tt
                      end) = Ok tt).
        { destruct (fi_oneof i) as [h|] eqn:O; [|reflexivity].
          destruct (read_holder_ok i _ gs h V P O Ty) as (hv & Eh). now rewrite Eh. }
        rewrite Hh. cbn [bind].
        destruct (to_prim_value_total i (read_field i (zero_of_prim i) (GStruct gs)) (GStruct gs) ds P Z
                                      (or_intror (ex_intro _ g (conj E Sg)))) as (n & p & Ev & Kp).
        rewrite Ev. cbn [bind]. eexists. split; [reflexivity|now apply conforms_prim].
    - (* PrimitiveListKind *)
      inversion FT; subst t; clear FT. specialize (Z eq_refl).
      destruct (fi_placeholder i); [destruct (PH eq_refl); discriminate|].
      destruct (read_source_ok i _ gs (GSlice None) V P Ty) as (g & E & o & -> & Hl).
      { intros _. exists None. split; [reflexivity|discriminate]. }
      rewrite E. cbn [bind]. destruct o as [l|]; cbv beta iota zeta.
      + assert (HF : Forall (fun a => forall ds, exists v,
                                 (fun a d => to_prim_value i (Ok a) (GStruct gs) (TyPrim (fi_tk i)) None d) a ds
                                 = Ok (v, ds) /\ conforms (TyPrim (fi_tk i)) v = true) l).
        { eapply Forall_impl; [|exact (Hl l eq_refl)]. intros a Sa d.
          destruct (to_prim_value_total i (Ok a) (GStruct gs) d P Z (or_intror (ex_intro _ a (conj eq_refl Sa))))
            as (n & p & Ev & Kp).
          eexists. split; [exact Ev|now apply conforms_prim]. }
        destruct (fold_list_total _ _ l HF [] ds) as (vs & Ef & Cvs). cbv beta in Ef. rewrite Ef.
        cbn [bind app]. eexists. split; [reflexivity|]. apply conforms_list. now right.
      + eexists. split; [reflexivity|]. apply conforms_list. now left.
    - (* ObjectKind *)
      destruct (OM eq_refl) as (m' & ->). inversion FT; subst t; clear FT.
      destruct (Q m' eq_refl) as [T' G'].
      destruct (fi_placeholder i); [destruct (PH eq_refl); discriminate|].
      destruct (read_source_ok i _ gs (if fi_nullable i then GPtr None else m_zero m') V P Ty) as (g & E & Sg).
      { intros N. destruct (fi_oneof i) as [h|]; [|congruence].
        destruct (OO h eq_refl) as [[D _]|[_ D]]; [discriminate|]. unfold elem_shape. rewrite D. now left. }
      rewrite E. cbn [bind].
      destruct (obj_value_total i gs m' g ds T' G' Sg) as (v & Ev & Cv). rewrite Ev. cbn [bind]. eauto.
    - (* ObjectListKind *)
      destruct (OM eq_refl) as (m' & ->). inversion FT; subst t; clear FT.
      destruct (Q m' eq_refl) as [T' G'].
      destruct (fi_placeholder i); [destruct (PH eq_refl); discriminate|].
      destruct (read_source_ok i _ gs (GSlice None) V P Ty) as (g & E & o & -> & Hl).
      { intros _. exists None. split; [reflexivity|discriminate]. }
      rewrite E. cbn [bind]. destruct o as [l|]; cbv beta iota zeta.
      + assert (HF : Forall (fun a => forall ds, exists v,
                                 (fun a d => obj_value hook i (GStruct gs) None m' (Ok a) (msg_ty m') d) a ds
                                 = Ok (v, ds) /\ conforms (TyObj (msg_ty m')) v = true) l).
        { eapply Forall_impl; [|exact (Hl l eq_refl)]. intros a Sa d. now apply obj_value_total. }
        destruct (fold_list_total _ _ l HF [] ds) as (vs & Ef & Cvs). cbv beta in Ef. rewrite Ef.
        cbn [bind app]. eexists. split; [reflexivity|]. apply conforms_list. now right.
      + eexists. split; [reflexivity|]. apply conforms_list. now left.
    - (* PrimitiveMapKind *)
      inversion FT; subst t; clear FT. specialize (Z eq_refl).
      destruct (fi_placeholder i); [destruct (PH eq_refl); discriminate|].
      destruct (read_source_ok i _ gs (GMap None) V P Ty) as (g & E & o & -> & Hl).
      { intros _. exists None. split; [reflexivity|discriminate]. }
      rewrite E. cbn [bind]. destruct o as [l|]; cbv beta iota zeta.
      + assert (HF : Forall (fun ka : string * goval => forall ds, exists v,
                                 (fun a d => to_prim_value i (Ok a) (GStruct gs) (TyPrim (fi_tk i)) None d) (snd ka) ds
                                 = Ok (v, ds) /\ conforms (TyPrim (fi_tk i)) v = true) l).
        { eapply Forall_impl; [|exact (Hl l eq_refl)]. intros a Sa d.
          destruct (to_prim_value_total i (Ok (snd a)) (GStruct gs) d P Z
                                        (or_intror (ex_intro _ (snd a) (conj eq_refl Sa))))
            as (n & p & Ev & Kp).
          eexists. split; [exact Ev|now apply conforms_prim]. }
        destruct (fold_map_total _ _ l HF [] ds eq_refl) as (es & Ef & Ces). cbv beta in Ef. rewrite Ef.
        cbn [bind]. eexists. split; [reflexivity|]. apply conforms_map. now right.
      + eexists. split; [reflexivity|]. apply conforms_map. now left.
    - (* ObjectMapKind *)
      destruct (OM eq_refl) as (m' & ->). inversion FT; subst t; clear FT.
      destruct (Q m' eq_refl) as [T' G'].
      destruct (fi_placeholder i); [destruct (PH eq_refl); discriminate|].
      destruct (read_source_ok i _ gs (GMap None) V P Ty) as (g & E & o & -> & Hl).
      { intros _. exists None. split; [reflexivity|discriminate]. }
      rewrite E. cbn [bind]. destruct o as [l|]; cbv beta iota zeta.
      + assert (HF : Forall (fun ka : string * goval => forall ds, exists v,
                                 (fun a d => obj_value hook i (GStruct gs) None m' (Ok a) (msg_ty m') d) (snd ka) ds
                                 = Ok (v, ds) /\ conforms (TyObj (msg_ty m')) v = true) l).
        { eapply Forall_impl; [|exact (Hl l eq_refl)]. intros a Sa d. now apply obj_value_total. }
        destruct (fold_map_total _ _ l HF [] ds eq_refl) as (es & Ef & Ces). cbv beta in Ef. rewrite Ef.
        cbn [bind]. eexists. split; [reflexivity|]. apply conforms_map. now right.
      + eexists. split; [reflexivity|]. apply conforms_map. now left.
    - now contradiction NC.
  Qed.

  (* the fields of a message one after the other: each writes its own, still absent, attribute *)
  Lemma field_list_good l gs atys :
    Forall field_good l -> Forall (fun f => ftyped f gs) l ->
    (forall f, In f l -> exists t, field_ty f = Some t /\ lookup (snake f) atys = Some t) ->
    NoDup (snakes l) ->
    forall attrs ds, (forall f, In f l -> lookup (snake f) attrs = None) ->
    exists attrs', to_field_list hook l (GStruct gs) atys (attrs, ds) = Ok (attrs', ds)
      /\ (forall k, ~ In k (snakes l) -> lookup k attrs' = lookup k attrs)
      /\ (forall f t, In f l -> field_ty f = Some t ->
                      exists v, lookup (snake f) attrs' = Some v /\ conforms t v = true).
  Proof.
    induction l as [|f r IH]; intros G T A ND attrs ds N; cbn [to_field_list].
    - exists attrs. split; [reflexivity|]. split; [reflexivity|]. intros f t [].
    - inversion G as [|? ? Gf Gr]; subst. inversion T as [|? ? Tf Tr]; subst.
      cbn [snakes map] in ND. inversion ND as [|? ? N1 N2]; subst.
      destruct (A f (or_introl eq_refl)) as (t & FT & La).
      destruct (Gf gs atys attrs ds t Tf FT La (N f (or_introl eq_refl))) as (v & E & Cv).
      rewrite E. cbn [bind].
      destruct (IH Gr Tr (fun f' I => A f' (or_intror I)) N2 (update (snake f) v attrs) ds)
        as (attrs' & E' & L' & C').
      { intros f' I. rewrite lookup_update_neq; [apply N; now right|].
        intros Eq. apply N1. rewrite <- Eq. now apply in_map. }
      exists attrs'. split; [exact E'|]. split.
      + intros k Nk. cbn [snakes map In] in Nk. rewrite L' by tauto. apply lookup_update_neq.
        intros ->. tauto.
      + intros f' t' [<-|I] FT'.
        * rewrite L' by exact N1. rewrite lookup_update_eq. rewrite FT in FT'. inversion FT'; subst. eauto.
        * now apply C'.
  Qed.

  Lemma total_mutual : forall m, tf_ok m = true -> msg_good m.
  Proof.
    apply (message_ind' (fun f => ftf_ok f = true -> field_good f) (fun m => tf_ok m = true -> msg_good m)).
    - intros i F. cbn [ftf_ok] in F. rewrite andb_true_r in F. apply field_step; [exact F|]. intros m' [=].
    - intros i m IH F. cbn [ftf_ok] in F. apply andb_prop in F. destruct F as [F1 F2].
      apply field_step; [exact F1|]. intros m' [= <-]. split; [exact F2|exact (IH F2)].
    - intros n fs os inj e z IH F obj ds T. rewrite tf_ok_eq in F.
      apply andb_prop in F. destruct F as [F F3]. apply andb_prop in F. destruct F as [F1 _].
      apply nodup_b_NoDup in F1. rewrite forallb_forall in F3.
      rewrite typed_eq in T. destruct T as (gs & -> & T). rewrite to_fields_list, msg_ty_eq.
      assert (G : Forall field_good fs).
      { rewrite Forall_forall in IH |- *. intros f I. exact (IH f I (F3 f I)). }
      assert (A : forall f, In f fs -> exists t, field_ty f = Some t /\ lookup (snake f) (fields_ty fs) = Some t).
      { intros [i om] I. pose proof (F3 _ I) as Ff. cbn [ftf_ok] in Ff.
        apply andb_prop in Ff. destruct Ff as [Ff _].
        destruct (field_ty_some _ _ Ff) as (t & FT). exists t. split; [exact FT|]. now apply lookup_fields_ty. }
      destruct (field_list_good fs gs (fields_ty fs) G T) with (attrs := @nil (string * tfval)) (ds := ds)
        as (attrs' & E & L & C).
      + exact A.
      + exact F1.
      + reflexivity.
      + exists attrs'. split; [exact E|]. unfold attrs_conform. apply andb_true_intro. split.
        * rewrite forallb_forall. intros [k t] I.
          unfold fields_ty in I. apply in_flat_map in I. destruct I as (f & If & I).
          destruct (field_ty f) as [t0|] eqn:FT; [|destruct I]. destruct I as [[= <- <-]|[]]. cbn [fst snd].
          destruct (C f t0 If FT) as (v & Lv & Cv). now rewrite Lv.
        * rewrite forallb_forall. intros [k v] I. cbn [fst]. unfold has_key.
          destruct (in_dec string_dec k (snakes fs)) as [Ik|Nk].
          -- unfold snakes in Ik. apply in_map_iff in Ik. destruct Ik as (f & <- & If).
             destruct (A f If) as (t & _ & Lt). now rewrite Lt.
          -- exfalso. specialize (L k Nk). cbn [lookup] in L. apply lookup_None_keys in L. apply L.
             unfold keys. change k with (fst (k, v)). now apply in_map.
  Qed.
End Total.

(* ------------------------------------------------------------------------------------- *)
(* 10. C03 on the class tf_ok *)

Theorem copy_to_spec_partial hook m obj :
  tf_ok m = true -> typed m obj ->
  exists attrs, copy_to hook m obj (VObj (msg_ty m) false false None)
                = Ok (VObj (msg_ty m) false false (Some attrs), [])
                /\ attrs_conform (msg_ty m) attrs = true.
Proof.
  intros F T. destruct (total_mutual hook m F obj [] T) as (attrs & E & C).
  exists attrs. split; [|exact C]. cbn [copy_to]. rewrite E. reflexivity.
Qed.

(* no panic, no diagnostic *)
Theorem copy_to_total_partial hook m obj :
  tf_ok m = true -> typed m obj ->
  exists attrs, copy_to hook m obj (VObj (msg_ty m) false false None)
                = Ok (VObj (msg_ty m) false false (Some attrs), []).
Proof. intros F T. destruct (copy_to_spec_partial hook m obj F T) as (attrs & E & _). eauto. Qed.

(* the result has exactly the schema's type, at every depth, and nothing is unknown *)
Theorem copy_to_conforms_partial hook m obj t ds :
  tf_ok m = true -> typed m obj ->
  copy_to hook m obj (VObj (msg_ty m) false false None) = Ok (t, ds) ->
  conforms (TyObj (msg_ty m)) t = true.
Proof.
  intros F T H. destruct (copy_to_spec_partial hook m obj F T) as (attrs & E & C).
  rewrite E in H. inversion H; subst. rewrite conforms_obj, tfty_eqb_refl, C. reflexivity.
Qed.

Print Assumptions copy_to_total_partial.
Print Assumptions copy_to_conforms_partial.

(* ------------------------------------------------------------------------------------- *)
(* 11. C20 at the level of the message: null-ness of the attribute of a value scalar *)

Lemma to_field_list_app hook l1 l2 obj atys st :
  to_field_list hook (l1 ++ l2) obj atys st
  = do st' <- to_field_list hook l1 obj atys st; to_field_list hook l2 obj atys st'.
Proof.
  revert st. induction l1 as [|f r IH]; intros st; cbn [app to_field_list bind]; [reflexivity|].
  destruct (to_field hook f obj atys st); cbn [bind]; [apply IH|reflexivity].
Qed.

Lemma tf_ok_fields m : tf_ok m = true ->
  NoDup (snakes (m_fields m)) /\ forall f, In f (m_fields m) -> ftf_ok f = true.
Proof.
  destruct m as [n fs os inj e z]. rewrite tf_ok_eq. cbn [m_fields]. intros F.
  apply andb_prop in F. destruct F as [F F3]. apply andb_prop in F. destruct F as [F1 _].
  split; [now apply nodup_b_NoDup|]. now rewrite forallb_forall in F3.
Qed.

(* on the empty target, whatever the other fields are: the attribute of a non-pointer scalar field
   with a zero literal is null iff the field holds the zero value; without zero literal, never *)
Theorem copy_to_nullness_partial hook m obj a n u attrs ds i om g p :
  tf_ok m = true ->
  copy_to hook m obj (VObj (msg_ty m) false false None) = Ok (VObj a n u (Some attrs), ds) ->
  In (Field i om) (m_fields m) ->
  fi_kind i = PrimitiveKind -> fi_placeholder i = false -> fi_nullable i = false -> fi_oneof i = None ->
  gfield obj (fi_name i) = Ok g -> cast_to (fi_tk i) g = Ok p ->
  lookup (fi_snake i) attrs
  = Some (VPrim (fi_tk i) (if fi_zero i then prim_is_zero p else false) false p).
Proof.
  intros F H I K PH NU O G C. destruct (tf_ok_fields m F) as [ND FF].
  specialize (FF _ I). cbn [ftf_ok] in FF. apply andb_prop in FF. destruct FF as [FI _].
  destruct (finfo_ok_inv _ _ FI) as (V & P & _).
  assert (FT : field_ty (Field i om) = Some (TyPrim (fi_tk i))) by (cbn [field_ty]; now rewrite K).
  pose proof (lookup_fields_ty _ _ _ ND I FT) as La. rewrite <- msg_ty_fields in La.
  unfold snake in La. cbn [f_info] in La.
  cbn [copy_to] in H.
  destruct (to_fields hook m obj (msg_ty m) ([], [])) as [[a0 d0]|] eqn:E; cbn [bind] in H; [|discriminate].
  inversion H; subst; clear H. rewrite to_fields_m_fields in E.
  destruct (in_split _ _ I) as (l1 & l2 & EQ). rewrite EQ in E, ND.
  rewrite to_field_list_app in E.
  destruct (to_field_list hook l1 obj (msg_ty m) ([], [])) as [[a1 d1]|] eqn:E1; cbn [bind] in E; [|discriminate].
  cbn [to_field_list] in E.
  destruct (to_field hook (Field i om) obj (msg_ty m) (a1, d1)) as [[a2 d2]|] eqn:E2; cbn [bind] in E; [|discriminate].
  unfold snakes in ND. rewrite map_app in ND. cbn [map] in ND. apply NoDup_remove_2 in ND.
  unfold snake in ND. cbn [f_info] in ND.
  assert (N1 : ~ In (fi_snake i) (map (fun f => fi_snake (f_info f)) l1)) by (intros X; apply ND, in_or_app; now left).
  assert (N2 : ~ In (fi_snake i) (map (fun f => fi_snake (f_info f)) l2)) by (intros X; apply ND, in_or_app; now right).
  rewrite (to_field_list_local _ _ _ _ _ _ _ _ E _ N2).
  pose proof (to_field_list_local _ _ _ _ _ _ _ _ E1 _ N1) as Lc. cbn [lookup] in Lc.
  rewrite to_field_eq in E2. cbv zeta in E2. rewrite La, Lc, K, O in E2. cbn [bind] in E2.
  unfold read_field in E2. rewrite O, V in E2. cbn [gget_via] in E2. rewrite G in E2.
  rewrite (to_prim_value_absent i g p obj _ d1 PH NU O P eq_refl C) in E2. cbn [bind] in E2.
  inversion E2; subst. apply lookup_update_eq.
Qed.

Print Assumptions copy_to_nullness_partial.

(* ------------------------------------------------------------------------------------- *)
(* 12. msg_ty is the attribute type of the generated schema (no injected attributes) *)

Fixpoint no_inj (m : message) {struct m} : bool :=
  match m with
  | Msg _ fs _ inj _ _ =>
      match inj with [] => true | _ => false end
      && (fix go (l : list field) : bool :=
            match l with
            | [] => true
            | f :: r => fno_inj f && go r
            end) fs
  end
with fno_inj (f : field) {struct f} : bool :=
  match f with
  | Field _ (Some m') => no_inj m'
  | Field _ None => true
  end.

Lemma no_inj_eq n fs os inj e z :
  no_inj (Msg n fs os inj e z) = match inj with [] => true | _ => false end && forallb fno_inj fs.
Proof.
  cbn [no_inj]. apply (f_equal (andb _)). induction fs as [|f r IH]; [reflexivity|]. cbn [forallb]. now rewrite IH.
Qed.

Section SchemaTy.
  Variable hs : hook_schema_t.

  Fixpoint own_go (l : list field) (acc : list sattr) {struct l} : list sattr :=
    match l with
    | [] => acc
    | f :: r => own_go r (dict_put (schema_field hs f) acc)
    end.

  Lemma schema_attrs_eq n fs os inj e z :
    schema_attrs hs (Msg n fs os inj e z)
    = fold_left (fun acc j => dict_put (inj_attr j) acc) inj (own_go fs []).
  Proof. reflexivity. Qed.

  Lemma dict_put_fresh a l : ~ In (s_name a) (map s_name l) -> dict_put a l = l ++ [a].
  Proof.
    induction l as [|b r IH]; intros N; cbn [dict_put app]; [reflexivity|].
    cbn [map In] in N. destruct (String.eqb (s_name a) (s_name b)) eqn:E.
    - apply String.eqb_eq in E. exfalso. apply N. now left.
    - rewrite IH; [reflexivity|tauto].
  Qed.

  Lemma own_go_fresh fs :
    (forall f, In f fs -> s_name (schema_field hs f) = snake f) -> NoDup (snakes fs) ->
    forall acc, (forall f, In f fs -> ~ In (snake f) (map s_name acc)) ->
    own_go fs acc = acc ++ map (schema_field hs) fs.
  Proof.
    induction fs as [|f r IH]; intros SN ND acc D; cbn [own_go map]; [now rewrite app_nil_r|].
    cbn [snakes map] in ND. inversion ND as [|? ? N1 N2]; subst.
    rewrite dict_put_fresh by (rewrite SN by (now left); apply D; now left).
    rewrite IH; [now rewrite <- app_assoc|intros f' I; apply SN; now right|exact N2|].
    intros f' I. rewrite map_app, in_app_iff. cbn [map In]. rewrite SN by (now left).
    intros [X|[X|[]]]; [exact (D f' (or_intror I) X)|]. apply N1. rewrite X. now apply in_map.
  Qed.

  Lemma obj_ty_of_cons x r :
    obj_ty_of (x :: r) = match attr_ty x with Some p => p :: obj_ty_of r | None => obj_ty_of r end.
  Proof. reflexivity. Qed.

  Lemma attr_ty_nested n a b c d e f g mode l :
    attr_ty (SAttr n a b c d e f g (SNested mode l))
    = Some (n, match mode with
               | NSingle => TyObj (obj_ty_of l)
               | NList => TyList (TyObj (obj_ty_of l))
               | NMap => TyMap (TyObj (obj_ty_of l))
               end).
  Proof. reflexivity. Qed.

  Lemma schema_field_eq i om :
    schema_field hs (Field i om)
    = let body :=
        match fi_kind i, om with
        | PrimitiveKind, _ => SLeaf (prim_ty i)
        | PrimitiveListKind, _ => SLeaf (TyList (prim_ty i))
        | PrimitiveMapKind, _ => SLeaf (TyMap (prim_ty i))
        | ObjectKind, Some m' => SNested NSingle (schema_attrs hs m')
        | ObjectListKind, Some m' => SNested NList (schema_attrs hs m')
        | ObjectMapKind, Some m' => SNested NMap (schema_attrs hs m')
        | _, _ => SNoType
        end in
      let a := SAttr (fi_snake i) (fi_required i) (negb (fi_required i)) (fi_computed i) (fi_sensitive i)
                     (fi_comment i) (fi_validators i) (fi_planmods i) body in
      match fi_kind i with
      | CustomKind => hs (fi_suffix i) a
      | _ => a
      end.
  Proof. reflexivity. Qed.

  Definition field_agrees (f : field) : Prop :=
    ftf_ok f = true -> fno_inj f = true ->
    s_name (schema_field hs f) = snake f /\
    attr_ty (schema_field hs f) = match field_ty f with Some t => Some (snake f, t) | None => None end.

  Lemma schema_ty_mutual : forall m, tf_ok m = true -> no_inj m = true -> schema_ty hs m = msg_ty m.
  Proof.
    apply (message_ind' field_agrees (fun m => tf_ok m = true -> no_inj m = true -> schema_ty hs m = msg_ty m)).
    - intros i F _. cbn [ftf_ok] in F. rewrite andb_true_r in F.
      destruct (finfo_ok_inv _ _ F) as (_ & _ & NC & _ & OM & _).
      unfold snake. rewrite schema_field_eq. cbn [field_ty f_info]. cbv zeta.
      destruct (fi_kind i); try (destruct (OM eq_refl) as (m' & [=])); try (now contradiction NC);
        split; reflexivity.
    - intros i m IH F NI. cbn [ftf_ok] in F. apply andb_prop in F. destruct F as [F F2]. cbn [fno_inj] in NI.
      specialize (IH F2 NI). unfold schema_ty in IH.
      destruct (finfo_ok_inv _ _ F) as (_ & _ & NC & _).
      unfold snake. rewrite schema_field_eq. cbn [field_ty f_info]. cbv zeta.
      destruct (fi_kind i); try (now contradiction NC); (split; [reflexivity|]);
        try reflexivity; rewrite attr_ty_nested, IH; reflexivity.
    - intros n fs os inj e z IH F NI. rewrite tf_ok_eq in F. rewrite no_inj_eq in NI.
      apply andb_prop in F. destruct F as [F F3]. apply andb_prop in F. destruct F as [F1 _].
      apply nodup_b_NoDup in F1. rewrite forallb_forall in F3.
      apply andb_prop in NI. destruct NI as [NI1 NI2]. rewrite forallb_forall in NI2.
      destruct inj; [|discriminate]. rewrite Forall_forall in IH.
      unfold schema_ty. rewrite schema_attrs_eq, msg_ty_eq. cbn [fold_left].
      rewrite own_go_fresh; [|intros f I; exact (proj1 (IH f I (F3 f I) (NI2 f I)))|exact F1|intros f I []].
      cbn [app].
      assert (A : forall f, In f fs ->
                attr_ty (schema_field hs f) = match field_ty f with Some t => Some (snake f, t) | None => None end)
        by (intros f I; exact (proj2 (IH f I (F3 f I) (NI2 f I)))).
      clear - A. unfold fields_ty. induction fs as [|f r IHr]; [reflexivity|].
      cbn [map flat_map]. rewrite obj_ty_of_cons, (A f (or_introl eq_refl)), IHr by (intros f' I; apply A; now right).
      now destruct (field_ty f).
  Qed.
End SchemaTy.

Theorem schema_ty_msg_ty hs m : tf_ok m = true -> no_inj m = true -> schema_ty hs m = msg_ty m.
Proof. apply schema_ty_mutual. Qed.

(* C03 with the type of the generated schema *)
Corollary copy_to_schema_partial hook hs m obj :
  tf_ok m = true -> no_inj m = true -> typed m obj ->
  exists attrs, copy_to hook m obj (VObj (schema_ty hs m) false false None)
                = Ok (VObj (schema_ty hs m) false false (Some attrs), [])
                /\ conforms (TyObj (schema_ty hs m)) (VObj (schema_ty hs m) false false (Some attrs)) = true.
Proof.
  intros F NI T. rewrite (schema_ty_msg_ty hs m F NI).
  destruct (copy_to_spec_partial hook m obj F T) as (attrs & E & C). exists attrs. split; [exact E|].
  rewrite conforms_obj, tfty_eqb_refl, C. reflexivity.
Qed.

Print Assumptions schema_ty_msg_ty.
Print Assumptions copy_to_schema_partial.

(* ------------------------------------------------------------------------------------- *)
(* 13. the hypotheses are satisfiable: a message with a oneof (a scalar and a message branch), a
   list of messages, a map and a list of scalars, a nested message by value, a pointer scalar, a
   float with a zero literal and a message without fields (the generator's placeholder) *)
Module Example.
  Local Open Scope string_scope.

  Definition mk (name snake : string) (k : kind) (tk : tfkind) (c : goscalar) (nullable zero : bool)
             (oneof : option string) : finfo :=
    {| fi_name := name; fi_snake := snake; fi_path := snake; fi_kind := k; fi_tk := tk; fi_cast := c;
       fi_nullable := nullable; fi_zero := zero; fi_placeholder := false; fi_oneof := oneof; fi_via := [];
       fi_parent := None; fi_inner := []; fi_required := false; fi_computed := false; fi_sensitive := false;
       fi_validators := []; fi_planmods := []; fi_comment := ""; fi_suffix := "" |}.

  Definition inner : message :=
    Msg "Inner" [Field (mk "A" "a" PrimitiveKind KStr GsString false true None) None] [] [] false
        (GStruct [("A", GPrim (PStr ""))]).

  Definition empty : message := Msg "Empty" [Build.placeholder_field "Outer.E"] [] [] true (GStruct []).

  Definition outer : message :=
    Msg "Outer"
        [Field (mk "X" "x" PrimitiveKind KI64 GsInt32 false false (Some "Kind")) None;
         Field (mk "Y" "y" ObjectKind KStr GsString true false (Some "Kind")) (Some inner);
         Field (mk "Items" "items" ObjectListKind KStr GsString true false None) (Some inner);
         Field (mk "Labels" "labels" PrimitiveMapKind KStr GsString false false None) None;
         Field (mk "Tags" "tags" PrimitiveListKind KStr GsBytes false false None) None;
         Field (mk "Sub" "sub" ObjectKind KStr GsString false false None) (Some inner);
         Field (mk "P" "p" PrimitiveKind KBool GsBool true false None) None;
         Field (mk "N" "n" PrimitiveKind KF64 GsFloat32 false true None) None;
         Field (mk "E" "e" ObjectKind KStr GsString true false None) (Some empty)]
        ["Kind"] [] false (GStruct []).

  Definition in_val (s : string) : goval := GStruct [("A", GPrim (PStr s))].

  Definition value : goval :=
    GStruct [("Kind", GOneof (Some ("Y", GPtr (Some (in_val "hello")))));
             ("Items", GSlice (Some [GPtr (Some (in_val "")); GPtr None]));
             ("Labels", GMap (Some [("k", GPrim (PStr "v"))]));
             ("Tags", GSlice (Some [GBytes None; GBytes (Some "t")]));
             ("Sub", in_val "s");
             ("P", GPtr None);
             ("N", GPrim (PF32 (SpecFloat.S754_zero false)));
             ("E", GPtr (Some (GStruct [])))].

  Lemma outer_ok : tf_ok outer = true.
  Proof. reflexivity. Qed.

  Lemma outer_no_inj : no_inj outer = true.
  Proof. reflexivity. Qed.

  Lemma in_val_typed s : typed inner (in_val s).
  Proof.
    unfold inner. rewrite typed_eq. eexists. split; [reflexivity|]. repeat constructor.
    cbn. eexists. split; [reflexivity|]. reflexivity.
  Qed.

  Lemma value_typed : typed outer value.
  Proof.
    pose proof in_val_typed as T.
    unfold outer. rewrite typed_eq. eexists. split; [reflexivity|].
    repeat apply Forall_cons; try apply Forall_nil; cbn [ftyped mk fi_placeholder];
      unfold reads, val_shape, elem_shape; cbn [mk fi_oneof fi_kind fi_nullable fi_name fi_tk];
      (eexists; split; [reflexivity|]).
    - right. do 2 eexists. split; [reflexivity|]. discriminate.
    - right. do 2 eexists. split; [reflexivity|]. intros _. right. eauto.
    - eexists. split; [reflexivity|]. intros l [= <-].
      apply Forall_cons; [right; eauto|apply Forall_cons; [now left|apply Forall_nil]].
    - eexists. split; [reflexivity|]. intros l [= <-]. repeat constructor.
    - eexists. split; [reflexivity|]. intros l [= <-]. repeat constructor.
    - apply T.
    - now left.
    - reflexivity.
    - right. eexists. split; [reflexivity|]. now apply empty_typed.
  Qed.

  (* the theorems, instantiated *)
  Example outer_total hook :
    exists attrs, copy_to hook outer value (VObj (msg_ty outer) false false None)
                  = Ok (VObj (msg_ty outer) false false (Some attrs), []).
  Proof. exact (copy_to_total_partial hook outer value outer_ok value_typed). Qed.

  Example outer_conforms hook t ds :
    copy_to hook outer value (VObj (msg_ty outer) false false None) = Ok (t, ds) ->
    conforms (TyObj (msg_ty outer)) t = true.
  Proof. exact (copy_to_conforms_partial hook outer value t ds outer_ok value_typed). Qed.

  Example outer_schema hook hs :
    exists attrs, copy_to hook outer value (VObj (schema_ty hs outer) false false None)
                  = Ok (VObj (schema_ty hs outer) false false (Some attrs), []).
  Proof.
    destruct (copy_to_schema_partial hook hs outer value outer_ok outer_no_inj value_typed) as (a & E & _). eauto.
  Qed.

  (* the float field with a zero literal holds 0: its attribute is null *)
  Example outer_n_null hook a n u attrs ds :
    copy_to hook outer value (VObj (msg_ty outer) false false None) = Ok (VObj a n u (Some attrs), ds) ->
    lookup "n" attrs = Some (VPrim KF64 true false (PF64 (SpecFloat.S754_zero false))).
  Proof.
    intros H.
    exact (copy_to_nullness_partial hook outer value a n u attrs ds
             (mk "N" "n" PrimitiveKind KF64 GsFloat32 false true None) None
             (GPrim (PF32 (SpecFloat.S754_zero false))) (PF64 (SpecFloat.S754_zero false))
             outer_ok H (or_intror (or_intror (or_intror (or_intror (or_intror (or_intror (or_intror (or_introl eq_refl))))))))
             eq_refl eq_refl eq_refl eq_refl eq_refl eq_refl).
  Qed.

  (* and the model computes: the attribute types, and the result on [value] *)
  Example outer_ty :
    msg_ty outer
    = [("x", TyPrim KI64); ("y", TyObj [("a", TyPrim KStr)]); ("items", TyList (TyObj [("a", TyPrim KStr)]));
       ("labels", TyMap (TyPrim KStr)); ("tags", TyList (TyPrim KStr)); ("sub", TyObj [("a", TyPrim KStr)]);
       ("p", TyPrim KBool); ("n", TyPrim KF64); ("e", TyObj [("active", TyPrim KBool)])].
  Proof. reflexivity. Qed.

  Example outer_run :
    exists t, copy_to std_hook_to outer value (VObj (msg_ty outer) false false None) = Ok (t, [])
              /\ conforms (TyObj (msg_ty outer)) t = true.
  Proof. eexists. split; [vm_compute; reflexivity|vm_compute; reflexivity]. Qed.
End Example.

Print Assumptions Example.outer_total.
Print Assumptions Example.outer_n_null.
