(* C13: the import-qualification layer (Model/GoTypes.v): what typAndMod splits, when
   PrependPackageNameIfMissing / WithType / WithPackage qualify a type string and with which
   qualifier, that cleanPackageName yields a Go identifier that is not a keyword, idempotence,
   and absence of the appendQual slice panic. *)
From Coq Require Import List String Ascii Bool NArith Arith Lia.
From PGT Require Import Base.Strs Base.AList Model.Vals Model.GoTypes.
From PGT Require Import Proofs.NamesProofs.
Import ListNotations.
Open Scope string_scope.

(* ------------------------------------------------------------------------------------- *)
(* the vocabulary of the statements *)

(* a plain type name: no modifier character, no dot, no opening bracket *)
Definition plain_name (s : string) : bool :=
  negb (contains_char "["%char s) && negb (contains_char "]"%char s) && negb (contains_char "*"%char s)
  && negb (contains_char "."%char s) && negb (contains_char "("%char s).
(* a modifier prefix such as "", "*", "[]", "[]*", "map[string]", "map[string]*": empty or ending in a modifier character *)
Definition mod_prefix (m : string) : bool :=
  match first_char (rev_str m) with None => true | Some c => is_mod_char c end.
(* a package path: no modifier character and no opening bracket (dots and slashes allowed) *)
Definition pkg_path (s : string) : bool :=
  negb (contains_char "["%char s) && negb (contains_char "]"%char s) && negb (contains_char "*"%char s)
  && negb (contains_char "("%char s).
Definition qualifier_of (c : icfg) (path : string) : string :=
  clean_package_name (match lookup path (ic_overrides c) with Some o => o | None => path end).
Definition is_ident (s : string) : Prop :=
  s <> "" /\ (forall c, contains_char c s = true -> is_ident_char c = true) /\
  (match first_char s with Some c => is_digit c = false | None => True end).

(* ------------------------------------------------------------------------------------- *)
(* A. strings: length, take, drop *)

Lemma slength_app (a b : string) : String.length (a ++ b) = String.length a + String.length b.
Proof. induction a as [|c a IH]; cbn; [reflexivity|]. now rewrite IH. Qed.

Lemma take_app_length (a b : string) : take (String.length a) (a ++ b) = a.
Proof. induction a as [|c a IH]; cbn; [now destruct b|]. now rewrite IH. Qed.

Lemma drop_app_length (a b : string) : drop (String.length a) (a ++ b) = b.
Proof. induction a as [|c a IH]; cbn; [reflexivity|]. exact IH. Qed.

Lemma take_drop (k : nat) (s : string) : take k s ++ drop k s = s.
Proof.
  revert s. induction k as [|k IH]; intros s; [reflexivity|].
  destruct s as [|c s]; cbn; [reflexivity|]. now rewrite IH.
Qed.

Lemma ascii_eqb_eq (a b : ascii) : ascii_eqb a b = true <-> a = b.
Proof. unfold ascii_eqb. apply Ascii.eqb_eq. Qed.

(* ------------------------------------------------------------------------------------- *)
(* B. the last position satisfying a predicate *)

Fixpoint exists_p (p : ascii -> bool) (s : string) : bool :=
  match s with EmptyString => false | String d r => p d || exists_p p r end.

Lemma exists_p_app p a b : exists_p p (a ++ b) = exists_p p a || exists_p p b.
Proof. induction a as [|d a IH]; cbn; [reflexivity|]. now rewrite IH, orb_assoc. Qed.

Lemma exists_p_eqb c s : exists_p (ascii_eqb c) s = contains_char c s.
Proof. induction s as [|d r IH]; cbn; [reflexivity|]. now rewrite IH. Qed.

Lemma exists_p_mod s :
  exists_p is_mod_char s =
  contains_char "["%char s || contains_char "]"%char s || contains_char "*"%char s.
Proof.
  induction s as [|d r IH]; [reflexivity|]. cbn [exists_p contains_char]. rewrite IH.
  unfold is_mod_char, ascii_eqb. rewrite !(Ascii.eqb_sym d).
  destruct (Ascii.eqb "[" d), (Ascii.eqb "]" d), (Ascii.eqb "*" d),
    (contains_char "[" r), (contains_char "]" r), (contains_char "*" r); reflexivity.
Qed.

Lemma exists_p_false_contains p s c :
  exists_p p s = false -> p c = true -> contains_char c s = false.
Proof.
  intros Hs Hc. induction s as [|d r IH]; cbn in *; [reflexivity|].
  apply orb_false_iff in Hs. destruct Hs as [Hd Hr]. rewrite (IH Hr), orb_false_r.
  destruct (ascii_eqb c d) eqn:E; [|reflexivity].
  apply ascii_eqb_eq in E. subst d. congruence.
Qed.

(* a string with an occurrence splits at the last one *)
Lemma last_split p s :
  exists_p p s = true ->
  exists a c b, s = a ++ String c b /\ p c = true /\ exists_p p b = false.
Proof.
  induction s as [|d r IH]; cbn; [discriminate|]. intros H.
  destruct (exists_p p r) eqn:Er.
  - destruct (IH eq_refl) as (a & c & b & -> & Hc & Hb). exists (String d a), c, b. auto.
  - rewrite orb_false_r in H. exists "", d, r. auto.
Qed.

Lemma last_index_p_aux_none p s i last :
  exists_p p s = false -> last_index_p_aux p s i last = last.
Proof.
  revert i last. induction s as [|d r IH]; intros i last H; cbn in *; [reflexivity|].
  apply orb_false_iff in H. destruct H as [Hd Hr]. rewrite Hd. now apply IH.
Qed.

Lemma last_index_p_aux_split p a c b i last :
  p c = true -> exists_p p b = false ->
  last_index_p_aux p (a ++ String c b) i last = Some (i + String.length a).
Proof.
  intros Hc Hb. revert i last. induction a as [|d a IH]; intros i last; cbn.
  - rewrite Hc, last_index_p_aux_none by exact Hb. f_equal. lia.
  - rewrite IH. f_equal. lia.
Qed.

Lemma last_index_p_none p s : exists_p p s = false -> last_index_p p s = None.
Proof. apply last_index_p_aux_none. Qed.

Lemma last_index_p_split p a c b :
  p c = true -> exists_p p b = false ->
  last_index_p p (a ++ String c b) = Some (String.length a).
Proof. intros Hc Hb. unfold last_index_p. now rewrite last_index_p_aux_split. Qed.

Lemma last_index_char_aux_p c s i last :
  last_index_char_aux c s i last = last_index_p_aux (ascii_eqb c) s i last.
Proof. revert i last. induction s as [|d r IH]; intros i last; cbn; [reflexivity|]. apply IH. Qed.

Lemma last_index_char_p c s : last_index_char c s = last_index_p (ascii_eqb c) s.
Proof. apply last_index_char_aux_p. Qed.

Lemma last_index_char_split c a b :
  contains_char c b = false -> last_index_char c (a ++ String c b) = Some (String.length a).
Proof.
  intros Hb. rewrite last_index_char_p. apply last_index_p_split.
  - now apply ascii_eqb_eq.
  - now rewrite exists_p_eqb.
Qed.

Lemma last_index_char_some c s :
  contains_char c s = true -> exists pos, last_index_char c s = Some pos.
Proof.
  intros H. rewrite <- exists_p_eqb in H. destruct (last_split _ _ H) as (a & d & b & -> & Hd & Hb).
  rewrite last_index_char_p, last_index_p_split by assumption. eauto.
Qed.

(* ------------------------------------------------------------------------------------- *)
(* C. typAndMod *)

Lemma typ_and_mod_none t : exists_p is_mod_char t = false -> typ_and_mod t = (t, "").
Proof. intros H. unfold typ_and_mod. now rewrite last_index_p_none. Qed.

Lemma typ_and_mod_at a c b :
  is_mod_char c = true -> exists_p is_mod_char b = false ->
  typ_and_mod (a ++ String c b) = (b, a ++ String c "").
Proof.
  intros Hc Hb. unfold typ_and_mod. rewrite last_index_p_split by assumption.
  assert (E : a ++ String c b = (a ++ String c "") ++ b) by now rewrite sapp_assoc.
  assert (L : S (String.length a) = String.length (a ++ String c "")).
  { rewrite slength_app. cbn. lia. }
  rewrite L, E, take_app_length, drop_app_length. reflexivity.
Qed.

(* every string is of one of the two shapes *)
Lemma typ_and_mod_spec t :
  (exists_p is_mod_char t = false /\ typ_and_mod t = (t, "")) \/
  (exists a c b, t = a ++ String c b /\ is_mod_char c = true /\ exists_p is_mod_char b = false /\
                 typ_and_mod t = (b, a ++ String c "")).
Proof.
  destruct (exists_p is_mod_char t) eqn:E.
  - right. destruct (last_split _ _ E) as (a & c & b & -> & Hc & Hb).
    exists a, c, b. repeat split; auto using typ_and_mod_at.
  - left. auto using typ_and_mod_none.
Qed.

Lemma mod_prefix_cases m :
  mod_prefix m = true -> m = "" \/ exists a c, m = a ++ String c "" /\ is_mod_char c = true.
Proof.
  unfold mod_prefix. intros H. destruct (rev_str m) as [|c r] eqn:E.
  - left. rewrite <- (rev_str_invol m), E. reflexivity.
  - right. exists (rev_str r), c. split; [|exact H].
    rewrite <- (rev_str_invol m), E. apply rev_str_cons.
Qed.

(* the general form of 1: the tail only has to be free of modifier characters *)
Lemma typ_and_mod_split_gen m n :
  mod_prefix m = true -> exists_p is_mod_char n = false -> typ_and_mod (m ++ n) = (n, m).
Proof.
  intros Hm Hn. destruct (mod_prefix_cases m Hm) as [->|(a & c & -> & Hc)].
  - now apply typ_and_mod_none.
  - rewrite sapp_assoc. cbn [append]. now apply typ_and_mod_at.
Qed.

(* plain_name and pkg_path, unfolded *)
Lemma plain_name_inv n :
  plain_name n = true ->
  exists_p is_mod_char n = false /\ contains_char "."%char n = false /\ contains_char "("%char n = false.
Proof.
  unfold plain_name. intros H. rewrite exists_p_mod.
  repeat (apply andb_true_iff in H; destruct H as [H ?]).
  rewrite negb_true_iff in *.
  repeat match goal with E : contains_char _ _ = false |- _ => rewrite E; clear E end. auto.
Qed.

Lemma pkg_path_inv q :
  pkg_path q = true -> exists_p is_mod_char q = false /\ contains_char "("%char q = false.
Proof.
  unfold pkg_path. intros H. rewrite exists_p_mod.
  repeat (apply andb_true_iff in H; destruct H as [H ?]).
  rewrite negb_true_iff in *.
  repeat match goal with E : contains_char _ _ = false |- _ => rewrite E; clear E end. auto.
Qed.

(* 1 *)
Theorem typ_and_mod_split m n :
  mod_prefix m = true -> plain_name n = true -> typ_and_mod (m ++ n) = (n, m).
Proof.
  intros Hm Hn. apply typ_and_mod_split_gen; [exact Hm|]. now apply plain_name_inv.
Qed.

(* 2: nothing is lost *)
Theorem typ_and_mod_concat t : let '(typ, md) := typ_and_mod t in md ++ typ = t.
Proof.
  destruct (typ_and_mod_spec t) as [[_ E]|(a & c & b & -> & _ & _ & E)]; rewrite E.
  - reflexivity.
  - now rewrite sapp_assoc.
Qed.

(* 3: the type part carries no modifier *)
Theorem typ_and_mod_no_mod t :
  let '(typ, md) := typ_and_mod t in
  forall c, is_mod_char c = true -> contains_char c typ = false.
Proof.
  destruct (typ_and_mod_spec t) as [[H E]|(a & c & b & -> & _ & H & E)]; rewrite E;
    intros d Hd; eapply exists_p_false_contains; eassumption.
Qed.

(* ------------------------------------------------------------------------------------- *)
(* D. typBeforeBracket *)

Fixpoint before (c : ascii) (s : string) : string :=
  match s with
  | EmptyString => EmptyString
  | String d r => if ascii_eqb c d then EmptyString else String d (before c r)
  end.

Lemma index_char_aux_before c s i :
  match index_char_aux c s i with
  | Some p => exists k, p = i + k /\ take k s = before c s
  | None => before c s = s
  end.
Proof.
  revert i. induction s as [|d r IH]; intros i; cbn; [reflexivity|].
  destruct (ascii_eqb c d).
  - exists 0. split; [lia|reflexivity].
  - specialize (IH (S i)). destruct (index_char_aux c r (S i)) as [p|].
    + destruct IH as (k & -> & Hk). exists (S k). split; [lia|]. cbn. now rewrite Hk.
    + now rewrite IH.
Qed.

Lemma typ_before_bracket_before s : typ_before_bracket s = before "("%char s.
Proof.
  unfold typ_before_bracket, index_char. pose proof (index_char_aux_before "("%char s 0) as H.
  destruct (index_char_aux "(" s 0) as [p|].
  - destruct H as (k & -> & Hk). exact Hk.
  - now rewrite H.
Qed.

Lemma before_absent c s : contains_char c s = false -> before c s = s.
Proof.
  induction s as [|d r IH]; cbn; [reflexivity|]. intros H.
  apply orb_false_iff in H. destruct H as [Hd Hr]. now rewrite Hd, IH.
Qed.

Lemma before_app c a b : contains_char c a = false -> before c (a ++ b) = a ++ before c b.
Proof.
  induction a as [|d a IH]; cbn; [reflexivity|]. intros H.
  apply orb_false_iff in H. destruct H as [Hd Ha]. now rewrite Hd, IH.
Qed.

Lemma before_app_present c a b : contains_char c a = true -> before c (a ++ b) = before c a.
Proof.
  induction a as [|d a IH]; cbn [contains_char before append]; [discriminate|].
  destruct (ascii_eqb c d); [reflexivity|]. cbn [orb]. intros H. now rewrite IH.
Qed.

Lemma contains_before_app x c a b :
  contains_char x (before c a) = true -> contains_char x (before c (a ++ b)) = true.
Proof.
  induction a as [|d a IH]; cbn [contains_char before append]; [discriminate|].
  destruct (ascii_eqb c d); cbn [contains_char]; [discriminate|].
  intros H. apply orb_true_iff in H. destruct H as [H|H].
  - now rewrite H.
  - rewrite IH by exact H. apply orb_true_r.
Qed.

Lemma typ_before_bracket_absent s : contains_char "("%char s = false -> typ_before_bracket s = s.
Proof. intros H. rewrite typ_before_bracket_before. now apply before_absent. Qed.

(* ------------------------------------------------------------------------------------- *)
(* E. appendQual on path.name *)

Lemma mem_str_false x l : ~ In x l -> mem_str x l = false.
Proof.
  intros H. destruct (mem_str x l) eqn:E; [|reflexivity]. apply mem_str_In in E. contradiction.
Qed.

Lemma take_path q n : take (String.length q) (q ++ "." ++ n) = q.
Proof. apply take_app_length. Qed.

Lemma drop_path q n : drop (S (String.length q)) (q ++ "." ++ n) = n.
Proof.
  replace (S (String.length q)) with (String.length (q ++ ".")) by (rewrite slength_app; cbn; lia).
  replace (q ++ "." ++ n) with ((q ++ ".") ++ n) by now rewrite sapp_assoc.
  apply drop_app_length.
Qed.

Lemma last_dot q n :
  contains_char "("%char q = false -> contains_char "("%char n = false ->
  contains_char "."%char n = false ->
  last_index_char "."%char (typ_before_bracket (q ++ "." ++ n)) = Some (String.length q).
Proof.
  intros Hq Hn Hd. rewrite typ_before_bracket_absent.
  - cbn [append]. now apply last_index_char_split.
  - rewrite contains_char_app. cbn. now rewrite Hq, Hn.
Qed.

Lemma append_qual_fresh c st q n md :
  contains_char "("%char q = false -> contains_char "("%char n = false ->
  contains_char "."%char n = false -> ~ In q st ->
  append_qual c st (q ++ "." ++ n) md =
  Ok (md ++ qualifier_of c q ++ "." ++ n, qualifier_of c q :: st).
Proof.
  intros Hq Hn Hd Hin. unfold append_qual. rewrite last_dot by assumption.
  rewrite take_path, drop_path, mem_str_false by assumption. reflexivity.
Qed.

Lemma append_qual_cached c st q n md :
  contains_char "("%char q = false -> contains_char "("%char n = false ->
  contains_char "."%char n = false -> In q st ->
  append_qual c st (q ++ "." ++ n) md = Ok (md ++ q ++ "." ++ n, st).
Proof.
  intros Hq Hn Hd Hin. unfold append_qual. rewrite last_dot by assumption.
  rewrite take_path, drop_path. apply mem_str_In in Hin. now rewrite Hin.
Qed.

(* a qualified name: its type part, and the dot in it *)
Lemma qualified_split m q n :
  mod_prefix m = true -> pkg_path q = true -> plain_name n = true ->
  typ_and_mod (m ++ q ++ "." ++ n) = (q ++ "." ++ n, m) /\
  typ_before_bracket (q ++ "." ++ n) = q ++ "." ++ n /\
  contains_char "."%char (q ++ "." ++ n) = true.
Proof.
  intros Hm Hq Hn. destruct (pkg_path_inv q Hq) as [Hq1 Hq2].
  destruct (plain_name_inv n Hn) as (Hn1 & Hn2 & Hn3). repeat split.
  - apply typ_and_mod_split_gen; [exact Hm|]. rewrite exists_p_app. cbn. now rewrite Hq1, Hn1.
  - apply typ_before_bracket_absent. rewrite contains_char_app. cbn. now rewrite Hq2, Hn3.
  - rewrite contains_char_app. cbn. apply orb_true_r.
Qed.

(* ------------------------------------------------------------------------------------- *)
(* F. PrependPackageNameIfMissing *)

(* 4: no package, no change *)
Theorem prepend_same_package c st t : prepend_package c st t "" = Ok (t, st).
Proof.
  unfold prepend_package. destruct (typ_and_mod t) as [typ md]. cbn [String.eqb].
  now rewrite orb_true_r.
Qed.

(* 5: builtin types are left alone *)
Theorem prepend_builtin c st m n pkg :
  mod_prefix m = true -> plain_name n = true -> is_builtin_type n = true ->
  prepend_package c st (m ++ n) pkg = Ok (m ++ n, st).
Proof.
  intros Hm Hn Hb. unfold prepend_package. rewrite typ_and_mod_split by assumption.
  now rewrite Hb, orb_true_r.
Qed.

Lemma prepend_reaches_append_qual c st m n pkg :
  mod_prefix m = true -> plain_name n = true -> is_builtin_type n = false -> pkg <> "" ->
  prepend_package c st (m ++ n) pkg = append_qual c st (pkg ++ "." ++ n) m.
Proof.
  intros Hm Hn Hb Hp. unfold prepend_package. rewrite typ_and_mod_split by assumption.
  destruct (plain_name_inv n Hn) as (Hn1 & Hn2 & Hn3).
  rewrite typ_before_bracket_absent, Hn2, Hb by assumption.
  apply String.eqb_neq in Hp. now rewrite Hp.
Qed.

(* 6: an unqualified, non-builtin name gets the qualifier of the package *)
Theorem prepend_qualifies c st m n pkg :
  mod_prefix m = true -> plain_name n = true -> is_builtin_type n = false -> pkg <> "" ->
  pkg_path pkg = true -> ~ In pkg st ->
  prepend_package c st (m ++ n) pkg =
  Ok (m ++ qualifier_of c pkg ++ "." ++ n, qualifier_of c pkg :: st).
Proof.
  intros Hm Hn Hb Hp Hq Hin. rewrite prepend_reaches_append_qual by assumption.
  destruct (plain_name_inv n Hn) as (Hn1 & Hn2 & Hn3). destruct (pkg_path_inv pkg Hq) as [_ Hq2].
  now apply append_qual_fresh.
Qed.

(* 7: a path found among the qualifiers is used as it stands *)
Theorem prepend_qualifies_cached c st m n pkg :
  mod_prefix m = true -> plain_name n = true -> is_builtin_type n = false -> pkg <> "" ->
  pkg_path pkg = true -> In pkg st ->
  prepend_package c st (m ++ n) pkg = Ok (m ++ pkg ++ "." ++ n, st).
Proof.
  intros Hm Hn Hb Hp Hq Hin. rewrite prepend_reaches_append_qual by assumption.
  destruct (plain_name_inv n Hn) as (Hn1 & Hn2 & Hn3). destruct (pkg_path_inv pkg Hq) as [_ Hq2].
  now apply append_qual_cached.
Qed.

(* 8: a qualified name is left alone *)
Theorem prepend_already_qualified c st m q n pkg :
  mod_prefix m = true -> pkg_path q = true -> plain_name n = true ->
  prepend_package c st (m ++ q ++ "." ++ n) pkg = Ok (m ++ q ++ "." ++ n, st).
Proof.
  intros Hm Hq Hn. destruct (qualified_split m q n Hm Hq Hn) as (E1 & E2 & E3).
  unfold prepend_package. rewrite E1, E2, E3. reflexivity.
Qed.

(* ------------------------------------------------------------------------------------- *)
(* G. WithType, WithPackage *)

(* 9 *)
Theorem with_type_unqualified c st m n :
  mod_prefix m = true -> plain_name n = true -> with_type c st (m ++ n) = Ok (m ++ n, st).
Proof.
  intros Hm Hn. unfold with_type. rewrite typ_and_mod_split by assumption.
  destruct (plain_name_inv n Hn) as (Hn1 & Hn2 & Hn3).
  now rewrite typ_before_bracket_absent, Hn2 by assumption.
Qed.

(* 10 *)
Theorem with_type_qualifies c st m q n :
  mod_prefix m = true -> pkg_path q = true -> plain_name n = true -> ~ In q st ->
  with_type c st (m ++ q ++ "." ++ n) =
  Ok (m ++ qualifier_of c q ++ "." ++ n, qualifier_of c q :: st).
Proof.
  intros Hm Hq Hn Hin. destruct (qualified_split m q n Hm Hq Hn) as (E1 & E2 & E3).
  unfold with_type. rewrite E1, E2, E3. cbn [negb].
  destruct (plain_name_inv n Hn) as (Hn1 & Hn2 & Hn3). destruct (pkg_path_inv q Hq) as [_ Hq2].
  now apply append_qual_fresh.
Qed.

(* the cached counterpart of 10 *)
Theorem with_type_cached c st m q n :
  mod_prefix m = true -> pkg_path q = true -> plain_name n = true -> In q st ->
  with_type c st (m ++ q ++ "." ++ n) = Ok (m ++ q ++ "." ++ n, st).
Proof.
  intros Hm Hq Hn Hin. destruct (qualified_split m q n Hm Hq Hn) as (E1 & E2 & E3).
  unfold with_type. rewrite E1, E2, E3. cbn [negb].
  destruct (plain_name_inv n Hn) as (Hn1 & Hn2 & Hn3). destruct (pkg_path_inv q Hq) as [_ Hq2].
  now apply append_qual_cached.
Qed.

(* 11 *)
Theorem with_package_qualifies c st q n :
  pkg_path q = true -> plain_name n = true -> ~ In q st ->
  with_package c st q n = Ok (qualifier_of c q ++ "." ++ n, qualifier_of c q :: st).
Proof.
  intros Hq Hn Hin. unfold with_package.
  exact (with_type_qualifies c st "" q n eq_refl Hq Hn Hin).
Qed.

(* ------------------------------------------------------------------------------------- *)
(* H. cleanPackageName *)

Lemma bad_to_underscore_ident c : is_ident_char (bad_to_underscore c) = true.
Proof. unfold bad_to_underscore. destruct (is_ident_char c) eqn:E; [exact E|reflexivity]. Qed.

Lemma map_bad_chars s c :
  contains_char c (map_str bad_to_underscore s) = true -> is_ident_char c = true.
Proof.
  induction s as [|d r IH]; cbn; [discriminate|]. intros H.
  apply orb_true_iff in H. destruct H as [H|H]; [|auto].
  apply ascii_eqb_eq in H. subst c. apply bad_to_underscore_ident.
Qed.

Lemma map_bad_fixed s :
  (forall c, contains_char c s = true -> is_ident_char c = true) -> map_str bad_to_underscore s = s.
Proof.
  induction s as [|d r IH]; intros H; cbn; [reflexivity|].
  rewrite IH.
  - unfold bad_to_underscore. rewrite (H d); [reflexivity|]. cbn.
    unfold ascii_eqb. now rewrite Ascii.eqb_refl.
  - intros c Hc. apply H. cbn. now rewrite Hc, orb_true_r.
Qed.

Lemma underscore_prefix_chars s c :
  (forall d, contains_char d s = true -> is_ident_char d = true) ->
  contains_char c ("_" ++ s) = true -> is_ident_char c = true.
Proof.
  intros H Hc. cbn in Hc. apply orb_true_iff in Hc. destruct Hc as [Hc|Hc]; [|auto].
  apply ascii_eqb_eq in Hc. subst c. reflexivity.
Qed.

(* the characters of a cleaned name *)
Lemma clean_package_name_chars s c :
  contains_char c (clean_package_name s) = true -> is_ident_char c = true.
Proof.
  unfold clean_package_name.
  set (n := map_str bad_to_underscore s).
  assert (Hn : forall d, contains_char d n = true -> is_ident_char d = true)
    by (intros d; apply map_bad_chars).
  set (n2 := if mem_str n go_keywords then "_" ++ n else n).
  assert (Hn2 : forall d, contains_char d n2 = true -> is_ident_char d = true).
  { subst n2. destruct (mem_str n go_keywords); [|exact Hn]. intros d. now apply underscore_prefix_chars. }
  destruct (first_char n2) as [d|]; [|apply Hn2].
  destruct (is_digit d); [|apply Hn2]. now apply underscore_prefix_chars.
Qed.

Lemma map_str_nonempty f s : s <> "" -> map_str f s <> "".
Proof. destruct s; [congruence|discriminate]. Qed.

(* 12a: a Go identifier *)
Theorem clean_package_name_ident s : s <> "" -> is_ident (clean_package_name s).
Proof.
  intros Hs. split; [|split].
  - unfold clean_package_name. pose proof (map_str_nonempty bad_to_underscore s Hs) as Hn.
    destruct (mem_str (map_str bad_to_underscore s) go_keywords).
    + cbn. discriminate.
    + destruct (map_str bad_to_underscore s) as [|d r]; [congruence|]. cbn.
      destruct (is_digit d); discriminate.
  - intros c. apply clean_package_name_chars.
  - unfold clean_package_name.
    destruct (mem_str (map_str bad_to_underscore s) go_keywords).
    + reflexivity.
    + destruct (map_str bad_to_underscore s) as [|d r]; [exact I|]. cbn.
      destruct (is_digit d) eqn:E; [reflexivity|exact E].
Qed.

Lemma underscore_not_keyword s : In ("_" ++ s) go_keywords -> False.
Proof.
  intros H. cbn in H.
  repeat (destruct H as [H|H]; [discriminate H|]). exact H.
Qed.

(* 12b: never a keyword *)
Theorem clean_package_name_not_keyword s : In (clean_package_name s) go_keywords -> False.
Proof.
  unfold clean_package_name. set (n := map_str bad_to_underscore s).
  destruct (mem_str n go_keywords) eqn:Ek.
  - cbn [first_char append]. change (is_digit "_") with false. cbv iota.
    apply (underscore_not_keyword n).
  - destruct (first_char n) as [d|].
    + destruct (is_digit d); [apply underscore_not_keyword|].
      intros H. apply mem_str_In in H. congruence.
    + intros H. apply mem_str_In in H. congruence.
Qed.

(* 13a: identifiers that are not keywords are fixed points *)
Theorem clean_package_name_fixed s : is_ident s -> ~ In s go_keywords -> clean_package_name s = s.
Proof.
  intros (Hne & Hch & Hfst) Hk. unfold clean_package_name.
  rewrite map_bad_fixed by exact Hch. rewrite mem_str_false by exact Hk.
  destruct (first_char s) as [d|]; [|reflexivity]. now rewrite Hfst.
Qed.

(* 13b *)
Theorem clean_package_name_idem s :
  s <> "" -> clean_package_name (clean_package_name s) = clean_package_name s.
Proof.
  intros Hs. apply clean_package_name_fixed.
  - now apply clean_package_name_ident.
  - intros H. exact (clean_package_name_not_keyword s H).
Qed.

(* idempotence holds for the empty string too (it is cleaned to itself) *)
Theorem clean_package_name_idem_all s :
  clean_package_name (clean_package_name s) = clean_package_name s.
Proof. destruct s as [|d r]; [reflexivity|]. apply clean_package_name_idem. discriminate. Qed.

(* a cleaned name, whatever it was made from, can stand where a package path is expected *)
Lemma clean_package_name_pkg_path s : pkg_path (clean_package_name s) = true.
Proof.
  assert (H : forall c, is_ident_char c = false -> contains_char c (clean_package_name s) = false).
  { intros c Hc. destruct (contains_char c (clean_package_name s)) eqn:E; [|reflexivity].
    apply clean_package_name_chars in E. congruence. }
  unfold pkg_path. rewrite !H by reflexivity. reflexivity.
Qed.

Lemma qualifier_of_pkg_path c p : pkg_path (qualifier_of c p) = true.
Proof. apply clean_package_name_pkg_path. Qed.

(* ------------------------------------------------------------------------------------- *)
(* I. idempotence, no panic, state *)

(* 14: what 6 produced is left alone by a second application, in any state. (Only the
   hypotheses on m and n are used: the qualifier is a cleaned name whatever the path was.) *)
Theorem prepend_idempotent c st st2 m n pkg :
  mod_prefix m = true -> plain_name n = true -> is_builtin_type n = false -> pkg <> "" ->
  pkg_path pkg = true -> ~ In pkg st ->
  prepend_package c st2 (m ++ qualifier_of c pkg ++ "." ++ n) pkg =
    Ok (m ++ qualifier_of c pkg ++ "." ++ n, st2).
Proof.
  intros Hm Hn _ _ _ _. apply prepend_already_qualified; auto using qualifier_of_pkg_path.
Qed.

(* the two applications in sequence, the second in the state the first one left *)
Corollary prepend_twice c st m n pkg s1 st1 :
  mod_prefix m = true -> plain_name n = true -> is_builtin_type n = false -> pkg <> "" ->
  pkg_path pkg = true -> ~ In pkg st ->
  prepend_package c st (m ++ n) pkg = Ok (s1, st1) ->
  s1 = m ++ qualifier_of c pkg ++ "." ++ n /\ prepend_package c st1 s1 pkg = Ok (s1, st1).
Proof.
  intros Hm Hn Hb Hp Hq Hin H. rewrite prepend_qualifies in H by assumption.
  injection H as <- <-. split; [reflexivity|]. now apply (prepend_idempotent c st).
Qed.

(* appendQual does not panic when a dot is in sight *)
Lemma append_qual_ok c st typ md :
  contains_char "."%char (typ_before_bracket typ) = true -> exists r, append_qual c st typ md = Ok r.
Proof.
  intros H. unfold append_qual. destruct (last_index_char_some _ _ H) as [pos ->].
  destruct (mem_str (take pos typ) st); eauto.
Qed.

(* 15a. The unconditional statement is false: an opening bracket in the package path hides the dot
   that was just inserted, and Go slices with -1. *)
Example prepend_panics :
  prepend_package {| ic_overrides := [] |} [] "T" "a(b" = Panic.
Proof. vm_compute. reflexivity. Qed.

Theorem no_panic_prepend c st t pkg :
  contains_char "("%char pkg = false -> exists r, prepend_package c st t pkg = Ok r.
Proof.
  intros Hp. unfold prepend_package. destruct (typ_and_mod t) as [typ md].
  destruct (contains_char "." (typ_before_bracket typ) || (pkg =? "") || is_builtin_type typ);
    [eauto|].
  apply append_qual_ok. rewrite typ_before_bracket_before, before_app by exact Hp.
  rewrite contains_char_app. cbn. apply orb_true_r.
Qed.

Corollary no_panic_prepend_pkg_path c st t pkg :
  pkg_path pkg = true -> exists r, prepend_package c st t pkg = Ok r.
Proof. intros Hp. apply no_panic_prepend. now apply pkg_path_inv. Qed.

(* the converse: with an opening bracket in the path, every string that reaches appendQual panics *)
Theorem prepend_panics_iff c st t pkg :
  prepend_package c st t pkg = Panic <->
  contains_char "("%char pkg = true /\
  contains_char "."%char (before "("%char pkg) = false /\ pkg <> "" /\
  is_builtin_type (fst (typ_and_mod t)) = false /\
  contains_char "."%char (typ_before_bracket (fst (typ_and_mod t))) = false.
Proof.
  split.
  - intros H. destruct (contains_char "(" pkg) eqn:Ep.
    2:{ destruct (no_panic_prepend c st t pkg Ep) as [r Hr]. congruence. }
    unfold prepend_package in H. destruct (typ_and_mod t) as [typ md]. cbn [fst].
    destruct (contains_char "." (typ_before_bracket typ)); [discriminate|].
    destruct (pkg =? "") eqn:Ee; [discriminate|]. destruct (is_builtin_type typ); [discriminate|].
    cbn [orb] in H. apply String.eqb_neq in Ee. repeat split; auto.
    destruct (contains_char "." (before "(" pkg)) eqn:Ed; [|reflexivity]. exfalso.
    assert (Hd : contains_char "." (typ_before_bracket (pkg ++ "." ++ typ)) = true).
    { rewrite typ_before_bracket_before. now apply contains_before_app. }
    destruct (append_qual_ok c st _ md Hd) as [r Hr]. congruence.
  - intros (Hp & Hd & Hne & Hb & Ht). unfold prepend_package.
    destruct (typ_and_mod t) as [typ md]. cbn [fst] in *.
    apply String.eqb_neq in Hne. rewrite Ht, Hne, Hb. cbn [orb].
    unfold append_qual.
    rewrite typ_before_bracket_before, before_app_present by exact Hp.
    rewrite last_index_char_p, last_index_p_none; [reflexivity|].
    now rewrite exists_p_eqb.
Qed.

(* 15b: WithType tests for the dot before it slices *)
Theorem no_panic_with_type c st t : exists r, with_type c st t = Ok r.
Proof.
  unfold with_type. destruct (typ_and_mod t) as [typ md].
  destruct (contains_char "." (typ_before_bracket typ)) eqn:E; cbn [negb]; [|eauto].
  now apply append_qual_ok.
Qed.

Theorem no_panic_with_package c st pkg typ : exists r, with_package c st pkg typ = Ok r.
Proof. apply no_panic_with_type. Qed.

(* 16: without an override and with a path that is already clean, the text does not depend on
   what was qualified before *)
Theorem state_irrelevant_clean c st st' m n pkg :
  mod_prefix m = true -> plain_name n = true -> is_builtin_type n = false -> pkg <> "" ->
  pkg_path pkg = true ->
  lookup pkg (ic_overrides c) = None -> clean_package_name pkg = pkg ->
  exists s, (exists st1, prepend_package c st (m ++ n) pkg = Ok (s, st1)) /\
            (exists st2, prepend_package c st' (m ++ n) pkg = Ok (s, st2)).
Proof.
  intros Hm Hn Hb Hp Hq Hl Hc.
  assert (Q : qualifier_of c pkg = pkg) by (unfold qualifier_of; now rewrite Hl).
  assert (G : forall st0, exists st1,
             prepend_package c st0 (m ++ n) pkg = Ok (m ++ pkg ++ "." ++ n, st1)).
  { intros st0. destruct (in_dec string_dec pkg st0) as [Hin|Hin].
    - rewrite prepend_qualifies_cached by assumption. eauto.
    - rewrite prepend_qualifies, Q by assumption. eauto. }
  exists (m ++ pkg ++ "." ++ n). split; apply G.
Qed.

(* the hypotheses on the override and on the path are needed: the text does depend on the state
   when the qualifier differs from the path (the qualifiers are stored, the paths are looked up) *)
Example state_relevant_otherwise :
  let c := {| ic_overrides := [] |} in
  prepend_package c [] "T" "a/b" = Ok ("a_b.T", ["a_b"]) /\
  prepend_package c ["a/b"] "T" "a/b" = Ok ("a/b.T", ["a/b"]).
Proof. vm_compute. split; reflexivity. Qed.

(* ------------------------------------------------------------------------------------- *)
(* J. the statements are not vacuous *)

Definition cfg_ex : icfg := {| ic_overrides := [("types", "github.com/x/api/types")] |}.

Example ex_prepend_override :
  prepend_package cfg_ex [] "[]*Server" "types" =
  Ok ("[]*github_com_x_api_types.Server", ["github_com_x_api_types"]).
Proof. vm_compute. reflexivity. Qed.

(* ... and it is the instance m = "[]*", n = "Server" of 6 *)
Example ex_prepend_override_by_theorem :
  prepend_package cfg_ex [] ("[]*" ++ "Server") "types" =
  Ok ("[]*" ++ qualifier_of cfg_ex "types" ++ "." ++ "Server", [qualifier_of cfg_ex "types"]).
Proof.
  apply prepend_qualifies; try reflexivity; [discriminate|]. intros H. exact H.
Qed.

Example ex_prepend_builtin :
  prepend_package cfg_ex [] "[]byte" "types" = Ok ("[]byte", []).
Proof. vm_compute. reflexivity. Qed.

Example ex_prepend_builtin_by_theorem :
  prepend_package cfg_ex [] ("[]" ++ "byte") "types" = Ok ("[]" ++ "byte", []).
Proof. apply prepend_builtin; reflexivity. Qed.

Example ex_prepend_map :
  prepend_package cfg_ex [] "map[string]*Foo" "types" =
  Ok ("map[string]*github_com_x_api_types.Foo", ["github_com_x_api_types"]).
Proof. vm_compute. reflexivity. Qed.

Example ex_prepend_map_cached :
  prepend_package cfg_ex ["types"] "map[string]*Foo" "types" = Ok ("map[string]*types.Foo", ["types"]).
Proof. vm_compute. reflexivity. Qed.

Example ex_prepend_twice :
  prepend_package cfg_ex [] "[]*github_com_x_api_types.Server" "types" =
  Ok ("[]*github_com_x_api_types.Server", []).
Proof. vm_compute. reflexivity. Qed.

Example ex_with_package :
  with_package cfg_ex [] "github.com/hashicorp/terraform-plugin-framework/types" "Int64" =
  Ok ("github_com_hashicorp_terraform_plugin_framework_types.Int64",
      ["github_com_hashicorp_terraform_plugin_framework_types"]).
Proof. vm_compute. reflexivity. Qed.

Example ex_with_type :
  with_type cfg_ex [] "[]*github.com/x/y.Foo" = Ok ("[]*github_com_x_y.Foo", ["github_com_x_y"]).
Proof. vm_compute. reflexivity. Qed.

Example ex_typ_and_mod : typ_and_mod "map[string]*a.b.Foo" = ("a.b.Foo", "map[string]*").
Proof. vm_compute. reflexivity. Qed.

Example ex_predicates :
  mod_prefix "map[string]*" = true /\ mod_prefix "" = true /\ mod_prefix "map" = false /\
  plain_name "Server" = true /\ plain_name "a.Server" = false /\
  pkg_path "github.com/x/api/types" = true /\ pkg_path "a(b" = false.
Proof. vm_compute. repeat split; reflexivity. Qed.

Example ex_clean :
  clean_package_name "go" = "_go" /\ clean_package_name "9a.b" = "_9a_b" /\
  clean_package_name "github.com/x/api/types" = "github_com_x_api_types" /\
  clean_package_name "" = "".
Proof. vm_compute. repeat split; reflexivity. Qed.

Print Assumptions typ_and_mod_split.
Print Assumptions prepend_qualifies.
Print Assumptions with_type_qualifies.
Print Assumptions clean_package_name_ident.
Print Assumptions clean_package_name_not_keyword.
Print Assumptions clean_package_name_idem.
Print Assumptions prepend_idempotent.
Print Assumptions no_panic_prepend.
Print Assumptions prepend_panics_iff.
Print Assumptions no_panic_with_type.
Print Assumptions state_irrelevant_clean.
